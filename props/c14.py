"""C14 - references resolve lexically; inlining a reference never changes behaviour.

spec/Scopes.tla (link state machine, Resolve, Inline, Unser), ScopesMC.tla (universe of scope trees,
exhaustive over application sequences), ScopesTrace.tla (recorded runs of a seeded random driver on
bigger trees); harness/cmd/scopes.
"""
import os, json, random, re
from vlib import common

SPECS = ["ScopesMC", "ScopesTrace"]
PKGS = ["./cmd/scopes"]

STATEMENT = ("Inside scopes a reference always denotes the object with that ID in the nearest enclosing scope for "
             "its namespace - inner scopes shadow outer ones, and applying one namespace leaves references to other "
             "namespaces untouched - so replacing references by the objects they denote never changes which inputs "
             "are accepted or what they unserialize to. ValidateReferences succeeds exactly when every reference is "
             "linked, and self-referential object graphs work on all finite inputs.")

TRACE_BATCH = 1500
JUDGED_DEPTH = 10000      # deeper chains only note drift (stack size is a resource limit, not the property)


def _obj(x):
    """TLC prints an empty function as []"""
    return {} if isinstance(x, list) and not x else x


def group(lines, ctx):
    """one case per tree: TLC emits per state / per tree / per raw lines keyed by tid"""
    cases = {}
    order = []
    nstate = 0
    for v in lines:
        key = json.dumps(v["tid"], sort_keys=True)
        c = cases.get(key)
        if c is None:
            c = cases[key] = dict(op="tree", tid=v["tid"], states=[], canon=None, _raws=[])
            order.append(key)
        if "hist" in v:
            nstate += 1
            c["states"].append(dict(hist=v["hist"], link=_obj(v["link"]), vr=_obj(v["vr"]),
                                    next=[dict(act=n["act"], diff=_obj(n["diff"]), vr=_obj(n["vr"])) for n in v["next"]]))
        elif "tree" in v:
            c["tree"], c["ext"] = v["tree"], v["ext"]
        elif "nraws" in v:
            c["canon"] = dict(nstab=_obj(v["nstab"]), k=v["k"], inl=v["inl"], nraws=v["nraws"],
                              clink=_obj(v["clink"]), rb=_obj(v["rb"]), rbvr=v["rbvr"])
        elif "raw" in v:
            c["_raws"].append(dict(raw=v["raw"], exp=v["exp"]))
        else:
            raise common.Infra("unexpected vector line: %s" % json.dumps(v)[:200])
    out = []
    for key in order:
        c = cases[key]
        raws = c.pop("_raws")
        if "tree" not in c:
            raise common.Infra("no tree line for %s" % key)
        if c["canon"] is not None:
            if c["canon"].pop("nraws") != len(raws):
                raise common.Infra("raw lines lost for %s" % key)
            raws.sort(key=lambda r: json.dumps(r, sort_keys=True))
            c["canon"]["raws"] = raws
        elif raws:
            raise common.Infra("raw lines without canonical state for %s" % key)
        out.append(c)
    return out, nstate


def run_driver(ctx, cases, name, timeout=2400):
    drv = ctx.gobuild("./cmd/scopes")
    inp = os.path.join(ctx.tmp, "%s-cases-%d.ndjson" % (name, len(ctx.tlc_runs)))
    out = os.path.join(ctx.tmp, "%s-res-%d.ndjson" % (name, len(ctx.tlc_runs)))
    common.write_ndjson(inp, cases)
    ctx.run([drv, "-in", inp, "-out", out, "-j", str(min(14, common.NCPU)), "-case-timeout", "120s"], timeout=timeout)
    results = common.read_ndjson(out)
    os.remove(inp)
    os.remove(out)
    if len(results) != len(cases):
        raise common.Infra("driver returned %d results for %d cases" % (len(results), len(cases)))
    return results


def crash_raw(detail):
    """the input in flight when the child died (marker lines the driver prints to stderr)"""
    last = None
    for line in (detail or "").splitlines():
        if line.startswith("C14-AT "):
            last = line[len("C14-AT "):].strip()
        if line.startswith("fatal error") or line.startswith("goroutine "):
            break
    return last


def harness_frame_first(detail):
    """the innermost non-runtime frame of the dying goroutine is harness code, not the SDK"""
    seen_g = False
    for line in (detail or "").splitlines():
        if line.startswith("goroutine "):
            seen_g = True
            continue
        if not seen_g or line.startswith("\t") or line.startswith(" "):
            continue
        if line.startswith("go.flow.arcalot.io/pluginsdk/"):
            return False
        if line.startswith("main."):
            return True
    return False


def crash_sig(res):
    """(class, frame) of a dead child; for a stack overflow the frame on top is an arbitrary member of the
    recursion cycle, so the signature names the cycle's alphabetically first SDK function instead"""
    detail = res.get("detail", "") or ""
    if "stack overflow" in detail:
        funcs = []
        for line in detail.splitlines():
            if line.startswith("go.flow.arcalot.io/pluginsdk/") and line.rstrip().endswith(")"):
                f = line[len("go.flow.arcalot.io/pluginsdk/"):]
                f = re.sub(r"\[.*\]", "", f[:f.rfind("(")])
                funcs.append(f)
            if len(funcs) >= 24:
                break
        return "crash_stack_overflow", (sorted(set(funcs))[0] if funcs else "")
    return "crash_" + res["crash"], res.get("frame", "")


def small(case):
    """the replayable core of a case (without the bulk of states that are not needed)"""
    return case


def consume(ctx, cases, results, stats, name):
    """returns (trace lines, cases to re-run without the crashing input)"""
    trace, again = [], []
    for case, res in zip(cases, results):
        if res.get("crash"):
            if not res.get("reproduced"):
                raw = crash_raw(res.get("detail", ""))
                if raw and not raw.startswith("#") and "stack overflow" in (res.get("detail") or "") \
                        and not case.get("skip_loops"):
                    # the input in flight is one the driver had put off as possibly non-terminating, and it has
                    # several faults: whether the SDK meets the rejecting property or the endless one first
                    # depends on Go's map iteration order. Not reproducible on demand, hence no verdict.
                    stats["order_dependent_crashes"] = stats.get("order_dependent_crashes", 0) + 1
                    ctx.note_drift("fatal recursion that depends on map iteration order (not reproduced twice)",
                                   dict(input=raw[:300]))
                    again.append(dict(case, skip_loops=True))
                    continue
                raise common.Infra("unreproduced worker %s on case %s" % (res["crash"], json.dumps(case)[:300]))
            if harness_frame_first(res.get("detail", "")):
                raise common.Infra("the driver itself died (%s) on case %s:\n%s" % (res["crash"], json.dumps(case)[:300],
                                                                                   res.get("detail", "")[:1500]))
            raw = crash_raw(res.get("detail", ""))
            deep = None
            if raw and raw.startswith("deep:"):
                deep = int(raw[5:])
            if deep is not None and deep > JUDGED_DEPTH:
                ctx.note_drift("crash on a chain %d objects deep (beyond the judged depth %d)" % (deep, JUDGED_DEPTH),
                               dict(frame=res.get("frame", "")))
            elif raw is None:
                # died outside input evaluation: applying namespaces never recurses through links
                cls, frame = crash_sig(res)
                ctx.violation(dict(op="apply", **{"class": cls}, frame=frame),
                              dict(case=small(case), crash=res["crash"], detail=res.get("detail", "")[:3000]))
                continue
            else:
                stats["crash_inputs"] = stats.get("crash_inputs", 0) + 1
                cls, frame = crash_sig(res)
                ctx.violation(dict(op="unserialize", **{"class": cls}, frame=frame),
                              dict(case=small(case), crash=res["crash"], input=raw,
                                   note="a finite input on a self-referential object graph kills the process",
                                   detail=res.get("detail", "")[:2500]))
            if raw is not None and not case.get("skip_loops"):
                # once more without the inputs that can recurse forever: the rest of the case still counts
                again.append(dict(case, skip_loops=True))
            continue
        r = res["res"]
        if r.get("harness_error") or r.get("harness_panic"):
            raise common.Infra("harness failure on %s: %s" % (json.dumps(case)[:200], r))
        if r.get("bind_error"):
            raise common.Infra("binding out of date: " + r["bind_error"])
        ctx.evaluations += r.get("evals", 0)
        stats["steps"] = stats.get("steps", 0) + r.get("steps", 0)
        stats["inputs"] = stats.get("inputs", 0) + r.get("inputs", 0)
        stats["deepest"] = max(stats.get("deepest", 0), r.get("deepest", 0))
        stats["loop_inputs"] = stats.get("loop_inputs", 0) + r.get("loops", 0)
        stats["shorthand_spellings"] = stats.get("shorthand_spellings", 0) + r.get("spelled", 0)
        for k in r.get("keys", []):
            ctx.distinct.add("rand/" + k)
        for m in r.get("mismatches", []):
            sig = m["sig"]
            if m.get("drift"):
                ctx.note_drift("%s/%s" % (sig.get("op"), sig.get("class")), m["detail"])
                continue
            ctx.violation(sig, dict(case=small(case), detail=m["detail"], statement=STATEMENT))
        trace.append(r.get("trace", []))
    return trace, again


def tree_key(c):
    t = c["tid"]
    return "%s/%s" % (t["shape"], "+".join("%s.%s:%s>%s/%s%s%s" % (p["hs"], p["ho"], p["w"], p["ns"], p["id"], "!" if p["req"] else "",
                                                                     ("~" + p["dis"]) if p.get("dis") else "")
                                              for p in t["P"] if p["w"] != "none"))


def run_cases(ctx, cases, stats, name):
    """runs the cases (shuffled: the expensive fatal ones spread over the shards); a case whose process died
    on an input is run once more without the inputs that can recurse forever. Returns the traces."""
    cases = list(cases)
    random.Random(ctx.seed).shuffle(cases)
    results = run_driver(ctx, cases, name)
    traces, again = consume(ctx, cases, results, stats, name)
    if again:
        results = run_driver(ctx, again, name + "-again")
        t2, _ = consume(ctx, again, results, stats, name)
        traces += t2
    return traces


def validate_traces(ctx, runs, stats):
    """runs: list of traces (each starting with its build line); batches never split a run"""
    batch, batches = [], []
    for tr in runs:
        if not tr:
            continue
        if batch and len(batch) + len(tr) > TRACE_BATCH:
            batches.append(batch)
            batch = []
        batch = batch + tr
    if batch:
        batches.append(batch)
    for bi, lines in enumerate(batches):
        tpath = os.path.join(ctx.tmp, "scopes-trace-%d.ndjson" % bi)
        common.write_ndjson(tpath, lines)
        tr = ctx.tlc("ScopesTrace", "scopes_trace.cfg", workers=1, env={"VERIF_TRACE": tpath}, timeout=1200,
                     allow_violation=True)
        os.remove(tpath)
        if tr.violated is None:
            if tr.distinct != len(lines) + 1:
                idx = max(0, tr.distinct - 1)
                raise common.Infra("ScopesTrace consumed %d of %d lines; the call of line %d is not enabled in the "
                                   "specification (generator produced a call the documentation forbids?): %s"
                                   % (tr.distinct - 1, len(lines), idx + 1, json.dumps(lines[min(idx, len(lines) - 1)])[:600]))
            ctx.traces += len(lines)
            continue
        if tr.violated not in ("Accepted", "AcceptedVR", "Generated"):
            raise common.Infra("ScopesTrace failed with %s" % tr.violated)
        idx = max(0, tr.distinct - 2)
        line = lines[min(idx, len(lines) - 1)]
        if tr.violated == "Generated":
            raise common.Infra("the random generator produced an ill-formed tree (line %d)" % (idx + 1))
        # find the run this line belongs to
        b = idx
        while b > 0 and lines[b].get("ev") != "build":
            b -= 1
        sig = dict(op="apply_" + str(line.get("ev")),
                   **{"class": "trace_link" if tr.violated == "Accepted" else "trace_validate_references"})
        ctx.violation(sig, dict(trace=lines[b:idx + 1], seed=lines[b].get("run"),
                                note="ScopesTrace rejects the last line: the observed link table / ValidateReferences "
                                     "verdict is not what the specification computes for this call",
                                tlc=tr.trace[-1][:3000] if tr.trace else ""))
        stats["trace_rejected"] = stats.get("trace_rejected", 0) + 1
        ctx.traces += idx


def run(ctx):
    thorough = ctx.tier == "thorough"
    stats = {}
    ctx.rule = ("every tree of ScopesMC (shape with <=3 scopes nested <=2 deep and colliding IDs x <=2 reference "
                "placements: host object, wrapper, self / external target) is one case; for each, TLC enumerates every "
                "reachable link state under any sequence of ApplySelf / ApplyNamespace(scope, ns, table) calls "
                "(history outside the VIEW), and every (state, possible call) pair is replayed into the real schema "
                "and compared link by link; distinct = distinct trees (MC) + distinct random tree shapes (number of "
                "scopes, references per container kind and namespace class); non-trivial = all (every tree has at "
                "least one placed reference)")
    vec = os.path.join(ctx.tmp, "scopes-vectors.ndjson")
    r = ctx.tlc("ScopesMC", "scopes_thorough.cfg" if thorough else "scopes_quick.cfg",
                workers=8, env={"VERIF_OUT": vec}, timeout=3000)
    ctx.log("ScopesMC:", r)
    lines = common.read_ndjson(vec)
    os.remove(vec)
    cases, nstate = group(lines, ctx)
    del lines
    if nstate != r.distinct:
        raise common.Infra("TLC found %d distinct states but exported %d state lines" % (r.distinct, nstate))
    ctx.exhaustive = True
    gen_n = 60 if thorough else 20

    def deep_for(i):
        # chains through the recursion of the tree; the long ones (cost grows with the depth) on a sample
        d = [50, 200, 1000]
        if i % (8 if thorough else 4) == 0:
            d.append(10000)
        if thorough and i % 200 == 0:
            d.append(100000)
        return d
    ncalls = 0
    for i, c in enumerate(cases):
        c["gen"] = dict(seed=ctx.seed * 1000003 + i, n=gen_n, deep=deep_for(i))
        ctx.distinct.add("mc/" + tree_key(c))
        ncalls += sum(1 + len(s["next"]) for s in c["states"])
    for c in cases[:2]:
        ctx.sample(dict(tid=c["tid"], states=len(c["states"]), first_state=c["states"][0] if c["states"] else None,
                        raws=len(c["canon"]["raws"]) if c["canon"] else 0))
    run_cases(ctx, cases, stats, "mc")
    ctx.traces += ncalls
    stats["mc_trees"] = len(cases)
    stats["mc_calls_replayed"] = ncalls
    del cases

    # the harness inliner against Scopes!Inline (single worker: these lines are long)
    vec2 = os.path.join(ctx.tmp, "scopes-inl.ndjson")
    r2 = ctx.tlc("ScopesMC", "scopes_inl_thorough.cfg" if thorough else "scopes_inl.cfg", workers=1, env={"VERIF_OUT": vec2}, timeout=1200)
    cases2, _ = group(common.read_ndjson(vec2), ctx)
    os.remove(vec2)
    for c in cases2:
        c["states"] = []
        c["gen"] = dict(seed=ctx.seed, n=0, deep=[])
    run_cases(ctx, cases2, stats, "inl")
    stats["inliner_checked_on_trees"] = len(cases2)

    # code -> spec: seeded random runs on bigger trees
    nruns = 1500 if thorough else 220
    rcases = [dict(op="rand", seed=ctx.seed * 100000 + i, size=1 + i % 3, n=(30 if thorough else 12),
                   deep=([50, 200, 2000] if i % 4 == 0 else [])) for i in range(nruns)]
    runs = run_cases(ctx, rcases, stats, "rand")
    ctx.sample(rcases[0])
    validate_traces(ctx, runs, stats)
    stats["random_runs"] = nruns
    ctx.extra["c14"] = stats
    ctx.assumptions += [
        "only well-formed trees are judged: every self reference names an ID of its nearest enclosing scope, a table "
        "applied for a namespace contains every ID referenced in it (anything else is the documented "
        "BadArgumentError panic of a schema mis-built in Go), no operation is attempted on an unlinked reference",
        "objects are map-based (plus one family of struct-mapped trees with declared defaults, judged on scope vs "
        "inlined scope only); leaves are strings; one-of discriminators are strings and not inlined; disabled "
        "properties (with / without reason) carry references: linked and validated like any other, rejected on "
        "Unserialize, and values that set them go through Validate / Serialize of scope, inlined and rebuilt scope",
        "Inline unrolls %s levels; below that the reference is kept as the scope it resolves in, re-rooted at the "
        "referenced object (the only form that keeps its lexical meaning wherever the copy ends up)" % "2",
        "a model-vs-code disagreement on an input on which scope and inlined scope agree is drift (C02/C03 own the "
        "acceptance rules), not a C14 violation",
        "chains deeper than %d objects are outside the judged part (goroutine stack limit)" % JUDGED_DEPTH,
    ]


def replay(ctx, rp):
    rep = rp["replay"]
    stats = {}
    ctx.rule = "replay of one recorded case"
    if "case" in rep:
        case = dict(rep["case"])
        case.pop("skip_loops", None)
        runs = run_cases(ctx, [case], stats, "replay")
        if case.get("op") == "rand":
            validate_traces(ctx, runs, stats)
        ctx.sample(dict(tid=case.get("tid"), seed=case.get("seed")))
        return
    if "trace" in rep:
        seed = rep.get("seed")
        rc = [dict(op="rand", seed=seed, size=1 + (seed % 100000) % 3, n=0, deep=[])]
        runs = run_cases(ctx, rc, stats, "replay")
        validate_traces(ctx, runs, stats)
        ctx.sample(rc[0])
        return
    raise common.Infra("replay file has neither case nor trace")
