"""C08 - a broken or garbled server stream fails client calls; it never hangs them.

spec/ATPClientEnv.tla (the client of ATP.tla against a server stream that ends, turns to garbage,
stops inside a message, interleaves unsolicited traffic, or whose input side fails), ATPTrace.tla;
harness/cmd/atp (mode "client": real client, scripted server stream, positional byte faults).

 1. TLC: every interleaving of callers, read loop, Close with every environment behaviour for 2 runs:
    FailNotHang, NoFabrication, FReturnsOnce, NoNilWake, FlagHonest; thorough: liveness under fairness.
 2. spec -> code: sampled behaviours are projected to (client calls, stream events) scripts and played
    against the real client; results must agree with the model; sessions validated by ATPTrace.tla.
 3. fault enumeration on the concrete encoding: for base sessions (v3 serial, v3 concurrent with
    unsolicited traffic, v1) EVERY byte offset of the server-to-client stream x {EOF, I/O error, byte
    inversion, single bit flip}, faults inside the hello, unsupported version, schema that fails to unserialize, and
    the write side failing at every position.  Oracles: no panic, every call returns exactly once
    (structural stuck detection), success only for a run whose work-done is intact according to an
    independent decode of the same faulted bytes.
"""
import os, re, json, glob, random
from vlib import common
from props import atp_common as A
from props import atp_hello as H

SPECS = ["ATPClientEnvMC", "ATPTrace", "ATPHelloMC", "ATPHelloTraceMC"]
PKGS = ["./cmd/atp"]
INVS = ["FailNotHang", "NoFabrication", "FReturnsOnce", "NoNilWake", "FlagHonest"]

_LBL = re.compile(r'^(?:\\\* |State \d+: )<(\w+)(?:\((.*)\))? line', re.M)


def ops_from_behaviour(text):
    ops, emit = [], set()
    for m in _LBL.finditer(text):
        name, raw = m.group(1), m.group(2) or ""
        args = [a.strip().strip('"') for a in raw.split(",")] if raw else []
        if name == "ExecBegin":
            ops.append(dict(op="exec", run=args[0], emit=(args[0] == "r1")))
        elif name == "CloseCancel":
            ops.append(dict(op="close"))
        elif name == "FReply":
            ops.append(dict(op="reply", run=args[0], kind=args[1]))
        elif name == "FPartial":
            ops.append(dict(op="partial", run=args[0]))
        elif name == "FGarbage":
            ops.append(dict(op="garbage"))
        elif name == "FClose":
            ops.append(dict(op="close_out", kind="eof"))
        elif name == "FCloseIn":
            ops.append(dict(op="close_in"))
        elif name == "FUnsolicited":
            t = re.search(r't \|-> "(\w+)", r \|-> "(\w*)", x \|-> "(\w*)"', raw)
            mt, mr, mx = t.group(1), t.group(2), t.group(3)
            kind = {"server": "err_server", "none": "err_none", "step": "err_step"}.get(mx, "bad") if mt == "err" else \
                ("sig" if mt == "sig" else ("wd_dup" if mt == "wd" else "bad"))
            ops.append(dict(op="unsol", kind=kind, run=mr))
    return ops


def model_results(final):
    txt = (A.final_field(final, "res") or "").replace("\n", " ")
    out = {}
    for m in re.finditer(r'(r\d) \|-> \[x \|-> "(\w*)", st \|-> "(\w+)"\]', txt):
        out[m.group(1)] = m.group(3)
    for m in re.finditer(r'(r\d) \|-> \[st \|-> "(\w+)", x \|-> "(\w*)"\]', txt):
        out[m.group(1)] = m.group(2)
    return out


def judge(ctx, sc, rr, legit_from_decode=True):
    if rr.get("crash"):
        msg = rr.get("detail", "")
        first = next((l for l in msg.splitlines() if l.startswith("panic:") or l.startswith("fatal error:")), msg[:120])
        if not rr.get("reproduced") and not rr.get("frame"):
            raise common.Infra("unreproduced driver crash without SDK frame in %s: %s" % (sc.get("id"), msg[:2500]))
        ctx.violation(dict(kind="crash", message=first.strip()[:100], frame=rr.get("frame", "")),
                      dict(scenario=sc, crash=rr["crash"], detail=msg[:4000], reproduced=rr.get("reproduced")))
        return None
    res = rr["res"]
    if res.get("harness_error") or res.get("harness_panic"):
        raise common.Infra("atp driver failed: %s" % json.dumps(res)[:800])
    if res.get("follow_err"):
        raise common.Infra("atp driver: %s (%s)" % (res["follow_err"], sc.get("id")))
    if res.get("stuck"):
        ctx.violation(dict(kind="stuck", blocked="; ".join(sorted(set(
            d.split(" ")[0].split(":")[0] + " " + d.split("[")[1].split("]")[0] for d in res.get("stuck_detail", []) if "[" in d)))),
            dict(scenario=sc, stuck_detail=res.get("stuck_detail"), results=res["results"], last_events=(res.get("events") or [])[-12:]))
        return res
    legit = set(x.split(":", 1)[1] for x in res.get("received") or [] if x.startswith("wd:"))
    v1n = sum(1 for x in res.get("received") or [] if x == "wd:#v1")
    oks = [r for r, e in res["results"].items() if r != "#schema" and e["st"] == "ok"]
    for rid, e in res["results"].items():
        if rid == "#schema":
            continue
        if e["returns"] != 1:
            ctx.violation(dict(kind="returns", n=min(e["returns"], 2)), dict(scenario=sc, results=res["results"]))
        if e["st"] == "ok" and sc.get("version", 3) != 1 and rid not in legit:
            ctx.violation(dict(kind="fabricated_success"), dict(scenario=sc, run=rid, results=res["results"], intact=sorted(legit)))
    if sc.get("version", 3) == 1 and len(oks) > v1n:
        ctx.violation(dict(kind="fabricated_success", version=1), dict(scenario=sc, results=res["results"], intact=v1n))
    if res.get("stream_verdict") == "garbage" and res.get("pending_open"):
        # the stream had turned to garbage (an independent strict decode of the same bytes fails) while it was still
        # open: the calls that were waiting when the client's decoder met the garbage must fail then, not when the
        # stream ends (calls started afterwards wait for traffic of their own)
        evs = res.get("events") or []
        first_err = next((i for i, e in enumerate(evs) if e["ev"] in ("c.decode", "c.v1decode") and (e.get("kv") or {}).get("err")), None)
        if first_err is not None:
            # "waiting" = registered with the read loop (v3) / holding the v1 call mutex, i.e. its work-start is on its way
            before = set((e.get("kv") or {}).get("run") for e in evs[:first_err] if e["ev"] in ("c.register", "c.v1lock")
                         and not (e.get("kv") or {}).get("dup") and not (e.get("kv") or {}).get("closed"))
            late = sorted(before & set(res["pending_open"]))
            if late:
                ctx.violation(dict(kind="pending_on_garbled_open_stream"),
                              dict(scenario=sc, pending=late, results=res["results"], decode_error=evs[first_err]))
    if res["results"].get("#schema", {}).get("st") == "ok" and any(o.get("op") == "close" for o in sc.get("ops", [])) \
            and not res.get("close_ret"):
        ctx.violation(dict(kind="close_did_not_return"), dict(scenario=sc, results=res["results"]))
    return res


BASE = {
    "v3serial": [dict(op="exec", run="r1"), dict(op="reply", run="r1", kind="ok"), dict(op="exec", run="r2"),
                 dict(op="reply", run="r2", kind="err"), dict(op="exec", run="r3"), dict(op="reply", run="r3", kind="ok"), dict(op="close")],
    "v3conc": [dict(op="exec", run="r1", emit=True), dict(op="exec", run="r2"), dict(op="exec", run="r3"),
               dict(op="unsol", kind="sig", run="r1"), dict(op="reply", run="r2", kind="ok"), dict(op="unsol", kind="err_none", run=""),
               dict(op="reply", run="r1", kind="ok"), dict(op="reply", run="r3", kind="err"), dict(op="close")],
    # a caller that passes a signal channel and leaves it open; the stream ends under it
    "v3sigopen": [dict(op="exec", run="r1", sig=True), dict(op="exec", run="r2"), dict(op="reply", run="r2", kind="ok"),
                  dict(op="close_out", kind="eof"), dict(op="close")],
    "v1serial": [dict(op="exec", run="r1"), dict(op="reply", run="r1", kind="ok"), dict(op="exec", run="r2"),
                 dict(op="reply", run="r2", kind="ok")],
}


def run(ctx):
    thorough = ctx.tier == "thorough"
    ctx.rule = ("states = reachable states of ATPClientEnv.tla (client callers x read loop x Close x a stream environment that "
                "answers, interleaves unsolicited messages, garbles, stops inside a message, ends, or fails the client's writes); "
                "traces = real client sessions accepted by ATPTrace.tla; evaluations = sessions run (projected TLC behaviours + one "
                "per (base session, byte offset, fault kind) + hello faults + write-side faults); distinct = distinct (ops, fault); "
                "non-trivial = all")
    ctx.assumptions += [
        "corruption inside a payload string is undetectable without checksums: success is legitimate iff an independent decode of the "
        "same corrupted bytes yields a well-formed work-done for that run",
        "Close's 5 s bounded wait is not driven; the scripted server closes its input side at the end of every session",
        "design variant of the model bound to the code: %s" % json.dumps(A.DESIGN),
    ]
    # ------------------------------------------------------------ 1. exhaustive
    consts = dict(Runs="R2", Cap=2, StepBeh="BehAll", EmitRuns="R1", WithClose="TRUE", MaxUnsol=1)
    # (sig: a caller with a signal write loop, so that the write-loop actions meet the breaking stream too)
    if thorough:
        variants = [("full", consts), ("sig_close", dict(consts, StepBeh="BehOk", SigRuns="R1", EmitRuns="None", MaxUnsol=0))]
    else:
        variants = [("close_nounsol", dict(consts, EmitRuns="None", MaxUnsol=0)),
                    ("unsol_noclose", dict(consts, EmitRuns="None", WithClose="FALSE")),
                    ("sig_noclose", dict(consts, StepBeh="BehOk", SigRuns="R1", EmitRuns="None", MaxUnsol=0, WithClose="FALSE"))]
    r = None
    for name, cc in variants:
        cfg = A.mc_cfg(os.path.join(ctx.tmp, "c08_mc_%s.cfg" % name), cc, invariants=INVS, spec="FSpec")
        r = ctx.tlc("ATPClientEnvMC", cfg, workers=min(14, common.NCPU), timeout=3000, allow_violation=True, heap="24g")
        ctx.log("model %s: %r" % (name, r))
        if r.violated:
            break
    scen = []
    cex = None
    if r is not None and r.violated:
        cex = r.violated
        scen.append(dict(id="cex/" + r.violated, mode="client", ops=ops_from_behaviour(r.out)))
    if thorough and not cex:
        cfg = A.mc_cfg(os.path.join(ctx.tmp, "c08_live.cfg"), dict(consts, EmitRuns="None", MaxUnsol=0, Runs="R2"),
                       properties=["FEventuallyReturns", "FCloseReturns"], spec="FFairSpec")
        r2 = ctx.tlc("ATPClientEnvMC", cfg, workers=min(14, common.NCPU), timeout=3000, allow_violation=True, heap="24g")
        ctx.log("liveness: %r" % r2)
        if r2.violated:
            raise common.Infra("liveness violated on the model although FailNotHang holds:\n" + "\n".join(r2.out.splitlines()[-40:]))
    # ------------------------------------------------------------ 2. spec -> code
    nsim = 400 if thorough else 80
    cfg = A.mc_cfg(os.path.join(ctx.tmp, "c08_sim.cfg"), dict(Runs="R3", Cap=2, EmitRuns="R1", WithClose="TRUE", MaxUnsol=2),
                   invariants=INVS, spec="FSpec")
    d = os.path.join(ctx.tmp, "sim")
    os.mkdir(d)
    ctx.tlc("ATPClientEnvMC", cfg, workers=1, simulate="file=%s/b,num=%d" % (d, nsim), depth=150, timeout=600, allow_violation=True)
    finals = {}
    for f in sorted(glob.glob(os.path.join(d, "b_*"))):
        text = open(f).read()
        sid = "sim/" + os.path.basename(f)
        _, final = A.parse_sim_file(f)
        finals[sid] = model_results(final)
        scen.append(dict(id=sid, mode="client", ops=ops_from_behaviour(text)))
    nscript = len(scen)
    # ------------------------------------------------------------ 3. fault enumeration
    probe = [dict(id="base/" + k, mode="client", ops=v, version=1 if k.startswith("v1") else 3) for k, v in BASE.items()]
    pres = A.run_driver(ctx, probe, label="c08probe")
    for sc, rr in zip(probe, pres):
        out = judge(ctx, sc, rr)
        if out is None:
            continue
        n = out.get("stream_len", 0)
        if n == 0:
            raise common.Infra("base session %s produced no server stream" % sc["id"])
        step = 1 if (thorough or n <= 400) else 2
        for k in range(0, n, step):
            for kind in ("eof", "ioerr", "corrupt", "bitflip", "lowzero"):
                # (lowzero: the five low bits of the byte cleared - an item head keeps its type and becomes its empty form:
                # a payload map cut down to an empty map, an empty string, the integer 0; the message stays well-formed)
                if kind == "ioerr" and not thorough and k % 3:
                    continue
                scen.append(dict(sc, id="%s@%d/%s" % (sc["id"], k, kind), fault=dict(kind=kind, at=k)))
            # single-bit flips of the other seven bits: the three major-type bits turn an item into one of another CBOR
            # type (a map header into a negative integer: a complete, well-formed message with a short payload of the
            # wrong type), the low bits change lengths and values.  Thorough: all of them at every offset; quick: the
            # top bit everywhere and one more per offset, rotating with the offset and the seed.
            masks = (0x80, 0x40, 0x20, 0x10, 0x08, 0x04, 0x02) if thorough else \
                ((0x80, (0x40, 0x20, 0x10, 0x08, 0x04, 0x02)[(k // 3 + ctx.seed) % 6]) if k % 3 == 0 else (0x80,))
            for mk in masks:
                scen.append(dict(sc, id="%s@%d/bit%02x" % (sc["id"], k, mk), fault=dict(kind="bitflip", at=k, mask=mk)))
        # the client's writes fail from position i on
        for i in range(len(sc["ops"]) + 1):
            ops = list(sc["ops"])
            ops.insert(i, dict(op="close_in"))
            scen.append(dict(sc, id="%s/close_in@%d" % (sc["id"], i), ops=ops))
    for hb in ("version", "schema", "garbage"):
        scen.append(dict(id="hello/" + hb, mode="client", ops=BASE["v3serial"], hello_bad=hb))
    hstep = 23 if not thorough else 5
    for k in range(0, 3000, hstep):
        for kind in ("eof", "corrupt"):
            scen.append(dict(id="hello@%d/%s" % (k, kind), mode="client", ops=BASE["v3serial"][:3], fault=dict(kind=kind, at=k, hello=True)))
    # single-bit flips inside the hello: the three major-type bits turn a map key or a value into an item of another
    # CBOR type while the message stays well-formed (a step ID that is a byte string, a version that is a negative
    # integer ...) - ReadSchema has to refuse such a schema with an error.  Every offset of the envelope and the first
    # step's head, then a stride (thorough: every offset)
    hl = 3000
    offs = list(range(0, 160)) + list(range(160, hl, 1 if thorough else 11))
    for k in offs:
        for mk in ((0x20, 0x40, 0x80) if (thorough or k < 160) else ((0x20, 0x40, 0x80)[(k + ctx.seed) % 3],)):
            scen.append(dict(id="hello@%d/bit%02x" % (k, mk), mode="client", ops=BASE["v3serial"][:3],
                             fault=dict(kind="bitflip", at=k, hello=True, mask=mk)))
    res = A.run_driver(ctx, scen, label="c08")
    sessions = []
    for i, (sc, rr) in enumerate(zip(scen, res)):
        ctx.count(json.dumps([sc["ops"], sc.get("fault"), sc.get("hello_bad"), sc.get("version")], sort_keys=True))
        out = judge(ctx, sc, rr)
        if out is None:
            continue
        if i < nscript and out["results"].get("#schema", {}).get("st") == "ok":
            sessions.append((sc["id"], out["events"]))
    ctx.sample(dict(kind="projected behaviour", ops=scen[0]["ops"][:14]))
    ctx.sample(dict(kind="positional fault", id=scen[nscript + 5]["id"], fault=scen[nscript + 5].get("fault")))
    if cex and not ctx.violations and not ctx.known_hits:
        raise common.Infra("TLC reports %s violated on the model of the current code but the real client behaved: the "
                           "specification misrepresents the code" % cex)
    B = 120
    for i in range(0, len(sessions), B):
        batch = sessions[i:i + B]
        ok, info = A.validate(ctx, batch, ["r1", "r2", "r3"], 1000, [], [], label="c08trace", inv="TraceInvClientEnv", emit=["r1"])
        if ok:
            ctx.traces += len(batch)
        else:
            evs = next((e for sid, e in batch if sid == info.get("session")), [])
            ctx.violation(dict(kind="trace_" + info["kind"], event=info["line"]["ev"], violated=str(info.get("violated"))),
                          dict(session=info.get("session"), line=info["line"], prefix=info.get("prefix"),
                               scenario=next((s for s in scen if s["id"] == info.get("session")), None),
                               events=evs[: info["event_index"] + 3], tlc=info.get("tlc_tail", "")))
    # ------------------------------------------------------------ handshake and legacy framing (spec/ATPHello.tla, CSpec)
    ctx.extra["handshake_v1_sessions_accepted"] = H.stage_client_env(ctx, thorough)
    ctx.exhaustive = False


def replay(ctx, rp):
    sc = rp["replay"].get("scenario")
    if not sc:
        raise common.Infra("replay file carries no scenario")
    if sc.get("mode") in ("hello", "hello_srv"):
        H.play(ctx, [sc], "client" if sc["mode"] == "hello" else "server", "env",
               describable=sc.get("hello_bad") != "undescribable", label="replayhello")
        ctx.rule = "replay of one recorded handshake / legacy-framing session"
        ctx.sample(dict(id=sc.get("id"), ops=sc.get("ops")))
        return
    rr = A.run_driver(ctx, [sc], jobs=1)[0]
    judge(ctx, sc, rr)
    ctx.sample(dict(id=sc.get("id"), ops=sc.get("ops"), fault=sc.get("fault")))
    ctx.rule = "replay of one recorded client session"
