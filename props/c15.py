"""C15 - compatibility checking terminates, is reflexive, deterministic and kind-sound.

spec/Compat.tla (MustReject / MustAccept, a partial specification), CompatMC.tla (enumeration of
ordered pairs with the expectation reject / accept / open), CompatTrace.tla (recorded verdicts of
seeded random pairs); harness/cmd/compat.

Statement (properties.jsonl): "ValidateCompatibility between two schemas returns a verdict for
every pair - including recursive schemas and schemas with only some bounds set - and the verdict
does not depend on map iteration order.  Every schema is compatible with itself and with a schema
rebuilt from its own description, and a producer that can never be consumed is always rejected".
A violation is: no verdict (panic, fatal stack exhaustion, hang), two verdicts for one pair, nil
where the specification says MustReject, an error where it says MustAccept.  Which verdict an
"open" pair gets is not judged.
"""
import os, json, random
from vlib import common

SPECS = ["CompatMC", "CompatTrace"]
PKGS = ["./cmd/compat"]

REPS = {"quick": 20, "thorough": 100}
RANDOM_PAIRS = {"quick": 3000, "thorough": 24000}
TRACE_BATCH = 4000
RETRY_REPS = 20000


# ---------------------------------------------------------------------- signature: where the pair differs
def _canon(n):
    """order-insensitive canonical form of an AST (sets are exported as arrays)"""
    k = n["kind"]
    if k in ("enum_int", "enum_string"):
        return dict(n, values=sorted(n["values"]))
    if k == "list":
        return dict(n, items=_canon(n["items"]))
    if k == "map":
        return dict(n, keys=_canon(n["keys"]), vals=_canon(n["vals"]))
    if k == "object":
        return dict(n, props=sorted((dict(p, type=_canon(p["type"]), **{r: sorted(p.get(r, [])) for r in RULES})
                                     for p in n["props"]), key=lambda p: p["name"]))
    if k == "scope":
        return dict(n, objects=sorted((_canon(o) for o in n["objects"]), key=lambda o: o["id"]))
    if k == "oneof":
        return dict(n, members=sorted((dict(m, obj=_canon(m["obj"])) for m in n["members"]), key=lambda m: m["key"]))
    return n


RULES = ("conflicts", "required_if", "required_if_not")


def fill(n):
    """a case recorded before properties carried has_default / disabled: add the fields (TLC's records of one
    family have the same fields); in place, returns n"""
    k = n.get("kind")
    if k in ("enum_int", "enum_string"):
        n.setdefault("spell", "token")
    elif k in ("int", "float", "string"):
        n.setdefault("units", "none")
    elif k == "list":
        n.setdefault("impl", "plain")
        fill(n["items"])
    elif k == "map":
        n.setdefault("impl", "plain")
        fill(n["keys"]); fill(n["vals"])
    elif k == "object":
        n.setdefault("impl", "plain")
        for p in n["props"]:
            p.setdefault("has_default", False)
            p.setdefault("disabled", False)
            for r in RULES:
                p.setdefault(r, [])
            p.setdefault("display", "none")
            fill(p["type"])
    elif k == "scope":
        for o in n["objects"]:
            fill(o)
    elif k == "oneof":
        n.setdefault("inline", False)
        for m in n["members"]:
            fill(m["obj"])
    return n


def _denote(n, table):
    k = n["kind"]
    if k == "object":
        return n, table
    if k == "ref":
        return next((o for o in table if o["id"] == n["id"]), None), table
    if k == "scope":
        return next((o for o in n["objects"] if o["id"] == n["root"]), None), n["objects"]
    return None, table


def _bounds(n):
    return (json.dumps(n.get("min"), sort_keys=True), json.dumps(n.get("max"), sort_keys=True), n.get("impl", "plain"))


def focus(a, b, with_path=False):
    """Descend while the two schemas have the same kind and the same features at this level and
    differ in exactly the children; returns the pair of nodes at which they differ (or the top
    pair if they do not differ at all); with_path also the kinds passed on the way down."""
    a, b = _canon(a), _canon(b)
    seen = set()

    def go(x, y, tx, ty, path):
        """None if x and y denote the same schema, else (x', y', path) of the differing nodes"""
        if len(path) > 60:
            return None
        kx, ky = x["kind"], y["kind"]
        here = path + [kx]
        if kx != ky:
            return x, y, path
        if kx in ("int", "float", "string", "bool", "pattern", "any", "enum_int", "enum_string"):
            return None if x == y else (x, y, path)
        if kx == "list":
            if _bounds(x) != _bounds(y):
                return x, y, path
            return go(x["items"], y["items"], tx, ty, here)
        if kx == "map":
            if _bounds(x) != _bounds(y):
                return x, y, path
            return go(x["keys"], y["keys"], tx, ty, here + ["key"]) or go(x["vals"], y["vals"], tx, ty, here)
        if kx in ("object", "ref", "scope"):
            ox, tx2 = _denote(x, tx)
            oy, ty2 = _denote(y, ty)
            if ox is None or oy is None:
                return x, y, path
            key = json.dumps([ox, tx2, oy, ty2], sort_keys=True)
            if key in seen:
                return None
            seen.add(key)
            flags = lambda p: (p["name"], p["required"], p.get("has_default", False), p.get("disabled", False),
                               [sorted(p.get(r, [])) for r in RULES], p.get("display", "none"))
            hx = (ox["id"], ox["id_unenforced"], ox.get("impl", "plain"), [flags(p) for p in ox["props"]])
            hy = (oy["id"], oy["id_unenforced"], oy.get("impl", "plain"), [flags(p) for p in oy["props"]])
            if hx != hy:
                return ox, oy, (path if kx == "object" else here)
            for px, py in zip(ox["props"], oy["props"]):
                d = go(px["type"], py["type"], tx2, ty2, here if kx == "object" else here + ["object"])
                if d:
                    return d
            return None
        if kx == "oneof":
            hx = (x["disc"], x["field"], x.get("inline", False), [m["key"] for m in x["members"]])
            hy = (y["disc"], y["field"], y.get("inline", False), [m["key"] for m in y["members"]])
            if hx != hy:
                return x, y, path
            for mx, my in zip(x["members"], y["members"]):
                d = go(mx["obj"], my["obj"], tx, ty, here)
                if d:
                    return d
            return None
        return x, y, path

    d = go(a, b, [], [], [])
    if not d:
        d = (a, b, [])
    return d if with_path else d[:2]


def bounds_pattern(x, y):
    def one(n):
        if "min" not in n:
            return None
        return ("min" if n["min"]["some"] else "-") + ("max" if n["max"]["some"] else "-")
    px, py = one(x), one(y)
    if px is None or py is None:
        return ""
    return px + "/" + py


def where(case):
    """for triage: the kinds from the top of the pair down to the nodes at which the two sides differ"""
    fa, fb, path = focus(case["a"], case["b"], with_path=True)
    return ">".join(path + [fa["kind"] + "/" + fb["kind"]])


def corresponding(a, b):
    """All pairs of nodes the comparison of a with b can reach: parallel walk through items, keys,
    values, common properties, common members, references resolved (cycle-guarded)."""
    a, b = _canon(a), _canon(b)
    out, seen = [], set()

    def go(x, y, tx, ty):
        out.append((x, y))
        kx, ky = x["kind"], y["kind"]
        fam = {"ref": "object", "scope": "object"}
        if fam.get(kx, kx) != fam.get(ky, ky):
            return
        if kx == "list":
            go(x["items"], y["items"], tx, ty)
        elif kx == "map":
            go(x["keys"], y["keys"], tx, ty)
            go(x["vals"], y["vals"], tx, ty)
        elif fam.get(kx, kx) == "object":
            ox, tx2 = _denote(x, tx)
            oy, ty2 = _denote(y, ty)
            if ox is None or oy is None:
                return
            key = json.dumps([ox, tx2, oy, ty2], sort_keys=True)
            if key in seen:
                return
            seen.add(key)
            py = {p["name"]: p for p in oy["props"]}
            for p in ox["props"]:
                if p["name"] in py:
                    go(p["type"], py[p["name"]]["type"], tx2, ty2)
        elif kx == "oneof":
            my = {m["key"]: m for m in y["members"]}
            for m in x["members"]:
                if m["key"] in my:
                    go(m["obj"], my[m["key"]]["obj"], tx, ty)

    go(a, b, [], [])
    return out


def has_cycle(n, table=None, stack=()):
    """the schema contains a scope whose references form a cycle"""
    k = n["kind"]
    if k == "list":
        return has_cycle(n["items"], table, stack)
    if k == "map":
        return has_cycle(n["vals"], table, stack)
    if k == "object":
        return any(has_cycle(p["type"], table, stack) for p in n["props"])
    if k == "oneof":
        return any(has_cycle(m["obj"], table, stack) for m in n["members"])
    if k == "scope":
        return any(has_cycle(o, n["objects"], (o["id"],)) for o in n["objects"])
    if k == "ref":
        if n["id"] in stack:
            return True
        o = next((o for o in (table or []) if o["id"] == n["id"]), None)
        return o is not None and has_cycle(o, table, stack + (n["id"],))
    return False


def features(n, out=None):
    """property flags occurring anywhere in the schema (for the signature of a reflexivity failure)"""
    out = set() if out is None else out
    k = n["kind"]
    if k in ("int", "float") and n.get("units", "none") != "none":
        out.add("units")
        out.add("@" + k)
    elif k == "list":
        features(n["items"], out)
    elif k == "map":
        features(n["keys"], out); features(n["vals"], out)
    elif k == "object":
        for p in n["props"]:
            if p.get("disabled"):
                out.add("disabled_property")
            if p.get("has_default"):
                out.add("default")
            if any(p.get(r) for r in RULES):
                out.add("field_rules")
            if p.get("display", "none") != "none":
                out.add("display")
            features(p["type"], out)
    elif k == "scope":
        for o in n["objects"]:
            features(o, out)
    elif k == "oneof":
        for m in n["members"]:
            features(m["obj"], out)
    return out


FRAME_KIND = {"Int": "int", "Float": "float", "String": "string", "Map": "map", "Bool": "bool",
              "Pattern": "pattern", "Any": "any", "Object": "object", "Ref": "ref", "Scope": "scope",
              "OneOf": "oneof", "AbstractList": "list", "List": "list", "Property": "property", "Enum": "enum"}


def signature(case, divergence, frame="", detail=""):
    """consumer kind, producer kind, bounds pattern, divergence, panic frame (+ the rules of the
    specification a wrong verdict contradicts).  The kinds are taken where the defect sits:
      * no verdict because the process died / hung: which side holds a reference cycle, and whether the
        runaway recursion is the schema comparison or the data path (Unserialize) - the pair's other
        differences are irrelevant to it;
      * panic: the kind named by the panicking SDK function and the bounds pattern of the first pair of
        corresponding nodes of that kind with partly set bounds to which a range test applies;
      * an error for a pair that has to be accepted (the same schema on both sides): the two sides do not
        differ anywhere, so the wrappers above and their bounds say nothing about the defect; if the schema
        carries property flags (disabled, default) the signature names the object kind and the flags
        ("self:disabled_property"), if it carries units the int / float kind and "self:units", else the top
        kinds and "self";
      * otherwise: the nodes at which the two schemas differ."""
    if divergence in ("stack_overflow", "hang", "fatal"):
        side = lambda n: "recursive_scope" if has_cycle(n) else "acyclic"
        return dict(consumer=side(case["a"]), producer=side(case["b"]), bounds="", divergence=divergence,
                    frame="cycle:data" if ".Unserialize" in detail else "cycle:schema", rule="")
    fa, fb = focus(case["a"], case["b"])
    sig = dict(consumer=fa["kind"], producer=fb["kind"], bounds=bounds_pattern(fa, fb), divergence=divergence,
               frame="", rule="")
    if divergence == "panic":
        sig["frame"] = frame
        name = frame.split(".")[1] if frame.count(".") >= 1 else ""
        kind = FRAME_KIND.get(name.replace("Schema", "").strip("(*)"))
        if kind:
            # a range test applies where opposite bounds of the two sides are both set
            def applies(x, y):
                return (x["min"]["some"] and y["max"]["some"]) or (x["max"]["some"] and y["min"]["some"])
            cands = [(x, y) for x, y in corresponding(case["a"], case["b"])
                     if x["kind"] == kind and y["kind"] == kind and "min" in x
                     and bounds_pattern(x, y) not in ("--/--", "minmax/minmax")]
            cands = [c for c in cands if applies(*c)] or cands
            if cands:
                sig.update(consumer=kind, producer=kind, bounds=bounds_pattern(*cands[0]))
    elif divergence == "rejects" and _canon(case["a"]) == _canon(case["b"]):
        feats = features(case["a"])
        unit_kinds = sorted(f[1:] for f in feats if f.startswith("@"))
        feats = {f for f in feats if not f.startswith("@")}
        sig["bounds"] = ""
        sig["rule"] = "self" + (":" + "+".join(sorted(feats)) if feats else "")
        if feats == {"units"}:
            sig["consumer"] = sig["producer"] = unit_kinds[0]
        elif feats:
            sig["consumer"] = sig["producer"] = "object"
    elif divergence in ("accepts", "rejects"):
        sig["rule"] = "+".join(sorted(case.get("rules") or []))
    return sig


# ---------------------------------------------------------------------- driver runs
def run_cases(ctx, cases, tag, reps=None):
    drv = ctx.gobuild("./cmd/compat")
    inp = os.path.join(ctx.tmp, "cases-%s.ndjson" % tag)
    out = os.path.join(ctx.tmp, "res-%s.ndjson" % tag)
    common.write_ndjson(inp, cases)
    ctx.run([drv, "-reps", str(reps or REPS[ctx.tier]), "-in", inp, "-out", out, "-j", str(min(12, common.NCPU)),
             "-case-timeout", "30s"], timeout=3000)
    results = common.read_ndjson(out)
    if len(results) != len(cases):
        raise common.Infra("driver returned %d results for %d cases" % (len(results), len(cases)))
    return results


def shape(n, depth=0):
    """schema shape for the distinct-case key"""
    k = n["kind"]
    if depth >= 3:
        return k
    if k == "list":
        return "list(%s)" % shape(n["items"], depth + 1)
    if k == "map":
        return "map(%s,%s)" % (shape(n["keys"], depth + 1), shape(n["vals"], depth + 1))
    if k == "object":
        return "object(%s)" % ",".join(shape(p["type"], depth + 1) for p in n["props"])
    if k == "scope":
        return "scope(%d)" % len(n["objects"])
    if k == "oneof":
        return "oneof_%s(%d)" % (n["disc"], len(n["members"]))
    return k


def consume(ctx, cases, results, stats, retry=False):
    """Judge every case that carries an expectation; judge the absence of a single verdict for all.
    Returns the recorded lines (pairs with one verdict and no expectation) for CompatTrace."""
    lines = []
    # A pair on which the process dies only for some iteration orders (the runaway recursion is entered
    # with a small probability per call) is not reproduced by the supervisor's two re-runs with the
    # tier's repetition count: re-run exactly those cases with many more calls; only a death reproduced
    # there becomes a verdict, anything else stays an infrastructure failure.
    flaky = [i for i, res in enumerate(results) if res.get("crash") and not res.get("reproduced")]
    if flaky and not retry:
        if len(flaky) > 50:
            raise common.Infra("%d unreproduced worker crashes" % len(flaky))
        again = run_cases(ctx, [cases[i] for i in flaky], "retry%d" % flaky[0], reps=RETRY_REPS)
        results = list(results)
        for i, res in zip(flaky, again):
            if not res.get("crash"):
                raise common.Infra("unreproduced worker %s on case %s" % (results[i]["crash"],
                                                                          json.dumps(cases[i])[:300]))
            results[i] = res
        stats["crash_reproduced_with_more_calls"] = stats.get("crash_reproduced_with_more_calls", 0) + len(flaky)
    for case, res in zip(cases, results):
        if res.get("crash"):
            if not res.get("reproduced"):
                raise common.Infra("unreproduced worker %s on case %s" % (res["crash"], json.dumps(case)[:300]))
            detail = res.get("detail", "")
            if res["crash"] == "hang":
                div = "hang"
            elif "stack overflow" in detail or "stack exceeds" in detail:
                div = "stack_overflow"
            else:
                div = "fatal"
            stats[div] = stats.get(div, 0) + 1
            stats["run"] = stats.get("run", 0) + 1
            ctx.violation(signature(case, div, detail=detail), dict(case=case, crash=res["crash"], detail=detail[:2500]))
            ctx.distinct.add(common.sha([case["a"], case["b"], case["mode"], case.get("hist", "none")]))
            continue
        r = res["res"]
        if r.get("harness_error") or r.get("harness_panic"):
            raise common.Infra("harness failure on %s: %s" % (json.dumps(case)[:300], r))
        if r.get("bind_error"):
            raise common.Infra("binding table out of date: " + r["bind_error"])
        if r.get("display_dep"):
            stats["display_dependent"] = stats.get("display_dependent", 0) + 1
            ctx.note_drift("the verdict depends on the display (documentation) of a property - not fixed by the "
                           "statement, reported as drift", json.dumps(dict(case=case, observed=r["display_dep"]))[:600])
        if r.get("skip"):
            stats["not_describable"] = stats.get("not_describable", 0) + 1
            if "panic" in r["skip"]:
                ctx.note_drift("rebuild panicked (C09/C10's subject, not judged here)", r["skip"][:300])
            continue
        ctx.evaluations += r.get("evals", 0)
        stats["run"] = stats.get("run", 0) + 1
        trivial = case["a"] == case["b"] and case["a"]["kind"] in ("bool", "pattern", "any")
        if not trivial:
            ctx.distinct.add(common.sha([case["a"], case["b"], case["mode"], case.get("hist", "none")]))
        stats.setdefault("shapes", set()).add((shape(case["a"]), shape(case["b"]), case["mode"], case.get("exp", "")))
        div = r.get("divergence")
        exp = case.get("exp")
        if exp is not None:
            stats["exp_" + exp] = stats.get("exp_" + exp, 0) + 1
            if exp == "open" and not div:
                k = "open_nil" if r["nil"] else "open_err"
                stats[k] = stats.get(k, 0) + 1
        if div:
            stats[div] = stats.get(div, 0) + 1
            ctx.violation(signature(case, div, r.get("frame", "")),
                          dict(case=case, differs_at=where(case), observed=dict(nil=r["nil"], err=r["err"], panic=r["panic"],
                                                        msg=r.get("msg"), first_err=r.get("first_err"))))
            continue
        if exp is None:
            lines.append(dict(a=case["a"], b=case["b"], mode=case["mode"], hist=case.get("hist", "none"),
                              verdict="nil" if r["nil"] else "err"))
    return lines


def validate_trace(ctx, lines, stats):
    """CompatTrace must accept every recorded line; on a rejection a diagnosis run judges all."""
    for start in range(0, len(lines), TRACE_BATCH):
        batch = lines[start:start + TRACE_BATCH]
        tpath = os.path.join(ctx.tmp, "compat-trace-%d.ndjson" % start)
        common.write_ndjson(tpath, batch)
        tr = ctx.tlc("CompatTrace", "compat_trace.cfg", workers=1, env={"VERIF_TRACE": tpath},
                     timeout=1200, allow_violation=True)
        if tr.violated == "Generated":
            raise common.Infra("the random generator produced a schema that is not well-formed (line %d)"
                               % max(0, tr.distinct - 1))
        if tr.violated is None:
            if tr.distinct != len(batch) + 1:
                raise common.Infra("CompatTrace consumed %d of %d lines" % (tr.distinct - 1, len(batch)))
            ctx.traces += len(batch)
            continue
        if tr.violated != "Accepted":
            raise common.Infra("CompatTrace failed with %s" % tr.violated)
        dpath = os.path.join(ctx.tmp, "compat-diag-%d.ndjson" % start)
        dr = ctx.tlc("CompatTrace", "compat_trace_diag.cfg", workers=1,
                     env={"VERIF_TRACE": tpath, "VERIF_OUT": dpath}, timeout=1200)
        diag = common.read_ndjson(dpath)
        if dr.distinct != len(batch) + 1 or len(diag) != len(batch):
            raise common.Infra("CompatTrace diagnosis judged %d of %d lines" % (len(diag), len(batch)))
        for d in diag:
            line = batch[d["line"] - 1]
            if d["ok"]:
                ctx.traces += 1
                continue
            div = "accepts" if line["verdict"] == "nil" else "rejects"
            stats["trace_" + div] = stats.get("trace_" + div, 0) + 1
            case = dict(a=line["a"], b=line["b"], mode=line["mode"], hist=line.get("hist", "none"), exp=d["exp"],
                        rules=list(d["rules"]))
            ctx.violation(signature(case, div),
                          dict(case=case, trace_line=line, differs_at=where(case),
                               note="CompatTrace rejects this recorded line: the verdict contradicts "
                                    "MustReject/MustAccept"))


def run(ctx):
    thorough = ctx.tier == "thorough"
    stats = {}
    ctx.rule = ("every state of CompatMC is one case (consumer, producer, mode, history): all same-family "
                "ordered pairs and every schema against a representative of each other family, of the "
                "generated universe (objects with required x default x disabled property flags, struct-mapped and typed "
                "objects, objects with rules between fields, one-ofs inlining the discriminator (members declaring one "
                "or both candidate fields, behind references), ints and floats with units, typed lists and maps in every bound shape included; histories: "
                "one side parsed unit-suffixed strings first) at depth 1, same-family and representative cross-family pairs under 7 "
                "wrappers at depth 2, under wrapper pairs at depth 3; modes direct / same instance / producer or "
                "consumer rebuilt from its description; each case = %d calls of ValidateCompatibility; plus seeded "
                "random pairs (depth <= 5) validated by CompatTrace.  distinct = distinct (consumer AST, producer "
                "AST, mode); non-trivial = all but the identical feature-less leaves (bool, pattern, any)"
                % REPS[ctx.tier])
    vec = os.path.join(ctx.tmp, "compat-vectors.ndjson")
    r = ctx.tlc("CompatMC", "compat_thorough.cfg" if thorough else "compat_quick.cfg",
                workers=8, env={"VERIF_OUT": vec}, timeout=3000)
    ctx.log("CompatMC:", r)
    cases = common.read_ndjson(vec)
    if len(cases) != r.distinct:
        raise common.Infra("TLC found %d distinct states but exported %d vectors" % (r.distinct, len(cases)))
    ctx.exhaustive = True
    # spread the (slow) fatal cases over the shards; the order is irrelevant to the verdicts
    random.Random(ctx.seed).shuffle(cases)
    results = run_cases(ctx, cases, "mc")
    consume(ctx, cases, results, stats)
    ctx.traces += stats.get("run", 0)
    for c in cases[:3]:
        ctx.sample(c)
    ctx.log("vectors: %d replayed, %d not describable (rebuilt modes skipped)" % (stats.get("run", 0),
                                                                                 stats.get("not_describable", 0)))

    # code -> spec: seeded random pairs, recorded verdicts validated by CompatTrace
    drv = ctx.gobuild("./cmd/compat")
    rpath = os.path.join(ctx.tmp, "compat-random.ndjson")
    ctx.run([drv, "gen", "-seed", str(ctx.seed), "-count", str(RANDOM_PAIRS[ctx.tier]), "-out", rpath])
    rcases = common.read_ndjson(rpath)
    before = stats.get("run", 0)
    rres = run_cases(ctx, rcases, "rand")
    lines = consume(ctx, rcases, rres, stats)
    ctx.log("random pairs: %d run, %d recorded lines" % (stats.get("run", 0) - before, len(lines)))
    if lines:
        validate_trace(ctx, lines, stats)
        ctx.sample(lines[0])
    shapes = stats.pop("shapes", set())
    ctx.extra["case_statistics"] = dict(stats, distinct_shapes=len(shapes))
    ctx.assumptions += [
        "well-formed schemas only: min <= max where both are set, non-empty enums and one-ofs, map keys "
        "int/string/enum, unique object IDs per scope, every reference and root resolves, one-of members do "
        "not declare the discriminator field (not inlined); bounds are non-negative; defaults are declared on "
        "properties of scalar kinds only (int, float, string, bool, enums), rendered as a value of the type",
        "'lacking a required one' is read on the two schemas alone: a consumer property that is required is "
        "required whether or not it also declares a default or is disabled; a disabled property refuses DATA, "
        "it does not make the schema incompatible with itself or its rebuilt copy",
        "base kind is taken with the SDK's affinities (integer{int,enum_int}, string{string,enum_string}, "
        "object{object,ref,scope}); integer<->float is unconstrained; an any PRODUCER is unconstrained; an any "
        "CONSUMER must reject a pattern producer (any is a wildcard over maps, lists, integers, floats, strings, "
        "bools; a pattern's values are compiled regular expressions it refuses) and is unconstrained against "
        "every other kind (the SDK takes plain and struct-mapped objects and one-ofs but refuses references, "
        "scopes of struct-mapped objects and typed objects: either verdict is consistent with the statement)",
        "struct-mapped and typed objects are bound to one Go struct of the harness (fields of type any for ten "
        "property names); typed SCOPES (NewTypedScopeSchema) are not generated",
        "'missing members' is read as: a key of the consumer's one-of is absent from the producer's; whether "
        "incompatible member objects, extra producer members, int vs. enum ranges must be rejected is left open",
        "scopes whose description the SDK cannot produce or read back (enum values without display name) are "
        "not judged in the rebuilt modes (counted as not_describable); UnserializeScope returns unlinked "
        "references, the harness calls ApplySelf() itself",
        "string enum values are rendered v<n> (token) or as the one-character string with code point n (rune, "
        "values 33..126); one-of keys are tokens k<n>; float bounds are integral",
        "units: the statement names no rule on units, pairs with different unit sets are open; the package-level "
        "unit sets are process state - the harness lets an unrelated schema parse a unit-suffixed string with "
        "each before any case, so they are always in the used state; histories a / b let the directly built "
        "consumer / producer parse unit-suffixed strings with its own unit-carrying ints and floats first; no "
        "expectation depends on the history",
        "rules between fields (conflicts, required_if, required_if_not) concern the fields of a VALUE (data mode); "
        "schema comparison never consults them (the model's reasons are invariant under clearing them) - an object "
        "whose properties conflict is compatible with itself and its rebuilt copy; data-mode verdicts are not judged",
        "property displays (none / name only / description only / icon only / all) are documentation: no reason "
        "to reject depends on them (model invariant), every shape has to get a verdict - a panic is a violation -, "
        "a verdict that changes when the displays are cleared is reported as drift; unnamed enum values have no "
        "display or a description-only display",
        "a one-of with another discriminator NAME is rejected whether or not either side inlines it and whatever "
        "its members declare",
        "typed lists and maps are instantiated over scalar element types (int, float, string, bool; int or "
        "string keys)",
    ]


def replay(ctx, rp):
    case = rp["replay"].get("case")
    if case is None:
        raise common.Infra("replay file has no case")
    fill(case["a"]); fill(case["b"])
    case.setdefault("hist", "none")
    stats = {}
    results = run_cases(ctx, [case], "replay", reps=max(200, REPS[ctx.tier]))
    lines = consume(ctx, [case], results, stats)
    if lines:
        validate_trace(ctx, lines, stats)
    ctx.sample(case)
    stats.pop("shapes", None)
    ctx.extra["case_statistics"] = stats
    ctx.rule = "replay of one recorded pair"
