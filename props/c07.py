"""C07 - the ATP server survives any client and answers each accepted run exactly once.

spec/ATPServerEnv.tla (the server of ATP.tla against an arbitrary client environment), ATPTrace.tla;
harness/cmd/atp (mode "server": scripted client, real RunATPServer in a supervised child process).

 1. TLC: every interleaving of the server's goroutines with every client message sequence of
    length <= MaxEnv drawn from the grammar (work-start, signal, client-done, decodable-but-bad,
    undecodable, cut short inside a message, end of input at any moment) x every step behaviour:
    EnvNoCrash, EnvOneTerminal, EnvNoStuck; thorough: EnvAnswers / EnvReturns under fairness.
 2. spec -> code: behaviours sampled by TLC are projected to client scripts (abstract messages are
    concretised with rotating concrete variants) and played against the real server.
 3. code -> spec / fault enumeration: seeded grammar-based scripts beyond the model's bounds
    (3 runs, <= 8 messages, duplicate run IDs) and EVERY byte offset of base scripts as truncation
    point; every recorded session without duplicate run IDs is validated by ATPTrace.tla.
 Oracles on the real run: the process does not die; RunATPServer returns once input has ended and
 steps have finished (structural stuck detection otherwise); the number of terminal messages
 (work-done / step-fatal error) received per run ID equals the number of accepted work-starts.
"""
import os, re, json, glob, random
from vlib import common
from props import atp_common as A
from props import atp_hello as H

SPECS = ["ATPServerEnvMC", "ATPServerCancelMC", "ATPTrace", "ATPHelloMC", "ATPHelloTraceMC"]
PKGS = ["./cmd/atp"]

BAD_VARIANTS = [("bad", "unknown_id"), ("ws", "no_run"), ("ws", "no_step"), ("ws", "no_run_key"), ("ws", "payload_type"), ("sig", "no_run"),
                ("sig", "no_run_key"),
                ("sig", "payload_type"), ("bad", "error_id"), ("bad", "workdone_id"), ("bad", "missing_fields")]
JUNK_VARIANTS = ["reserved", "int", "array", "x1c"]
ERR_BEH = [("err", ""), ("baddata", ""), ("ok", "unknown_step"), ("ok", "bad_input"), ("panic_int", ""), ("panic_err", ""),
           ("panic_struct", ""), ("panic_nilmap", "")]
OK_BEH = ["ok", "declared_error"]
BADSIG_VARIANTS = ["unknown_signal", "bad_data"]


def script_from_behaviour(acts, k):
    """project a behaviour of EnvSpec onto what the client does and when steps finish"""
    beh = A.behaviours_of(acts)
    script, badsig = [], set()
    for a in acts:
        if a["a"] == "EnvSend":
            m = re.search(r't \|-> "(\w+)", r \|-> "(\w*)"', a["raw"])
            kind, run = m.group(1), m.group(2)
            whole = a["raw"].strip().endswith("TRUE")
            op = dict(op="send" if whole else "partial", kind=kind, run=run, variant="", beh="ok")
            if not whole:
                op["cut"] = 7 + (k % 30)
            if kind == "ws":
                b = beh.get(run, "ok")
                if b == "ok":
                    op["beh"] = OK_BEH[k % len(OK_BEH)]
                elif b == "panic":
                    op["beh"] = "panic"
                else:
                    op["beh"], op["variant"] = ERR_BEH[k % len(ERR_BEH)]
            elif kind == "sig":
                if run == "r1":      # BadSigRuns = {r1} in the model configuration
                    op["variant"] = BADSIG_VARIANTS[k % len(BADSIG_VARIANTS)]
            elif kind in ("bad", "wsbad"):
                pool = [v for v in BAD_VARIANTS if (v[0] == "ws") == (kind == "wsbad") and v[1] not in ("payload_type",)]
                op["kind"], op["variant"] = pool[k % len(pool)]
                op["run"] = "r9"
            elif kind == "junk":
                op["variant"] = JUNK_VARIANTS[k % len(JUNK_VARIANTS)]
            script.append(op)
        elif a["a"] == "EnvEOF":
            script.append(dict(op="eof"))
        elif a["a"] == "StepFinishAs":
            script.append(dict(op="finish", run=a["r"]))
    return script


def random_script(rng, allow_dup):
    runs = ["r1", "r2", "r3"]
    started, script = [], []
    n = rng.randint(1, 8)
    for _ in range(n):
        x = rng.random()
        if x < 0.35:
            pool = runs if allow_dup else [r for r in runs if r not in started]
            if not pool:
                continue
            r = rng.choice(pool)
            started.append(r)
            b = rng.random()
            if b < 0.4:
                op = dict(op="send", kind="ws", run=r, beh=rng.choice(OK_BEH), variant="")
            elif b < 0.55:
                op = dict(op="send", kind="ws", run=r, beh="panic", variant="")
            else:
                be, va = rng.choice(ERR_BEH)
                op = dict(op="send", kind="ws", run=r, beh=be, variant=va)
            script.append(op)
        elif x < 0.5:
            r = rng.choice(runs)
            var = "" if r != "r1" else rng.choice(BADSIG_VARIANTS)
            if not allow_dup and any(o.get("kind") == "sig" and o.get("run") == r for o in script):
                continue
            script.append(dict(op="send", kind="sig", run=r, variant=var, beh="ok"))
        elif x < 0.62:
            k, v = rng.choice(BAD_VARIANTS)
            script.append(dict(op="send", kind=k, run="r9", variant=v, beh="ok"))
        elif x < 0.7:
            script.append(dict(op="send", kind="junk", run="", variant=rng.choice(JUNK_VARIANTS), beh="ok"))
        elif x < 0.8 and started:
            script.append(dict(op="finish", run=rng.choice(started)))
        elif x < 0.87:
            script.append(dict(op="send", kind="cd", run="", variant="", beh="ok"))
        elif x < 0.92:
            script.append(dict(op="eof"))
            break
    return script


def has_dup(script):
    seen = set()
    for o in script:
        if o.get("op") in ("send", "partial") and o.get("kind") in ("ws", "sig") and not \
                (o["kind"] == "ws" and o.get("variant") in ("no_run", "no_step", "payload_type")) and not \
                (o["kind"] == "sig" and o.get("variant") in ("no_run", "payload_type")):
            key = (o["kind"], o["run"])
            if key in seen:
                return True
            seen.add(key)
    return False


def judge(ctx, sc, rr, cancelled=False):
    if rr.get("crash"):
        msg = rr.get("detail", "")
        first = next((l for l in msg.splitlines() if l.startswith("panic:") or l.startswith("fatal error:")), msg[:120])
        if not rr.get("reproduced") and not rr.get("frame"):
            raise common.Infra("unreproduced driver crash without SDK frame in %s: %s" % (sc.get("id"), msg[:2500]))
        ctx.violation(dict(kind="crash", message=first.strip()[:100], frame=rr.get("frame", "")),
                      dict(scenario=sc, crash=rr["crash"], detail=msg[:4000], reproduced=rr.get("reproduced")))
        return None
    res = rr["res"]
    if res.get("harness_error") or res.get("harness_panic"):
        raise common.Infra("atp driver failed: %s" % json.dumps(res)[:800])
    if res.get("follow_err"):
        raise common.Infra("atp driver: %s" % res["follow_err"])
    if res.get("stuck") or not res.get("server_ret"):
        ctx.violation(dict(kind="server_stuck", blocked="; ".join(sorted(set(
            d.split(" ")[0].split(":")[0] + " " + d.split("[")[1].split("]")[0] for d in res.get("stuck_detail", []) if "[" in d)))),
            dict(scenario=sc, stuck_detail=res.get("stuck_detail"), received=res.get("received"), last_events=(res.get("events") or [])[-12:]))
        return res
    # every accepted work-start is answered by exactly one terminal message; a work-start that could not be
    # accepted because its payload is undecodable is answered by a step-fatal error carrying its run ID
    # "problems are reported as error messages and returned ServerErrors": what RunATPServer returns tells the same
    # story as what it wrote - every error message on the wire is one of the returned ServerErrors, in the same order,
    # with the same run ID, flags and text (the returned list may have more: errors it could not send)
    wire, ret = res.get("wire_err_list") or [], res.get("server_err_list") or []
    j = 0
    for wmsg in wire:
        while j < len(ret) and ret[j] != wmsg:
            j += 1
        if j == len(ret):
            ctx.violation(dict(kind="returned_errors_differ_from_reported", reported=min(len(wire), 4), returned=min(len(ret), 4),
                               distinct_returned=min(len(set(ret)), 4)),
                          dict(scenario=sc, reported_on_the_wire=wire, returned=ret))
            break
        j += 1
    acc, term = res.get("accepted") or {}, res.get("terminals") or {}
    if cancelled:
        # after the cancellation errors are no longer forwarded: at most one terminal message per accepted work-start,
        # and exactly one for a step that succeeds (its work-done does not pass through the closure handler)
        okruns = set(o["run"] for o in sc["script"] if o.get("op") == "send" and o.get("kind") == "ws" and o.get("beh") == "ok" and not o.get("variant"))
        for r in set(acc) | set(term):
            lo = acc.get(r, 0) if r in okruns else 0
            if not (lo <= term.get(r, 0) <= acc.get(r, 0)):
                ctx.violation(dict(kind="terminal_count", accepted=min(acc.get(r, 0), 2), terminals=min(term.get(r, 0), 3), family="cancel"),
                              dict(scenario=sc, run=r, accepted=acc, terminals=term, received=res.get("received")))
                break
        return res
    malformed = {}
    for o in sc["script"]:
        if o.get("op") == "send" and o.get("kind") == "ws" and o.get("variant") == "payload_type":
            malformed[o["run"]] = malformed.get(o["run"], 0) + 1
    # a work-start that names no run or no step is reported (a step-fatal error without run ID), never started; the
    # input must not have ended or turned to garbage before it (then the server legitimately never reads it)
    runless, clean = 0, True
    for o in sc["script"]:
        if o.get("op") == "eof" or o.get("op") == "partial" or (o.get("op") == "send" and o.get("kind") in ("junk", "cd")):
            clean = False
        if clean and o.get("op") == "send" and o.get("kind") == "ws" and o.get("variant") in ("no_run", "no_run_key", "no_step"):
            runless += 1
    got = sum(1 for x in res.get("received") or [] if x == "err_step:")
    if runless and not sc.get("cut_at") and got < runless:
        ctx.violation(dict(kind="runless_work_start_not_reported", sent=min(runless, 3), reported=min(got, 3)),
                      dict(scenario=sc, received=res.get("received"), accepted=acc, terminals=term))
    for r in set(acc) | set(term):
        lo, hi = acc.get(r, 0), acc.get(r, 0) + malformed.get(r, 0)
        if not (lo <= term.get(r, 0) <= hi):
            ctx.violation(dict(kind="terminal_count", accepted=min(acc.get(r, 0), 2), terminals=min(term.get(r, 0), 3)),
                          dict(scenario=sc, run=r, accepted=acc, terminals=term, received=res.get("received")))
            break
    return res


def run(ctx):
    thorough = ctx.tier == "thorough"
    rng = random.Random(ctx.seed * 7919 + 7)
    ctx.rule = ("states = reachable states of ATPServerEnv.tla (server goroutines x workDone channel x wires x an environment "
                "sending any message sequence of the grammar up to MaxEnv, cutting a message short, ending input at any moment); "
                "traces = real server sessions (projected TLC behaviours, seeded grammar scripts, one session per byte offset of "
                "the base scripts) accepted by ATPTrace.tla; distinct = distinct client scripts (message kinds, variants, "
                "behaviours, finish positions, cut offset); non-trivial = all")
    ctx.assumptions += [
        "the client keeps reading the server's output until it closes (a client that stops reading stalls a write for at most the "
        "60 s send timeout, which is not driven)",
        "context cancellation of the server is outside the property's quantifier (modelled in ATPServerCancel.tla and bound to the code by "
        "validated sessions; only what the statement demands of any session is judged there)",
        "duplicate run IDs are exercised on the real code with the counting oracle only (the model keeps one step goroutine per run ID)",
        "design variant of the model bound to the code: %s" % json.dumps(A.DESIGN),
    ]
    # ------------------------------------------------------------ 1. exhaustive
    consts = dict(Runs="R2", StepBeh="BehAll", BadSigRuns="R1", MaxEnv=4 if thorough else 3)
    cfg = A.mc_cfg(os.path.join(ctx.tmp, "c07_mc.cfg"), consts, invariants=["EnvNoCrash", "EnvOneTerminal", "EnvNoStuck"], spec="EnvSpec")
    r = ctx.tlc("ATPServerEnvMC", cfg, workers=min(12, common.NCPU), timeout=3000, allow_violation=True, heap="24g" if thorough else None)
    ctx.log("model: %r" % r)
    cex = None
    if r.violated:
        acts = parse_acts(r.out, counterexample=True)
        cex = (r.violated, acts)
    if thorough and not cex:
        cfg = A.mc_cfg(os.path.join(ctx.tmp, "c07_live.cfg"), dict(consts, MaxEnv=3), properties=["EnvAnswers", "EnvReturns"], spec="EnvFairSpec")
        r2 = ctx.tlc("ATPServerEnvMC", cfg, workers=min(12, common.NCPU), timeout=3000, allow_violation=True, heap="24g")
        ctx.log("liveness: %r" % r2)
        if r2.violated:
            raise common.Infra("liveness violated on the model although EnvNoStuck holds:\n" + "\n".join(r2.out.splitlines()[-40:]))
    # ------------------------------------------------------------ 2. spec -> code
    scen = []
    if cex:
        scen.append(dict(id="cex/" + cex[0], mode="server", cap=0, script=script_from_behaviour(cex[1], 0)))
    # the known deviation "workDone closed when the read loop ends" (pinned server): counterexample as targeted script
    dv = A.deviation_cex(ctx, "ATPServerEnvMC", "early_close", dict(consts, MaxEnv=3, LateClose="FALSE"), ["EnvNoCrash"], spec="EnvSpec")
    scen.append(dict(id="deviation/early_close", mode="server", cap=0, script=script_from_behaviour(parse_acts(dv.out, True), 0)))
    nsim = 300 if thorough else 60
    cfg = A.mc_cfg(os.path.join(ctx.tmp, "c07_sim.cfg"), dict(Runs="R3", StepBeh="BehAll", BadSigRuns="R1", MaxEnv=6),
                   invariants=["EnvNoCrash", "EnvOneTerminal"], spec="EnvSpec")
    d = os.path.join(ctx.tmp, "sim")
    os.mkdir(d)
    ctx.tlc("ATPServerEnvMC", cfg, workers=1, simulate="file=%s/b,num=%d" % (d, nsim), depth=150, timeout=600, allow_violation=True)
    for k, f in enumerate(sorted(glob.glob(os.path.join(d, "b_*")))):
        acts = parse_acts(open(f).read(), counterexample=False)
        scen.append(dict(id="sim/%s" % os.path.basename(f), mode="server", cap=0, script=script_from_behaviour(acts, k)))
    # ------------------------------------------------------------ 3. beyond the model + every byte offset
    for i in range(600 if thorough else 120):
        dup = i % 4 == 0
        scen.append(dict(id="rand/%d%s" % (i, "d" if dup else ""), mode="server", cap=0, script=random_script(rng, dup)))
    # every (work-start variant) x (signal variant) for the SAME run ID, in both orders, with the step finishing
    # before / after the signal and before / after the end of input: two-message interactions the random grammar
    # only reaches by luck (e.g. a rejected work-start followed by a valid signal for that run)
    ws_kinds = [("ok", ""), ("declared_error", ""), ("panic", ""), ("err", ""), ("baddata", ""), ("ok", "unknown_step"), ("ok", "bad_input"), ("ok", "nil_key_input"),
                ("panic_int", ""), ("panic_err", ""), ("panic_struct", ""), ("panic_nilmap", "")]
    sig_kinds = ["", "unknown_signal", "bad_data", "nil_key", "nil_only_key"]
    for wi, (be, va) in enumerate(ws_kinds):
        for sv in sig_kinds:
            ws = dict(op="send", kind="ws", run="r2", beh=be, variant=va)
            sg = dict(op="send", kind="sig", run="r2", variant=sv, beh="ok")
            fin = dict(op="finish", run="r2")
            cd = dict(op="send", kind="cd", run="", variant="", beh="ok")
            for name, script in (("ws_sig_fin", [ws, sg, fin, cd]), ("ws_fin_sig", [ws, fin, sg, cd]), ("sig_ws_fin", [sg, ws, fin, cd]),
                                 ("ws_sig_eof_fin", [ws, sg, dict(op="eof"), fin]), ("ws_sig_sig", [ws, sg, dict(sg), fin, cd])):
                scen.append(dict(id="pair/%d-%s-%s" % (wi, sv or "valid", name), mode="server", cap=0, script=script))
    # a step whose step-data initializer panics for the first run that uses it: that run is answered by a step-fatal
    # error like any other panic, and the step stays usable - later runs of the same step are started and answered
    for name, tail in (("cd", [dict(op="send", kind="cd", run="", variant="", beh="ok")]), ("eof", [dict(op="eof")])):
        i1 = dict(op="send", kind="ws", run="r1", beh="ok", variant="init_step")
        i2 = dict(op="send", kind="ws", run="r2", beh="ok", variant="init_step")
        i3 = dict(op="send", kind="ws", run="r3", beh="ok", variant="")
        f = lambda r: dict(op="finish", run=r)
        scen.append(dict(id="initpanic/serial/%s" % name, mode="server", cap=0, script=[i1, f("r1"), i2, f("r2"), i3, f("r3")] + tail))
        scen.append(dict(id="initpanic/overlap/%s" % name, mode="server", cap=0, script=[i1, i2, i3, f("r2"), f("r1"), f("r3")] + tail))
    # a message that carries a run ID followed by messages whose envelope has no run_id key (nothing of the previous
    # message may show through), in both orders and for signals
    for va in ("no_run", "no_run_key", "no_step"):
        ws1 = dict(op="send", kind="ws", run="r1", beh="ok", variant="")
        wsx = dict(op="send", kind="ws", run="r2", beh="ok", variant=va)
        sgx = dict(op="send", kind="sig", run="r2", variant=va if va != "no_step" else "no_run", beh="ok")
        fin = dict(op="finish", run="r1")
        cd = dict(op="send", kind="cd", run="", variant="", beh="ok")
        for name, script in (("after", [ws1, wsx, dict(wsx), fin, cd]), ("before", [wsx, ws1, fin, cd]), ("between", [ws1, wsx, fin, dict(wsx), cd]),
                             ("sig_after", [ws1, sgx, fin, cd])):
            scen.append(dict(id="runless/%s/%s" % (va, name), mode="server", cap=0, script=script))
    # bursts: more runs fail at the same moment than the error queue (3) and its handler can hold, while the client is
    # slow to read: every accepted work-start still gets exactly one terminal message once the client reads on
    burst = []
    for n in ((5, 8) if not thorough else (4, 5, 6, 8, 12)):
        for be, va in (("err", ""), ("panic", ""), ("ok", "unknown_step"), ("ok", "bad_input"), ("baddata", "")):
            ids = ["r%d" % k for k in range(1, n + 1)]
            script = [dict(op="hold_reader")] + [dict(op="send", kind="ws", run=r, beh=be, variant=va) for r in ids] + \
                     [dict(op="finish", run=r) for r in ids] + [dict(op="release_reader"), dict(op="send", kind="cd", run="", variant="", beh="ok")]
            burst.append(dict(id="burst/%d/%s%s" % (n, be, va), mode="server", cap=0, script=script))
            # the same with the reader released only after the input has ended
            burst.append(dict(id="burstlate/%d/%s%s" % (n, be, va), mode="server", cap=0,
                              script=script[:-2] + [dict(op="eof"), dict(op="release_reader")]))
    bsessions = []
    for sc, rr in zip(burst, A.run_driver(ctx, burst, label="c07burst")):
        ctx.count(json.dumps(sc["script"], sort_keys=True))
        out = judge(ctx, sc, rr)
        if out is not None:
            bsessions.append((sc["id"], out["events"]))
    ok, info = A.validate(ctx, bsessions, ["r%d" % k for k in range(1, 13)], 0, [], [], label="c07bursttrace") if bsessions else (True, {})
    if ok:
        ctx.traces += len(bsessions)
    else:
        evs = next((e for sid, e in bsessions if sid == info.get("session")), [])
        ctx.violation(dict(kind="trace_" + info["kind"], event=info["line"]["ev"], violated=str(info.get("violated")), family="burst"),
                      dict(session=info.get("session"), line=info["line"], prefix=info.get("prefix"),
                           scenario=next((s for s in burst if s["id"] == info.get("session")), None),
                           events=evs[: info["event_index"] + 3], tlc=info.get("tlc_tail", "")))
    ctx.extra["burst_sessions"] = len(burst)
    # ------------------------------------------------------------ a cancelled server context (spec/ATPServerCancel.tla)
    # Not client-driven, so outside the property's quantifier: these sessions extend the binding of the specification
    # to the SIGTERM path of the code and are judged by what the statement demands of ANY session - no panic, no
    # deadlock, never more than one terminal message per accepted work-start, the server returns once the input has
    # ended and the steps have finished - plus one thing the model says survives cancellation: a successful step is
    # still answered.  That errors raised after the cancellation go unanswered is what the code does (the model says
    # so: TLC must exhibit EnvAnswers violated under CancelFairSpec) and is not reported.
    cconsts = dict(Runs="R2", StepBeh="BehAll", BadSigRuns="R1", MaxEnv=3 if thorough else 2)
    cfgc = A.mc_cfg(os.path.join(ctx.tmp, "c07_cancel.cfg"), cconsts, invariants=["EnvNoCrash", "EnvOneTerminal", "CancelNoStuck", "CancelSilent"],
                    spec="CancelSpec")
    rc = ctx.tlc("ATPServerCancelMC", cfgc, workers=min(12, common.NCPU), timeout=1500, allow_violation=True)
    ctx.log("cancel model: %r" % rc)
    if rc.violated:
        raise common.Infra("ATPServerCancel: %s violated on the model of the current code:\n%s" % (rc.violated, "\n".join(rc.out.splitlines()[-30:])))
    lconsts = dict(Runs="R1", StepBeh="BehAll", BadSigRuns="R1", MaxEnv=2)
    rl = ctx.tlc("ATPServerCancelMC", A.mc_cfg(os.path.join(ctx.tmp, "c07_cancel_live.cfg"), lconsts, properties=["CancelReturns", "CancelOkAnswered"],
                                               spec="CancelFairSpec"), workers=4, timeout=900, allow_violation=True)
    if rl.violated:
        raise common.Infra("ATPServerCancel liveness: %s violated on the model:\n%s" % (rl.violated, "\n".join(rl.out.splitlines()[-30:])))
    ru = ctx.tlc("ATPServerCancelMC", A.mc_cfg(os.path.join(ctx.tmp, "c07_cancel_unanswered.cfg"), lconsts, properties=["EnvAnswers"],
                                               spec="CancelFairSpec"), workers=4, timeout=900, allow_violation=True)
    if not ru.violated:
        raise common.Infra("ATPServerCancel: EnvAnswers holds under cancellation - the model no longer says that errors are dropped "
                           "after the context is cancelled, which is what the code does")
    cancel = []
    CX = dict(op="cancel")
    for be, va in (("ok", ""), ("err", ""), ("panic", ""), ("ok", "bad_input"), ("declared_error", "")):
        ws1 = dict(op="send", kind="ws", run="r1", beh=be, variant=va)
        ws2 = dict(op="send", kind="ws", run="r2", beh="ok", variant="")
        f1, f2 = dict(op="finish", run="r1"), dict(op="finish", run="r2")
        cd = dict(op="send", kind="cd", run="", variant="", beh="ok")
        for name, script in (("first", [CX, ws1, f1, cd]), ("running", [ws1, CX, f1, cd]), ("finished", [ws1, f1, CX, cd]),
                             ("two", [ws1, ws2, CX, f2, f1, dict(op="eof")]), ("then_more", [ws1, CX, ws2, f1, f2, cd]),
                             ("after_eof", [ws1, dict(op="eof"), CX, f1]), ("junk", [ws1, CX, dict(op="send", kind="junk", run="", variant="", beh="ok"), f1]),
                             ("sig", [ws1, CX, dict(op="send", kind="sig", run="r1", variant="bad_data", beh="ok"), f1, cd])):
            cancel.append(dict(id="cancel/%s%s/%s" % (be, va, name), mode="server", cap=0, script=script))
    csessions = []
    for sc, rr in zip(cancel, A.run_driver(ctx, cancel, label="c07cancel")):
        ctx.count(json.dumps(sc["script"], sort_keys=True))
        out = judge(ctx, sc, rr, cancelled=True)
        if out is not None and not out.get("stuck"):
            csessions.append((sc["id"], out["events"]))
    ok, info = A.validate(ctx, csessions, ["r1", "r2", "r3"], 0, [], ["r1"], label="c07canceltrace") if csessions else (True, {})
    if ok:
        ctx.traces += len(csessions)
    else:
        evs = next((e for sid, e in csessions if sid == info.get("session")), [])
        ctx.violation(dict(kind="trace_" + info["kind"], event=info["line"]["ev"], violated=str(info.get("violated")), family="cancel"),
                      dict(session=info.get("session"), line=info["line"], prefix=info.get("prefix"),
                           scenario=next((s for s in cancel if s["id"] == info.get("session")), None),
                           events=evs[: info["event_index"] + 3], tlc=info.get("tlc_tail", "")))
    ctx.extra["cancelled_context_sessions"] = len(cancel)
    base = [
        [dict(op="send", kind="ws", run="r1", beh="ok", variant=""), dict(op="send", kind="sig", run="r1", variant="", beh="ok"),
         dict(op="finish", run="r1"), dict(op="send", kind="cd", run="", variant="", beh="ok")],
        [dict(op="send", kind="ws", run="r1", beh="err", variant=""), dict(op="send", kind="ws", run="r2", beh="ok", variant="")],
    ]
    if thorough:
        base.append([dict(op="send", kind="ws", run="r1", beh="panic", variant=""), dict(op="send", kind="bad", run="r9", variant="unknown_id", beh="ok"),
                     dict(op="send", kind="sig", run="r1", variant="unknown_signal", beh="ok"), dict(op="send", kind="ws", run="r2", beh="declared_error", variant="")])
    probe = A.run_driver(ctx, [dict(id="len/%d" % i, mode="server", cap=0, script=b) for i, b in enumerate(base)], label="c07len")
    for i, (b, rr) in enumerate(zip(base, probe)):
        if rr.get("crash"):
            continue
        n = rr["res"].get("stream_len", 0)
        for cut in range(1, n):
            scen.append(dict(id="cut/%d@%d" % (i, cut), mode="server", cap=0, script=b, cut_at=cut))
            # the same cut with the running steps finishing only after the input has ended
            if any(o.get("op") == "finish" for o in b):
                scen.append(dict(id="cutlate/%d@%d" % (i, cut), mode="server", cap=0,
                                 script=[o for o in b if o.get("op") != "finish"], cut_at=cut))
    res = A.run_driver(ctx, scen, label="c07")
    sessions = []
    for sc, rr in zip(scen, res):
        ctx.count(json.dumps([sc["script"], sc.get("cut_at", 0)], sort_keys=True))
        out = judge(ctx, sc, rr)
        if out is None:
            continue
        if not has_dup(sc["script"]):
            sessions.append((sc["id"], out["events"]))
    ctx.sample(dict(kind="projected behaviour", script=scen[1]["script"] if len(scen) > 1 else None))
    ctx.sample(dict(kind="byte-offset cut", id=scen[-1]["id"], cut_at=scen[-1].get("cut_at")))
    ctx.extra["sessions_with_duplicate_run_ids"] = sum(1 for s in scen if has_dup(s["script"]))
    if cex and not ctx.violations and not ctx.known_hits:
        raise common.Infra("TLC reports %s violated on the model of the current code but the real server survived the projected "
                           "script: the specification misrepresents the code" % cex[0])
    # ------------------------------------------------------------ trace validation (batches)
    B = 150
    for i in range(0, len(sessions), B):
        batch = sessions[i:i + B]
        ok, info = A.validate(ctx, batch, ["r1", "r2", "r3"], 0, [], ["r1"], label="c07trace")
        if ok:
            ctx.traces += len(batch)
        else:
            evs = next((e for sid, e in batch if sid == info.get("session")), [])
            ctx.violation(dict(kind="trace_" + info["kind"], event=info["line"]["ev"], violated=str(info.get("violated"))),
                          dict(session=info.get("session"), line=info["line"], prefix=info.get("prefix"),
                               scenario=next((s for s in scen if s["id"] == info.get("session")), None),
                               events=evs[: info["event_index"] + 3], tlc=info.get("tlc_tail", "")))
    # ------------------------------------------------------------ the server's handshake (spec/ATPHello.tla, SSpec)
    ctx.extra["handshake_sessions_accepted"] = H.stage_server(ctx, thorough)
    ctx.exhaustive = False


_LBL2 = re.compile(r'^(?:\\\* |State \d+: )<(\w+)(?:\((.*)\))? line', re.M)


def parse_acts(text, counterexample):
    acts = []
    for m in _LBL2.finditer(text):
        name, raw = m.group(1), m.group(2) or ""
        if name == "Init":
            continue
        a = A._act(name, raw) if name != "EnvSend" else dict(a=name, r="")
        a["raw"] = raw
        acts.append(a)
    return acts


def replay(ctx, rp):
    sc = rp["replay"].get("scenario")
    if not sc:
        raise common.Infra("replay file carries no scenario")
    if sc.get("mode") in ("hello", "hello_srv"):
        H.play(ctx, [sc], "client" if sc["mode"] == "hello" else "server", "env",
               describable=sc.get("hello_bad") != "undescribable", label="replayhello")
        ctx.rule = "replay of one recorded handshake / legacy-framing session"
        ctx.sample(dict(id=sc.get("id"), ops=sc.get("ops")))
        return
    rr = A.run_driver(ctx, [sc], jobs=1)[0]
    judge(ctx, sc, rr)
    ctx.sample(dict(id=sc.get("id"), script=sc.get("script"), cut_at=sc.get("cut_at")))
    ctx.rule = "replay of one recorded client script"
