"""C19 - the code generator is total, deterministic, one typed field per property.

spec/Codegen.tla (contract: Gen, Meets, Verdict, Observe), CodegenMC.tla (every document with <= 3 objects x
<= 3 properties x every argument form, exported as vectors; Observe machine over repeated runs in one
directory, fresh or holding the output of another input: other arguments, a shorter / a longer document),
CodegenTrace.tla (recorded runs on larger random documents, in fresh directories and one after the other in
one directory); harness/cmd/codegen (runs the generator binary built from $VERIF_REPO/cmd/arcaflow-codegen as
a subprocess in temporary directories).  Two blindness laws of Codegen.tla widen the input: the schema files
carry the attributes of real schema descriptions (deco: min/max negative, zero, fractional; pattern, units,
default, required, display, conflicts / required_if, examples) of which the expectation is no function
(AttributeBlind), and the generator is also invoked as a copy at another path, by a relative path and the
documented way, "go run gen.go schema_input.yaml [ARG]" in a copy of the source directory (route), of which
the observation must be no function (InvocationBlind).
"""
import os, json, re, shutil, subprocess, glob
from vlib import common

SPECS = ["CodegenMC", "CodegenTrace"]
PKGS = ["./cmd/codegen"]

STATEMENT = ("For every schema file whose object and property names are valid identifiers, the code generator "
             "finishes without panicking - with or without an ignore argument - and emits gofmt-valid Go containing "
             "exactly one struct per non-ignored object with one JSON-tagged field per property, typed int64/float64 "
             "for integer/float, the referenced object's name for references and the type ID otherwise. Running it "
             "again on the same input produces byte-identical output.")


# ---------------------------------------------------------------------- building the code under test
def build_generator(ctx):
    """go build of <repo>/cmd/arcaflow-codegen (a separate module) from a private copy of its sources, so
    that nothing (go.sum, caches of -mod=mod) is ever written below the repository."""
    if getattr(ctx, "_c19_gen", None):
        return ctx._c19_gen
    src = os.path.join(common.REPO, "cmd", "arcaflow-codegen")
    if not os.path.isfile(os.path.join(src, "gen.go")):
        raise common.Infra("no generator source at %s" % src)
    dst = os.path.join(ctx.tmp, "codegen-src")
    os.makedirs(dst, exist_ok=True)
    for f in glob.glob(os.path.join(src, "*.go")) + [os.path.join(src, "go.mod"), os.path.join(src, "go.sum")]:
        if f.endswith("_test.go") or not os.path.isfile(f):
            continue
        shutil.copy(f, dst)
    # the binary is called what "go run gen.go" calls its executable, so that a generator that names itself by
    # the base name of argv[0] gives one output under every route
    os.makedirs(os.path.join(ctx.tmp, "genbin"), exist_ok=True)
    out = os.path.join(ctx.tmp, "genbin", "gen")
    p = subprocess.run(["go", "build", "-o", out, "."], cwd=dst, env=common.goenv(),
                       stdout=subprocess.PIPE, stderr=subprocess.STDOUT, text=True)
    if p.returncode != 0:
        raise common.Infra("go build of %s failed:\n%s" % (src, p.stdout[-3000:]))
    # the documented invocation compiles gen.go as a package of its own: done once here, so that the parallel
    # "go run gen.go ..." of the driver find it in the build cache (and a failure is Infra, not an observation)
    p = subprocess.run(["go", "build", "-o", os.devnull, "gen.go"], cwd=dst, env=common.goenv(),
                       stdout=subprocess.PIPE, stderr=subprocess.STDOUT, text=True)
    if p.returncode != 0:
        raise common.Infra("go build gen.go in a copy of %s failed:\n%s" % (src, p.stdout[-3000:]))
    ctx._c19_gen = out
    ctx._c19_gensrc = dst
    return out


def run_cases(ctx, cases, tag):
    drv = ctx.gobuild("./cmd/codegen")
    gen = build_generator(ctx)
    work = os.path.join(ctx.tmp, "work")
    os.makedirs(work, exist_ok=True)
    inp = os.path.join(ctx.tmp, "cases-%s.ndjson" % tag)
    out = os.path.join(ctx.tmp, "res-%s.ndjson" % tag)
    common.write_ndjson(inp, cases)
    ctx.run([drv, "-in", inp, "-out", out, "-j", str(min(12, common.NCPU)), "-gen", gen, "-gensrc", ctx._c19_gensrc,
             "-work", work, "-case-timeout", "240s"], timeout=1500)
    results = common.read_ndjson(out)
    if len(results) != len(cases):
        raise common.Infra("driver returned %d results for %d cases" % (len(results), len(cases)))
    return results


# ---------------------------------------------------------------------- results -> verdicts
def consume(ctx, cases, results, stats):
    """Direct observations of the harness (Go-toolchain facts and comparison with the vectors' expectation)."""
    trace = []
    for n, (case, res) in enumerate(zip(cases, results)):
        if res.get("crash"):
            # the driver itself only spawns subprocesses; its death is never the generator's doing
            raise common.Infra("driver worker %s on case %s: %s" % (res["crash"], json.dumps(case)[:200],
                                                                     res.get("detail", "")[:500]))
        r = res["res"]
        if r.get("harness_error") or r.get("harness_panic"):
            raise common.Infra("harness failure on %s: %s" % (json.dumps(case)[:200], r))
        if r.get("bind_error"):
            raise common.Infra("binding table out of date: " + r["bind_error"])
        ctx.evaluations += r.get("evals", 0)
        stats["inputs"] += r.get("inputs", 0)
        stats["lenient"] += r.get("lenient", 0)
        stats["ref_raw"] += r.get("ref_raw", 0)
        stats["ref_titled"] += r.get("ref_titled", 0)
        stats["max_variants"] = max(stats["max_variants"], r.get("max_variants", 0))
        stats["reruns"] += r.get("reruns", 0)
        stats["over_skipped"] += r.get("over_skipped", 0)
        for k, n_ in (r.get("over") or {}).items():
            stats["over"][k] = stats["over"].get(k, 0) + n_
        for what in ("attrs", "routes"):
            for k, n_ in (r.get(what) or {}).items():
                stats[what][k] = stats[what].get(k, 0) + n_
        if r.get("hash") and case.get("doc") is not None:
            stats["hashes"].setdefault(json.dumps([case["doc"], case["args"]], sort_keys=True), {})[case.get("deco", "bare")] = r["hash"]
        if r.get("typeids"):
            stats["sdk_typeids"] = r["typeids"]
        for k in r.get("keys", []):
            ctx.distinct.add(k)
        for m in r.get("mismatches", []):
            sig = m["sig"]
            if m.get("drift"):
                note_drift(ctx, stats, sig["class"], m["detail"])
                continue
            ctx.violation(sig, dict(case=m.get("case") or case, detail=m["detail"], statement=STATEMENT))
        for line in r.get("trace", []):
            line["inp"] = "%d:%s" % (n, line["inp"])
            trace.append(line)
    return trace


def validate_trace(ctx, trace, tag):
    """Code -> specification: CodegenTrace must accept every recorded run.  When it does not, the same
    specification is run once more with the Diagnose invariant, which exports its verdict for every line."""
    if not trace:
        return
    batch = 1500
    for b0 in range(0, len(trace), batch):
        part = trace[b0:b0 + batch]
        tpath = os.path.join(ctx.tmp, "codegen-trace-%s-%d.ndjson" % (tag, b0))
        common.write_ndjson(tpath, part)
        tr = ctx.tlc("CodegenTrace", "codegen_trace.cfg", workers=1, env={"VERIF_TRACE": tpath},
                     timeout=900, allow_violation=True)
        if not tr.violated:
            if tr.distinct != len(part) + 1:
                raise common.Infra("CodegenTrace consumed %d of %d lines" % (tr.distinct - 1, len(part)))
            ctx.traces += len(part)
            continue
        vpath = os.path.join(ctx.tmp, "codegen-verdicts-%s-%d.ndjson" % (tag, b0))
        dg = ctx.tlc("CodegenTrace", "codegen_trace_diag.cfg", workers=1,
                     env={"VERIF_TRACE": tpath, "VERIF_OUT": vpath}, timeout=900)
        if dg.distinct != len(part) + 1:
            raise common.Infra("CodegenTrace (diagnose) consumed %d of %d lines" % (dg.distinct - 1, len(part)))
        verdicts = {v["n"]: v for v in common.read_ndjson(vpath)}
        if sorted(verdicts) != list(range(1, len(part) + 1)):
            raise common.Infra("CodegenTrace exported %d verdicts for %d lines" % (len(verdicts), len(part)))
        rejected = 0
        # the specification's verdict on the fresh-directory run of each input (first such line)
        fresh_verdict = {}
        for i, line in enumerate(part):
            if line.get("rel", "fresh") == "fresh":
                fresh_verdict.setdefault(line["inp"], verdicts[i + 1]["verdict"])
        for i, line in enumerate(part):
            v = verdicts[i + 1]
            if v["verdict"] == "bad_trace":
                raise common.Infra("malformed trace line (document outside the premise or inconsistent input "
                                   "identity): %s" % json.dumps(line)[:600])
            if v.get("drift"):
                note_drift(ctx, None, "name_form", dict(inp=line["inp"], structs=line["structs"][:2]))
            if v.get("dupnames"):
                note_drift(ctx, None, "duplicate_names", dict(inp=line["inp"], names=[x["name"] for x in line["structs"]]))
            if v["verdict"] == "ok":
                ctx.traces += 1
                continue
            rejected += 1
            case = dict(op="doc", doc=line["doc"], args=line["args"], style=line.get("style", "block"),
                        deco=line.get("deco", "bare"), runs=max(5, line.get("runs", 5)))
            # a finding about the used directory: a run over the output file of an earlier run rejected
            # although the run of the same input in a fresh directory is accepted
            used = line.get("rel", "fresh") != "fresh" and fresh_verdict.get(line["inp"]) == "ok"
            if used and line.get("prev"):
                case = dict(op="seq", prev=line["prev"], doc=line["doc"], args=line["args"],
                            style=line.get("style", "block"), deco=line.get("deco", "bare"))
            details = [line["rel"]] if used else (v.get("details") or [""])
            routed = line.get("route", "binary") != "binary" and v["verdict"] == "nondeterministic_bytes"
            if routed:      # the same input under another invocation route gave other bytes
                case = dict(case, route=line["route"])
            if v["verdict"] == "wrong_field_type" and v.get("carried") and not used:
                details = [d + "+id" for d in details]
            for d in details:
                sig = dict(op="run_over_existing" if used else "run", **{"class": v["verdict"]},
                           args=v["form"], shape=v["shape"], detail=d)
                if used:
                    sig["schema"] = line.get("schema", "untouched")   # (a rerun in place leaves it untouched)
                if routed:
                    sig["route"] = line["route"]
                ctx.violation(sig,
                              dict(case=case, trace_line=line, statement=STATEMENT,
                                   note="CodegenTrace rejects this recorded run: " + v["verdict"]))
        if rejected == 0:
            raise common.Infra("CodegenTrace: Accepted failed but Diagnose found every line ok")


def note_drift(ctx, stats, what, sample):
    """At most two samples per class of drift in the evidence; the totals go to coverage.drift_counts."""
    counts = ctx.extra.setdefault("drift_counts", {})
    counts[what] = counts.get(what, 0) + 1
    if counts[what] <= 2:
        ctx.note_drift(what, sample)


def new_stats():
    return dict(inputs=0, lenient=0, ref_raw=0, ref_titled=0, max_variants=0, sdk_typeids=None,
                reruns=0, over_skipped=0, over={}, attrs={}, routes={}, hashes={})


def run(ctx):
    thorough = ctx.tier == "thorough"
    runs = 25 if thorough else 5
    ctx.rule = ("every initial state of CodegenMC is one input (document with 0..3 objects x 0..3 properties, the "
                "properties' types taken from a cyclic sequence of all 15 type IDs - each non-reference type ID "
                "without and with an id of its own (inline object carrying its ID) - and references to each object / "
                "to an undeclared object started at every offset in Rots; argument form: none, ignore each object, "
                "ignore an absent name; one attribute decoration per input going round the four, all four for the "
                "documents of SeqSchemes x SeqRots without argument; the fullest document of each size also under "
                "the routes binary_copy, binary_relative, go_run, two runs each against the pre-built binary's); "
                "each input is run %d times in a private directory (even runs: output file "
                "removed first; odd runs: over the output of the run before); every Prepare successor is the same "
                "input in a directory that holds the output of another input (each other argument form of the "
                "document; the document without its last object / with one more object): earlier run, then the "
                "input in the same directory (the schema file written once and older than the output when only the "
                "arguments differ, replaced and newer when the document does), compared with exp and with the bytes "
                "of a fresh directory; plus seeded "
                "random documents (<= 8 objects x <= 8 properties, arbitrary identifiers, three YAML styles, a random "
                "decoration; the first of each case also under the other routes) x 3 "
                "argument forms in fresh directories and once more one after the other (and with the document cut "
                "by an object) in one directory; distinct = distinct (type assignment of the document, argument "
                "form, which object is ignored, [what the directory held, its length against the output,] outcome "
                "class); non-trivial = all (the empty document is one key)" % runs)
    stats = new_stats()
    vec = os.path.join(ctx.tmp, "codegen-vectors.ndjson")
    r = ctx.tlc("CodegenMC", "codegen_thorough.cfg" if thorough else "codegen_quick.cfg",
                workers=8, env={"VERIF_OUT": vec}, timeout=1200)
    ctx.log("CodegenMC:", r)
    vectors = common.read_ndjson(vec)
    m = re.search(r"Finished computing initial states: (\d+) states? generated, with (\d+) of them distinct", r.out) \
        or re.search(r"Finished computing initial states: (\d+) distinct states? generated", r.out)
    if not m:
        raise common.Infra("cannot find the number of initial states in TLC's output")
    ninit = int(m.group(m.lastindex))
    # one vector per state before the first run: the initial states (fresh directory) and their Prepare
    # successors (the directory holds the output of prev)
    routed = [v for v in vectors if v["route"] != "binary"]
    plain = [v for v in vectors if v["prev"]["args"]["form"] == "fresh" and v["route"] == "binary"]
    used_dir = [v for v in vectors if v["prev"]["args"]["form"] != "fresh"]
    if len(plain) + len(used_dir) + len(routed) != len(vectors):
        raise common.Infra("a vector both of a used directory and of another invocation route")
    if len(plain) != ninit:
        raise common.Infra("TLC has %d initial states but exported %d vectors of a fresh directory" % (ninit, len(plain)))
    inputs = {json.dumps([v["doc"], v["args"]], sort_keys=True) for v in plain}
    for v in used_dir + routed:
        if json.dumps([v["doc"], v["args"]], sort_keys=True) not in inputs:
            raise common.Infra("a vector of a used directory / another route has no vector of the same input in a "
                               "fresh directory by the pre-built binary")
    if not routed:
        raise common.Infra("CodegenMC exported no vector of another invocation route")
    if not used_dir:
        raise common.Infra("CodegenMC exported no vector of a used directory (SeqSchemes / SeqRots empty?)")
    for v in vectors:
        v["runs"] = runs
    cases = [dict(op="bind", repo=common.REPO)] + vectors
    results = run_cases(ctx, cases, "vec")
    consume(ctx, cases, results, stats)
    ctx.exhaustive = True
    ctx.traces += len(vectors)
    for c in (plain[0], plain[len(plain) // 2], used_dir[len(used_dir) // 2]):
        ctx.sample(c)
    # binding: the enumerated universe uses exactly the SDK's type IDs
    used = sorted({p["tid"] for v in vectors for o in v["doc"] for p in o["props"]})
    if used != stats["sdk_typeids"]:
        raise common.Infra("binding table out of date: CodegenMC enumerates type IDs %s, the SDK declares %s"
                           % (used, stats["sdk_typeids"]))
    # vacuity: every type ID other than ref occurs with an id of its own; runs over a longer and over a
    # shorter output both happened
    with_id = sorted({p["tid"] for v in vectors for o in v["doc"] for p in o["props"] if p["tid"] != "ref" and p["ref"]})
    if with_id != [t for t in stats["sdk_typeids"] if t != "ref"]:
        raise common.Infra("CodegenMC enumerates an id of its own only with the type IDs %s" % with_id)
    for rel in ("over_longer_output", "over_shorter_output", "schema_untouched", "schema_replaced"):
        if not stats["over"].get(rel):
            raise common.Infra("no run %s among the vectors of a used directory: %s" % (rel, stats["over"]))
    # (runs not judged - the earlier or the fresh run failed, reported by that input's own vector - are not counted)
    if stats["over_skipped"] == 0 and \
            sum(1 for v in used_dir if v["schema"] == "untouched") != stats["over"]["schema_untouched"]:
        raise common.Infra("vectors with an untouched schema file: specification %d, driver %d"
                           % (sum(1 for v in used_dir if v["schema"] == "untouched"), stats["over"]["schema_untouched"]))
    # vacuity of the two blindness laws: every decoration and every route ran, the attributes that matter were
    # written (negative / zero / fractional limits, units, multi-line display, defaults, relations), and the same
    # document ran under every decoration
    for d in ("bare", "limits", "attributes", "full"):
        if not stats["attrs"].get("deco_" + d):
            raise common.Infra("no vector rendered with the decoration %s: %s" % (d, stats["attrs"]))
    for a in ("integer_min_negative", "integer_max_negative", "integer_limits_zero", "float_min_negative_fraction",
              "float_limits_zero_fraction", "string_size_pattern", "list_size", "map_size", "units",
              "display_multiline", "default_negative", "relations"):
        if not stats["attrs"].get(a):
            raise common.Infra("no vector carries the attribute kind %s: %s" % (a, stats["attrs"]))
    for rt in ("binary_copy", "binary_relative", "go_run"):
        if not stats["routes"].get(rt):
            raise common.Infra("no run under the invocation route %s: %s" % (rt, stats["routes"]))
    all_decos = [h for h in stats["hashes"].values() if len(h) == 4]
    if not all_decos:
        raise common.Infra("no input ran under all four decorations")
    n_attr_bytes = sum(1 for h in all_decos if len(set(h.values())) > 1)
    if n_attr_bytes:    # not excluded by the statement (a comment made from an attribute): drift
        note_drift(ctx, stats, "attributes_in_output", dict(inputs=n_attr_bytes, of=len(all_decos)))
    attrs_vec, routes_vec = dict(stats["attrs"]), dict(stats["routes"])
    over_vec = dict(stats["over"])
    ctx.log("vectors: %d under another route %s; decorations and attribute kinds %s" % (len(routed), routes_vec, attrs_vec))
    ctx.log("vectors: %d inputs in a fresh directory, %d in a used directory %s (%d not judged), %d generator runs so far"
            % (len(plain), len(used_dir), over_vec, stats["over_skipped"], ctx.evaluations))

    # code -> spec: random documents beyond the enumerated universe
    ncases, per = (120, 8) if thorough else (36, 5)
    rcases = [dict(op="rand", seed=ctx.seed * 100000 + i, count=per, maxobjs=8, maxprops=8, runs=runs)
              for i in range(ncases)]
    nvec_inputs = stats["inputs"]
    rres = run_cases(ctx, rcases, "rand")
    trace = consume(ctx, rcases, rres, stats)
    ctx.sample(rcases[0])
    if trace:
        ctx.sample({k: trace[0][k] for k in ("ev", "inp", "run", "args", "structs", "hash")})
    ctx.log("random documents: %d inputs, %d recorded runs to validate" % (stats["inputs"] - nvec_inputs, len(trace)))
    validate_trace(ctx, trace, "rand")

    ctx.extra.update(dict(
        generator_source=os.path.join(common.REPO, "cmd", "arcaflow-codegen"),
        inputs=stats["inputs"], runs_per_input=runs,
        outcomes_left_open_by_the_statement=stats["lenient"],
        reference_spelling=dict(raw=stats["ref_raw"], title_cased=stats["ref_titled"]),
        most_distinct_outputs_for_one_input=stats["max_variants"],
        vectors=dict(fresh_directory=len(plain), used_directory=len(used_dir)),
        runs_over_the_output_of_the_same_input=stats["reruns"],
        runs_over_the_output_of_another_input=dict(vectors=over_vec,
                                                   random={k: n_ - over_vec.get(k, 0) for k, n_ in stats["over"].items()},
                                                   not_judged=stats["over_skipped"]),
        type_ids_with_an_id_of_their_own=with_id,
        attribute_blind=dict(inputs_by_decoration_and_attribute_kinds_written=dict(vectors=attrs_vec,
                                 random={k: n_ - attrs_vec.get(k, 0) for k, n_ in stats["attrs"].items()}),
                             inputs_run_under_all_decorations=len(all_decos),
                             of_which_bytes_differ_between_decorations=n_attr_bytes),
        invocation_blind=dict(vectors=len(routed), runs_by_route=dict(vectors=routes_vec,
                                 random={k: n_ - routes_vec.get(k, 0) for k, n_ in stats["routes"].items()})),
        instruments="exit status / stderr of the subprocess, go/parser + go/format (gofmt validity, struct "
                    "extraction), SHA-256 over typedef_output.go; the TLA+ part is an oracle and a history "
                    "machine, not a protocol model",
    ))
    ctx.assumptions += [
        "premise of C19: object and property names are Go identifiers (not keywords); names stay distinct after "
        "title-casing (case-insensitive keys distinct), otherwise 'exactly one struct per object' is undecidable "
        "from the output",
        "struct and field names are matched case-insensitively; a spelling other than 'first letter upper-cased' "
        "is drift, not a violation (the statement does not fix the spelling)",
        "'the referenced object's name' accepts the name as written and its title-cased form",
        "a type ID that is a Go keyword (map) cannot be both the field's type and gofmt-valid: the field's type "
        "and a clean error exit are left open there; a panic is still a violation",
        "the order of structs and fields is not fixed by the statement, only that it is the same on every run; "
        "%d runs per input bound the chance of missing an order that varies" % runs,
        "the YAML text is rendered by the harness (block, block with the further keys a real schema carries, "
        "flow) and checked by re-parsing with yaml.v3",
        "the input of the generator is the schema file and the arguments: what typedef_output.go held before the "
        "run is no part of it, so a run over the output of an earlier run (other arguments, another document, the "
        "same input) must give the bytes of a run in a fresh directory; the arguments are part of the input, so "
        "this holds with an untouched schema file that is older than the output as well (modification times are "
        "set by the harness to the true order of events: schema written, then output generated)",
        "a type other than ref that carries an id (type_id: object, id: Inner) is not a reference: its field is "
        "typed by the type ID",
        "AttributeBlind: the attributes a schema file carries besides object names, property names, type IDs and ids "
        "(min/max, pattern, units, default, required, display, relations, examples) change neither that the "
        "generator finishes nor the structs demanded; a failure of a decorated file whose bare rendering runs clean "
        "carries the decoration in its signature; bytes that differ between decorations are drift",
        "InvocationBlind: argv[0] is no part of the input: the pre-built binary (named gen, as under go run), a copy "
        "of it in another directory, a relative path to it and 'go run gen.go schema_input.yaml [ARG]' in a copy of "
        "the source directory must give the same bytes for the same schema file and arguments",
    ]


def replay(ctx, rp):
    case = rp["replay"].get("case")
    if case is None:
        raise common.Infra("replay file has no case")
    case = {k: v for k, v in case.items() if v is not None}
    case["runs"] = max(25, int(case.get("runs") or 0))     # an order that varies shows with near certainty
    stats = new_stats()
    cases = [case]
    results = run_cases(ctx, cases, "replay")
    trace = consume(ctx, cases, results, stats)
    validate_trace(ctx, trace, "replay")
    ctx.sample({k: case[k] for k in case if k in ("op", "doc", "args", "style", "runs")})
    ctx.rule = "replay of one recorded input (document, argument form), run %s times" % case.get("runs")
