"""The sequential parts of an ATP session (spec/ATPHello.tla): handshake at both ends and Execute over the legacy
(v1) framing.  Shared by C05 (faithful v1 peer: transparency, no cross-talk between overlapping calls), C08 (client
against any stream during the handshake and over v1) and C07 (server handshake against any client).

  1. TLC checks the configuration exhaustively (a few thousand states);
  2. spec -> code: TLC behaviours are projected to the operations of the environment and the starts of the client's
     calls and played against the real client / server (harness/cmd/atp modes hello, hello_srv), which settles after
     every operation;
  3. code -> spec: the hook trace of every session is validated by ATPHelloTrace.tla, with the safety properties
     evaluated in every state; what Execute / ReadSchema / RunATPServer really returned is part of the trace.
Verdicts: a stuck call, a crash, or a real session the specification rejects.
"""
import os, re, json, glob
from vlib import common
from props import atp_common as A

# which variant of ATPHello.tla the CURRENT client implements (flipped together with the repair 9e003bf)
DESIGN = dict(LockFirst=True, OneDecoder=True)

SPECS = ["ATPHelloMC", "ATPHelloTraceMC"]


def cfg(path, spec, calls, serial, peer, invariants=(), properties=(), lockfirst=None, describable=True, trace=False, onedecoder=None):
    lf = DESIGN["LockFirst"] if lockfirst is None else lockfirst
    od = DESIGN["OneDecoder"] if onedecoder is None else onedecoder
    with open(path, "w") as f:
        f.write("SPECIFICATION %s\nCONSTANTS\n  Calls <- %s\n  Serial = %s\n  Peer = \"%s\"\n  LockFirst = %s\n  Describable = %s\n  OneDecoder = %s\n" % (
            spec, calls, "TRUE" if serial else "FALSE", peer, "TRUE" if lf else "FALSE", "TRUE" if describable else "FALSE",
            "TRUE" if od else "FALSE"))
        if trace:
            f.write("CONSTRAINT HighWater\nINVARIANT TraceInv\nPOSTCONDITION Accepted\n")
        if invariants:
            f.write("INVARIANTS " + " ".join(invariants) + "\n")
        if properties:
            f.write("PROPERTIES " + " ".join(properties) + "\n")
    return path


C_INV = ["CTypeOK", "HelloHonest", "HsErrHasReason", "NoFabrication", "ReturnsOnce", "FailNotHang", "OneReader"]
V1_INV = ["CTypeOK", "HelloHonest", "NoFabrication", "ReturnsOnce", "OneReader", "V1Transparent", "V1NoCrossTalk"]
S_INV = ["STypeOK", "SrvOneError", "HelloAfterStart", "SrvTotal", "NothingSwallowed"]

_BLK = re.compile(r"(?m)^(?:\\\* |State \d+: )<(\w+)(?:\((.*)\))? line")


def _hello_kind(arg):
    if '"junk"' in arg:
        return "junk"
    if '"part"' in arg:
        return "part"
    if '"wd"' in arg:
        return "wd"
    v = re.search(r"ver \|-> (\d+)", arg).group(1)
    s = re.search(r'sch \|-> "(\w+)"', arg).group(1)
    return ("ok" if s == "ok" else "bad") + v


def _answer_kind(arg):
    for k in ("junk", "part", "wd"):
        if '"%s"' % k in arg:
            return k
    raise common.Infra("unparsed answer kind: " + arg)


def ops_from_labels(text, side):
    ops, hs = [], False
    for m in _BLK.finditer(text):
        name, arg = m.group(1), m.group(2) or ""
        if side == "client":
            if name == "HsSend" and not hs:
                hs = True
                ops.append(dict(op="hs"))
            elif name == "EnvHello":
                ops.append(dict(op="env_hello", kind=_hello_kind(arg)))
            elif name == "V1Begin":
                ops.append(dict(op="exec", run=arg.strip().strip('"')))
            elif name == "EnvAnswer":
                ops.append(dict(op="env_answer", kind=_answer_kind(arg)))
            elif name == "EnvEnd":
                ops.append(dict(op="env_end", kind=arg.strip().strip('"')))
            elif name == "EnvFailWrites":
                ops.append(dict(op="env_fail_writes"))
        else:
            if name == "CliSend":
                k = re.search(r't \|-> "(\w+)"', arg).group(1)
                ops.append(dict(op="cli_send", kinds=[k]))
            elif name == "CliEnd":
                ops.append(dict(op="cli_end"))
            elif name == "OutFails":
                ops.append(dict(op="out_fail"))
    return ops


def behaviours(ctx, name, cfgpath, side, n, depth=60):
    d = os.path.join(ctx.tmp, "hello_sim_" + name)
    os.mkdir(d)
    ctx.tlc("ATPHelloMC", cfgpath, workers=1, simulate="file=%s/b,num=%d" % (d, n), depth=depth, timeout=300, allow_violation=True)
    out, seen = [], set()
    for f in sorted(glob.glob(os.path.join(d, "b_*"))):
        ops = ops_from_labels(open(f).read(), side)
        key = json.dumps(ops)
        if ops and key not in seen:
            seen.add(key)
            out.append(ops)
    return out


_HK = {"junk": ("junk", 0), "part": ("part", 0), "wd": ("wd", 0)}
for _v in (0, 1, 2, 3, 4, 99):
    _HK["ok%d" % _v] = ("ok", _v)
    _HK["bad%d" % _v] = ("bad", _v)


def L(ev, r="", k="", n=0, b=False):
    return dict(ev=ev, r=r, k=k, n=n, b=b)


def client_lines(res):
    """the session's hook events -> trace lines of ATPHelloTrace.tla"""
    out = [L("reset", k="client")]
    wfail = set()      # goroutines whose current write failed (the transport logs it inside sendCBOR's critical section)
    for e in res.get("events") or []:
        ev, kv, role = e["ev"], e.get("kv") or {}, e.get("role", "")
        if ev == "c.send":
            wfail.discard(e.get("g"))
        elif ev == "t.c2s.wfail":
            wfail.add(e.get("g"))
        elif ev == "c.sent" and kv.get("kind") == "start":
            out.append(L("c.hs.send", b=e.get("g") in wfail))
        elif ev == "c.sent" and kv.get("kind") == "v1ws":
            out.append(L("c.v1send", r=A.role_run(role), b=e.get("g") in wfail))
        elif ev == "c.hs.ret":
            out.append(L("c.hs.ret", k="ok" if kv.get("ok") else kv.get("at", ""), n=int(kv.get("ver", 0) or 0)))
        elif ev == "c.exec":
            out.append(L("c.exec", r=kv.get("run", "")))
        elif ev == "c.v1lock":
            out.append(L("c.v1lock", r=kv.get("run", "")))
        elif ev == "c.v1decode":
            out.append(L("c.v1decode", r=kv.get("run", ""), b=bool(kv.get("err"))))
        elif ev == "f.hello":
            k, n = _HK[kv["kind"]]
            out.append(L("f.hello", k=k, n=n))
        elif ev == "f.answer":
            out.append(L("f.answer", k=kv["kind"], r=kv.get("run", "")))
        elif ev == "f.end":
            out.append(L("f.end", k=kv["kind"]))
        elif ev == "f.failwrites":
            out.append(L("f.failwrites"))
    for rid, e in sorted(res["results"].items()):
        if rid == "#schema" or e["st"] == "none":
            continue
        out.append(L("x.result", r=rid, k="ok" if e["st"] == "ok" else "err", b=bool(e.get("token_ok"))))
    return out


def server_lines(res):
    out = [L("reset", k="server")]
    for e in res.get("events") or []:
        ev, kv = e["ev"], e.get("kv") or {}
        if ev == "e.send":
            out.append(L("e.send", k=kv["kind"], r=kv.get("run", "")))
        elif ev == "s.recv" and "err" not in kv:
            # what the read loop decoded: a work-start with its run ID, or (an empty message) another start item
            mid = int(kv.get("id", 0) or 0)
            out.append(L("s.recv", k="ws" if mid == 1 else ("start" if mid == 0 else "id%d" % mid), r=kv.get("run", "")))
        elif ev == "e.end":
            out.append(L("e.end"))
        elif ev == "e.outfail":
            out.append(L("e.outfail"))
        elif ev == "s.hs":
            out.append(L("s.hs", k=kv.get("at", ""), b=bool(kv.get("ok"))))
    if res.get("server_ret"):
        out.append(L("s.ret", n=int(res.get("server_errs", 0)), b="hello" in (res.get("received") or [])))
    return out


def judge(ctx, sc, rr, side, peer="env"):
    """verdicts of the real run; returns the result record or None"""
    if rr.get("crash"):
        msg = rr.get("detail", "")
        first = next((l for l in msg.splitlines() if l.startswith("panic:") or l.startswith("fatal error:")), msg[:120])
        if not rr.get("reproduced") and not rr.get("frame"):
            raise common.Infra("unreproduced driver crash without SDK frame in %s: %s" % (sc.get("id"), msg[:2500]))
        ctx.violation(dict(kind="crash", message=first.strip()[:100], frame=rr.get("frame", ""), part="hello"),
                      dict(scenario=sc, crash=rr["crash"], detail=msg[:4000], reproduced=rr.get("reproduced")))
        return None
    res = rr["res"]
    if res.get("harness_error") or res.get("harness_panic"):
        raise common.Infra("atp driver failed: %s" % json.dumps(res)[:800])
    if res.get("follow_err"):
        raise common.Infra("atp driver (%s): %s" % (sc.get("id"), res["follow_err"]))
    if res.get("stuck"):
        ctx.violation(dict(kind="stuck", part="hello/" + side, blocked="; ".join(sorted(set(
            d.split(" ")[0].split(":")[0] + " " + d.split("[")[1].split("]")[0] for d in res.get("stuck_detail", []) if "[" in d)))),
            dict(scenario=sc, stuck_detail=res.get("stuck_detail"), results=res.get("results"), last_events=(res.get("events") or [])[-12:]))
        return None
    if side == "client":
        hk = [o.get("kind") for o in sc.get("ops", []) if o.get("op") == "env_hello"]
        if hk and hk[0] not in ("ok1", "ok3") and (res["results"].get("#schema") or {}).get("st") == "ok":
            # ReadSchema reports success although what it was sent is not an intact hello of a supported version
            # carrying a usable schema
            ctx.violation(dict(kind="handshake_accepted", hello=hk[0], part="hello"), dict(scenario=sc, results=res["results"]))
        for rid, e in res["results"].items():
            if rid != "#schema" and e["st"] != "none" and e["returns"] != 1:
                ctx.violation(dict(kind="returns", n=min(e["returns"], 2), part="hello"), dict(scenario=sc, results=res["results"]))
            if rid != "#schema" and peer == "v1" and e["st"] == "ok" and not e.get("token_ok"):
                # a faithful v1 plugin answered every work-start with its own result: this call got another call's
                ctx.violation(dict(kind="result_of_another_call", framing="v1"),
                              dict(scenario=sc, run=rid, got=e.get("got"), results=res["results"]))
            if rid != "#schema" and peer == "v1" and e["st"] not in ("ok", "none"):
                ctx.violation(dict(kind="lost_result", framing="v1"), dict(scenario=sc, run=rid, results=res["results"]))
    if side == "server":
        server_oracle(ctx, sc, res)
    return res


def server_oracle(ctx, sc, res):
    """independent of the specification: the first well-formed item is the start message; every work-start written
    cleanly behind it - in the same Write or a later one - is answered exactly once while the output is open"""
    sent = [(e["kv"]["kind"], e["kv"].get("run", "")) for e in res.get("events") or [] if e["ev"] == "e.send"]
    rec = res.get("received") or []
    if "hello" not in rec or not res.get("server_ret") or any(o.get("op") == "out_fail" for o in sc.get("ops", [])):
        return
    given = []
    for k, r in sent[1:]:
        if k in ("junk", "part"):
            break
        given.append((k, r))
    seen = [e["kv"].get("run", "") for e in res.get("events") or [] if e["ev"] == "s.recv" and "err" not in (e.get("kv") or {})]
    if len(seen) != len(given) or any(a != b[1] for a, b in zip(seen, given)):
        ctx.violation(dict(kind="read_loop_not_given_what_was_sent", part="hello/server", given=len(given), seen=len(seen)),
                      dict(scenario=sc, sent=sent, seen=seen, received=rec))
        return
    for k, r in given:
        n = sum(1 for m in rec if m in ("wd:" + r, "err_step:" + r))
        if k == "ws" and n != 1:
            ctx.violation(dict(kind="work_start_answers", part="hello/server", n=min(n, 2)),
                          dict(scenario=sc, run=r, sent=sent, received=rec))
            return


def validate(ctx, sessions, peer, serial=False, describable=True, label="hellotrace"):
    """sessions: list of (scenario, lines).  One TLC start; returns None or the rejection info"""
    lines, owner = [], []
    for sc, ls in sessions:
        for i, ln in enumerate(ls):
            lines.append(ln)
            owner.append((sc, i))
    if not lines:
        return None
    tpath = os.path.join(ctx.tmp, "%s-%d.ndjson" % (label, len(ctx.tlc_runs)))
    common.write_ndjson(tpath, lines)
    c = cfg(tpath + ".cfg", "TSpec", "R3", serial, peer, describable=describable, trace=True)
    r = ctx.tlc("ATPHelloTraceMC", c, workers=1, env={"VERIF_TRACE": tpath}, timeout=600, dfs=True, allow_violation=True, coverage=False)
    m = re.search(r'<<"HIGHWATER", (\d+), (\d+)>>', r.out)
    hw = int(m.group(1)) if m else None
    if r.ok and hw == len(lines) + 1:
        return None
    info = dict(lines=len(lines), violated=r.violated, highwater=hw)
    if r.violated and r.violated != "postcondition":
        ml = re.findall(r"\n/\\ l = (\d+)", r.out)
        idx = int(ml[-1]) - 1 if ml else (hw or 1) - 1
        info["kind"] = "invariant"
        info["tlc_tail"] = "\n".join(r.out.splitlines()[-30:])
    else:
        idx = hw or 1
        info["kind"] = "rejected"
    idx = max(1, min(idx, len(lines)))
    info["line"] = lines[idx - 1]
    info["scenario"], info["line_index"] = owner[idx - 1]
    info["prefix"] = lines[max(0, idx - 8):idx - 1]
    return info


def play(ctx, scen, side, peer, serial=False, describable=True, label="hello"):
    """run scenarios on the real code, judge, validate the traces; returns the number of accepted sessions"""
    res = A.run_driver(ctx, scen, label=label)
    sessions = []
    for sc, rr in zip(scen, res):
        ctx.count(json.dumps([side, sc["ops"], sc.get("hello_bad")], sort_keys=True))
        out = judge(ctx, sc, rr, side, peer)
        if out is None:
            continue
        sessions.append((sc, client_lines(out) if side == "client" else server_lines(out)))
    n = 0
    B = 150
    for i in range(0, len(sessions), B):
        batch = sessions[i:i + B]
        info = validate(ctx, batch, peer, serial=serial, describable=describable, label=label + "trace")
        if info is None:
            n += len(batch)
            continue
        ctx.violation(dict(kind="trace_" + info["kind"], event=info["line"]["ev"], violated=str(info.get("violated")), part="hello/" + side),
                      dict(scenario=info["scenario"], line=info["line"], prefix=info.get("prefix"), tlc=info.get("tlc_tail", ""),
                           lines=next(ls for sc, ls in batch if sc is info["scenario"])))
    ctx.traces += n
    return n


def tlc_exhaustive(ctx, name, spec, calls, serial, peer, invariants=(), properties=(), lockfirst=None, describable=True, expect=None,
                   onedecoder=None):
    c = cfg(os.path.join(ctx.tmp, "hello_%s.cfg" % name), spec, calls, serial, peer, invariants, properties, lockfirst, describable,
            onedecoder=onedecoder)
    r = ctx.tlc("ATPHelloMC", c, workers=4, timeout=600, allow_violation=True)
    ctx.log("ATPHello %s: %r" % (name, r))
    if expect is None and r.violated:
        raise common.Infra("ATPHello/%s: %s violated on the model of the current code:\n%s" % (name, r.violated, "\n".join(r.out.splitlines()[-40:])))
    if expect is not None and r.violated != expect:
        raise common.Infra("ATPHello/%s: the deviation no longer violates %s (got %s): the specification cannot express the known "
                           "defect any more" % (name, expect, r.violated))
    return r


# ---------------------------------------------------------------------------------------------- stages
def stage_client_env(ctx, thorough):
    """C08: the client's handshake and legacy-framing calls against any stream"""
    tlc_exhaustive(ctx, "client_env", "CSpec", "R2", False, "env", C_INV)
    if thorough:
        tlc_exhaustive(ctx, "client_env3", "CSpec", "R3", False, "env", C_INV)
        tlc_exhaustive(ctx, "client_env_live", "CFairSpec", "R2", False, "env", properties=["EndedImpliesReturns"])
    c = cfg(os.path.join(ctx.tmp, "hello_client_sim.cfg"), "CSpec", "R3", False, "env", C_INV)
    beh = behaviours(ctx, "client", c, "client", 1500 if thorough else 300)
    scen = [dict(id="hello/sim%d" % i, mode="hello", ops=ops) for i, ops in enumerate(beh)]
    ctx.sample(dict(kind="projected handshake / v1 behaviour", ops=scen[0]["ops"][:12]))
    return play(ctx, scen, "client", "env", label="c08hello")


def stage_v1(ctx, thorough):
    """C05: a faithful v1 plugin: every call gets its own result, overlapping or not"""
    tlc_exhaustive(ctx, "v1_serial", "CSpec", "R3", True, "v1", V1_INV)
    tlc_exhaustive(ctx, "v1_conc", "CSpec", "R3", False, "v1", V1_INV)
    tlc_exhaustive(ctx, "v1_live", "CFairSpec", "R2", False, "v1", properties=["EventuallyReturns"])
    # the named deviation (read locked only): TLC must exhibit the cross-talk
    tlc_exhaustive(ctx, "v1_conc_readlock", "CSpec", "R2", False, "v1", ["V1NoCrossTalk"], lockfirst=False, expect="V1NoCrossTalk")
    c = cfg(os.path.join(ctx.tmp, "hello_v1_sim.cfg"), "CSpec", "R3", False, "v1", V1_INV)
    beh = behaviours(ctx, "v1", c, "client", 400 if thorough else 120)
    scen = [dict(id="v1/sim%d" % i, mode="hello", ops=ops) for i, ops in enumerate(beh)]
    # overlapping calls in chosen orders: one gate occurrence of one call is held while the others run on, and is
    # released before, between or after the answers (this is where the read-lock-only deviation swaps results)
    pre = [dict(op="hs"), dict(op="env_hello", kind="ok1")]
    ex = [dict(op="exec", run=r) for r in ("r1", "r2", "r3")]
    ans = [dict(op="env_answer", kind="wd")] * 3
    for key in ("c.v1lock.pre|r1", "c.v1lock.pre|r2", "c.v1decode.pre|r1", "c.v1decode.pre|r2", "c.send.pre|v1ws|"):
        for nth in ((1, 2, 3) if key.startswith("c.send") else (1,)):
            for rel in range(0, 4):
                # (answers for which no work-start has arrived yet are skipped by the harness: three more follow)
                ops = pre + ex + ans[:rel] + [dict(op="release")] + ans[rel:] + ans
                scen.append(dict(id="v1/hold/%s#%d/rel%d" % (key, nth, rel), mode="hello", ops=ops, delay_key=key, delay_nth=nth))
    return play(ctx, scen, "client", "v1", label="c05hello")


def coalesced(ops):
    """the same client behaviour with consecutive sends issued as ONE Write: the server's decoder gets the items
    with one Read (a client need not wait for the hello before it writes its first work-start)"""
    out = []
    for o in ops:
        if o["op"] == "cli_send" and out and out[-1]["op"] == "cli_send":
            out[-1] = dict(op="cli_send", kinds=out[-1]["kinds"] + o["kinds"])
        else:
            out.append(dict(o))
    return out


def stage_server(ctx, thorough):
    """C07: the server's handshake against any client, and the hand-over of the stream to the read loop"""
    tlc_exhaustive(ctx, "server", "SSpec", "None", True, "env", S_INV)
    tlc_exhaustive(ctx, "server_undesc", "SFairSpec", "None", True, "env", S_INV, ["SrvEventuallyDecides"], describable=False)
    tlc_exhaustive(ctx, "server_live", "SFairSpec", "None", True, "env", properties=["SrvEventuallyDecides", "LoopSeesAll"])
    # the named deviation (a decoder of its own for the handshake): TLC must exhibit the swallowed message
    tlc_exhaustive(ctx, "server_own_decoder", "SSpec", "None", True, "env", ["NothingSwallowed"], onedecoder=False, expect="NothingSwallowed")
    n = 0
    S, W, J, P = "start", "ws", "junk", "part"
    hand = [[[S, W]], [[S, W, W]], [[S, W], [W]], [[W, W]], [[S, S, W]], [[S, W, J]], [[S, W, P]], [[S], [W, W]], [[S, W, W, W, W]],
            [[S, W], [W, W], [W]], [[J]], [[S, W, S, W]]]
    for desc in (True, False):
        c = cfg(os.path.join(ctx.tmp, "hello_srv_sim_%s.cfg" % desc), "SSpec", "None", True, "env", S_INV, describable=desc)
        beh = behaviours(ctx, "srv%s" % desc, c, "server", 400 if thorough else 150, depth=20)
        scen = [dict(id="hello_srv/%s/sim%d" % ("d" if desc else "u", i), mode="hello_srv", ops=ops,
                     hello_bad="" if desc else "undescribable") for i, ops in enumerate(beh)]
        seen = set(json.dumps(o) for o in beh)
        for i, ops in enumerate(beh):
            co = coalesced(ops)
            if json.dumps(co) not in seen:
                seen.add(json.dumps(co))
                scen.append(dict(id="hello_srv/%s/sim%d/onewrite" % ("d" if desc else "u", i), mode="hello_srv", ops=co,
                                 hello_bad="" if desc else "undescribable"))
        for i, h in enumerate(hand):
            for tail in ([], [dict(op="cli_end")]):
                scen.append(dict(id="hello_srv/%s/pipelined%d%s" % ("d" if desc else "u", i, "e" if tail else ""), mode="hello_srv",
                                 ops=[dict(op="cli_send", kinds=k) for k in h] + tail, hello_bad="" if desc else "undescribable"))
        n += play(ctx, scen, "server", "env", describable=desc, label="c07hello")
    return n
