"""Shared by props/c12.py and props/c13.py: spec/Instance.tla, harness/cmd/instance.

The model of Instance.tla has NAMED DEVIATIONS (constants).  DESIGN says which of them the code as read
has; it plays no part in the verdicts (those come from observations of the real code), it only tells the
evidence which model variant is believed to be the current one, and makes a disagreement between that
belief and what was observed visible as drift.  Flip an entry in the same step as the repair.
"""
import os, json, threading
from concurrent.futures import ThreadPoolExecutor
from vlib import common

DESIGN = dict(
    AliasDefaults=False,    # object.go 452-480: decoded default handed into the raw data and extended in place
    LazyUnsync=False,       # units.go 230-241 / 251-253 / 317-345, object.go 69-74: unsynchronised lazy caches
    CollideEither=False,    # map.go 115-128, any.go: two raw keys denoting one key, survivor = last iterated
    StripInPlace=False,     # oneof.go 431-439 clones before deleting the discriminator
    StripRestore=False,     # ... and does not take it out of the caller's map temporarily either
    DirtyScratch=False,     # object.go validateStruct allocates its scratch map of present fields per call
    SharedMarks=False,      # object.go inlineShorthandTerminates keeps its visited set per call
    SharedInProgress=False, # object.go validateSchemaCompatibility keeps no state across calls
    StaleMemo=False,        # units.go parse keeps no memo of the last text
    SharedError=False,      # property.go builds a new ConstraintError for every use of a disabled property
    SortInPlace=False,      # object.go builds the required_if_not message from the list as declared
    ConvertInPlace=False,   # any.go converts the items of a slice into a new []any
    HideRestore=False,      # oneof.go hands the member a clone without the discriminator
    EarlyExitWalk=False,    # object.go checks given fields and required fields in two complete loops
    LastKeyDecides=False,   # enum.go returns at the first value whose display names differ
    MemoRootUnsync=False,   # scope.go RootObject looks the root up on every call (no memo)
    ReuseInputContainer=False,  # list.go always builds a new slice for the unserialised items
    ReleaseOutsideLock=False,   # step.go never deletes from the run table
    CacheEmptyUnsync=False,     # object.go builds the empty value of a field for every comparison
    NoStepMutex=False,      # step.go 200-223 holds initializerMutex
    EnumEarlyReturn=False,  # enum.go: repaired (return nil -> continue)
)

# concrete instance kinds of harness/cmd/instance/inst.go per (model kind, origin)
CONCRETE = {
    ("units", "global"): ["int_bytes", "int_nanos", "int_seconds", "float_seconds", "float_bytes"],
    ("units", "fresh"): ["int_custom", "float_custom", "int_custom2"],
    ("units", "rebuilt"): ["int_bytes", "int_nanos", "int_seconds", "float_seconds", "float_bytes", "int_custom",
                           "float_custom", "int_custom2"],
    ("units0", "global"): ["int_chars", "int_pct", "float_pct"],
    ("units0", "fresh"): ["int_custom0"],
    ("units0", "rebuilt"): ["int_chars", "int_pct", "float_pct", "int_custom0"],
    ("objmap", "fresh"): ["objmap"], ("objmap", "rebuilt"): ["objmap", "plugin_input"], ("objmap", "derived"): ["objmap"],
    ("steps", "derived"): ["steps"], ("steps", "plain"): ["steps"],
    ("patnil", "fresh"): ["patnil"], ("patnil", "rebuilt"): ["patnil"], ("emptydef", "fresh"): ["emptydef"],
    ("listarg", "fresh"): ["list_oneof", "list_any", "list_objmap", "map_objmap"],
    ("listarg", "rebuilt"): ["list_oneof", "list_any", "list_objmap", "map_objmap"],
    ("objstruct", "fresh"): ["objstruct"], ("objstruct", "rebuilt"): ["objstruct"],
    ("objreq", "fresh"): ["objreq"], ("objreq", "rebuilt"): ["objreq"],
    ("anylist", "fresh"): ["any_top", "any_prop"], ("anylist", "rebuilt"): ["any_top", "any_prop"],
    ("disabled", "fresh"): ["disabled"], ("disabled", "rebuilt"): ["disabled"],
    ("chain", "fresh"): ["chain"], ("chain", "rebuilt"): ["chain"],
    ("compat2", "fresh"): ["compat2"], ("compat2", "rebuilt"): ["compat2"],
    ("objnest", "fresh"): ["objnest"], ("objnest", "rebuilt"): ["objnest"],
    ("objdep", "fresh"): ["objdep"], ("objdep", "rebuilt"): ["objdep"],
    ("mapcoll", "fresh"): ["mapcoll", "anycoll", "mapcoll_units", "mapcoll_strkey"],
    ("mapcoll", "rebuilt"): ["mapcoll", "anycoll", "mapcoll_units", "mapcoll_strkey"],
    ("oneof", "fresh"): ["oneof_map", "oneof_struct"], ("oneof", "rebuilt"): ["oneof_map", "oneof_struct"],
    ("enum", "fresh"): ["enum_str", "enum_int"], ("enum", "rebuilt"): ["enum_str", "enum_int"],
    ("steps", "fresh"): ["steps"],
}

_lock = threading.Lock()


def family(kind):
    return "units" if kind == "units0" else kind


def arg_class(tok):
    """class of an argument in a signature (as argClass in harness/cmd/instance/main.go)"""
    if tok.startswith("lim_"):
        return "limits_given"
    return {"nrand": "limits_left_out", "str_over": "out_of_range", "list_over": "out_of_range",
            "list_mixed": "list_items", "list_bad": "list_items", "map_list": "list_items",
            "renamed": "display_name_differs", "unnamed": "display_name_differs", "scope_renamed": "display_name_differs",
            "typed_collide": "collide", "same_type": "container_of_result_type", "same_type_bad": "container_of_result_type",
            "data_partial": "omits_required", "props_partial": "omits_required", "schema_partial": "omits_required"}.get(tok, tok)


def call_of(e):
    """TLA+ call record {op, arg:{tok,m}, exp:[res..]} -> harness call"""
    return dict(op=e["op"], tok=e["arg"]["tok"], m=e["arg"]["m"], exp=e.get("exp", []))


def call_key(c):
    return "%s:%s:%s" % (c["op"], c["tok"], json.dumps(c["m"], sort_keys=True))


def tlc_export(ctx, cfg, name, env=None, workers=4, timeout=1500, extra=None, allow_violation=False):
    """run InstanceMC with cfg; returns (TLCResult, exported records)"""
    out = os.path.join(ctx.tmp, "inst-%s.ndjson" % name)
    e = {"VERIF_OUT": out}
    e.update(env or {})
    r = ctx.tlc("InstanceMC", cfg, workers=workers, env=e, timeout=timeout, extra=extra, allow_violation=allow_violation)
    recs = common.read_ndjson(out) if os.path.exists(out) else []
    return r, recs


def deviations(ctx, cfg, expected, must_violate=None):
    """For every named deviation in `expected` (name -> set of witness classes that must appear) check the model
    with that deviation alone switched on, twice: (a) cfg 'devv': the properties themselves as invariants - TLC
    must report one of them violated (its shortest counterexample ends the run); (b) cfg 'dev': the whole state
    space with the Witness* invariants, which write every reachable state in which a property of the statement
    fails.  Returns {name: [witness records]}.  A deviation the model can no longer exhibit means the
    specification has lost the ability to express the defect: Infra."""
    verdict_cfg = cfg.replace("instance_dev_", "instance_devv_")
    # must_violate: {deviation: (cfg, invariant)} - an additional run in which TLC must report exactly this property
    must_violate = must_violate or {}

    def one(job):
        dev, verdict = job
        if verdict == "must":
            mcfg, inv = must_violate[dev]
            r, _ = tlc_export(ctx, mcfg, "devm-%s" % dev, env={"VERIF_DEV": dev}, workers=2, allow_violation=True)
            if r.violated != inv:
                raise common.Infra("Instance.tla with deviation %s (%s): TLC reports %s, expected %s violated" % (
                    dev, mcfg, r.violated, inv))
            return dev, verdict, r, None
        if verdict:
            r, _ = tlc_export(ctx, verdict_cfg, "devv-%s-%s" % (cfg.split(".")[0], dev), env={"VERIF_DEV": dev},
                              workers=2, allow_violation=True)
            return dev, verdict, r, None
        r, recs = tlc_export(ctx, cfg, "dev-%s-%s" % (cfg.split(".")[0], dev), env={"VERIF_DEV": dev}, workers=3)
        return dev, verdict, r, recs
    res = {}
    jobs = [(d, v) for d in sorted(expected) for v in (True, False)] + [(d, "must") for d in sorted(must_violate)]
    with ThreadPoolExecutor(max_workers=8) as ex:
        for dev, verdict, r, recs in ex.map(one, jobs):
            if verdict:
                if not r.violated:
                    raise common.Infra("Instance.tla with deviation %s (%s): TLC reports no violated property: the "
                                       "specification can no longer express the defect" % (dev, verdict_cfg))
                ctx.log("deviation %s on the model: TLC reports %s violated (counterexample of %d states)" % (
                    dev, r.violated, len(r.trace)))
                continue
            classes = {w["what"] for w in recs}
            missing = set(expected[dev]) - classes
            if missing:
                raise common.Infra("Instance.tla with deviation %s (%s) exhibits no %s witness (found: %s): the "
                                   "specification can no longer express the defect" % (dev, cfg, sorted(missing), sorted(classes)))
            res[dev] = recs
            ctx.log("deviation %s on the model: %d states, witnesses %s" % (
                dev, r.distinct, {c: sum(1 for w in recs if w["what"] == c) for c in sorted(classes)}))
    return res


def run_driver(ctx, binary, cases, tag, jobs=None, timeout=1700, env=None):
    path = os.path.join(ctx.tmp, "cases-%s.ndjson" % tag)
    out = os.path.join(ctx.tmp, "res-%s.ndjson" % tag)
    common.write_ndjson(path, cases)
    ctx.run([binary, "-in", path, "-out", out, "-j", str(jobs or min(12, common.NCPU)), "-case-timeout", "300s"],
            timeout=timeout, env=env)
    results = common.read_ndjson(out)
    if len(results) != len(cases):
        raise common.Infra("driver returned %d results for %d cases" % (len(results), len(cases)))
    return results


def run_driver_chunked(ctx, binary, cases, tag, cost, jobs, env=None, chunk_cost=900.0):
    """Run the cases in chunks of about chunk_cost estimated CPU-seconds, each driver invocation with a timeout
    proportional to its chunk (generous: the estimate is for an idle machine).  A chunk that times out is re-run
    once, alone, with twice the bound, before Infra is raised - one slow chunk under load does not lose the run."""
    chunks, cur, acc = [], [], 0.0
    for c in cases:
        cur.append(c)
        acc += cost(c)
        if acc >= chunk_cost:
            chunks.append((cur, acc))
            cur, acc = [], 0.0
    if cur:
        chunks.append((cur, acc))
    results, log = [], []
    import time
    for i, (chunk, est) in enumerate(chunks):
        bound = int(120 + 6.0 * est / max(jobs, 1) + 0.5 * len(chunk))
        t = time.time()
        try:
            res = run_driver(ctx, binary, chunk, "%s-%d" % (tag, i), jobs=jobs, timeout=bound, env=env)
            retried = False
        except common.Infra as e:
            if "timeout" not in str(e):
                raise
            ctx.log("chunk %d/%d (%d cases) exceeded %ds - re-running it once, alone" % (i + 1, len(chunks), len(chunk), bound))
            res = run_driver(ctx, binary, chunk, "%s-%d-retry" % (tag, i), jobs=jobs, timeout=2 * bound, env=env)
            retried = True
        log.append(dict(cases=len(chunk), estimated_cost_s=round(est), bound_s=bound, wall_s=round(time.time() - t, 1), retried=retried))
        results.extend(res)
    ctx.extra["driver_chunks"] = log
    ctx.log("race driver: %d chunks, wall %s s" % (len(chunks), [c["wall_s"] for c in log]))
    return results


def consume(ctx, cases, results, need_race=False):
    """violations / drift / counters out of driver results; returns the trace lines"""
    trace = []
    notes = set()
    outcomes = {}
    for case, res in zip(cases, results):
        if res.get("crash"):
            raise common.Infra("worker %s on case %s (reproduced=%s):\n%s" % (
                res["crash"], json.dumps(case)[:300], res.get("reproduced"), res.get("detail", "")[:1500]))
        r = res["res"]
        if r.get("harness_error") or r.get("harness_panic"):
            raise common.Infra("harness failure on %s: %s" % (json.dumps(case)[:300], str(r)[:2500]))
        if r.get("bind_error"):
            raise common.Infra("binding table out of date: " + r["bind_error"])
        if need_race and not r.get("race_enabled"):
            raise common.Infra("the driver was not built with -race")
        ctx.evaluations += r.get("evals", 0)
        for k in r.get("keys", []):
            if "|" in k:
                # C12: (schema as built, argument) | outcome - one outcome per key over all histories and processes
                key, outcome = k.split("|", 1)
                ctx.distinct.add(key + "|" + outcome[:24])
                first = outcomes.setdefault(key, (outcome, case))
                if first[0] != outcome:
                    ck, origin, op, tok, _ = key.split("/", 4)
                    ctx.violation(dict(kind=family(case.get("kind")), op=op, arg_class=arg_class(tok), divergence="result_depends_on_other_instances"),
                                  dict(case=case, other_case=first[1], detail=dict(key=key, outcome=outcome, other_outcome=first[0],
                                       note="the same call on the same kind of schema returned different results in two "
                                            "histories / processes of this run although each was deterministic and equal to "
                                            "a fresh instance in its own process: state outside the instance")))
            else:
                ctx.distinct.add(k)
        if r.get("needs_apply_self"):
            notes.add("schema.UnserializeScope leaves references unlinked (ValidateReferences fails); the harness "
                      "calls ApplySelf, single-threaded, before it shares a rebuilt scope")
        for m in r.get("mismatches", []):
            sig = m["sig"]
            if m.get("drift"):
                ctx.note_drift("%s/%s/%s: model expectation differs from the code (detail the statement does not fix)"
                               % (sig.get("kind"), sig.get("op"), sig.get("arg_class")), m["detail"])
                continue
            ctx.violation(sig, dict(case=case, detail=m["detail"]))
        trace.extend(r.get("trace") or [])
    for n in sorted(notes):
        if n not in ctx.assumptions:
            ctx.assumptions.append(n)
    return trace


TRACE_WHY = {
    # reason the trace specification gives -> divergence of the signature
    "history": "history_dependent_result", "nondeterministic": "nondeterministic", "argument": "argument_modified",
    "describe": "describe_changed", "defaults": "defaults_changed", "cache": "defaults_changed",
    "panic": "panic",
}


def validate_trace(ctx, trace, tag, concurrent=False):
    """InstanceTrace.tla over the recorded lines, in batches; rejected lines become violations (the statement's
    own clauses) - except 'model' (the repaired design itself impure: a specification bug)."""
    if not trace:
        return 0
    accepted = 0
    # batches end at instance boundaries (reset lines): a history is never split
    batches, cur = [], []
    for l in trace:
        if l["ev"] == "reset" and len(cur) >= 4000:
            batches.append(cur)
            cur = []
        cur.append(l)
    if cur:
        batches.append(cur)
    if trace[0]["ev"] != "reset":
        raise common.Infra("recorded trace does not start with a reset line")
    for b, lines in enumerate(batches):
        tpath = os.path.join(ctx.tmp, "inst-trace-%s-%d.ndjson" % (tag, b))
        opath = os.path.join(ctx.tmp, "inst-judged-%s-%d.ndjson" % (tag, b))
        common.write_ndjson(tpath, lines)
        tr = ctx.tlc("InstanceTrace", "instance_trace.cfg", workers=1, env={"VERIF_TRACE": tpath, "VERIF_OUT": opath},
                     timeout=900)
        judged = common.read_ndjson(opath) if os.path.exists(opath) else []
        consumed = [j for j in judged if j["what"] == "consumed"]
        if not consumed or consumed[-1]["line"] != len(lines):
            raise common.Infra("InstanceTrace did not consume the %d recorded lines (%s)" % (len(lines), tr))
        rejected = [j for j in judged if j["what"] == "rejected"]
        # a change of the schema's state is attributed to the call after which it is first seen
        state_ok = {}
        ok = True
        for i, l in enumerate(lines):
            if l["ev"] == "reset":
                ok = True
                continue
            now = l["defsame"] and l["descsame"]
            state_ok[i + 1] = ok          # state before this line
            ok = now
        for j in rejected:
            line = lines[j["line"] - 1]
            why = sorted(j["why"])
            if "model" in why:
                raise common.Infra("InstanceTrace: the repaired design itself returns a result outside Pure on %s" % json.dumps(line))
            divs = set()
            if "result" in why:
                ctx.note_drift("%s/%s/%s: recorded result is not the model's (detail the statement does not fix)" % (
                    line["kind"], line["op"], line["tok"]), line)
            for w in why:
                if w == "result":
                    continue
                if w in ("defaults", "cache", "describe") and not state_ok.get(j["line"], True):
                    continue     # caused by an earlier (rejected) call of this history
                divs.add(TRACE_WHY.get(w, w))
            for div in sorted(divs):
                cls = arg_class(line["tok"])
                if line["kind"] == "objnest":
                    cls = "limits_given" if line["tok"].startswith("lim_") else "limits_left_out"
                if line["kind"] == "objdep" and div in ("defaults_changed", "describe_changed"):
                    cls = "any_argument"
                if line["kind"] in ("objmap", "objstruct") and line["op"] == "unser" and line["tok"] != "bad":
                    m = line["m"]
                    cls = "default_filling" if (m["n"] < 0 or (line["kind"] == "objstruct" and m["sa"] < 0 and m["sb"] < 0)) else "complete"
                    if div not in ("defaults_changed", "describe_changed"):
                        cls = line["tok"]
                sig = dict(kind=family(line["kind"]), op=line["op"], arg_class=cls, divergence=div)
                if concurrent:
                    sig = dict(kind=("units" if line["kind"] == "units0" else line["kind"]), op=line["op"],
                               divergence="result_differs_from_isolated")
                ctx.violation(sig, dict(trace_line=line, why=why,
                                        note="InstanceTrace.tla rejects this recorded call (history up to it in the replay file)",
                                        history=[l for l in lines[:j["line"]]][-20:]))
        accepted += sum(1 for l in lines if l["ev"] == "call") - sum(1 for j in rejected if set(j["why"]) != {"result"})
    return accepted
