"""C03 - Object presence rules, defaults and one-of dispatch are enforced as declared.

Same specification and driver as C02 (props/c02.py).  SchemaMC in mode "c03" enumerates ALL objects with
<= 2 properties over every flag combination (required, required_if / required_if_not / conflicts over the
other properties, default, disabled) x every subset of supplied properties x a valid / invalid value per
property, map-based and struct-mapped (pointer fields); treat-empty-as-default on by-value fields; every
field kind of the struct catalogue; sub-objects by value / pointer with and without declared defaults;
one-of (string / int discriminator, inlined or not, 2-3 members, map-based and struct-mapped) x discriminator
present / absent / unknown / convertible representation x member accepts / rejects; references (self-referential
scope, sibling object, one-of over references, list of references).  TLC checks ObjExact on every state:
SchemaSem (operational: key check, defaulting, per-property unserialisation, presence rules) agrees with
SchemaDecl (Denotes + Satisfies with Presence, stated per rule kind over the set of properties set after
defaulting); SamePaths for Validate / Serialize on native values.

Verdict rule: VIOLATION when the real code contradicts a definite declared outcome on accept/reject, or an
object Unserialize returns another value than declared (defaults: "a supplied value is never overridden").
Not C03: panics (C04), the representation of the discriminator in a one-of result and the serialized form
(C01), drift against the operational model where the statement is open (disabled properties on the
Validate / Serialize paths, data-mode compatibility).
"""
import os, json
from vlib import common
from props import c02 as base

SPECS = ["SchemaMC", "SchemaTrace"]
PKGS = ["./cmd/schema"]

STATEMENT = ("An object schema accepts a mapping exactly when it has no undeclared or non-string keys, every supplied property is "
             "accepted by its type, absent properties that declare a default receive that default (a supplied value is never "
             "overridden), and after defaulting every required, required-if, required-if-not and conflicts rule holds and no "
             "disabled property is in use; a lone non-map value is accepted only as shorthand for the single property of a "
             "one-property object. A one-of value is routed solely by its discriminator to the declared member (the discriminator "
             "being passed on or stripped according to the inlining flag) and is accepted exactly when that member accepts it; "
             "Validate and Serialize apply the same key, type, presence and dispatch rules to native values.")


def consume_c03(ctx, lines, results):
    owned = ctx.extra.setdefault("observed_but_owned_by_other_properties", {})
    for line, res in zip(lines, results):
        r = base.check_res(line, res)
        if r is None:
            owned["crash:" + res["crash"]] = owned.get("crash:" + res["crash"], 0) + 1
            continue
        base.account(ctx, r)
        for m in r.get("mismatches", []):
            sig = m["sig"]
            kind, text = base.classify(m, None)
            if kind == "drift":
                ctx.note_drift("%s/%s/%s: %s" % (sig.get("op"), sig.get("kind_at_fault"), sig.get("arg_class"), text),
                               dict(sig=sig, detail=m["detail"]))
            elif kind == "violation-c02" and sig.get("divergence") == "value" and sig.get("kind_at_fault") == "oneof":
                k = "one-of result value (owned by C01):%s" % sig.get("op")
                owned[k] = owned.get(k, 0) + 1
            elif kind == "violation-c02":
                payload = base.replay_payload(base.parse_case(line), m)
                payload["statement"] = STATEMENT
                ctx.violation(base.sig_c02(sig), payload)
            else:
                k = "%s:%s/%s/%s" % (text, sig.get("op"), sig.get("kind_at_fault"), sig.get("frame", ""))
                owned[k] = owned.get(k, 0) + 1


def run(ctx):
    thorough = ctx.tier == "thorough"
    ctx.rule = ("every state of SchemaMC (mode c03) is one vector: all objects with 1 and 2 properties over every flag combination "
                "(thorough: also disabled on 2 properties, and 3 properties over the reduced lattice 'one rule kind per property') x "
                "every subset of supplied properties x valid/invalid value per property x Unserialize / Validate / Serialize, "
                "map-based and struct-mapped; key errors, shorthand, nil values; treat-empty-as-default; sub-object defaults; the "
                "catalogue's field kinds; one-of x discriminator class x inlining x member verdict; references; distinct = distinct "
                "(schema shape incl. every flag, op, argument class, declared outcome); plus seeded random objects / one-of validated "
                "by SchemaTrace")
    base.bind_checks(ctx)
    path, lines, r = base.enumerate_vectors(ctx, "schema_c03_thorough.cfg" if thorough else "schema_c03_quick.cfg", "c03")
    results = base.run_driver(ctx, path, "c03")
    if len(results) != len(lines):
        raise common.Infra("driver returned %d results for %d vectors" % (len(results), len(lines)))
    consume_c03(ctx, lines, results)
    ctx.traces += len(lines)
    ctx.exhaustive = True
    for i in (0, len(lines) // 3, 2 * len(lines) // 3, len(lines) - 1):
        ctx.sample(base.parse_case(lines[i]))
    accepted, rejected, direct_bad, total = base.random_traces(ctx, 60000 if thorough else 8000, 4, "c03", "C03", objects=True)
    ctx.traces += accepted
    ctx.extra["random_trace_lines"] = total
    base.replay_rejected(ctx, rejected, "c03", consume_c03)
    base.rerun_direct(ctx, direct_bad, "c03", consume_c03)
    ctx.assumptions += [
        "generated schemas are well-formed (SchemaAST!WF): rule lists name other properties of the same object; struct-mapped "
        "properties fit the field they name; a by-value field holds a property that is required, defaulted or treat-empty-as-default "
        "(DESIGN 3 caveat ii); one-of members agree with the inlining flag and have distinct Go types",
        "a disabled property that is in use only through its own default, and disabled properties on the Validate / Serialize "
        "paths: left open (DESIGN appendix G)",
        "in a struct-mapped object an absent member of object type (not a pointer type) that declares defaults is built from them "
        "(pinned by the repository's TestObjectNestedDefaults); a DECLARED default of the property itself wins over them",
        "references are given meaning by unfolding (that they behave like the inlined object is C14's property)",
        "data-mode ValidateCompatibility: no property states its acceptance set (drift only)",
    ]


def replay(ctx, rp):
    case = rp["replay"].get("case")
    if case is None:
        raise common.Infra("replay file has no case")
    path = os.path.join(ctx.tmp, "replay.ndjson")
    common.write_ndjson(path, [case])
    results = base.run_driver(ctx, path, "replay", jobs=1)
    consume_c03(ctx, [json.dumps(case)], results)
    ctx.traces += 1
    ctx.sample(case)
    ctx.rule = "replay of one recorded vector"
