"""C16 - unit formatting and parsing are inverse; parsing never returns a wrong number.

spec/Units.tla (operators), UnitsMC.tla (exhaustive enumeration + model properties),
UnitsTrace.tla (digit structure of 63-bit output); harness/cmd/units.
"""
import os, json
from vlib import common

SPECS = ["UnitsMC", "UnitsTrace"]
PKGS = ["./cmd/units"]


def signature(m):
    return dict(op=m["sig"]["op"], **{"class": m["sig"]["class"]})


def consume(ctx, cases, results):
    trace = []
    for case, res in zip(cases, results):
        if res.get("crash"):
            if not res.get("reproduced"):
                raise common.Infra("unreproduced worker %s on case %s" % (res["crash"], json.dumps(case)[:300]))
            ctx.violation(dict(op=case.get("op"), **{"class": res["crash"]}, frame=res.get("frame", "")),
                          dict(case=case, crash=res["crash"], detail=res.get("detail", "")[:3000]))
            continue
        r = res["res"]
        if r.get("harness_error") or r.get("harness_panic"):
            raise common.Infra("harness failure on %s: %s" % (json.dumps(case)[:200], r))
        if r.get("bind_error"):
            raise common.Infra("binding table out of date: " + r["bind_error"])
        ctx.evaluations += r.get("evals", 0)
        exp = case.get("exp", {})
        key = "%s/%s/%s/%d" % (case["op"], case["def"], exp.get("ok"), len(exp.get("toks", [])))
        if case["op"] == "parse":
            key += "/" + ",".join("%d:%d%s" % (t["c"], t["u"], "h" if t["half"] else "") for t in exp["toks"])
        else:
            key += "/%s" % case.get("n")
        ctx.distinct.add(key)
        for m in r.get("mismatches", []):
            sig = signature(m)
            if m.get("drift"):
                ctx.note_drift("%s/%s" % (sig["op"], sig["class"]), m["detail"])
                continue
            ctx.violation(sig, dict(case=case, detail=m["detail"]))
        trace.extend(r.get("trace", []))
    return trace


def run_vectors(ctx, vectors_path, cases=None):
    drv = ctx.gobuild("./cmd/units")
    out = os.path.join(ctx.tmp, "res-%d.ndjson" % len(ctx.tlc_runs))
    if cases is None:
        cases = common.read_ndjson(vectors_path)
    else:
        common.write_ndjson(vectors_path, cases)
    ctx.run([drv, "-in", vectors_path, "-out", out, "-j", str(min(12, common.NCPU))], timeout=1500)
    results = common.read_ndjson(out)
    if len(results) != len(cases):
        raise common.Infra("driver returned %d results for %d cases" % (len(results), len(cases)))
    return cases, results


def run(ctx):
    thorough = ctx.tier == "thorough"
    ctx.rule = ("every state of UnitsMC is one vector (definition, operation, argument): integers 0..MaxN plus "
                "multiplier/power-of-ten edges formatted short+long and parsed back, half-unit floats, and every "
                "token string up to MaxToks over Counts x (declared units, bare number, undeclared unit, "
                "fractional counts); distinct = distinct (op, definition, argument); non-trivial = all (each is "
                "a different quantity or token string); plus a seeded 63-bit sweep per built-in set")
    vec = os.path.join(ctx.tmp, "units-vectors.ndjson")
    r = ctx.tlc("UnitsMC", "units_thorough.cfg" if thorough else "units_quick.cfg",
                workers=8, env={"VERIF_OUT": vec}, timeout=3000)
    ctx.log("UnitsMC:", r)
    cases, results = run_vectors(ctx, vec)
    if len(cases) != r.distinct:
        raise common.Infra("TLC found %d distinct states but exported %d vectors" % (r.distinct, len(cases)))
    ctx.exhaustive = True
    for c in cases[:2] + cases[-2:]:
        ctx.sample(c)
    consume(ctx, cases, results)
    ctx.traces += len(cases)

    # 63-bit sweep (code -> spec): the harness logs the digit structure of what the SDK printed
    big = [dict(op="big", **{"def": d}, seed=ctx.seed * 1000 + i, count=(4000 if thorough else 400))
           for i, d in enumerate(["bytes", "nanos", "sec", "pct", "chr", "gk", "g73", "g12", "gcs", "gfm"])]
    bpath = os.path.join(ctx.tmp, "units-big.ndjson")
    bcases, bres = run_vectors(ctx, bpath, big)
    trace = consume(ctx, bcases, bres)
    ctx.sample(big[0])
    if trace:
        tpath = os.path.join(ctx.tmp, "units-trace.ndjson")
        common.write_ndjson(tpath, trace)
        tr = ctx.tlc("UnitsTrace", "units_trace.cfg", workers=1, env={"VERIF_TRACE": tpath},
                     timeout=600, allow_violation=True)
        if tr.violated:
            # the line TLC stopped at: distinct states = lines consumed + 1
            idx = max(0, tr.distinct - 2)
            line = trace[min(idx, len(trace) - 1)]
            ctx.violation(dict(op="format_short_int", **{"class": "digit_structure"}),
                          dict(trace_line=line, note="UnitsTrace rejects this line: not a canonical greedy decomposition"))
        elif tr.distinct != len(trace) + 1:
            raise common.Infra("UnitsTrace consumed %d of %d lines" % (tr.distinct - 1, len(trace)))
        else:
            ctx.traces += len(trace)
            ctx.sample(trace[0])
    ctx.assumptions += [
        "float round trip tolerance: |parsed - x| <= 1e-6 + 1e-9|x| (the formatter prints 6 decimals by design)",
        "a bare number, a fractional base count are 'lenient' forms: the check demands an error or the right value",
        "63-bit sums are computed with math/big in the harness; TLC checks the digit structure only (32-bit integers)",
    ]


def replay(ctx, rp):
    case = rp["replay"].get("case")
    if case is None:
        raise common.Infra("replay file has no case")
    path = os.path.join(ctx.tmp, "replay.ndjson")
    cases, results = run_vectors(ctx, path, [case])
    consume(ctx, cases, results)
    ctx.sample(case)
    ctx.rule = "replay of one recorded vector"
