"""C04 - Schema operations are total: bad data yields an error, never a panic or hang.

Same specification and driver as C02 (see props/c02.py).  SchemaMC in mode "c04" places every value
class (nil, every representation, named scalar types, NaN/Inf, typed/untyped slices and maps, mixed and
non-string keys, byte strings, cbor.Tag, big integers, time.Time, structs, pointers, typed nil pointers,
func, chan) at every position of schemas of depth <= 2 (thorough: 3), for Unserialize and data-mode
ValidateCompatibility (decoder-producible values) and Validate / Serialize (arbitrary Go values).
Totality ON THE MODEL is TLC's evaluation itself (a (position, class) pair without an outcome is a TLC
error).  The harness adds the deep-nesting sweep TLC cannot scale and a random hostile-value driver.

Verdict rule: C04 is ONLY returned vs. panic / fatal error / no return.  Where the model predicts
accept/reject and the code returns the other answer, that is exactness - owned by C02 - and is merely
counted here.
"""
import os, json
from vlib import common
from props import c02 as base

SPECS = ["SchemaMC", "SchemaTrace"]
PKGS = ["./cmd/schema"]

STATEMENT = ("For every well-formed schema and every value of a shape that CBOR, JSON or YAML decoding can produce, "
             "Unserialize and data-mode ValidateCompatibility return either a result or an error, and Validate and "
             "Serialize do the same for arbitrary Go values. None of them panics, exhausts the stack, or fails to terminate.")


def sig_c04(sig):
    return dict(op=sig.get("op"), entry=sig.get("entry"), kind_at_fault=sig.get("kind_at_fault"),
                arg_class=sig.get("arg_class"), divergence=sig.get("divergence"), frame=sig.get("frame", ""))


def consume_c04(ctx, lines, results):
    owned = ctx.extra.setdefault("accept_reject_divergences_owned_by_C02", {})
    for line, res in zip(lines, results):
        r = base.check_res(line, res)
        if r is None:
            case = base.parse_case(line)
            arg = case.get("arg") or {}
            sig = dict(op=case.get("op", case.get("fam")), entry="untyped",
                       kind_at_fault=(case.get("s") or {}).get("kind", case.get("shape", "?")),
                       arg_class=arg.get("k", case.get("via", "?")),
                       divergence="fatal" if res["crash"] == "died" else "hang", frame=res.get("frame", ""))
            if res["crash"] == "hang":
                # which value was handed in is accidental: one signature per operation for "does not return"
                sjson = json.dumps(case.get("s") or {})
                sig.update(arg_class="deep_wellformed" if "DEEP0" in sjson else "any", frame="",
                           kind_at_fault="scope" if '"kind": "scope"' in sjson else sig["kind_at_fault"])
            elif "stack overflow" in res.get("detail", "") or "goroutine stack exceeds" in res.get("detail", ""):
                # the frame on top when the limit is hit, and the position of the runaway schema, are accidental:
                # one signature per operation for "the recursion does not end"
                sjson = json.dumps(case.get("s") or {})
                det = res.get("detail", "")
                cyc = ("applySubObjectDefaultValues" if "applySubObjectDefaultValues" in det else
                       "unserializeInlinedDataToMap" if "unserializeInlinedDataToMap" in det else
                       "convertData" if "convertData" in det else "")
                sig.update(divergence="stack_overflow", frame=cyc, arg_class="any",
                           kind_at_fault="scope" if '"kind": "scope"' in sjson or '"kind":"scope"' in sjson else sig["kind_at_fault"])
            ctx.violation(sig, dict(case=case, crash=res["crash"], stderr=res.get("detail", "")[:4000], statement=STATEMENT))
            continue
        base.account(ctx, r)
        for m in r.get("mismatches", []):
            kind, text = base.classify(m, None)
            if kind == "violation-c04" and m["sig"].get("op") in ("unser", "compat") and m["detail"].get("decodable") is False:
                # Unserialize / ValidateCompatibility are held to totality on decoder-producible values only
                ctx.extra["panics_on_values_no_decoder_produces"] = ctx.extra.get("panics_on_values_no_decoder_produces", 0) + 1
                continue
            if kind == "violation-c04":
                case = base.parse_case(line)
                if case.get("fam") == "schema":
                    payload = base.replay_payload(case, m)
                else:
                    payload = dict(case=m["detail"].get("case", case), detail=m["detail"])
                payload["statement"] = STATEMENT
                ctx.violation(sig_c04(m["sig"]), payload)
            elif kind == "drift":
                ctx.note_drift("%s/%s/%s: %s" % (m["sig"].get("op"), m["sig"].get("kind_at_fault"),
                                                 m["sig"].get("arg_class"), text), dict(sig=m["sig"], detail=m["detail"]))
            else:
                k = "%s/%s/%s/%s" % (m["sig"].get("op"), m["sig"].get("kind_at_fault"), m["sig"].get("arg_class"),
                                     m["sig"].get("divergence"))
                owned[k] = owned.get(k, 0) + 1


def deep_cases(thorough):
    """Nesting depths: around the CBOR default limit (32), 1000, 3000 and - what encoding/json can still
    produce - 10 000, plus a margin.  The typed list/map schemas cost time and memory quadratic in the depth
    (about 20 s and 2.4 GB for a 10 000-deep map schema), so the quick tier runs the deepest levels on the
    cheap shapes only; the thorough tier runs all of them."""
    light, heavy = [], []
    for shape in ("list", "map", "any_list", "any_map"):
        for d in (32, 33, 1000, 3000):
            for bad in (False, True):
                light.append(dict(fam="deep", shape=shape, depth=d, via="direct", bad=bad))
            light.append(dict(fam="deep", shape=shape, depth=d, via="json", bad=False))
        for d in (10000, 10001, 12000):
            anyshape = shape.startswith("any_")
            if anyshape or thorough or (shape == "list" and d == 10000):
                heavy.append(dict(fam="deep", shape=shape, depth=d, via="direct", bad=False))
                if d <= 10000 and (anyshape or thorough):
                    heavy.append(dict(fam="deep", shape=shape, depth=d, via="json", bad=False))
            if thorough:
                heavy.append(dict(fam="deep", shape=shape, depth=d, via="direct", bad=True))
        if thorough and shape.startswith("any_"):
            heavy.append(dict(fam="deep", shape=shape, depth=20000, via="direct", bad=False))
    return light, heavy


def run(ctx):
    thorough = ctx.tier == "thorough"
    ctx.rule = ("every state of SchemaMC (mode c04) is one vector: 16 leaf schemas (every kind, typed and untyped, "
                "constrained) x ~100 value classes x every position (top, list item, map value, map key; thorough: two "
                "levels of context) x Validate/Serialize (all Go values) and Unserialize/ValidateCompatibility "
                "(decoder-producible values); typed entry points where they exist; plus the deep-nesting sweep (lists, "
                "maps, any; depth 32..12000 direct and via encoding/json) and seeded hostile values; distinct = distinct "
                "(schema shape, op, argument class, declared outcome)")
    base.bind_checks(ctx)
    path, lines, r = base.enumerate_vectors(ctx, "schema_c04_thorough.cfg" if thorough else "schema_c04_quick.cfg", "c04")
    # vectors over chains of single-property objects (scope root id LOOP...): "does not return" is a possible
    # outcome there, so they get their own run with a short per-case bound (a hang then costs seconds, and the
    # supervisor attributes it to exactly that case and re-runs it alone twice)
    loops = [l for l in lines if "LOOP0" in l or "DEEP0" in l]
    rest = [l for l in lines if "LOOP0" not in l and "DEEP0" not in l]
    rpath, lpath = os.path.join(ctx.tmp, "vec-c04-rest.ndjson"), os.path.join(ctx.tmp, "vec-c04-loops.ndjson")
    for pth, ls in ((rpath, rest), (lpath, loops)):
        with open(pth, "w") as f:
            f.write("\n".join(ls) + ("\n" if ls else ""))
    consume_c04(ctx, rest, base.run_driver(ctx, rpath, "c04"))
    if loops:
        consume_c04(ctx, loops, base.run_driver(ctx, lpath, "c04-loops", jobs=min(16, common.NCPU), case_timeout="1s"))
    ctx.extra["shorthand_chain_vectors"] = len(loops)
    ctx.traces += len(lines)
    ctx.exhaustive = True
    for i in (0, len(lines) // 2, len(lines) - 1):
        ctx.sample(base.parse_case(lines[i]))

    # deep nesting (its own case type; one case per child so that a fatal stack overflow is attributed)
    light, heavy = deep_cases(thorough)
    for tag, dcases, jobs in (("deep-light", light, 12), ("deep-heavy", heavy, min(len(heavy), 8))):
        dpath = os.path.join(ctx.tmp, tag + ".ndjson")
        common.write_ndjson(dpath, dcases)
        dres = base.run_driver(ctx, dpath, tag, jobs=jobs, case_timeout="300s")
        consume_c04(ctx, [json.dumps(c) for c in dcases], dres)
        ctx.traces += len(dcases)
    # schemas that recurse through a list / a map with WELL-FORMED values nested 16..64 levels: every operation has to
    # return within a bound polynomial in the input size - a short per-case bound makes "does not" a verdict (hang)
    rec = [dict(fam="deep", shape=sh, depth=d, via="direct", bad=False) for sh in ("rec_list", "rec_map") for d in (16, 24, 48, 64)]
    rpath = os.path.join(ctx.tmp, "deep-rec.ndjson")
    common.write_ndjson(rpath, rec)
    consume_c04(ctx, [json.dumps(c) for c in rec], base.run_driver(ctx, rpath, "deep-rec", jobs=len(rec), case_timeout="2s"))
    ctx.traces += len(rec)
    ctx.extra["deep_nesting_cases"] = len(light) + len(heavy) + len(rec)
    ctx.sample(heavy[-1])

    # code -> spec: random schemas / values (trace lines validated by SchemaTrace) and hostile values
    accepted, rejected, direct_bad, total = base.random_traces(ctx, 100000 if thorough else 12000, 5, "c04", "C04")
    ctx.traces += accepted
    ctx.extra["random_trace_lines"] = total
    ctx.extra["random_trace_lines_rejected_owned_by_C02"] = len(rejected)
    # panics met by the random driver: re-run as their own cases (localisation, uniform signatures)
    base.rerun_direct(ctx, direct_bad, "c04", consume_c04)
    ctx.assumptions += [
        "generated schemas are well-formed (SchemaAST!WF); mis-built schemas may panic by contract",
        "Unserialize / data-mode ValidateCompatibility are held to totality on decoder-producible values (Values!Decodable: no "
        "defined scalar types, func, chan, pointers); Validate / Serialize on every value class",
        "nesting beyond what encoding/json can produce (10 000) plus a margin (12 000; thorough 20 000) is not exercised",
        "accept/reject disagreements are not C04 verdicts (owned by C02); they are counted in the evidence",
    ]


def replay(ctx, rp):
    case = rp["replay"].get("case")
    if case is None:
        raise common.Infra("replay file has no case")
    path = os.path.join(ctx.tmp, "replay.ndjson")
    common.write_ndjson(path, [case])
    results = base.run_driver(ctx, path, "replay", jobs=1, case_timeout="120s")
    consume_c04(ctx, [json.dumps(case)], results)
    ctx.traces += 1
    ctx.sample(case)
    ctx.rule = "replay of one recorded vector"
