"""C12 - schema operations are pure: deterministic, argument-preserving, history-free.

spec/Instance.tla (state machine of one schema instance), InstanceMC.tla (all call histories of length
<= MaxCalls on one goroutine; named deviations), InstanceTrace.tla (recorded random histories);
harness/cmd/instance (modes hist / random / bind).

Verdicts come from the real code only: two different verdicts / results for one (schema, argument) over N
evaluations; an argument whose deep snapshot changed; a self-description, GetDefaults() or later result that
differs from a fresh instance built the same way.  A difference between the code and the model's expected
result that both the used and a fresh instance show is drift (owned by C01-C03).
"""
import os, json, threading, random
from vlib import common
from props import instance_common as ic

SPECS = ["InstanceMC", "InstanceTrace"]
PKGS = ["./cmd/instance"]

# deviation -> witness classes the model must exhibit with it (sequential configuration)
DEV_SEQ = {"AliasDefaults": {"cache", "history"}, "CollideEither": {"nondeterministic"}, "StripInPlace": {"argument"},
           "StripRestore": {"argument"}, "DirtyScratch": {"history"}, "EnumEarlyReturn": {"nondeterministic"},
           "StaleMemo": {"history", "nondeterministic"}, "SharedError": {"history"},
           "SortInPlace": {"describe"}, "ConvertInPlace": {"argument"},
           "EarlyExitWalk": {"history", "nondeterministic"}, "LastKeyDecides": {"history", "nondeterministic"},
           "ReuseInputContainer": {"argument"}}


def hist_cases(recs, reps, targeted=False):
    """exported histories -> driver cases (one per concrete instance kind), de-duplicated"""
    seen, cases = set(), []
    for rec in recs:
        calls = [ic.call_of(e) for e in rec["calls"]]
        for fl in rec.get("inflight", {}).values() if isinstance(rec.get("inflight"), dict) else rec.get("inflight", []):
            if fl["op"] != "none":
                calls.append(dict(op=fl["op"], tok=fl["arg"]["tok"], m=fl["arg"]["m"], exp=[]))
        if not calls:
            continue
        for ck in ic.CONCRETE.get((rec["kind"], rec["origin"]), []):
            key = (ck, rec["origin"], tuple(ic.call_key(c) for c in calls))
            if key in seen:
                continue
            seen.add(key)
            cases.append(dict(mode="hist", kind=rec["kind"], ckind=ck, origin=rec["origin"], calls=calls, reps=reps,
                              targeted=targeted))
    return cases


def run(ctx):
    thorough = ctx.tier == "thorough"
    reps = 200 if thorough else 20
    ctx.rule = ("every state of InstanceMC with all goroutines idle is one call history (<= MaxCalls calls incl. failing and "
                "default-filling ones) on one (kind, origin); each is replayed on every concrete instance kind of that "
                "(kind, origin), every call evaluated N times on the used and on a fresh instance; distinct = distinct "
                "(concrete kind, origin, op, argument class, outcome); non-trivial = all (each call is made on a schema "
                "with units / defaults / sub-objects / colliding keys / one-of / enum); plus the witness histories of "
                "each named deviation and seeded random histories validated by InstanceTrace")
    drv = ctx.gobuild("./cmd/instance")

    # binding tables of the harness
    ic.consume(ctx, [dict(mode="bind")], ic.run_driver(ctx, drv, [dict(mode="bind")], "bind", jobs=1))

    # the model of the design the property demands: all properties hold; histories exported (in the background)
    main = {}

    def do_main():
        try:
            main["r"] = ic.tlc_export(ctx, "instance_c12_thorough.cfg" if thorough else "instance_c12_quick.cfg", "c12",
                                      workers=(8 if thorough else 4), timeout=3000)
        except Exception as e:      # noqa: BLE001 - re-raised below
            main["err"] = e
    tm = threading.Thread(target=do_main)
    tm.start()
    # the named deviations on the model first: TLC must exhibit each defect; the witnesses become targeted histories
    wit = ic.deviations(ctx, "instance_dev_seq.cfg", DEV_SEQ,
                        must_violate={"AliasDefaults": ("instance_devv_hist.cfg", "HistoryFree")})
    tm.join()
    if "err" in main:
        raise main["err"]
    r, recs = main["r"]
    ctx.log("InstanceMC (C12):", r, "histories:", len(recs))
    if not recs:
        raise common.Infra("InstanceMC exported no histories")
    ctx.exhaustive = thorough   # quick samples the longest histories of the unit kinds
    # per deviation: the shortest witness histories first, at most 60 distinct ones
    targeted = []
    for d in sorted(wit):
        ws = sorted(wit[d], key=lambda w: len(w["calls"]))
        targeted += hist_cases(ws, reps, targeted=True)[:60]
    generic = hist_cases(recs, reps)
    if not thorough:
        # quick: the unit kinds have the most concrete instances; of their 3-call histories a seeded quarter is
        # replayed (all shorter ones, all targeted ones and - in the thorough tier - all of them are)
        longest = max(len(c["calls"]) for c in generic)
        generic = [c for c in generic if not (c["kind"] in ("units", "units0") and len(c["calls"]) == longest
                                              and int(common.sha([c["ckind"], c["origin"], [x["op"] + x["tok"] for x in c["calls"]], ctx.seed]), 16) % 4)]
    # seeded shuffle: which histories share a worker process (and in which order) varies with the seed, so that
    # state kept outside the instance shows up as different results for one (schema, argument)
    random.Random(ctx.seed).shuffle(generic)
    cases = targeted + generic
    ctx.log("cases: %d (%d targeted from deviation witnesses), %d evaluations per call" % (len(cases), len(targeted), reps))
    results = ic.run_driver(ctx, drv, cases, "hist")
    ic.consume(ctx, cases, results)
    ctx.traces += len(cases)
    for c in targeted[:2] + cases[len(targeted):len(targeted) + 2] + cases[-2:]:
        ctx.sample(dict(ckind=c["ckind"], origin=c["origin"], calls=[dict(op=x["op"], tok=x["tok"], exp=x["exp"][:1]) for x in c["calls"]]))

    # code -> spec: seeded random histories (longer, wider arguments), validated by InstanceTrace
    rnd = [dict(mode="random", seed=ctx.seed * 100 + i, instances=(400 if thorough else 60), len=(16 if thorough else 10))
           for i in range(12)]
    rres = ic.run_driver(ctx, drv, rnd, "random")
    trace = ic.consume(ctx, rnd, rres)
    acc = ic.validate_trace(ctx, trace, "c12")
    ctx.traces += acc
    ctx.log("random histories: %d lines, %d accepted by InstanceTrace" % (len(trace), acc))
    if trace:
        ctx.sample(trace[1] if len(trace) > 1 else trace[0])

    observed = {v[0].get("divergence") for v in ctx.violations} | {e[0]["match"].get("divergence") for e in ctx.known_hits.values()}
    ctx.extra["model_variant"] = ic.DESIGN
    for dev, div in (("AliasDefaults", "defaults_changed"), ("CollideEither", "nondeterministic")):
        if ic.DESIGN[dev] != (div in observed):
            ctx.note_drift("props/instance_common.DESIGN[%s]=%s but the real code %s show '%s'" % (
                dev, ic.DESIGN[dev], "did" if div in observed else "did not", div))
    ctx.assumptions += [
        "map-iteration order is re-randomised by the Go runtime on every range: N evaluations per call (N=%d) sample it" % reps,
        "'equal results' = equal canonical deep rendering including dynamic Go types; error texts are not compared",
        "the expected result of a call (Pure) is model detail owned by C01-C03: a mismatch that a fresh instance shows too is drift",
        "two raw map keys denoting one key: any outcome is admitted, but it must be the same on every evaluation",
        "GetDefaults() is compared as decoded by the SDK (deep, with types) with a fresh instance built the same way",
    ]


def replay(ctx, rp):
    drv = ctx.gobuild("./cmd/instance")
    rpl = rp["replay"]
    if "case" in rpl:
        case = rpl["case"]
    else:
        line = rpl["trace_line"]
        calls = [dict(op=l["op"], tok=l["tok"], m=l["m"], exp=[]) for l in rpl.get("history", []) if l["ev"] == "call"
                 and l.get("ckind") == line.get("ckind")]
        # only the calls since the last reset
        hist, cur = rpl.get("history", []), []
        for l in hist:
            if l["ev"] == "reset":
                cur = []
            else:
                cur.append(dict(op=l["op"], tok=l["tok"], m=l["m"], exp=[]))
        case = dict(mode="hist", kind=line["kind"], ckind=line["ckind"], origin=line["origin"], calls=cur or calls, reps=200)
    case = dict(case, reps=max(case.get("reps", 20), 200))
    results = ic.run_driver(ctx, drv, [case], "replay", jobs=1)
    ic.consume(ctx, [case], results)
    ctx.traces += 1
    ctx.sample(case)
    ctx.rule = "replay of one recorded call history"
