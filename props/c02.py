"""C02 - Unserialize accepts exactly the values meeting every declared value constraint;
Validate and Serialize enforce the same constraints on native values.

spec/Values.tla, Strings.tla, SchemaAST.tla (universe), SchemaSem.tla (operational, shaped like the
code), SchemaDecl.tla (the statement: Denotes / Satisfies; invariants Exact, SamePaths), SchemaMC.tla
(enumeration + export), SchemaTrace.tla (code -> spec); harness/concretize, harness/cmd/schema.

Verdict rule.  A vector carries exp = the DECLARED outcome (SchemaDecl) and mod = the operational
model's.  VIOLATION only when the real code contradicts a definite exp on accept/reject, or returns
another value than the denoted one from Unserialize.  Not C02: panics (C04 owns returned-vs-panic),
the value Serialize emits (C01 owns the wire form), disagreement with mod where exp is open (drift).
This module also holds the machinery shared with props/c04.py.
"""
import os, json
from vlib import common

SPECS = ["SchemaMC", "SchemaTrace"]
PKGS = ["./cmd/schema"]

STATEMENT = ("Unserialize accepts a raw value exactly when it denotes - under the SDK's fixed lenient conversions - "
             "a value of the schema's type that satisfies every declared constraint; the accepted result is exactly "
             "the denoted value. Validate and Serialize enforce the same constraints on values that are already in "
             "native form.")


# ---------------------------------------------------------------------------------- shared machinery
def driver(ctx):
    return ctx.gobuild("./cmd/schema")


def read_lines(path):
    with open(path) as f:
        return [l for l in f.read().splitlines() if l.strip()]


def parse_case(line):
    v = json.loads(line)
    if isinstance(v, str):
        v = json.loads(v)
    return v


def run_driver(ctx, in_path, tag, jobs=None, timeout=3000, case_timeout=None):
    """Runs the driver on the cases of in_path.  The cases are dealt round-robin to the worker shards (the
    supervisor gives every worker a contiguous block, and TLC exports neighbouring - similar - vectors together,
    so the few vectors that kill a worker would otherwise all land in one shard and be re-run one after the other)."""
    out = os.path.join(ctx.tmp, "res-%s.ndjson" % tag)
    nj = jobs or min(14, common.NCPU)
    lines = read_lines(in_path)
    n = len(lines)
    per = (n + nj - 1) // nj if n else 1
    order = sorted(range(n), key=lambda i: (i % nj, i // nj)) if n > nj else list(range(n))
    dealt = in_path + ".dealt"
    with open(dealt, "w") as f:
        for i in order:
            f.write(lines[i] + "\n")
    res_dealt = _run_driver_raw(ctx, dealt, out, nj, timeout, case_timeout)
    os.remove(dealt)
    if len(res_dealt) != n:
        raise common.Infra("driver returned %d results for %d cases" % (len(res_dealt), n))
    res = [None] * n
    for pos, i in enumerate(order):
        res_dealt[pos]["n"] = i
        res[i] = res_dealt[pos]
    return res


def _run_driver_raw(ctx, in_path, out, jobs, timeout, case_timeout):
    argv = [driver(ctx), "-in", in_path, "-out", out, "-j", str(jobs)]
    if case_timeout:
        argv += ["-case-timeout", case_timeout]
    ctx.run(argv, timeout=timeout)
    res = []
    with open(out) as f:
        for l in f:
            if l.strip():
                res.append(json.loads(l))
    return res


def check_res(case_line, res):
    """Infrastructure conditions of one result line; returns the driver's observation or None for a crash."""
    if res.get("crash"):
        if res["crash"] == "spawn" or not res.get("reproduced"):
            raise common.Infra("unreproduced worker %s on case %s" % (res["crash"], case_line[:300]))
        return None
    r = res["res"]
    if r.get("harness_error") or r.get("harness_panic"):
        raise common.Infra("harness failure on %s: %s" % (case_line[:300], r))
    if r.get("bind_error"):
        raise common.Infra("binding table out of date: " + r["bind_error"])
    return r


def bind_checks(ctx):
    """The abstraction tables (string tokens, transport transforms) against the Go standard library and
    the real codecs; a stale table is Infra."""
    path = os.path.join(ctx.tmp, "bind.ndjson")
    r = ctx.tlc("SchemaMC", "schema_bind.cfg", workers=2, env={"VERIF_OUT": path}, timeout=300)
    lines = read_lines(path)
    if len(lines) != r.distinct or len(lines) != 2:
        raise common.Infra("bind export: %d lines for %d states" % (len(lines), r.distinct))
    results = run_driver(ctx, path, "bind", jobs=2)
    n = 0
    for line, res in zip(lines, results):
        o = check_res(line, res)
        if o is None:
            raise common.Infra("driver crashed on the bind vectors: %s" % res.get("detail", "")[:500])
        n += o.get("evals", 0)
    ctx.extra["bind_tables_checked"] = dict(string_tokens=True, transport_samples=n - 1)
    return n


def enumerate_vectors(ctx, cfg, tag, workers=16, timeout=3000):
    path = os.path.join(ctx.tmp, "vec-%s.ndjson" % tag)
    r = ctx.tlc("SchemaMC", cfg, workers=min(workers, common.NCPU), env={"VERIF_OUT": path}, timeout=timeout,
                heap="12g")
    ctx.log("SchemaMC/%s:" % cfg, r)
    lines = read_lines(path)
    if len(lines) != r.distinct:
        raise common.Infra("TLC found %d distinct states but exported %d vectors" % (r.distinct, len(lines)))
    return path, lines, r


def replay_payload(case, m):
    c = dict(case)
    c["emb"] = m["detail"].get("emb", "")
    return dict(case=c, detail=m["detail"], statement=STATEMENT)


def classify(m, case):
    """-> ('violation-c02' | 'violation-c04' | 'drift' | 'other', text)"""
    sig = m["sig"]
    div = sig.get("divergence")
    if sig.get("drift"):
        return "drift", "code differs from the operational model where the statement is open"
    if div == "panic":
        return "violation-c04", "panic"
    if div == "value" and sig.get("op") == "ser":
        return "other", "serialized form differs from the wire form (owned by C01)"
    if div in ("accepts", "rejects", "value"):
        return "violation-c02", div
    return "other", str(div)


def account(ctx, r):
    ctx.evaluations += r.get("runs", 0)
    if r.get("key") and not r.get("trivial"):
        ctx.distinct.add(r["key"])
    for k in ("skipped", "fallback", "inexpressible"):
        if r.get(k):
            ctx.extra[k + "_total"] = ctx.extra.get(k + "_total", 0) + r[k]
    if r.get("noform"):
        ctx.extra["vectors_without_go_form"] = ctx.extra.get("vectors_without_go_form", 0) + 1


def sig_c02(sig):
    return dict(op=sig.get("op"), entry=sig.get("entry"), kind_at_fault=sig.get("kind_at_fault"),
                arg_class=sig.get("arg_class"), divergence=sig.get("divergence"))


def consume_c02(ctx, lines, results):
    owned_elsewhere = {}
    for line, res in zip(lines, results):
        r = check_res(line, res)
        if r is None:
            # a fatal crash / hang of the worker: not an accept/reject verdict; C04 owns it
            owned_elsewhere["crash:" + res["crash"]] = owned_elsewhere.get("crash:" + res["crash"], 0) + 1
            continue
        account(ctx, r)
        for m in r.get("mismatches", []):
            case = None
            kind, text = classify(m, case)
            if kind == "violation-c02":
                ctx.violation(sig_c02(m["sig"]), replay_payload(parse_case(line), m))
            elif kind == "drift":
                ctx.note_drift("%s/%s/%s: %s" % (m["sig"].get("op"), m["sig"].get("kind_at_fault"),
                                                 m["sig"].get("arg_class"), text),
                               dict(sig=m["sig"], detail=m["detail"]))
            else:
                k = "%s:%s/%s/%s" % (text, m["sig"].get("op"), m["sig"].get("kind_at_fault"), m["sig"].get("frame", ""))
                owned_elsewhere[k] = owned_elsewhere.get(k, 0) + 1
    if owned_elsewhere:
        ctx.extra.setdefault("observed_but_owned_by_other_properties", {}).update(owned_elsewhere)


# ---------------------------------------------------------------------------------- code -> spec
def random_traces(ctx, count, depth, tag, prop, objects=False):
    """Seeded random driver beyond the enumerated universe; its trace lines are judged by SchemaTrace.tla.
    Returns (#lines accepted, list of (line, verdict) for rejected lines)."""
    shards = 12
    per = max(1, count // shards)
    cases = [dict(fam="rand", seed=ctx.seed * 100003 + i, count=per, depth=depth, objects=objects) for i in range(shards)]
    path = os.path.join(ctx.tmp, "rand-%s.ndjson" % tag)
    common.write_ndjson(path, cases)
    results = run_driver(ctx, path, "rand-" + tag, jobs=shards)
    trace, direct_bad = [], []
    for case, res in zip(cases, results):
        r = check_res(json.dumps(case), res)
        if r is None:
            # a fatal crash / hang inside a shard of random cases: the shard itself is the replayable case
            direct_bad.append(dict(sig=dict(op="rand", entry="untyped", kind_at_fault="?", arg_class="?",
                                            divergence=res["crash"], frame=res.get("frame", "")),
                                   detail=dict(case=case, stderr=res.get("detail", "")[:3000])))
            continue
        ctx.evaluations += r.get("runs", 0)
        ctx.extra["random_values_outside_the_abstraction"] = ctx.extra.get("random_values_outside_the_abstraction", 0) + r.get("direct", 0)
        ctx.extra["random_results_inexpressible"] = ctx.extra.get("random_results_inexpressible", 0) + r.get("inexpressible", 0)
        direct_bad.extend(r.get("mismatches", []))
        trace.extend(r.get("trace", []))
    rejected = []
    accepted = 0
    batch = 20000
    for b in range(0, len(trace), batch):
        part = trace[b:b + batch]
        tpath = os.path.join(ctx.tmp, "trace-%s-%d.ndjson" % (tag, b))
        vpath = os.path.join(ctx.tmp, "verdict-%s-%d.ndjson" % (tag, b))
        common.write_ndjson(tpath, part)
        tr = ctx.tlc("SchemaTrace", "schema_trace.cfg", workers=min(16, common.NCPU),
                     env={"VERIF_TRACE": tpath, "VERIF_OUT": vpath}, timeout=1500)
        if tr.distinct != len(part):
            raise common.Infra("SchemaTrace consumed %d of %d lines" % (tr.distinct, len(part)))
        verdicts = common.read_ndjson(vpath)
        if len(verdicts) != len(part):
            raise common.Infra("SchemaTrace exported %d verdicts for %d lines" % (len(verdicts), len(part)))
        for v in verdicts:
            line = part[v["l"] - 1]
            if v["decl"] and v["oper"]:
                accepted += 1
            else:
                rejected.append((line, v))
        os.remove(tpath)
    if trace:
        ctx.sample(dict(trace_line=trace[0]))
    return accepted, rejected, direct_bad, len(trace)


def vector_from_trace(line, v):
    """A rejected trace line as an ordinary vector: exp / sub are what SchemaTrace computed for it."""
    return dict(fam="schema", s=line["s"], op=line["op"], arg=line["arg"], exp=v.get("exp", {"ok": "maybe"}),
                mod={"ok": "maybe"}, sub=v.get("sub", []), emb=line.get("emb", ""))


def replay_rejected(ctx, rejected, tag, consume):
    """Lines the statement rejects are re-run as vectors through the driver, which localises the divergence
    and yields the same signatures as the enumerated vectors."""
    cases = [vector_from_trace(line, v) for line, v in rejected if not v["decl"]]
    for line, v in rejected:
        if v["decl"]:
            ctx.note_drift("trace line accepted by the statement, not by the operational model", dict(line=line, verdict=v))
    if not cases:
        return
    path = os.path.join(ctx.tmp, "rejected-%s.ndjson" % tag)
    common.write_ndjson(path, cases)
    results = run_driver(ctx, path, "rejected-" + tag, jobs=4)
    lines = [json.dumps(c) for c in cases]
    before = len(ctx.violations) + len(ctx.known_hits)
    consume(ctx, lines, results)
    ctx.extra["trace_lines_rejected_by_the_statement"] = len(cases)


def rerun_direct(ctx, direct_bad, tag, consume):
    """Divergences the random driver met outside the trace (panics, values outside the abstraction whose
    accepted result violates a declared constraint) carry a replayable case: run it again as its own case so
    that the verdict, the localisation and the replay file come from the same path as everything else."""
    cases = [m["detail"]["case"] for m in direct_bad if m["detail"].get("case")]
    for m in direct_bad:
        if not m["detail"].get("case"):
            raise common.Infra("random driver reported a divergence without a replayable case: %s" % json.dumps(m)[:500])
    if not cases:
        return
    path = os.path.join(ctx.tmp, "direct-%s.ndjson" % tag)
    common.write_ndjson(path, cases)
    consume(ctx, [json.dumps(c) for c in cases], run_driver(ctx, path, "direct-" + tag, jobs=4))


# ---------------------------------------------------------------------------------- the check
def run(ctx):
    thorough = ctx.tier == "thorough"
    ctx.rule = ("every state of SchemaMC (mode c02) is one vector (schema, op, argument): scalar schemas over every "
                "combination of absent/present bounds x every raw scalar in every Go representation (min-1,min,max,max+1, "
                "int64 edge points through 5 numeric embeddings, NaN/Inf, string tokens incl. unit strings and boolean "
                "words); lists/maps over 7/12 item schemas x sizes 0..3 x size bounds nil,0,1,2 x element classes; "
                "`any` over nested trees; Validate/Serialize on native values; distinct = distinct (schema shape, op, "
                "argument class incl. representation, declared outcome); non-trivial = not (unconstrained schema "
                "accepting its input); plus seeded random (schema, value) pairs validated by SchemaTrace")
    bind_checks(ctx)
    path, lines, r = enumerate_vectors(ctx, "schema_c02_thorough.cfg" if thorough else "schema_c02_quick.cfg", "c02")
    results = run_driver(ctx, path, "c02")
    if len(results) != len(lines):
        raise common.Infra("driver returned %d results for %d vectors" % (len(results), len(lines)))
    consume_c02(ctx, lines, results)
    ctx.traces += len(lines)
    ctx.exhaustive = True
    for i in (0, len(lines) // 3, 2 * len(lines) // 3, len(lines) - 1):
        ctx.sample(parse_case(lines[i]))

    accepted, rejected, direct_bad, total = random_traces(ctx, 150000 if thorough else 20000, 4, "c02", "C02")
    ctx.traces += accepted
    ctx.extra["random_trace_lines"] = total
    replay_rejected(ctx, rejected, "c02", consume_c02)
    rerun_direct(ctx, direct_bad, "c02", consume_c02)
    ctx.assumptions += [
        "generated schemas are well-formed (SchemaAST!WF: min <= max, non-negative sizes, map keys of string/int/enum kind, "
        "distinct enum values); mis-built schemas may panic by contract",
        "two raw map keys denoting the same key: acceptance unspecified (expectation 'maybe'); nil and empty slice/map are equal",
        "Validate/Serialize are held to the constraints only for values of the schema's native type; other Go values: 'returns' (C04)",
        "values of defined (named) Go types handed to Unserialize of numeric/bool/any schemas: unspecified (no decoder produces them)",
        "lenient unit strings (bare number, fractional base count): an error or the right value (C16)",
        "integers: the semantics uses order, equality, integrality, fits-in-int64, is-0/1 only; one abstract vector is run under "
        "the embeddings i64 (2^63 edge), f63 (2^63 edge in float-exact steps), f53, i32, u32 wherever every leaf is representable",
        "strings are the tokens of spec/Strings.tla (attributes re-checked against strconv/regexp at start-up); symbolic "
        "tokens (decimal renderings of edge integers) have length >= 10, generated length bounds are <= 2",
    ]


def replay(ctx, rp):
    case = rp["replay"].get("case")
    if case is None:
        raise common.Infra("replay file has no case")
    path = os.path.join(ctx.tmp, "replay.ndjson")
    common.write_ndjson(path, [case])
    results = run_driver(ctx, path, "replay", jobs=1)
    consume_c02(ctx, [json.dumps(case)], results)
    ctx.traces += 1
    ctx.sample(case)
    ctx.rule = "replay of one recorded vector"
