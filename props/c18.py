"""C18 - functions: handlers are accepted iff their signature agrees with the declaration; calls
report faithfully.

spec/Funcs.tla (Accepts / CheckHandler / CallOutcome / CallDeclared / Meets), FuncsMC.tla
(the matrix handler signatures x declarations x calls, exhaustively), FuncsTrace.tla (recorded
constructor verdicts and calls of a seeded random driver beyond the matrix); harness/cmd/functions.

Statement (properties.jsonl): "NewCallableFunction and NewDynamicCallableFunction accept a handler
exactly when its Go parameter and result types agree with the declared parameter schemas, output
schema and error flag. An accepted function called with the declared number of arguments of the
declared types returns exactly what the handler returned, reports an error returned by the handler as
function-reported and a call-shape problem as not function-reported, and a wrong argument count is
an error rather than a panic."
"""
import os, json, re
from vlib import common

SPECS = ["FuncsMC", "FuncsTrace"]
PKGS = ["./cmd/functions"]

TRACE_BATCH = 20000
# classes of the error tokens 1..8 (ErrTokClass of spec/Funcs.tla; the driver checks its own copy
# against the specification in the bind vector)
ERR_TOK_CLASS = ["plain", "plain", "wraps_call_shape_error", "call_error_not_reported", "call_error_reported",
                 "typed_nil", "typed_nil_slice", "typed_nil_map"]


# ---------------------------------------------------------------------------- helpers
def iter_ndjson(path):
    with open(path) as f:
        for line in f:
            line = line.strip()
            if not line:
                continue
            v = json.loads(line)
            if isinstance(v, str):
                v = json.loads(v)
            yield v


def count_lines(path):
    n = 0
    with open(path) as f:
        for line in f:
            if line.strip():
                n += 1
    return n


def run_driver(ctx, inp, n, timeout=1500):
    drv = ctx.gobuild("./cmd/functions")
    out = inp + ".res"
    ctx.run([drv, "-in", inp, "-out", out, "-j", str(min(12, common.NCPU))], timeout=timeout)
    got = count_lines(out)
    if got != n:
        raise common.Infra("driver returned %d results for %d cases" % (got, n))
    return out


def exp_class(e):
    if e["kind"] == "error":
        return "error/reported" if e["reported"] else "error/not_reported"
    return e["kind"]


def obs_class(o):
    if o["kind"] == "error":
        return "error/reported" if o["reported"] else "error/not_reported"
    return "returns" if o["kind"] == "ok" else o["kind"]


_NAMED_ERROR = re.compile(r"^[A-Za-z0-9_/]+\.error$")


def culprit(line, rule):
    """class of the type at the position the failing rule points at (mirrors the driver)"""
    res = line.get("results") or []
    if not res:
        return ""
    if rule == "error_type":
        t = res[-1]
    elif rule == "output_type":
        t = res[0]
    else:
        return ""
    if _NAMED_ERROR.match(t):
        return "type_named_error"
    for a in line.get("types", []):
        if a["id"] == t and a["iface"]:
            return "interface"
    return "concrete"


def trace_signature(line, exp):
    """signature of a trace line FuncsTrace rejected - same fields as the driver's"""
    if line["ev"] == "new":
        op = "new_dynamic" if line["dyn"] else "new"
        div = {"accepted": "accepts", "rejected": "rejects"}.get(line["res"], "panic")
        sig = dict(op=op, divergence=div, rule=exp["rule"] if div != "rejects" else "none",
                   culprit=culprit(line, exp["rule"]) if div != "rejects" else "")
        if div == "panic":
            sig["frame"] = line.get("frame", "")
        return sig
    obs = line["obs"]
    sig = dict(op="call", cell=exp["verdict"], expect=exp_class(exp), observed=obs_class(obs))
    if exp["kind"] == "error" and exp["reported"]:
        if obs["kind"] == "error" and obs["reported"] and exp["tok"] not in obs.get("srctoks", []):
            sig["observed"] = "error/reported/other_source"
        res = line.get("results") or []
        sig["handler_error"] = (ERR_TOK_CLASS[exp["tok"] - 1]
                                if res and res[-1] == "error" and 1 <= exp["tok"] <= len(ERR_TOK_CLASS) else "other_type")
    if line["obs"]["kind"] == "panic":
        sig["frame"] = line["obs"].get("frame", "")
    return sig


class Acc:
    """what is accumulated over driver results"""

    def __init__(self):
        self.open = {}
        self.stats = {}
        self.skipped = 0
        self.outside = []
        self.drift_seen = set()
        self.trace = []       # (rand case index, line)


def consume_one(ctx, acc, idx, case, res, vectors):
    if res.get("crash"):
        if not res.get("reproduced"):
            raise common.Infra("unreproduced worker %s on case %s" % (res["crash"], json.dumps(case)[:300]))
        ctx.violation(dict(op=case.get("op"), divergence=res["crash"], frame=res.get("frame", "")),
                      dict(case=case, crash=res["crash"], detail=res.get("detail", "")[:3000]))
        return
    r = res["res"]
    hp = r.get("harness_panic")
    if hp and str(hp.get("frame", "")).startswith("schema."):
        # the SDK itself panicked on a call the harness makes outside its guarded comparisons (the binding check
        # calls well-formed functions with well-formed arguments): that is the code's behaviour, not the harness's
        ctx.violation(dict(op=case.get("op"), divergence="panic", frame=hp.get("frame", "")),
                      dict(case=case, panic=hp))
        return
    if r.get("harness_error") or hp:
        raise common.Infra("harness failure on %s: %s" % (json.dumps(case)[:300], json.dumps(r)[:600]))
    if r.get("bind_error"):
        raise common.Infra("binding table out of date: " + r["bind_error"])
    ctx.evaluations += r.get("evals", 0)
    acc.skipped += r.get("skipped", 0)
    for k, v in (r.get("open") or {}).items():
        acc.open[k] = acc.open.get(k, 0) + v
    for k, v in (r.get("stats") or {}).items():
        acc.stats[k] = acc.stats.get(k, 0) + v
    acc.outside.extend(r.get("outside") or [])
    if vectors and case["op"] in ("new", "call"):
        trivial = case["op"] == "new" and not (case["params"] or case["results"] or case["inputs"] or case["out"]
                                               or case["err"] or case["dyn"])
        if not trivial:
            ctx.distinct.add(hash(json.dumps([case["op"], case["dyn"], case["params"], case["results"], case["inputs"],
                                              case["out"], case["err"], case["call"]])))
    for m in r.get("mismatches", []):
        sig = m["sig"]
        if m.get("drift"):
            key = "%s/%s" % (sig.get("op"), sig.get("class"))
            if key not in acc.drift_seen:
                acc.drift_seen.add(key)
                ctx.note_drift(key, m["detail"])
            continue
        rp = dict(case=case, detail=m["detail"])
        ctx.violation(sig, rp)
    for line in r.get("trace", []):
        acc.trace.append((idx, line))


def consume_files(ctx, acc, cases_path, res_path, vectors):
    n = 0
    for idx, (case, res) in enumerate(zip(iter_ndjson(cases_path), iter_ndjson(res_path))):
        consume_one(ctx, acc, idx, case, res, vectors)
        n += 1
    return n


def validate_trace(ctx, lines, replay_of):
    """lines: [(rand case index, line)]; replay_of(i) -> the rand case that produced line i.
    Returns the number of lines the trace specification accepted."""
    accepted = 0
    for b in range(0, len(lines), TRACE_BATCH):
        batch = lines[b:b + TRACE_BATCH]
        tpath = os.path.join(ctx.tmp, "functions-trace-%d.ndjson" % b)
        common.write_ndjson(tpath, [l for _, l in batch])
        tr = ctx.tlc("FuncsTrace", "funcs_trace.cfg", workers=1, env={"VERIF_TRACE": tpath},
                     timeout=1200, allow_violation=True)
        ctx.log("FuncsTrace:", tr)
        if tr.violated is None:
            if tr.distinct != len(batch) + 1:
                raise common.Infra("FuncsTrace consumed %d of %d lines" % (tr.distinct - 1, len(batch)))
            accepted += len(batch)
            continue
        if tr.violated != "Accepted":
            raise common.Infra("FuncsTrace: %s violated - the rule-by-rule and the declarative reading of the "
                               "acceptance rule disagree on a recorded signature (spec bug):\n%s"
                               % (tr.violated, "\n".join(tr.out.splitlines()[-30:])))
        # list every rejected line in one more run
        rej = os.path.join(ctx.tmp, "functions-rejected-%d.ndjson" % b)
        co = ctx.tlc("FuncsTrace", "funcs_trace_collect.cfg", workers=1,
                     env={"VERIF_TRACE": tpath, "VERIF_OUT": rej}, timeout=1200)
        if co.distinct != len(batch) + 1:
            raise common.Infra("FuncsTrace (collect) consumed %d of %d lines" % (co.distinct - 1, len(batch)))
        rejected = common.read_ndjson(rej) if os.path.exists(rej) else []
        if not rejected:
            raise common.Infra("FuncsTrace rejected a line but the collecting run lists none")
        for rj in rejected:
            ci, line = batch[rj["line"] - 1]
            ctx.violation(trace_signature(line, rj["exp"]),
                          dict(rand_case=replay_of(ci), trace_line=line, expected=rj["exp"],
                               note="FuncsTrace rejects this recorded line"))
        accepted += len(batch) - len(rejected)
    return accepted


def rand_cases(ctx, shards, count):
    return [dict(op="rand", seed=ctx.seed * 100000 + i, count=count) for i in range(shards)]


def run_rand(ctx, acc, cases):
    path = os.path.join(ctx.tmp, "functions-rand.ndjson")
    common.write_ndjson(path, cases)
    res = run_driver(ctx, path, len(cases))
    consume_files(ctx, acc, path, res, vectors=False)


# ---------------------------------------------------------------------------- run
def run(ctx):
    thorough = ctx.tier == "thorough"
    ctx.rule = ("every state of FuncsMC is one vector: a cell (handler signature x declaration; static and "
                "dynamic constructor) or a cell plus one call (argument lists of every length 0..arity+1, three "
                "token rotations + two all-non-zero lists, every combination of result tokens - for the error slot: nil, "
                "plain errors, an error wrapping a not-function-reported *FunctionCallError, such a *FunctionCallError "
                "itself, a function-reported one, a typed nil -, echo of every "
                "type-compatible argument, handler panic, a foreign-typed value at every non-interface position); "
                "distinct = distinct (cell, call); non-trivial = all but the empty cell func() / no declaration; "
                "plus seeded random functions beyond the matrix validated by FuncsTrace")
    vec = os.path.join(ctx.tmp, "functions-vectors.ndjson")
    r = ctx.tlc("FuncsMC", "funcs_thorough.cfg" if thorough else "funcs_quick.cfg",
                workers=8, env={"VERIF_OUT": vec}, timeout=3000)
    ctx.log("FuncsMC:", r)
    n = count_lines(vec)
    if n != r.distinct:
        raise common.Infra("TLC found %d distinct states but exported %d vectors" % (r.distinct, n))
    res = run_driver(ctx, vec, n)
    acc = Acc()
    consume_files(ctx, acc, vec, res, vectors=True)
    ctx.exhaustive = True
    ctx.traces += n - acc.skipped
    shown = {}
    for c in iter_ndjson(vec):
        k = (c["op"], c.get("exp", {}).get("verdict"), c.get("exp", {}).get("kind"))
        if c["op"] != "bind" and k not in shown and (c["params"] or c["results"]):
            shown[k] = c
            if len(shown) >= 6:
                break
    for c in shown.values():
        ctx.sample(c)

    # outside the matrix: variadic and non-function handlers (coverage; surprises are drift)
    opath = os.path.join(ctx.tmp, "functions-outside.ndjson")
    common.write_ndjson(opath, [dict(op="outside")])
    consume_files(ctx, acc, opath, run_driver(ctx, opath, 1), vectors=False)

    # code -> spec: random functions and calls beyond the matrix
    cases = rand_cases(ctx, 12, 1500 if thorough else 150)
    run_rand(ctx, acc, cases)
    ctx.sample(cases[0])
    if not acc.trace and not ctx.violations:
        raise common.Infra("the random driver recorded no trace lines")
    ok = validate_trace(ctx, acc.trace, lambda ci: cases[ci]) if acc.trace else 0
    ctx.traces += ok
    if acc.trace:
        ctx.sample(acc.trace[0][1])
    for _, l in acc.trace:
        if l["ev"] == "call":
            ctx.sample(l)
            break

    ctx.extra["open_cases_observed"] = acc.open
    ctx.extra["call_vectors_skipped_constructor_rejected"] = acc.skipped
    ctx.extra["random_driver"] = dict(functions=sum(c["count"] for c in cases), trace_lines=len(acc.trace),
                                      trace_lines_accepted=ok, outcomes=acc.stats)
    ctx.extra["outside_matrix"] = acc.outside
    ctx.assumptions += [
        "type ids are injective on the Go types used (checked by the driver); the attribute table (interface, "
        "nilable, assignable to error) is computed with package reflect and, for the named universe, checked "
        "against spec/FuncsMC.tla (bind vector)",
        "'agree' is type identity; two cases are left open (either verdict passes): an error slot whose type is "
        "assignable to but not identical with error, and a non-any interface as value slot of a dynamic function",
        "a nil interface argument and a foreign-typed argument are not 'of the declared types': the check only "
        "demands that they are not presented as a function-reported error (error or panic both pass); a "
        "panicking handler is open as well",
        "a handler error is 'reported faithfully' when the *FunctionCallError is marked function-reported and its "
        "SourceError is (errors.Is) the very value the handler returned, or the returned error is that value itself",
        "values are compared with reflect.DeepEqual against the value the synthesised handler really returned "
        "(and against the token the specification predicts)",
        "variadic and non-function handlers are outside the property's matrix: run for coverage, surprises "
        "recorded as drift",
    ]


def replay(ctx, rp):
    acc = Acc()
    rpl = rp["replay"]
    if rpl.get("rand_case") is not None:
        cases = [rpl["rand_case"]]
        run_rand(ctx, acc, cases)
        if not acc.trace:
            raise common.Infra("the random driver recorded no trace lines")
        ctx.traces += validate_trace(ctx, acc.trace, lambda ci: cases[ci])
        ctx.sample(rpl.get("trace_line"))
        ctx.rule = "replay of one recorded random-driver case (all its trace lines re-validated)"
        return
    case = rpl.get("case")
    if case is None:
        raise common.Infra("replay file has neither a case nor a rand_case")
    path = os.path.join(ctx.tmp, "replay.ndjson")
    common.write_ndjson(path, [case])
    res = run_driver(ctx, path, 1)
    consume_files(ctx, acc, path, res, vectors=case.get("op") in ("new", "call"))
    if acc.trace:
        ctx.traces += validate_trace(ctx, acc.trace, lambda ci: case)
    ctx.sample(case)
    ctx.rule = "replay of one recorded vector"
