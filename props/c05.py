"""C05 - ATP is transparent: each Execute returns its own step's in-process result.

spec/ATP.tla with fragmenting, coalescing, buffered wires (Cap, Frag), ATPTrace.tla; harness/cmd/atp with the
"echo" step (harness/cmd/atp/echo.go): a structurally rich input returned unchanged, so that what Client.Execute
delivers can be compared with CallableSchema.CallStep in-process on the same raw input.

 1. TLC: Transparent, NoCrossTalk, WriterAtomic, Faithful (a step's own outcome comes back on a connection nobody
    closes), NoStuck and the action property NoLoss (read-ahead is never dropped) on every interleaving of 2-3 runs
    over wires with capacity 2 whose messages may travel as two fragments and whose reads may coalesce, including
    unsolicited error replies (a signal that overtakes its work-start).  A counterexample becomes a verdict only
    when its replay into the real client and server - with the same fragment boundaries - shows the wrong result.
 2. spec -> code: sampled behaviours replayed gate by gate with their fragment choices; real results = model results.
 3. code -> spec: seeded stress sessions (2-6 / 2-11 concurrent and serial runs, capacities 0-3, pseudo-random
    splitting and coalescing) over the echo step with every payload of the catalogue, valid and invalid: the result
    over ATP must equal the in-process result modulo CBOR normalisation; single-delay exploration with
    fragmentation on; every trace validated by ATPTrace.tla with the C05 invariants in every state.
"""
import os, re, json, glob, random
from vlib import common
from props import atp_common as A
from props import atp_hello as H
from props import c06 as C6

SPECS = ["ATPMC", "ATPTrace", "ATPHelloMC", "ATPHelloTraceMC", "ATPSignalsMC", "ATPSignalsTrace"]
PKGS = ["./cmd/atp", "./cmd/yieldgen"]
INVS = ["TypeOK", "Transparent", "NoCrossTalk", "WriterAtomic", "Faithful", "NoStuck"]
NPAYLOADS = 21


def judge(ctx, sc, rr, what):
    out = C6.judge_session(ctx, sc, rr, what=what)
    if out is None:
        return None
    closing = (sc.get("workload") or {}).get("close") == "race" or any(a.get("a") == "CloseCancel" for a in sc.get("schedule") or [])
    specs = {r["id"]: r for r in sc.get("runs", [])}
    for rid, e in out["results"].items():
        rs = specs.get(rid, {})
        if e.get("fidelity"):
            ctx.violation(dict(kind="payload", what=e["fidelity"].split(":")[0].split("(")[0].strip()[:60]),
                          dict(scenario=sc, run=rid, fidelity=e["fidelity"], payload=rs.get("echo")))
        elif not rs.get("echo") and not closing and not out.get("stuck") and e["returns"] == 1 and not (rs.get("as") and e["st"] == "dup") \
                and not (e["st"] == "dup" and any(x.get("as") == rid for x in sc.get("runs", []))):
            want_ok = rs.get("beh", "ok") == "ok"
            # (a caller that shares another's run ID gets the output of the step started under that run ID)
            tok = e["token_ok"] or (rs.get("as") and e.get("got") == "hello " + rs["as"])
            if want_ok and not (e["st"] == "ok" and tok):
                ctx.violation(dict(kind="lost_or_wrong_result", step="ok", code=e["st"]),
                              dict(scenario=sc, run=rid, results=out["results"], last_events=out["events"][-14:]))
            if not want_ok and e["st"] == "ok":
                ctx.violation(dict(kind="lost_or_wrong_result", step=rs.get("beh"), code="ok"),
                              dict(scenario=sc, run=rid, results=out["results"]))
    return out


def run(ctx):
    thorough = ctx.tier == "thorough"
    rng = random.Random(ctx.seed * 104729 + 5)
    ctx.rule = ("states = reachable states of ATP.tla with buffered, fragmenting, coalescing wires; traces = real sessions (replayed "
                "behaviours with their fragment boundaries, seeded stress sessions over the echo step, delay exploration with "
                "fragmentation) accepted by ATPTrace.tla; evaluations = sessions; distinct = distinct (workload, capacity, seed, "
                "payload assignment) / schedules; non-trivial = all")
    ctx.assumptions += [
        "no write stalls >= 60 s (sendRuntimeMessage timeout not driven)",
        "payload equality is judged on the values a fresh CBOR decode yields (maps compared structurally)",
        "v1 framing carries no run IDs: echo sessions are strictly serial; overlapping v1 calls are modelled in spec/ATPHello.tla (one call at a time from work-start to work-done) and exercised with held gates",
        "design variant of the model bound to the code: %s" % json.dumps(A.DESIGN),
    ]
    mc = [("serial2_unsolicited", dict(Runs="R2", Cap=2, Frag="TRUE", StepBeh="BehOkErr", SigRuns="R1", BadSigRuns="R1", Serial="TRUE"),
           ["r1"], ["r1"]),
          ("conc2", dict(Runs="R2", Cap=2, Frag="TRUE", StepBeh="BehOkErr"), [], [])]
    if thorough:
        mc.append(("conc3", dict(Runs="R3", Cap=2, Frag="TRUE", StepBeh="BehOkErr"), [], []))
        mc.append(("conc2_sig_cap1", dict(Runs="R2", Cap=1, Frag="TRUE", StepBeh="BehAll", SigRuns="R2", BadSigRuns="R1"), ["r1", "r2"], ["r1"]))
    cex = []
    for name, consts, sig, bad in mc:
        cfg = A.mc_cfg(os.path.join(ctx.tmp, "c05_%s.cfg" % name), consts, invariants=INVS, properties=["NoLoss"])
        r = ctx.tlc("ATPMC", cfg, workers=min(14, common.NCPU), timeout=3000, allow_violation=True, heap="24g" if thorough else None)
        ctx.log("model %s: %r" % (name, r))
        if r.violated:
            acts = A.parse_cex(r.out)
            beh = A.behaviours_of(acts)
            runs = [dict(id=x, beh=beh.get(x, "ok"), sig=x in sig, badsig=x in bad) for x in A.SET_RUNS[consts["Runs"]]]
            cex.append((name, r.violated, dict(id="cex-" + name, mode="replay", cap=int(consts.get("Cap", 0)), runs=runs, schedule=acts)))
    sessions = {}
    # the known deviation "one decoder per read loop" (pinned client): its counterexample is replayed into the real
    # code as a targeted schedule and must now show correct results
    dv = A.deviation_cex(ctx, "ATPMC", "decoder_per_loop",
                         dict(Runs="R2", Cap=2, Frag="TRUE", StepBeh="BehOkErr", SigRuns="R1", BadSigRuns="R1", Serial="TRUE",
                              SharedDecoder="FALSE"), ["Faithful"])
    acts = A.parse_cex(dv.out)
    beh = A.behaviours_of(acts)
    dsc = dict(id="deviation/decoder_per_loop", mode="replay", cap=2, schedule=acts,
               runs=[dict(id="r1", beh=beh.get("r1", "ok"), sig=True, badsig=True), dict(id="r2", beh=beh.get("r2", "ok"))])
    out = judge(ctx, dsc, A.run_driver(ctx, [dsc], jobs=1)[0], "deviation schedule")
    ctx.count("deviation/decoder_per_loop")
    ctx.sample(dict(kind="deviation counterexample replayed", schedule=[(a["a"], a.get("r", ""), a.get("n", 0)) for a in acts][-16:]))
    # ... and "loop exit in a separate critical section" (a result that has been delivered to nobody is a lost result)
    dv2 = A.deviation_cex(ctx, "ATPMC", "separate_loop_exit", dict(Runs="R2", Serial="TRUE", StepBeh="BehOk", MergedExit="FALSE"), ["NoStuck"])
    acts2 = A.parse_cex(dv2.out)
    dsc2 = dict(id="deviation/separate_loop_exit", mode="replay", cap=0, schedule=acts2, runs=[dict(id="r1", beh="ok"), dict(id="r2", beh="ok")])
    judge(ctx, dsc2, A.run_driver(ctx, [dsc2], jobs=1)[0], "deviation schedule")
    ctx.count("deviation/separate_loop_exit")
    if cex:
        res = A.run_driver(ctx, [s for _, _, s in cex], jobs=2)
        before = len(ctx.violations) + len(ctx.known_hits)
        for (name, inv, sc), rr in zip(cex, res):
            ctx.count("cex/" + name)
            judge(ctx, sc, rr, "model counterexample " + inv)
            ctx.sample(dict(kind="model counterexample replayed", invariant=inv, schedule=C6.schedule_sig(sc["schedule"])[-14:]))
        if len(ctx.violations) + len(ctx.known_hits) == before:
            raise common.Infra("TLC reports %s violated on the model of the current code but the replay into the real code shows "
                               "correct results: the specification misrepresents the code" % cex[0][1])
    # ------------------------------------------------------------ 2. spec -> code
    nsim = 300 if thorough else 50
    sims = []
    consts = dict(Runs="R3", Cap=2, Frag="TRUE", StepBeh="BehAll", SigRuns="R2", BadSigRuns="R1")
    cfg = A.mc_cfg(os.path.join(ctx.tmp, "c05_sim.cfg"), consts, invariants=INVS)
    d = os.path.join(ctx.tmp, "sim")
    os.mkdir(d)
    ctx.tlc("ATPMC", cfg, workers=1, simulate="file=%s/b,num=%d" % (d, nsim), depth=160, timeout=600, allow_violation=True)
    for f in sorted(glob.glob(os.path.join(d, "b_*"))):
        acts, final = A.parse_sim_file(f)
        beh = A.behaviours_of(acts)
        runs = [dict(id=x, beh=beh.get(x, "ok"), sig=x in ("r1", "r2"), badsig=x == "r1") for x in ("r1", "r2", "r3")]
        sims.append(dict(id="sim/" + os.path.basename(f), mode="replay", cap=2, runs=runs, schedule=acts))
    res = A.run_driver(ctx, sims, label="c05sim")
    for sc, rr in zip(sims, res):
        out = judge(ctx, sc, rr, "replayed behaviour")
        if out is None:
            continue
        ctx.count("replay/" + ",".join(C6.schedule_sig(sc["schedule"])))
        if out.get("follow_err"):
            ctx.note_drift("code cannot follow a behaviour of the specification",
                           dict(id=sc["id"], at=out.get("follow_at"), err=out["follow_err"], parked=out.get("stuck_detail")))
            continue
        sessions.setdefault((2, ("r1", "r2"), ("r1",)), []).append((sc["id"], out["events"]))
    if sims:
        ctx.sample(dict(kind="replayed behaviour with fragment counts",
                        schedule=[(a["a"], a.get("r", ""), a.get("n", 0)) for a in sims[0]["schedule"][:20]]))
    # ------------------------------------------------------------ 3. code -> spec: stress over the echo step
    stress = []
    nstress = 160 if thorough else 36
    maxruns = 11 if thorough else 6
    for i in range(nstress):
        n = rng.randint(2, maxruns)
        ids = ["r%d" % k for k in range(1, n + 1)]
        runs = [dict(id=x, beh="ok", echo=1 + (i * 7 + k) % NPAYLOADS) for k, x in enumerate(ids)]
        if i % 3 == 0:      # mix in plain steps with errors and panics
            for k in range(0, n, 3):
                runs[k] = dict(id=ids[k], beh=["ok", "err", "panic"][(i + k) % 3])
        if i % 4 == 1:      # one call names a step the plugin does not have (its error must reach that call only)
            runs[0] = dict(id=ids[0], beh="ok", echo=1 + i % 9, step="nosuch")
        if i % 4 == 2:      # the all-optional step: nil, {}, partial and wrong-typed inputs
            runs[-1] = dict(id=ids[-1], beh="ok", echo=1 + (i // 4) % 7, step="opt")
        shape = i % 4
        if shape == 0:
            phases = [ids]
        elif shape == 1:
            phases = [[x] for x in ids]
        elif shape == 2:
            h = max(1, n // 2)
            phases = [ids[:h], ids[h:]]
        else:
            phases = [ids[:1], ids[1:]]
        stress.append(dict(id="stress/%d" % i, mode="free", cap=i % 4, frag=True, seed=ctx.seed * 1000 + i, runs=runs,
                           workload=dict(phases=[p for p in phases if p], close="end")))
    res = A.run_driver(ctx, stress, label="c05stress")
    delay = []
    for sc, rr in zip(stress, res):
        out = judge(ctx, sc, rr, "stress")
        if out is None:
            continue
        ctx.count(sc["id"] + "/" + json.dumps([sc["cap"], sc["workload"], [r.get("echo", r.get("beh")) for r in sc["runs"]]]))
        sessions.setdefault((sc["cap"], (), ()), []).append((sc["id"], out["events"]))
        if len(delay) < (600 if thorough else 90) and len(sc["runs"]) <= 3:
            seen = {}
            for key in out.get("gates", []):
                seen[key] = seen.get(key, 0) + 1
                delay.append(dict(sc, id="delay/%s/%s#%d" % (sc["id"], key, seen[key]), mode="delay", delay_key=key, delay_nth=seen[key]))
    # writers held INSIDE their critical section (the transport's write gate lies between c.send / s.send and the
    # write itself): with a correct mutex every other writer queues up behind it, whatever the machine load
    for cap in (0, 2):
        ids = ["r1", "r2", "r3"]
        base = dict(mode="delay", cap=cap, frag=False, seed=ctx.seed * 31 + cap, runs=[dict(id=x, beh="ok", echo=1 + k) for k, x in enumerate(ids)],
                    workload=dict(phases=[ids], close="end"))
        for key in ("t.c2s.write.pre", "t.s2c.write.pre"):
            for nth in (1, 2, 3, 4):
                delay.append(dict(base, id="delay/incs/cap%d/%s#%d" % (cap, key, nth), delay_key=key, delay_nth=nth))
    # more rejected inputs at the same moment than the server's error queue (3) and its handler can hold, while the
    # client's read loop is held back: every call still gets its own step's error once the loop reads on
    for n in (6, 9):
        ids = ["r%d" % k for k in range(1, n + 1)]
        runs = [dict(id=x, beh="ok", echo=10 + k % 9) for k, x in enumerate(ids)]
        runs[-1] = dict(id=ids[-1], beh="ok", echo=2)          # one valid call among them
        base = dict(mode="delay", cap=0, frag=False, seed=ctx.seed * 17 + n, runs=runs, workload=dict(phases=[ids], close="end"))
        for key, nth in (("t.s2c.read.pre", 1), ("t.s2c.read.pre", 2), ("c.deliver.pre|r1", 1), ("t.s2c.write.pre", 2)):
            delay.append(dict(base, id="delay/burst%d/%s#%d" % (n, key, nth), delay_key=key, delay_nth=nth))
    res = A.run_driver(ctx, delay, label="c05delay")
    for sc, rr in zip(delay, res):
        out = judge(ctx, sc, rr, "delay " + sc["delay_key"])
        if out is None:
            continue
        ctx.count(sc["id"])
        sessions.setdefault((sc["cap"], (), ()), []).append((sc["id"], out["events"]))
    # statement-level yield points (build overlay generated from the current sources): serial echo sessions with
    # one statement occurrence held until the rest of the system is blocked - a lost result shows as a stuck or
    # failed Execute on a healthy connection
    try:
        ybin, npoints = A.yield_binary(ctx)
    except common.Infra as e:
        ybin, npoints = None, 0
        ctx.extra["yield_points"] = "overlay build failed: %s" % str(e)[:200]
    if ybin:
        runs = [dict(id="r%d" % k, beh="ok", echo=k) for k in (1, 2, 3)]
        ybase = [dict(id="yfree/serial3echo", mode="free", cap=0, frag=False, seed=ctx.seed, runs=runs,
                      workload=dict(phases=[["r1"], ["r2"], ["r3"]], close="end")),
                 dict(id="yfree/par2then1", mode="free", cap=1, frag=True, seed=ctx.seed + 1, runs=runs,
                      workload=dict(phases=[["r1", "r2"], ["r3"]], close="end"))]
        ydelay = []
        for sc, rr in zip(ybase, A.run_driver(ctx, ybase, binary=ybin, label="c05y")):
            out = judge(ctx, sc, rr, "free run (yield overlay)")
            if out is None:
                continue
            seen = {}
            for key in out.get("gates", []):
                seen[key] = seen.get(key, 0) + 1
                if key.startswith(("y:client.go", "y:e:client.go")):
                    ydelay.append(dict(sc, id="ydelay/%s/%s#%d" % (sc["id"][6:], key, seen[key]), mode="delay", delay_key=key, delay_nth=seen[key]))
        rng.shuffle(ydelay)
        # statements at the edge of a critical section (they take a lock, or follow an unlock / wake-up / send) are held
        # first: the windows between critical sections are where hand-overs go wrong
        ydelay.sort(key=lambda d: 0 if d["delay_key"].startswith("y:e:") else 1)
        ydelay = ydelay[: (1500 if thorough else 120)]
        for sc, rr in zip(ydelay, A.run_driver(ctx, ydelay, binary=ybin, label="c05yd")):
            out = judge(ctx, sc, rr, "delay " + sc["delay_key"])
            if out is not None:
                ctx.count(sc["id"])
                sessions.setdefault((sc["cap"], (), ()), []).append((sc["id"], out["events"]))
        ctx.extra["yield_points"] = npoints
        ctx.extra["yield_delay_scenarios"] = len(ydelay)
    # run IDs used again, back to back: after a success, after an input the step's schema rejects, after an undeclared
    # output and after a panic - the second call must get what the same step returns in-process (no state keyed by
    # run ID may survive the first).  The model has one call per run ID, so these sessions are judged by the payload
    # comparison only.
    reuse = []
    for i, (first, kind) in enumerate([(dict(echo=1), "ok"), (dict(echo=10), "rejected"), (dict(echo=16), "rejected"),
                                       (dict(beh="err"), "undeclared"), (dict(beh="panic"), "panic")]):
        for cap in (0, 2):
            runs = [dict(dict(id="r1", beh="ok"), **first),
                    dict(id="r1b", **{"as": "r1"}, beh="ok", echo=2 + i),
                    dict(id="r1c", **{"as": "r1"}, beh="ok", echo=11 + i),      # rejected input under the same run ID
                    dict(id="r1d", **{"as": "r1"}, beh="ok", echo=3 + i),
                    dict(id="r2", beh="ok", echo=4)]
            reuse.append(dict(id="reuse/%s/cap%d" % (kind + str(i), cap), mode="free", cap=cap, frag=bool(cap), seed=ctx.seed * 13 + i,
                              runs=runs, workload=dict(phases=[["r1"], ["r1b", "r2"], ["r1c"], ["r1d"]], close="end")))
    for sc, rr in zip(reuse, A.run_driver(ctx, reuse, label="c05reuse")):
        out = judge(ctx, sc, rr, "run ID reuse")
        if out is not None:
            ctx.count(sc["id"])
    ctx.extra["run_id_reuse_sessions"] = len(reuse)
    # one run ID used by two OVERLAPPING callers: the step waits until the second caller has returned, so exactly one
    # of the two is refused - and the refusal must leave the other call's registration alone: the accepted caller
    # still gets the result of its step (with and without signal channels, unbuffered and buffered wires, the refused
    # caller first or second)
    dup = []
    for i, (sig, order) in enumerate([(s_, o_) for s_ in (False, True) for o_ in (("r1", "r1d"), ("r1d", "r1"))]):
        for cap in (0, 2):
            runs = [dict(id="r1", beh="ok", sig=sig, badsig=False),
                    dict(id="r1d", **{"as": "r1"}, dup=True, beh="ok", sig=sig, badsig=False),
                    dict(id="r2", beh="ok", sig=False, badsig=False), dict(id="r3", beh="ok", sig=False, badsig=False)]
            dup.append(dict(id="dup/%d/cap%d" % (i, cap), mode="free", cap=cap, frag=bool(cap), seed=ctx.seed * 17 + i, runs=runs,
                            workload=dict(phases=[list(order) + ["r2"], ["r3"]], close="end")))
    for sc, rr in zip(dup, A.run_driver(ctx, dup, label="c05dup")):
        out = judge(ctx, sc, rr, "overlapping callers of one run ID")
        if out is not None:
            ctx.count(sc["id"])
            st = sorted([out["results"].get("r1", {}).get("st"), out["results"].get("r1d", {}).get("st")])
            if not out.get("stuck") and st == ["dup", "ok"]:
                won = next(x for x in ("r1", "r1d") if out["results"][x]["st"] == "ok")
                if out["results"][won].get("got") != "hello r1":
                    ctx.violation(dict(kind="lost_or_wrong_result", step="ok", code="foreign", part="duplicate"),
                                  dict(scenario=sc, run=won, results=out["results"]))
    ctx.extra["overlapping_duplicate_sessions"] = len(dup)
    # signals reach the run they are addressed to: overlapping calls of a step whose output is the token its signal
    # handler was given, all passing ONE signalsToStep channel; one signal per run, addressed by run ID, sent in every
    # rotation of the order in which the calls were issued (whichever write loop takes a signal off the shared
    # channel must forward it under the run ID it carries)
    shared = []
    for n in ((2, 3, 5) if not thorough else (2, 3, 4, 5, 8)):
        for rot in range(n):
            for cap in (0, 2):
                shared.append(dict(id="sharedsig/%d/rot%d/cap%d" % (n, rot, cap), mode="sharedsig", cap=cap, seed=rot,
                                   runs=[dict(id="r%d" % k, beh="ok") for k in range(1, n + 1)]))
    shared_ok = []
    for sc, rr in zip(shared, A.run_driver(ctx, shared, label="c05sharedsig")):
        if not rr.get("crash") and (rr.get("res") or {}).get("follow_err"):
            ctx.note_drift("shared-signal session not carried out as designed", dict(id=sc["id"], err=rr["res"]["follow_err"]))
            continue
        out = C6.judge_session(ctx, sc, rr, what="shared signal channel")
        if out is None:
            continue
        ctx.count(sc["id"])
        if out.get("stuck"):
            continue
        if out.get("follow_err"):
            # the driver could not set the scene (a loaded machine): no verdict from this session
            ctx.note_drift("shared-signal session not carried out as designed", dict(id=sc["id"], err=out["follow_err"]))
            continue
        shared_ok.append((sc, out))
        bad = {r: e for r, e in out["results"].items() if not (e["st"] == "ok" and e.get("token_ok"))}
        if bad:
            r0 = sorted(bad)[0]
            ctx.violation(dict(kind="signal_reached_another_run" if bad[r0]["st"] == "ok" else "lost_or_wrong_result",
                               part="shared signal channel", code=bad[r0]["st"]),
                          dict(scenario=sc, results=out["results"]))
    ctx.extra["shared_signal_channel_sessions"] = len(shared)
    # a run ID used again while the server goroutine of its first use is still inside the Write call of its work-done
    # (a write that returns late: the client already has the result): the second call waits for its signal, the first
    # run's goroutine runs on, then the signal is sent - the second call returns the token of ITS signal
    reuse_sig = [dict(id="reusesig/cap%d" % cap, mode="reusesig", cap=cap, runs=[]) for cap in (0, 2)]
    for sc, rr in zip(reuse_sig, A.run_driver(ctx, reuse_sig, label="c05reusesig")):
        if not rr.get("crash") and (rr.get("res") or {}).get("follow_err"):
            # the driver could not set the scene (a loaded machine): no verdict from this session
            ctx.note_drift("run-ID-reuse session not carried out as designed", dict(id=sc["id"], err=rr["res"]["follow_err"]))
            continue
        out = C6.judge_session(ctx, sc, rr, what="run ID reused behind a late write")
        if out is None or out.get("stuck"):
            continue
        if out.get("follow_err"):
            # the driver could not set the scene (a loaded machine): no verdict from this session
            ctx.note_drift("run-ID-reuse session not carried out as designed", dict(id=sc["id"], err=out["follow_err"]))
            continue
        ctx.count(sc["id"])
        for which in ("first", "second"):
            e = out["results"].get(which) or {}
            if not (e.get("st") == "ok" and e.get("token_ok")):
                ctx.violation(dict(kind="lost_or_wrong_result", part="run ID reused behind a late write", call=which, code=str(e.get("st"))),
                              dict(scenario=sc, results=out["results"]))
                break
    ctx.extra["reuse_behind_late_write_sessions"] = len(reuse_sig)
    # the signal path as a specification of its own (spec/ATPSignals.tla): exhaustive for four runs and every order of
    # addressing, the named deviation (the write loop stamps its own run ID) must violate Addressed, and every real
    # session above is validated by ATPSignalsTrace.tla (which loop took which signal is not logged: TLC infers it)
    def sig_cfg(path, spec, stamp_own, shared_ch=True, trace=False, runs="R4", orders="AllOrders4"):
        with open(path, "w") as f:
            f.write("SPECIFICATION %s\nCONSTANTS\n  Runs <- %s\n  Shared = %s\n  StampOwn = %s\n  Orders <- %s\n" % (
                spec, runs, "TRUE" if shared_ch else "FALSE", "TRUE" if stamp_own else "FALSE", orders))
            if trace:
                f.write("CONSTRAINT HighWater\nINVARIANT TraceInv\nPOSTCONDITION Accepted\n")
            else:
                f.write("INVARIANTS TypeOK Addressed AtMostOnce\nPROPERTIES AllDelivered\n")
        return path
    for nm, own, sh, expect in (("shared", False, True, None), ("own_channels", False, False, None), ("own_channels_stamp_own", True, False, None),
                                ("shared_stamp_own", True, True, "Addressed")):
        r = ctx.tlc("ATPSignalsMC", sig_cfg(os.path.join(ctx.tmp, "c05_sig_%s.cfg" % nm), "FairSpec", own, sh), workers=4, timeout=600, allow_violation=True)
        ctx.log("ATPSignals %s: %r" % (nm, r))
        if r.violated != expect:
            raise common.Infra("ATPSignals/%s: expected %s, TLC reports %s" % (nm, expect, r.violated))
    slines, sowner = [], []
    for sc, out in shared_ok:
        slines.append(dict(ev="reset", r="", k=""))
        sowner.append(sc)
        for e in out["events"]:
            ev, kv, role = e["ev"], e.get("kv") or {}, e.get("role", "")
            if ev == "e.sig":
                slines.append(dict(ev="e.sig", r=kv.get("run", ""), k=""))
            elif ev == "c.send" and kv.get("kind") == "sig":
                slines.append(dict(ev="c.send", r=kv.get("run", ""), k=A.role_run(role) if role.startswith("wloop:") else ""))
            elif ev == "s.signal":
                slines.append(dict(ev="s.signal", r=kv.get("run", ""), k=""))
            else:
                continue
            sowner.append(sc)
        for rid, e in sorted(out["results"].items()):
            if e["st"] == "ok":
                slines.append(dict(ev="x.result", r=rid, k=(e.get("got") or "").replace("token for ", "")))
                sowner.append(sc)
    if slines:
        tpath = os.path.join(ctx.tmp, "c05-sigtrace.ndjson")
        common.write_ndjson(tpath, slines)
        with open(tpath + ".cfg", "w") as f:
            f.write("SPECIFICATION TSpec\nCONSTANTS\n  Runs = {%s}\n  Shared = TRUE\n  StampOwn = FALSE\n  Orders = {}\n"
                    "CONSTRAINT HighWater\nINVARIANT TraceInv\nPOSTCONDITION Accepted\n" % ", ".join('"r%d"' % k for k in range(1, 9)))
        r = ctx.tlc("ATPSignalsTrace", tpath + ".cfg", workers=1, env={"VERIF_TRACE": tpath}, timeout=600, dfs=True, allow_violation=True, coverage=False)
        m = re.search(r'<<"HIGHWATER", (\d+), (\d+)>>', r.out)
        hw = int(m.group(1)) if m else None
        if r.ok and hw == len(slines) + 1:
            ctx.traces += len(shared_ok)
        else:
            idx = max(1, min(hw or 1, len(slines)))
            ctx.violation(dict(kind="trace_rejected" if not (r.violated and r.violated != "postcondition") else "trace_invariant",
                               event=slines[idx - 1]["ev"], violated=str(r.violated), part="shared signal channel"),
                          dict(scenario=sowner[idx - 1], line=slines[idx - 1], prefix=slines[max(0, idx - 8):idx - 1]))
    # the legacy v1 framing (no run IDs: strictly serial): the real client against a minimal v1 server built around
    # the real CallableSchema; payload fidelity as above; a rejected input ends the stream and must come back as an error
    v1 = []
    for i in range(12 if thorough else 4):
        pl = [1 + (i * 5 + k) % 9 for k in range(4)]            # valid payloads (catalogue entries 1..9)
        runs = [dict(id="r%d" % (k + 1), beh="ok", echo=x, sig=bool((i + k) % 2)) for k, x in enumerate(pl)]   # every other caller passes (and later closes) a signalsToStep channel
        if i % 2:
            runs.append(dict(id="r9", beh="ok", echo=10 + i % 9))  # a rejected input last
        v1.append(dict(id="v1echo/%d" % i, mode="v1echo", cap=i % 3, frag=bool(i % 2), seed=ctx.seed * 77 + i, runs=runs))
        # the same session against a plugin that writes its work-done the way legacy v1 plugins did (no step_id key)
        v1.append(dict(id="v1echo/%d/legacy" % i, mode="v1echo", cap=i % 3, frag=bool(i % 2), seed=ctx.seed * 77 + i, runs=runs, v1_legacy=True))
    for sc, rr in zip(v1, A.run_driver(ctx, v1, label="c05v1")):
        out = judge(ctx, sc, rr, "v1 session")
        if out is not None:
            ctx.count(sc["id"] + "/" + json.dumps([r["echo"] for r in sc["runs"]]))
    ctx.sample(dict(kind="stress session", id=stress[0]["id"], cap=stress[0]["cap"], runs=stress[0]["runs"][:4], workload=stress[0]["workload"]))
    ctx.extra["payload_catalogue"] = NPAYLOADS
    # ------------------------------------------------------------ trace validation
    allruns = ["r%d" % k for k in range(1, 12)]
    for (cap, sig, bad), sess in sorted(sessions.items()):
        for i in range(0, len(sess), 120):
            batch = sess[i:i + 120]
            ok, info = A.validate(ctx, batch, allruns, cap, list(sig), list(bad), label="c05trace")
            if ok:
                ctx.traces += len(batch)
            else:
                evs = next((e for sid, e in batch if sid == info.get("session")), [])
                ctx.violation(dict(kind="trace_" + info["kind"], event=info["line"]["ev"], violated=str(info.get("violated"))),
                              dict(session=info.get("session"), line=info["line"], prefix=info.get("prefix"),
                                   events=evs[: info["event_index"] + 3], tlc=info.get("tlc_tail", "")))
    # ------------------------------------------------------------ the legacy framing in the specification
    # spec/ATPHello.tla with a faithful v1 plugin: TLC (serial and overlapping calls, liveness; the read-lock-only
    # deviation must exhibit cross-talk), behaviours and held-gate schedules of overlapping calls on the real client,
    # every session validated by ATPHelloTrace.tla
    ctx.extra["v1_model_sessions_accepted"] = H.stage_v1(ctx, thorough)
    ctx.extra["v1_design_variant"] = H.DESIGN
    ctx.exhaustive = False


def replay(ctx, rp):
    sc = rp["replay"].get("scenario")
    if not sc:
        raise common.Infra("replay file carries no scenario (trace rejections are reproduced by re-running the check)")
    if sc.get("mode") in ("hello", "hello_srv"):
        H.play(ctx, [sc], "client" if sc["mode"] == "hello" else "server", "v1",
               describable=sc.get("hello_bad") != "undescribable", label="replayhello")
        ctx.rule = "replay of one recorded handshake / legacy-framing session"
        ctx.sample(dict(id=sc.get("id"), ops=sc.get("ops")))
        return
    rr = A.run_driver(ctx, [sc], jobs=1)[0]
    judge(ctx, sc, rr, "replay")
    ctx.sample(dict(id=sc.get("id"), mode=sc.get("mode")))
    ctx.rule = "replay of one recorded scenario"
