"""C06 - every Execute on a healthy connection returns exactly once under any schedule; Close returns.

spec/ATP.tla (client + server + wires), ATPMC.tla, ATPTrace.tla; harness/sched, harness/cmd/atp.

 1. TLC explores every interleaving of the model of the CURRENT code (design flags in
    props/atp_common.DESIGN) for small session histories and checks NoStuck / ReturnsOnce /
    Quiescent / NoNilWake / FlagHonest (invariants) and, in the thorough tier, liveness under
    weak fairness.  A counterexample is replayed into the real client and server through the
    gate scheduler; it becomes a violation only if the real code ends structurally stuck too.
 2. spec -> code: behaviours sampled by `tlc -simulate` are replayed gate by gate; the real
    Execute results must equal the model's.
 3. code -> spec: systematic delay exploration (every gate occurrence of fixed workloads held
    until the rest of the system is blocked) and free runs; every recorded trace must be accepted by
    ATPTrace.tla with all safety invariants holding in every state, and the run must not end stuck.
"""
import os, json, glob
from vlib import common
from props import atp_common as A

SPECS = ["ATPMC", "ATPTrace"]
PKGS = ["./cmd/atp", "./cmd/yieldgen"]

INVS = ["TypeOK", "NoStuck", "ReturnsOnce", "Quiescent", "NoNilWake", "FlagHonest"]


def schedule_sig(acts, upto=None):
    """normalised schedule: action labels with run IDs renamed in order of first appearance"""
    ren, out = {}, []
    for a in acts[:upto]:
        r = a.get("r", "")
        if r and r not in ren:
            ren[r] = "R%d" % (len(ren) + 1)
        out.append(a["a"] + ("(" + ren[r] + ")" if r else ""))
    return out


def stuck_sig(detail):
    roles = sorted(set(d.split(" ")[0].split(":")[0] + " " + d.split("[")[1].split("]")[0]
                       for d in detail if "[" in d and d.split(" ")[0]))
    return "; ".join(roles)


def workloads(thorough):
    R = lambda i, **kw: dict(id="r%d" % i, beh=kw.get("beh", "ok"), sig=kw.get("sig", False), badsig=kw.get("badsig", False))
    w = [
        ("serial3", [R(1), R(2), R(3)], dict(phases=[["r1"], ["r2"], ["r3"]], close="end")),
        ("serial2sig", [R(1, sig=True), R(2, sig=True)], dict(phases=[["r1"], ["r2"]], close="end")),
        ("parallel3", [R(1), R(2), R(3)], dict(phases=[["r1", "r2", "r3"]], close="end")),
        ("serial2race", [R(1), R(2)], dict(phases=[["r1"], ["r2"]], close="race")),
        ("mixed_err", [R(1, beh="err"), R(2), R(3, beh="panic")], dict(phases=[["r1", "r2"], ["r3"]], close="end")),
        # an Execute that names no step: the server's step-fatal error carries no run ID and goes to every pending call
        ("nostep_par", [R(1), R(2, beh="nostep"), R(3)], dict(phases=[["r1", "r2"], ["r3"]], close="end")),
        ("nostep_alone", [R(1, beh="nostep"), R(2)], dict(phases=[["r1"], ["r2"]], close="end")),
        # two callers use one run ID at the same time (both with a signal channel): one is refused as a duplicate, the
        # other runs; afterwards Close has to return
        ("dup_sig", [R(1, sig=True), dict(id="r1d", **{"as": "r1"}, dup=True, beh="ok", sig=True, badsig=False), R(2)],
         dict(phases=[["r1", "r1d"], ["r2"]], close="end")),
        # a result stored before its caller waits for it, then the fan-out of a run-less step-fatal error over it, then
        # a slow and a fast run overlapping: the read loop must keep running for the slow one
        ("nostep_then_overlap", [R(1), R(2, beh="nostep"), dict(id="r3", beh="ok", sig=False, badsig=False, after="r4"), R(4)],
         dict(phases=[["r1", "r2"], ["r3", "r4"]], close="end")),
        # no coupling between the step and the callers: with a caller held before it collects its stored result, the
        # second caller of the same run ID must still be refused (or, if the first is completely done, run normally)
        ("dup_nogate", [R(1), dict(id="r1d", **{"as": "r1"}, beh="ok", sig=False, badsig=False), R(2)],
         dict(phases=[["r1", "r1d"], ["r2"]], close="end")),
        # a retry of the identical call while the first is in flight: same run ID, same signalsFromStep channel. The
        # refusal of the retry must leave the channel to the call that owns it (it is closed once, when that call's
        # result arrives)
        ("dup_same_from", [dict(R(1), emit=True), dict(id="r1d", **{"as": "r1"}, dup=True, beh="ok", sig=False, badsig=False,
                                                        emit=True, share_from=True), R(2)],
         dict(phases=[["r1", "r1d"], ["r2"]], close="end")),
        ("dup_plain", [R(1), dict(id="r1d", **{"as": "r1"}, dup=True, beh="ok", sig=False, badsig=False), R(2)],
         dict(phases=[["r1", "r1d"], ["r2"]], close="race")),
    ]
    if thorough:
        w += [
            ("serial2badsig", [R(1, sig=True, badsig=True), R(2)], dict(phases=[["r1"], ["r2"]], close="end")),
            ("par2_then1", [R(1, sig=True), R(2, beh="err"), R(3)], dict(phases=[["r1", "r2"], ["r3"]], close="end")),
            ("serial3noclose", [R(1), R(2), R(3)], dict(phases=[["r1"], ["r2"], ["r3"]], close="none")),
        ]
    return w


def cfg_key(runs):
    rid = lambda r: r.get("as") or r["id"]
    sig = tuple(sorted(set(rid(r) for r in runs if r.get("sig"))))
    bad = tuple(sorted(set(rid(r) for r in runs if r.get("badsig"))))
    nostep = tuple(sorted(set(rid(r) for r in runs if r.get("beh") == "nostep")))
    return (sig, bad, nostep) if nostep else (sig, bad)


def add_session(ctx, sessions, sc, out):
    """queue a session for trace validation - unless a run ID was used twice one after the other (both callers ran to
    a result): the model has one call per run ID, such sessions are judged by the real-code oracles only"""
    for r in sc.get("runs", []):
        if r.get("as") and not r.get("dup"):
            a, b = out["results"].get(r["id"], {}), out["results"].get(r["as"], {})
            if a.get("st") != "dup" and b.get("st") != "dup":
                ctx.extra["run_id_reuse_sessions_not_trace_validated"] = ctx.extra.get("run_id_reuse_sessions_not_trace_validated", 0) + 1
                return
    sessions.setdefault(cfg_key(sc["runs"]), []).append((sc["id"], out["events"]))


def judge_session(ctx, sc, rr, model_res=None, what="delay"):
    """verdicts that come from the real run itself (not from the trace): stuck, returned twice,
    wrong result.  rr = result record of the driver."""
    if rr.get("crash"):
        if not rr.get("reproduced"):
            raise common.Infra("unreproduced driver crash in %s: %s" % (sc.get("id"), rr.get("detail", "")[:2500]))
        msg = rr.get("detail", "")
        first = next((l for l in msg.splitlines() if l.startswith("panic:") or l.startswith("fatal error:")), msg[:120])
        ctx.violation(dict(kind="crash", message=first.strip()[:120], frame=rr.get("frame", "")),
                      dict(scenario=sc, crash=rr["crash"], detail=msg[:4000]))
        return None
    res = rr["res"]
    if res.get("harness_error") or res.get("harness_panic"):
        raise common.Infra("atp driver failed: %s" % json.dumps(res)[:600])
    for rid, e in res["results"].items():
        if e["returns"] > 1:
            ctx.violation(dict(kind="returned_twice"), dict(scenario=sc, result=res["results"]))
    for r in sc.get("runs", []):
        if r.get("dup") and not res.get("stuck") and r["id"] in res["results"] and r["as"] in res["results"]:
            pair = sorted([res["results"][r["id"]]["st"], res["results"][r["as"]]["st"]])
            if pair.count("dup") != 1:
                ctx.violation(dict(kind="duplicate_run_id", outcome="/".join(pair)), dict(scenario=sc, result=res["results"]))
        elif r.get("as") and r.get("beh", "ok") == "ok" and not r.get("echo") and not res.get("stuck") \
                and all(x.get("beh", "ok") == "ok" and not x.get("echo") for x in sc.get("runs", []) if x["id"] == r["as"]) \
                and r["id"] in res["results"] and r["as"] in res["results"] \
                and (sc.get("workload") or {}).get("close") != "race":
            # a run ID used by two callers without coupling: one runs and the other is refused, or - if the first was
            # completely done - both run; a successful step's result is never lost to its own caller
            pair = sorted([res["results"][r["id"]]["st"], res["results"][r["as"]]["st"]])
            if pair not in (["dup", "ok"], ["ok", "ok"]):
                ctx.violation(dict(kind="duplicate_run_id", outcome="/".join(pair)), dict(scenario=sc, result=res["results"]))
    if res.get("server_stalled"):
        ctx.extra["server_stalled_sessions"] = ctx.extra.get("server_stalled_sessions", 0) + 1
        ctx.note_drift("server had not returned when the client was finished (blocked writing a message nobody reads; "
                       "bounded by its 60 s send timeout) - C07's concern, not a stuck client",
                       dict(id=sc.get("id"), blocked=res.get("stuck_detail")))
    if res.get("stuck"):
        ctx.violation(dict(kind="stuck", blocked=stuck_sig(res.get("stuck_detail", []))),
                      dict(scenario=sc, where=what, stuck_detail=res.get("stuck_detail"), results=res["results"],
                           last_events=(res.get("events") or [])[-12:]))
    return res


def run(ctx):
    thorough = ctx.tier == "thorough"
    design = dict(A.DESIGN)
    ctx.rule = ("states = reachable states of ATP.tla (client callers x read loop x write loops x Close x server run loop x "
                "closure handler x step/signal goroutines x wires) for the session histories listed in tlc_runs; "
                "traces = real sessions (replayed TLC behaviours + one run per held gate occurrence of each workload) "
                "accepted by ATPTrace.tla; distinct = distinct (workload, held gate, occurrence) / distinct replayed schedules; "
                "non-trivial = all (each forces a different interleaving)")
    ctx.assumptions += [
        "healthy peer = the SDK's own server, whose output is closed when RunATPServer returns (as the OS does for a process)",
        "no write stalls >= 60 s (sendRuntimeMessage timeout) and Close's 5 s bounded wait are not driven",
        "liveness of the real code is bounded observation: a run is stuck iff every goroutine is blocked in a sync primitive "
        "or pipe operation with calls pending (goroutine dump), never a mere timeout",
        "design variant of the model bound to the code: %s" % json.dumps(design),
    ]
    # ---------------------------------------------------------------- 1. exhaustive model checking
    mc = []
    mc.append(("serial2", dict(Runs="R2", Serial="TRUE", StepBeh="BehOkErr", WithClose="TRUE")))
    mc.append(("conc2sig", dict(Runs="R2", StepBeh="BehOkErr", SigRuns="R1", EmitRuns="R1", WithClose="TRUE")))
    mc.append(("conc2nostep", dict(Runs="R2", StepBeh="BehOkErr", NoStepRuns="R1", WithClose="TRUE")))
    if thorough:
        mc.append(("serial3", dict(Runs="R3", Serial="TRUE", StepBeh="BehOk", WithClose="TRUE")))
        mc.append(("conc3", dict(Runs="R3", StepBeh="BehOk", WithClose="FALSE")))
        mc.append(("conc2badsig_cap1", dict(Runs="R2", Cap=1, StepBeh="BehOkErr", SigRuns="R1", BadSigRuns="R1", WithClose="TRUE")))
    cex_scenarios = []
    for name, consts in mc:
        cfg = A.mc_cfg(os.path.join(ctx.tmp, "c06_%s.cfg" % name), consts, invariants=INVS)
        r = ctx.tlc("ATPMC", cfg, workers=min(12, common.NCPU), timeout=3000, allow_violation=True,
                    heap="24g" if thorough else None)
        ctx.log("model %s: %r" % (name, r))
        if r.violated:
            acts = A.parse_cex(r.out)
            beh = A.behaviours_of(acts)
            runs = [dict(id=x, beh="nostep" if x in A.SET_RUNS[consts.get("NoStepRuns", "None")] else beh.get(x, "ok"),
                         sig=x in A.SET_RUNS[consts.get("SigRuns", "None")],
                         badsig=x in A.SET_RUNS[consts.get("BadSigRuns", "None")]) for x in A.SET_RUNS[consts["Runs"]]]
            cex_scenarios.append((name, r.violated, dict(id="cex-" + name, mode="replay", cap=int(consts.get("Cap", 0)),
                                                          runs=runs, schedule=acts)))
    if thorough and not cex_scenarios:
        cfg = A.mc_cfg(os.path.join(ctx.tmp, "c06_live.cfg"), dict(Runs="R2", StepBeh="BehOkErr", WithClose="TRUE"),
                       properties=["EventuallyReturns", "CloseReturns"], spec="FairSpec")
        r = ctx.tlc("ATPMC", cfg, workers=min(12, common.NCPU), timeout=3000, allow_violation=True, heap="24g")
        ctx.log("liveness: %r" % r)
        if r.violated:
            raise common.Infra("liveness property violated on the model although NoStuck holds: inspect the specification\n"
                               + "\n".join(r.out.splitlines()[-40:]))
    # counterexamples of the model are verdicts only through the real code
    if cex_scenarios:
        res = A.run_driver(ctx, [s for _, _, s in cex_scenarios], jobs=2)
        for (name, inv, sc), rr in zip(cex_scenarios, res):
            ctx.count("cex/" + name)
            out = judge_session(ctx, sc, rr, what="model counterexample " + inv)
            ctx.sample(dict(kind="model counterexample replayed", invariant=inv, schedule=schedule_sig(sc["schedule"])[-12:]))
            if out is not None and not out.get("stuck") and not ctx.violations and not ctx.known_hits:
                raise common.Infra("TLC reports %s violated on the model of the current code (%s) but the real code followed "
                                   "the schedule without getting stuck: the specification misrepresents the code"
                                   % (inv, name))
    # the known deviation "loop exit in a separate critical section" (pinned client): its counterexample is replayed
    # into the real code as a targeted schedule; the repaired client must not end stuck on it (the gate the schedule
    # needs no longer exists, so the replay may stop following - what matters is that every call returns)
    dv = A.deviation_cex(ctx, "ATPMC", "separate_loop_exit",
                         dict(Runs="R2", Serial="TRUE", StepBeh="BehOk", MergedExit="FALSE"), ["NoStuck"])
    acts = A.parse_cex(dv.out)
    dsc = dict(id="deviation/separate_loop_exit", mode="replay", cap=0, schedule=acts,
               runs=[dict(id="r1", beh="ok"), dict(id="r2", beh="ok")])
    judge_session(ctx, dsc, A.run_driver(ctx, [dsc], jobs=1)[0], what="deviation schedule")
    ctx.count("deviation/separate_loop_exit")
    # ---------------------------------------------------------------- 2. spec -> code: sampled behaviours
    nsim = 400 if thorough else 60
    sims = []
    for name, consts, sig, bad in [
        ("sim_serial3", dict(Runs="R3", Serial="TRUE", StepBeh="BehAll", WithClose="TRUE"), [], []),
        ("sim_conc2sig", dict(Runs="R2", StepBeh="BehAll", SigRuns="R2", BadSigRuns="R1", WithClose="TRUE"), ["r1", "r2"], ["r1"]),
        ("sim_conc3nostep", dict(Runs="R3", StepBeh="BehOkErr", NoStepRuns="R1", WithClose="TRUE"), [], []),
    ]:
        cfg = A.mc_cfg(os.path.join(ctx.tmp, "c06_%s.cfg" % name), consts, invariants=INVS)
        d = os.path.join(ctx.tmp, name)
        os.mkdir(d)
        r = ctx.tlc("ATPMC", cfg, workers=1, simulate="file=%s/b,num=%d" % (d, nsim), depth=120, timeout=600,
                    allow_violation=True)
        for f in sorted(glob.glob(os.path.join(d, "b_*"))):
            acts, final = A.parse_sim_file(f)
            beh = A.behaviours_of(acts)
            runs = [dict(id=x, beh="nostep" if x in A.SET_RUNS[consts.get("NoStepRuns", "None")] else beh.get(x, "ok"),
                         sig=x in sig, badsig=x in bad) for x in A.SET_RUNS[consts["Runs"]]]
            sims.append((dict(id="%s/%s" % (name, os.path.basename(f)), mode="replay", cap=0, runs=runs, schedule=acts),
                         final, sig, bad))
    res = A.run_driver(ctx, [s for s, _, _, _ in sims])
    sessions = {}
    for (sc, final, sig, bad), rr in zip(sims, res):
        out = judge_session(ctx, sc, rr, what="replayed behaviour")
        if out is None:
            continue
        ctx.count("replay/" + ",".join(schedule_sig(sc["schedule"])))
        if out.get("follow_err"):
            ctx.note_drift("code cannot follow a behaviour of the specification",
                           dict(id=sc["id"], at=out.get("follow_at"), err=out["follow_err"], parked=out.get("stuck_detail")))
            continue
        # the model's final results against the real ones
        mres = A.final_field(final, "res") or ""
        for rid, e in out["results"].items():
            want = "ok" if ('%s |-> [x |-> "%s", st |-> "ok"]' % (rid, rid)) in mres.replace("\n", " ") else None
            if want == "ok" and not (e["st"] == "ok" and e["token_ok"]):
                ctx.violation(dict(kind="wrong_result", model="ok", code=e["st"]), dict(scenario=sc, results=out["results"]))
        add_session(ctx, sessions, sc, out)
    ctx.sample(dict(kind="replayed behaviour", schedule=schedule_sig(sims[0][0]["schedule"])[:25]))
    # ---------------------------------------------------------------- 3. code -> spec: delay exploration
    scen = []
    for wname, runs, work in workloads(thorough):
        base = dict(id="free/" + wname, mode="free", cap=0, runs=runs, workload=work)
        scen.append(base)
    base_res = A.run_driver(ctx, scen)
    delay = []
    for sc, rr in zip(scen, base_res):
        out = judge_session(ctx, sc, rr, what="free run")
        if out is None:
            continue
        ctx.count(sc["id"])
        add_session(ctx, sessions, sc, out)
        seen = {}
        for key in out.get("gates", []):
            seen[key] = seen.get(key, 0) + 1
            delay.append(dict(id="delay/%s/%s#%d" % (sc["id"][5:], key, seen[key]), mode="delay", cap=0, runs=sc["runs"],
                              workload=sc["workload"], delay_key=key, delay_nth=seen[key]))
    # chosen pairs of held gates (both tiers): a second caller of a run ID held before it registers while the first
    # caller is held between its work-start and the collection of its result, i.e. the second registers when the
    # first's result is stored but not yet collected
    dn = next((sc for sc in scen if sc["id"] == "free/dup_nogate"), None)
    if dn is not None:
        for k1, n1, k2, n2 in (("c.wait.pre|r1", 1, "c.register.pre|r1", 2), ("c.wait.pre|r1", 1, "c.send.pre|ws|r1", 2),
                               ("c.register.pre|r1", 2, "c.deliver.pre|r1", 1)):
            delay.append(dict(id="delay/dup_nogate/%s#%d+%s#%d" % (k1, n1, k2, n2), mode="delay", cap=0, runs=dn["runs"],
                              workload=dn["workload"], delay_key=k1, delay_nth=n1, delay2_key=k2, delay2_nth=n2))
    if not thorough:
        # quick tier: every gate occurrence of the first four workloads
        delay = [d for d in delay if d["id"].split("/")[1] in ("serial3", "serial2sig", "serial2race", "parallel3", "nostep_par", "dup_sig", "nostep_then_overlap", "dup_nogate")]
    else:
        # thorough tier: additionally pairs of held gate occurrences (i, j > i) per workload, sampled by the seed
        import random
        rng = random.Random(ctx.seed * 31 + 17)
        singles = list(delay)
        byw = {}
        for d in singles:
            byw.setdefault(d["id"].split("/")[1], []).append(d)
        pairs = []
        for wname, ds in byw.items():
            cand = [(i, j) for i in range(len(ds)) for j in range(i + 1, len(ds))]
            rng.shuffle(cand)
            for i, j in cand[:400]:
                a, b = ds[i], ds[j]
                pairs.append(dict(a, id="delay2/%s/%s#%d+%s#%d" % (wname, a["delay_key"], a["delay_nth"], b["delay_key"], b["delay_nth"]),
                                  delay2_key=b["delay_key"], delay2_nth=b["delay_nth"]))
        delay = singles + pairs
    dres = A.run_driver(ctx, delay)
    hit = 0
    for sc, rr in zip(delay, dres):
        out = judge_session(ctx, sc, rr, what="delay " + sc["delay_key"])
        if out is None:
            continue
        if out.get("delay_hit"):
            hit += 1
            ctx.count(sc["id"])
        else:
            ctx.evaluations += 1
        add_session(ctx, sessions, sc, out)
    # ---------------------------------------------------------------- 3. the legacy v1 framing
    # serial calls against a minimal v1 plugin (legacy work-done without step_id, debug logs of every shape), every
    # other caller passing a signalsToStep channel that it closes once its call is back (v1 has no signals: nothing may
    # be left running or counted for it), then Close: every call returns once, Close returns, nothing crashes
    v1 = []
    for i in range(8 if thorough else 4):
        runs = [dict(id="r%d" % (k + 1), beh="ok", echo=1 + (i + k) % 9, sig=bool((i + k) % 2)) for k in range(4)]
        v1.append(dict(id="v1/%d" % i, mode="v1echo", cap=i % 3, frag=bool(i % 2), seed=ctx.seed * 91 + i, runs=runs, v1_legacy=bool(i % 2)))
    for sc, rr in zip(v1, A.run_driver(ctx, v1, label="c06v1")):
        out = judge_session(ctx, sc, rr, what="v1 session")
        if out is not None:
            ctx.count(sc["id"])
            for rid, e in out["results"].items():
                if not out.get("stuck") and e["returns"] != 1:
                    ctx.violation(dict(kind="returns", n=min(e["returns"], 2), framing="v1"), dict(scenario=sc, results=out["results"]))
    ctx.extra["v1_sessions"] = len(v1)
    # ---------------------------------------------------------------- 3a. signals emitted BY the plugin
    # the SDK's own server never emits signals, so "signal traffic in both directions" is exercised against a
    # scripted, correctly behaving peer (mode "client" of the driver): emitted signals for runs with and without a
    # signalsFromStep channel, before and after the result, interleaved with concurrent and serial Execute calls
    from props import c08 as C8
    E = lambda r, emit=False: dict(op="exec", run=r, emit=emit)
    S = lambda r: dict(op="unsol", kind="sig", run=r)
    R = lambda r, k="ok": dict(op="reply", run=r, kind=k)
    emit_ops = [
        [E("r1", True), S("r1"), R("r1"), E("r2"), S("r2"), R("r2"), E("r3", True), R("r3"), dict(op="close")],
        [E("r1"), E("r2", True), S("r1"), S("r2"), R("r2"), S("r1"), R("r1"), E("r3"), S("r3"), R("r3", "err"), dict(op="close")],
        [E("r1", True), E("r2", True), E("r3"), S("r3"), S("r2"), S("r1"), R("r3"), R("r1"), S("r2"), R("r2"), dict(op="close")],
        [E("r1"), S("r1"), S("r1"), R("r1"), S("r1"), E("r2", True), S("r2"), R("r2"), dict(op="close")],
    ]
    # non-fatal error messages (what a failed signal handler produces) about a run that has been collected, a run
    # that is pending, a run that never existed and no run at all - each while another call is pending: they are
    # notes, every call still gets its result and Close returns
    N = lambda r: dict(op="unsol", kind="err_none", run=r)
    emit_ops += [
        [E("r1"), R("r1"), E("r2"), N("r1"), R("r2"), E("r3"), R("r3"), dict(op="close")],
        [E("r1"), E("r2"), N("r3"), N("r2"), R("r1"), N("r1"), N(""), R("r2"), dict(op="close")],
        [E("r1", True), N("r1"), S("r1"), R("r1"), N("r1"), E("r2"), N("zz"), R("r2", "err"), E("r3"), N("r2"), R("r3"), dict(op="close")],
    ]
    # debug logs of every shape in the work-done (the SDK's own server sends none; other SDKs do): line feeds, CRLF, a
    # progress bar redrawn with bare carriage returns, only line ends, a long log without a final line end - the
    # result is delivered whatever the log looks like, also with other calls pending
    L = lambda r, logs: dict(op="reply", run=r, kind="ok", logs=logs)
    emit_ops += [
        [E("r1"), L("r1", "lf"), E("r2"), L("r2", "crlf"), E("r3"), L("r3", "cr"), dict(op="close")],
        [E("r1"), E("r2"), E("r3"), L("r2", "cr"), L("r1", "blank"), L("r3", "long"), dict(op="close")],
    ]
    esc = [dict(id="emit/%d" % i, mode="client", ops=o) for i, o in enumerate(emit_ops)]
    esess = []
    for sc, rr in zip(esc, A.run_driver(ctx, esc, label="c06emit")):
        out = C8.judge(ctx, sc, rr)
        ctx.count(sc["id"])
        if out is not None and not out.get("stuck"):
            for rid, e in out["results"].items():
                want = next((o.get("kind", "ok") for o in sc["ops"] if o["op"] == "reply" and o["run"] == rid), None)
                if rid != "#schema" and want == "ok" and e["st"] != "ok":
                    ctx.violation(dict(kind="lost_or_wrong_result", step="ok", code=e["st"]), dict(scenario=sc, results=out["results"]))
            esess.append((sc["id"], out["events"]))
    for sid, evs0 in esess:
        sc0 = next(x for x in esc if x["id"] == sid)
        emitset = sorted(o["run"] for o in sc0["ops"] if o["op"] == "exec" and o.get("emit"))
        ok, info = A.validate(ctx, [(sid, evs0)], ["r1", "r2", "r3"], 1000, [], [], label="c06emit", inv="TraceInvClientEnv", emit=emitset)
        if ok:
            ctx.traces += 1
        else:
            evs = evs0
            ctx.violation(dict(kind="trace_" + info["kind"], event=info["line"]["ev"], violated=str(info.get("violated"))),
                          dict(session=info.get("session"), line=info["line"], prefix=info.get("prefix"), events=evs[: info["event_index"] + 3]))
    # ---------------------------------------------------------------- 3b. statement-level yield points
    # every statement of atp/client.go and atp/server.go of the tree under test becomes a hold point (build
    # overlay generated now from the current sources), so that a new statement or a moved unlock is explored too
    try:
        ybin, npoints = A.yield_binary(ctx)
    except common.Infra as e:
        ybin, npoints = None, 0
        ctx.extra["yield_points"] = "overlay build failed, fell back to the committed hooks: %s" % str(e)[:300]
    if ybin:
        import random
        rng = random.Random(ctx.seed * 101 + 3)
        ybase = [dict(s, id="yfree/" + s["id"][5:]) for s in scen[:5 if thorough else 3]]
        yres = A.run_driver(ctx, ybase, binary=ybin, label="c06y")
        ydelay = []
        for sc, rr in zip(ybase, yres):
            out = judge_session(ctx, sc, rr, what="free run (yield overlay)")
            if out is None:
                continue
            seen = {}
            for key in out.get("gates", []):
                seen[key] = seen.get(key, 0) + 1
                if key.startswith("y:"):
                    ydelay.append(dict(id="ydelay/%s/%s#%d" % (sc["id"][6:], key, seen[key]), mode="delay", cap=0, runs=sc["runs"],
                                       workload=sc["workload"], delay_key=key, delay_nth=seen[key]))
        rng.shuffle(ydelay)
        # statements at the edge of a critical section (they take a lock, or follow an unlock / wake-up / send) are held
        # first - the windows between critical sections are where hand-overs go wrong -, at most four fifths of the
        # budget; the rest goes to the other statements
        edge = [d for d in ydelay if d["delay_key"].startswith("y:e:")]
        rest = [d for d in ydelay if not d["delay_key"].startswith("y:e:")]
        budget = 2500 if thorough else 150
        ne = min(len(edge), budget * 4 // 5)
        ydelay = edge[:ne] + rest[: budget - ne]
        ctx.extra["yield_edge_occurrences"] = len(edge)
        ctx.extra["yield_other_occurrences"] = len(rest)
        yhit = 0
        for sc, rr in zip(ydelay, A.run_driver(ctx, ydelay, binary=ybin, label="c06yd")):
            out = judge_session(ctx, sc, rr, what="delay " + sc["delay_key"])
            if out is None:
                continue
            if out.get("delay_hit"):
                yhit += 1
                ctx.count(sc["id"])
            else:
                ctx.evaluations += 1
            add_session(ctx, sessions, sc, out)
        ctx.extra["yield_points"] = npoints
        ctx.extra["yield_delay_scenarios"] = len(ydelay)
        ctx.extra["yield_gate_held"] = yhit
    ctx.extra["delay_scenarios"] = len(delay)
    ctx.extra["delay_gate_held"] = hit
    ctx.sample(dict(kind="delay scenario", id=delay[0]["id"] if delay else None))
    # ---------------------------------------------------------------- trace validation
    for key, sess in sorted(sessions.items()):
        sig, bad = key[0], key[1]
        nostep = key[2] if len(key) > 2 else ()
        runs_all = ["r1", "r2", "r3", "r4"]
        ok, info = A.validate(ctx, sess, runs_all, 0, list(sig), list(bad), nostep=list(nostep))
        if ok:
            ctx.traces += len(sess)
        else:
            ev = None
            for sid, evs in sess:
                if sid == info.get("session"):
                    ev = evs[: info["event_index"] + 1]
            ctx.violation(dict(kind="trace_" + info["kind"], event=info["line"]["ev"], violated=str(info.get("violated"))),
                          dict(session=info.get("session"), line=info["line"], prefix=info.get("prefix"),
                               events=ev, tlc=info.get("tlc_tail", "")))
    ctx.exhaustive = False


def replay(ctx, rp):
    sc = rp["replay"].get("scenario")
    if not sc:
        raise common.Infra("replay file carries no scenario (trace rejections are reproduced by re-running the check)")
    rr = A.run_driver(ctx, [sc], jobs=1)[0]
    judge_session(ctx, sc, rr, what="replay")
    ctx.sample(dict(id=sc.get("id"), mode=sc.get("mode")))
    ctx.rule = "replay of one recorded scenario"
