"""C10 - a schema received from a plugin is rejected with an error or fully usable.

spec/Meta.tla (MetaAccepts, Rebuild, LinkCause, UseCause, Usable), spec/MetaMC.tla (Mode=c10: every single -
thorough: also double - structural mutation delete / retype / rename / duplicate / repoint at every node of
valid descriptions, plus grammar-free trees; accept -> link -> first use as separate actions;
AcceptedImpliesUsable), spec/MetaTrace.tla (random mutations of real descriptions); harness/cmd/meta.

Verdict: UnserializeScope / UnserializeSchema / Client.ReadSchema (scripted server sending the description in
its hello) return an error, or a schema on which every operation on every node is total; a panic at load or
on first use is the violation.  Which descriptions the meta-schema accepts is compared with the model as drift.
"""
import os
from vlib import common
from props import meta_common as M

SPECS = M.SPECS
PKGS = M.PKGS


def run(ctx):
    thorough = ctx.tier == "thorough"
    stats = {}
    ctx.rule = ("every description state of MetaMC (Mode=c10) is one vector: a valid description of the C09 universe "
                "(rich scope, inlined and plain one-of, enum-keyed map, units, nested scope, recursive reference, plugin "
                "schemas with signals, units on int / float / int-enum, chains of single-property objects) after 0..MaxMut "
                "structural mutations - delete / duplicate / rename (also to the integer keys -5, -1, 0) / retype(9 "
                "replacement values) / repoint(every string of the description + a fresh one) at every node -, or a "
                "grammar-free tree; distinct = distinct (entry point, description tree); non-trivial = all but the "
                "unmutated bases; plus seeded random mutations of random real descriptions")
    cfgs = ["meta_c10_thorough.cfg", "meta_c10_thorough2.cfg"] if thorough else ["meta_c10_quick.cfg"]
    for i, cfg in enumerate(cfgs):
        vec = os.path.join(ctx.tmp, "meta-c10-vectors-%d.ndjson" % i)
        r = ctx.tlc("MetaMC", cfg, workers=8, env={"VERIF_OUT": vec}, timeout=3000 if thorough else 300)
        ctx.log("MetaMC %s:" % cfg, r)
        cases, vecs = M.read_vectors(ctx, vec, r, "c10")
        results = M.run_driver(ctx, cases, "c10-%d" % i)
        M.consume(ctx, cases, results, stats)
        ctx.traces += len(vecs)
        by_stage = {}
        for v in vecs:
            k = "%s/%s" % (v["stage"], v["cause"])
            by_stage[k] = by_stage.get(k, 0) + 1
        stats.setdefault("model_classification", {})[cfg] = by_stage
        mutated = [v for v in vecs if v["labels"]]
        for c in mutated[:1] + mutated[-1:]:
            ctx.sample(c)
        os.remove(vec)
    ctx.exhaustive = True

    shards = 12 if thorough else 6
    count = 400 if thorough else 60
    rcases = [dict(mode="rand", what="c10", seed=ctx.seed * 1000 + i, count=count) for i in range(shards)]
    rres = M.run_driver(ctx, rcases, "c10-rand", case_timeout="90s")
    trace = M.consume(ctx, rcases, rres, stats)
    ctx.sample(rcases[0])
    M.validate_trace(ctx, trace, stats, "c10")
    ctx.extra["random_mutants"] = shards * count
    ctx.extra["meta"] = stats
    ctx.assumptions += [
        "descriptions are handed over as a decoder produces them: the direct Go form (map[string]any / map[any]any, "
        "int64, float64) and the same value after the real CBOR round trip of the ATP hello",
        "first use = Unserialize / Validate / Serialize / ValidateCompatibility with 14 value classes plus valid "
        "values built through the public accessors, GetDefaults, SelfSerialize, ReflectedType, ValidateReferences on "
        "every node reachable through the public accessors",
        "panics that a valid Go-built schema shows as well (baseline run at start) are C04's and not counted; nodes "
        "from which a cycle of defaulted object-typed properties is reachable are not fed inputs (known finding of C04: "
        "stack exhaustion on Go-built schemas too)",
        "numbers with units are also fed quantities written with every unit name, values violating each bound, and "
        "their units' Format* operations; an operation that does not return within the per-case bound (8 s, confirmed "
        "by two reruns with 16 s) is a hang and a violation",
        "a stand-alone scope may leave references to a foreign namespace unlinked (the embedding side applies it); a "
        "plugin schema may not",
        "the model is the design the property demands: load = accept + link + checks, each failing with an error",
    ]


def replay(ctx, rp):
    M.replay_case(ctx, rp, {})
