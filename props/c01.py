"""C01 - Serialize and Unserialize are mutual inverses, in memory and over the CBOR wire.

Same specification and driver as C02 / C03.  SchemaMC in mode "c01" enumerates (schema, raw value) pairs
the statement lets Unserialize accept - every scalar schema of the C02 universe x every raw representation,
containers (thorough: the whole C02 list / map universe), every object of the C03 universe with its mappings,
struct-mapped objects (every field kind, sub-objects, treat-empty-as-default), one-of, references - and TLC
checks SchemaDecl!RoundTrip on the model with Values!CBOR as the transport.  For each vector the harness
REALLY runs  Unserialize -> Validate -> Serialize -> Unserialize  and
Serialize -> fxamacker/cbor Encode / Unmarshal into any (exactly as atp does) -> Unserialize -> Validate -> Serialize,
checks the equalities on the Go values themselves (nil and empty slices/maps are equal, NaN equals NaN), that the
serialized form is a wire form (nil-free tree of int64/float64/string/bool/[]any/map[any]any/map[string]any),
that UnserializeType / ValidateType / SerializeType give the same results as the untyped entry points, and the
model's native value / wire form.

Verdict rule: VIOLATION when a step after an accepted Unserialize fails or an equality does not hold on the real
values.  Not C01: the first Unserialize rejecting or returning another value than declared (C02 / C03), panics (C04),
model detail of the wire form (drift).
"""
import os, json
from vlib import common
from props import c02 as base

SPECS = ["SchemaMC", "SchemaTrace"]
PKGS = ["./cmd/schema"]

STATEMENT = ("For every schema and every raw value that Unserialize accepts, the result passes Validate, Serialize of it succeeds, "
             "and unserializing that serialized form - directly or after a CBOR encode/decode exactly as ATP transports it - yields "
             "an equal value whose serialization is identical again. The typed entry points (UnserializeType, ValidateType, "
             "SerializeType) return the same results as the untyped ones; the only identification made on the way is the documented "
             "one - a property marked treat-empty-as-default equates its empty value with absence.")


def sig_c01(sig):
    return dict(op=sig.get("op"), step=sig.get("step"), entry=sig.get("entry"), kind_at_fault=sig.get("kind_at_fault"),
                arg_class=sig.get("arg_class"), divergence=sig.get("divergence"))


def consume_c01(ctx, lines, results):
    owned = ctx.extra.setdefault("observed_but_owned_by_other_properties", {})
    for line, res in zip(lines, results):
        r = base.check_res(line, res)
        if r is None:
            owned["crash:" + res["crash"]] = owned.get("crash:" + res["crash"], 0) + 1
            continue
        base.account(ctx, r)
        for m in r.get("mismatches", []):
            sig = m["sig"]
            if sig.get("drift"):
                ctx.note_drift("%s/%s/%s: serialized form differs from the model's wire form" % (
                    sig.get("step"), sig.get("kind_at_fault"), sig.get("arg_class")), dict(sig=sig, detail=m["detail"]))
            elif sig.get("divergence") == "panic":
                k = "panic (C04):%s/%s/%s" % (sig.get("step"), sig.get("kind_at_fault"), sig.get("frame", ""))
                owned[k] = owned.get(k, 0) + 1
            elif sig.get("op") == "unser":
                k = "first Unserialize %s (C02/C03):%s" % (sig.get("divergence"), sig.get("kind_at_fault"))
                owned[k] = owned.get(k, 0) + 1
            else:
                payload = base.replay_payload(base.parse_case(line), m)
                payload["statement"] = STATEMENT
                ctx.violation(sig_c01(sig), payload)


def chain_random(ctx, count, tag):
    """code -> spec: the random driver's accepted Unserialize lines (validated by SchemaTrace) are turned into chain
    vectors, so that the round trip is also run on deeper random schemas / values."""
    accepted, rejected, direct_bad, total = base.random_traces(ctx, count, 4, tag, "C01", objects=True)
    return accepted, total


def run(ctx):
    thorough = ctx.tier == "thorough"
    ctx.rule = ("every state of SchemaMC (mode c01) is one chain vector (schema, raw value accepted by the statement): the C02 scalar "
                "universe x every representation, containers (thorough: all C02 lists / maps), all objects with <= 2 properties x "
                "every mapping, struct-mapped objects, sub-objects, treat-empty-as-default, one-of x discriminator representations, "
                "references; each vector is run under every applicable numeric embedding through 8 real calls + the typed entry "
                "points, with the real CBOR codec in between; distinct = distinct (schema shape, argument class)")
    base.bind_checks(ctx)
    path, lines, r = base.enumerate_vectors(ctx, "schema_c01_thorough.cfg" if thorough else "schema_c01_quick.cfg", "c01")
    results = base.run_driver(ctx, path, "c01")
    if len(results) != len(lines):
        raise common.Infra("driver returned %d results for %d vectors" % (len(results), len(lines)))
    consume_c01(ctx, lines, results)
    ctx.traces += len(lines)
    ctx.exhaustive = True
    for i in (0, len(lines) // 3, 2 * len(lines) // 3, len(lines) - 1):
        ctx.sample(base.parse_case(lines[i]))
    # random schemas / values: chain every line whose Unserialize the real code accepted
    cases = [dict(fam="rand", seed=ctx.seed * 100003 + i, count=(6000 if thorough else 700), depth=4, objects=True, chain=True)
             for i in range(12)]
    rpath = os.path.join(ctx.tmp, "rand-chain.ndjson")
    common.write_ndjson(rpath, cases)
    rres = base.run_driver(ctx, rpath, "rand-chain", jobs=12)
    again = []
    n = 0
    for case, res in zip(cases, rres):
        rr = base.check_res(json.dumps(case), res)
        if rr is None:
            raise common.Infra("random chain shard crashed: %s" % res.get("detail", "")[:500])
        ctx.evaluations += rr.get("runs", 0)
        n += rr.get("evals", 0)
        again.extend(m["detail"]["case"] for m in rr.get("mismatches", []) if m["detail"].get("case"))
    ctx.extra["random_chains"] = n
    ctx.traces += n
    if again:
        apath = os.path.join(ctx.tmp, "rand-chain-again.ndjson")
        common.write_ndjson(apath, again)
        consume_c01(ctx, [json.dumps(c) for c in again], base.run_driver(ctx, apath, "rand-chain-again", jobs=4))
    ctx.assumptions += [
        "generated schemas are well-formed (SchemaAST!WF) incl. DESIGN 3 caveats (ii) by-value struct fields hold properties that are "
        "required, defaulted or treat-empty-as-default, (iii) distinct unit names",
        "equality identifies nil and empty slices / maps, container representations ([]any vs []T), NaN with NaN",
        "raw values whose acceptance the statement leaves open (lenient unit strings, named types) are chained when the code "
        "accepts them; typed-vs-untyped RESULTS are compared only where the statement fixes the result; typed-vs-untyped VERDICTS "
        "are compared on every vector, also where both must reject (every C01 scalar schema x the raw values the statement "
        "rejects, every bounded float schema x NaN / +-Inf as float64 / float32 / string), and ValidateType / SerializeType are "
        "run on the raw value itself whenever it is of the entry points' Go type",
        "the CBOR transport is fxamacker/cbor/v2 with default modes (Encoder.Encode, Unmarshal into any), as in /repo/atp",
    ]


def replay(ctx, rp):
    case = rp["replay"].get("case")
    if case is None:
        raise common.Infra("replay file has no case")
    path = os.path.join(ctx.tmp, "replay.ndjson")
    common.write_ndjson(path, [case])
    results = base.run_driver(ctx, path, "replay", jobs=1)
    consume_c01(ctx, [json.dumps(case)], results)
    ctx.traces += 1
    ctx.sample(case)
    ctx.rule = "replay of one recorded vector"
