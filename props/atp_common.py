"""Shared by the ATP checks (C05-C08): schedules from TLC behaviours, trace flattening and
validation against spec/ATPTrace.tla."""
import os, re, json, glob
from vlib import common

# which design variant of ATP.tla the CURRENT code implements (changed together with the repairs)
DESIGN = dict(MergedExit=True, LateClose=True, SharedDecoder=True)

DROP = {"e.wfail", "e.cancel", "t.c2s.wfail", "s.stdin.close", "t.s2c.wfail", "t.s2c.rfail", "t.s2c.rclose",
        "s.step.done", "s.closure.fatal", "c.loop.start"}


def role_run(role):
    return role.split(":", 1)[1] if ":" in role else ""


def flatten(e):
    """one hook event -> the uniform record ATPTrace.tla reads, or None for stuttering events"""
    ev, kv, role = e["ev"], e.get("kv") or {}, e.get("role", "")
    if ev == "t.c2s.rfail":
        # end of input seen by the server's decoder = taking the end-of-stream marker off the wire
        if kv.get("why") == "eof" and role == "srvloop":
            return dict(ev="t.c2s.read", r="", k="", n=1, b=False, rs=[])
        return None
    if ev in DROP:
        return None
    o = dict(ev=ev, r=kv.get("run", "") or "", k="", n=0, b=False, rs=[])
    if ev == "c.register":
        if kv.get("dup"):
            return None
        if kv.get("closed"):
            o["k"] = "closed"
        o["n"] = int(kv.get("n", 0))
        o["b"] = bool(kv.get("starts"))
    elif ev in ("c.send", "c.sent"):
        o["k"] = kv.get("kind", "")
    elif ev == "e.write":
        o["k"] = kv.get("kind", "")
        o["b"] = bool(kv.get("whole", True))
    elif ev in ("f.reply", "f.unsol"):
        o["k"] = kv.get("kind", "")
    elif ev in ("t.c2s.write", "t.c2s.read", "t.s2c.write", "t.s2c.read", "e.read", "f.read"):
        o["n"] = int(kv.get("frags", 0))
    elif ev == "c.take":
        o["b"] = bool(kv.get("err")) or bool(kv.get("missing"))
    elif ev in ("c.decode", "s.recv"):
        o["b"] = bool(kv.get("err"))
        o["n"] = int(kv.get("id", 0))
    elif ev in ("c.deliver", "c.sigfwd"):
        o["b"] = bool(kv.get("found"))
    elif ev == "c.errmsg":
        o["k"] = "server" if kv.get("server") else ("step" if kv.get("step") else "none")
    elif ev == "c.unknown":
        o["n"] = int(kv.get("id", 0))
    elif ev == "c.deliverAll":
        o["rs"] = list(kv.get("runs") or [])
    elif ev == "c.check":
        o["b"] = bool(kv.get("remaining"))
    elif ev in ("c.wloop.exit",):
        o["k"] = kv.get("why", "")
    elif ev == "t.c2s.rclose":
        o["k"] = role.split(":")[0]
    elif ev == "s.errq":
        o["k"] = role.split(":")[0]
        o["r"] = role_run(role)
    elif ev == "s.step.end":
        o["b"] = bool(kv.get("err"))
    elif ev in ("s.send", "s.sent"):
        o["n"] = int(kv.get("id", 0))
        o["b"] = bool(kv.get("err"))
    elif ev == "s.closure.recv":
        o["k"] = "server" if kv.get("server") else ("step" if kv.get("step") else "none")
    elif ev == "s.closure.exit":
        o["k"] = kv.get("why", "")
    return o


def tla_set(xs):
    return "{" + ", ".join('"%s"' % x for x in sorted(xs)) + "}"


def trace_cfg(path, runs, cap, sig, badsig, design=None, inv="TraceInv", emit=(), nostep=()):
    d = dict(DESIGN)
    d.update(design or {})
    with open(path, "w") as f:
        f.write("""SPECIFICATION TSpec
CONSTANTS
  Runs = %s
  Cap = %d
  Frag = TRUE
  StepBeh = {"ok", "err", "panic"}
  SigRuns = %s
  BadSigRuns = %s
  EmitRuns = %s
  NoStepRuns = %s
  WithClose = TRUE
  Serial = FALSE
  MergedExit = %s
  LateClose = %s
  SharedDecoder = %s
  NoRun = ""
  MaxEnv = 100000
  MaxUnsol = 100000
INVARIANT %s
CONSTRAINT HighWater
POSTCONDITION Accepted
""" % (tla_set(runs), cap, tla_set(sig), tla_set(badsig), tla_set(emit), tla_set(nostep),
       "TRUE" if d["MergedExit"] else "FALSE", "TRUE" if d["LateClose"] else "FALSE",
       "TRUE" if d["SharedDecoder"] else "FALSE", inv))


def merge_env(evs):
    """scripted-client sessions: e.send + the transport write that follows it become one e.write line;
    reads by the scripted client become e.read"""
    out, pending = [], None
    for e in evs:
        ev, role = e["ev"], e.get("role", "")
        if ev == "e.send":
            pending = e
            continue
        if ev == "t.c2s.write" and role == "env:writer" and pending is not None:
            kv = dict(pending["kv"])
            out.append(dict(e, ev="e.write", kv=dict(run=kv.get("run", ""), kind=kv.get("kind", ""), whole=kv.get("whole", True))))
            pending = None
            continue
        if ev == "t.s2c.read" and role == "env:reader":
            out.append(dict(e, ev="e.read"))
            continue
        # sessions against the scripted breaking server (C08)
        if role == "env:writer" and ev == "t.s2c.write":
            continue
        if role == "env:reader" and ev == "t.c2s.read" and any(x["ev"].startswith("f.") or x["ev"].startswith("c.") for x in evs[:50]):
            out.append(dict(e, ev="f.read"))
            continue
        if role.startswith("env:") and ev == "t.c2s.rclose":
            out.append(dict(e, ev="f.close_in"))
            continue
        out.append(e)
    return out


def validate(ctx, sessions, runs, cap, sig, badsig, design=None, label="trace", inv="TraceInv", emit=(), nostep=()):
    """sessions: list of (id, [hook events]).  Returns (ok, info).  One TLC start for all sessions
    of one configuration, concatenated with reset lines."""
    lines, owner = [], []
    for sid, evs in sessions:
        lines.append(dict(ev="reset", r="", k="", n=0, b=False, rs=[]))
        owner.append((sid, -1))
        # a caller refused because its run ID is in flight leaves the client's state as it was: its events are stuttering
        dupg = set(e.get("g") for e in evs if e["ev"] == "c.register" and (e.get("kv") or {}).get("dup"))
        if dupg:
            evs = [e for e in evs if not (e.get("g") in dupg and e["ev"].startswith("c."))]
        for i, e in enumerate(merge_env(evs)):
            fl = flatten(e)
            if fl is not None:
                lines.append(fl)
                owner.append((sid, i))
    tpath = os.path.join(ctx.tmp, "%s-%d.ndjson" % (label, len(ctx.tlc_runs)))
    common.write_ndjson(tpath, lines)
    cfg = tpath + ".cfg"
    trace_cfg(cfg, runs, cap, sig, badsig, design, inv=inv, emit=emit, nostep=nostep)
    r = ctx.tlc("ATPTrace", cfg, workers=1, env={"VERIF_TRACE": tpath}, timeout=1200, dfs=True,
                allow_violation=True)
    m = re.search(r'<<"HIGHWATER", (\d+), (\d+)>>', r.out)
    hw = int(m.group(1)) if m else None
    if r.ok and hw == len(lines) + 1:
        return True, dict(lines=len(lines))
    info = dict(lines=len(lines), violated=r.violated, highwater=hw)
    if os.environ.get("VERIF_DEBUG"):
        import shutil
        shutil.copy(tpath, "/tmp/lastrej.ndjson")
        shutil.copy(cfg, "/tmp/lastrej.cfg")
    if r.violated and r.violated not in ("postcondition",):
        # an invariant of the specification fails in a state of an accepted prefix
        ml = re.findall(r"\n/\\ l = (\d+)", r.out)
        idx = int(ml[-1]) - 1 if ml else (hw or 1) - 1
        info["kind"] = "invariant"
    else:
        idx = (hw or 1)      # first line that could not be consumed (1-based index hw)
        info["kind"] = "rejected"
    idx = max(1, min(idx, len(lines)))
    info["line_no"] = idx
    info["line"] = lines[idx - 1]
    info["session"], info["event_index"] = owner[idx - 1]
    info["prefix"] = lines[max(0, idx - 6):idx - 1]
    info["tlc_tail"] = "\n".join(r.out.splitlines()[-25:]) if info["kind"] == "invariant" else ""
    return False, info


# ------------------------------------------------------------------ TLC behaviours -> schedules
_LBL = re.compile(r'^\\\* <(\w+)(?:\(([^)]*)\))? line')


def parse_sim_file(path):
    """a behaviour written by `tlc -simulate file=...`: list of (action, run) and the final state text"""
    acts, last = [], []
    prev = None
    with open(path) as f:
        text = f.read()
    blocks = re.split(r"(?m)^\\\* <", text)
    for b in blocks[1:]:
        m = re.match(r"(\w+)(?:\(([^)]*)\))? line", b)
        cur = dict(c2s=_wire_len(b, "c2s"), s2c=_wire_len(b, "s2c"))
        if m and m.group(1) != "Init":
            a = _act(m.group(1), m.group(2))
            if prev is not None:
                d = max(abs(cur["c2s"] - prev["c2s"]), abs(cur["s2c"] - prev["s2c"]))
                if d:
                    a["n"] = d
            acts.append(a)
        prev = cur
        last = b
    return acts, last


def final_field(state_text, var):
    m = re.search(r"/\\ %s = (.*?)(?=\n/\\ |\Z)" % re.escape(var), state_text, re.S)
    return m.group(1).strip() if m else None


# ------------------------------------------------------------------ model-checking configurations
def mc_cfg(path, consts, invariants=(), properties=(), spec="Spec", constraint=None):
    d = dict(Runs="R2", Cap=0, Frag="FALSE", StepBeh="BehOk", SigRuns="None", BadSigRuns="None", EmitRuns="None", NoStepRuns="None",
             WithClose="FALSE", Serial="FALSE", NoRun="Empty",
             MergedExit="TRUE" if DESIGN["MergedExit"] else "FALSE",
             LateClose="TRUE" if DESIGN["LateClose"] else "FALSE",
             SharedDecoder="TRUE" if DESIGN["SharedDecoder"] else "FALSE")
    d.update(consts)
    if spec.startswith("F"):          # ATPClientEnv extends ATPServerEnv: both bounds are constants there
        d.setdefault("MaxEnv", 0)
        d.setdefault("MaxUnsol", 1)
    subst = {"Runs", "StepBeh", "SigRuns", "BadSigRuns", "EmitRuns", "NoStepRuns", "NoRun"}
    with open(path, "w") as f:
        f.write("SPECIFICATION %s\nCONSTANTS\n" % spec)
        for k, v in d.items():
            f.write("  %s %s %s\n" % (k, "<-" if k in subst else "=", v))
        if invariants:
            f.write("INVARIANTS " + " ".join(invariants) + "\n")
        if properties:
            f.write("PROPERTIES " + " ".join(properties) + "\n")
        if constraint:
            f.write("CONSTRAINT %s\n" % constraint)
    return path


_CEX = re.compile(r'^State \d+: <(\w+)(?:\(([^)]*)\))? line', re.M)


def parse_cex(out):
    """action labels of a counterexample printed by TLC, with the number of fragments each step put on
    or took off a wire (n), so that fragmentation and coalescing are replayed too"""
    acts = []
    blocks = re.split(r"(?m)^State \d+: ", out)
    prev = None
    for b in blocks[1:]:
        m = re.match(r"<(\w+)(?:\(([^)]*)\))? line", b)
        cur = dict(c2s=_wire_len(b, "c2s"), s2c=_wire_len(b, "s2c"))
        if m and m.group(1) != "Initial":
            a = _act(m.group(1), m.group(2))
            if prev is not None:
                d = max(abs(cur["c2s"] - prev["c2s"]), abs(cur["s2c"] - prev["s2c"]))
                if d:
                    a["n"] = d
            acts.append(a)
        prev = cur
    return acts


def _wire_len(block, var):
    m = re.search(r"/\\ %s = (.*?)(?=\n/\\ |\Z)" % var, block, re.S)
    return m.group(1).count("p |->") if m else 0


def _act(name, argtext):
    args = [a.strip().strip('"') for a in (argtext or "").split(",")] if argtext else []
    d = dict(a=name, r=args[0] if args else "")
    if len(args) > 1:
        d["x"] = args[1]
    return d


def behaviours_of(acts, default="ok"):
    """step behaviour per run as revealed by the StepFinishAs labels of a behaviour"""
    return {a["r"]: a.get("x", default) for a in acts if a["a"] == "StepFinishAs"}


SET_RUNS = {"R1": ["r1"], "R2": ["r1", "r2"], "R3": ["r1", "r2", "r3"], "None": []}


def yield_binary(ctx):
    """the atp driver built with a `go build -overlay` in which a yield point precedes every statement of
    atp/client.go and atp/server.go of the tree under test (generated now, from its current sources)"""
    gen = ctx.gobuild("./cmd/yieldgen", tags="")
    d = os.path.join(ctx.tmp, "yield")
    os.makedirs(d, exist_ok=True)
    p = ctx.run([gen, "-repo", os.path.realpath(common.REPO), "-out", d])
    n = int((p.stdout.split() or ["0"])[0])
    return ctx.gobuild("./cmd/atp", overlay=os.path.join(d, "overlay.json"), name="atp_yield"), n


def run_driver(ctx, scenarios, jobs=None, timeout=1800, race=False, label="atp", binary=None):
    drv = binary or ctx.gobuild("./cmd/atp", race=race)
    inp = os.path.join(ctx.tmp, "%s-in-%d.ndjson" % (label, len(os.listdir(ctx.tmp))))
    out = inp.replace("-in-", "-out-")
    common.write_ndjson(inp, scenarios)
    ctx.run([drv, "-in", inp, "-out", out, "-j", str(jobs or min(12, common.NCPU)), "-case-timeout", "60s"],
            timeout=timeout)
    res = common.read_ndjson(out)
    if len(res) != len(scenarios):
        raise common.Infra("atp driver returned %d results for %d scenarios" % (len(res), len(scenarios)))
    n = sum(1 for r in res if r.get("retried"))
    if n:
        # first attempt died or overran its time limit, two reruns alone completed: the rerun's result is used
        ctx.extra["cases_rerun_after_unreproduced_first_attempt"] = ctx.extra.get("cases_rerun_after_unreproduced_first_attempt", 0) + n
    return res


def deviation_cex(ctx, module, name, consts, invariants, properties=(), spec="Spec"):
    """Counterexample of a DELIBERATELY WRONG design variant of the model (a named deviation such as the pinned
    client's separately locked loop exit).  TLC must find it (otherwise the specification has lost the ability to
    express the defect: Infra); the schedule is then replayed into the real code as a targeted regression test."""
    cfg = mc_cfg(os.path.join(ctx.tmp, "deviation_%s.cfg" % name), consts, invariants=invariants, properties=properties, spec=spec)
    r = ctx.tlc(module, cfg, workers=min(12, common.NCPU), timeout=1200, allow_violation=True)
    if not r.violated:
        raise common.Infra("the deviation model %s no longer violates its property: the specification cannot express the "
                           "known defect any more" % name)
    return r
