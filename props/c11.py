"""C11 - step calls: the handler runs iff the input is valid; outputs are checked; bad IDs are errors;
the per-run step data is created once, whichever of the step or its signals arrives first.

spec/Steps.tla      the state machine of CallStep / CallSignal (one action per stage, setupStepData as
                    its own critical section) and the properties
spec/StepsMC.tla    model checking: all interleavings (cfg *_full) and every gate-normal-form schedule,
                    exported from the terminal states (cfg steps_quick / steps_thorough / steps_thorough3)
spec/StepsTrace.tla validates event ledgers recorded from random concurrent sessions of the real code
harness/cmd/steps   builds real CallableSchemas with recording handlers / a counting initializer that
                    double as gates, replays the schedules, runs the random sessions (also under -race)

Step s2 (StepsMC: MapSteps) has a MAP-BASED input scope and signal data scope; besides the classes every step
gets it is called with raw inputs that omit a defaulted property ("vd") or carry values in a representation the
schema accepts by lenient conversion ("vl").  The abstract unserialized value is bound in the harness by an
independent copy of the scope (reflect.DeepEqual with what its Unserialize returns).  Its OUTPUT scopes are
map-based too (int, list of string, pattern, struct-mapped sub-object): behaviour "okr" returns conforming data
whose in-memory form differs from its serialized form, and the data CallStep returns must equal what an
independent copy of the output scope's Serialize gives for the handler's value.  The map-based scopes also have
quantities with units (int and float): rejected quantities whose schema error has the units parser's
BadArgumentError among its causes must still fail as InvalidInputError (classification: the returned error's own
type, else errors.As with InvalidInputError / InvalidOutputError before BadArgumentError).  A third, all-optional
map-based output ("info") serves the non-conforming behaviour "declared ID, nil data".
Step s0 (StepsMC: ShortSteps) has input and signal data objects with EXACTLY ONE property, in one of four shapes
per session (struct-mapped string, map-based int, struct-mapped / map-based nested single-property object): the raw
input class "vs" is a bare non-map value, which the schema accepts as shorthand for the object; the first call on
s0 in a schedule decides the session's shape.  Two further shapes have an OPTIONAL single property with a default:
there the empty map (and a typed nil map) is accepted, nil is not.  nil and typed nils are among the rejected raw
forms of every scope.
A handler behaviour is a pair (output ID class: declared / second declared / undeclared [unknown name, other letter
case, empty]) x (data class: conforming / conforming with a different serialized form / non-conforming / nil [untyped,
typed nil pointer, typed nil map]) - Steps.tla: BehTab.  An undeclared ID must give InvalidOutputError whatever the
data; ConstraintError, which the SDK returns for any violated constraint, does not identify a failure.
Every step (and its signal) carries a display of one of five shapes (none / name only / description only / icon
only / all); no outcome may depend on it (Steps.tla: DisplayBlind).  cfg steps_display*: every single call of the
universe - unknown step and signal IDs through both entry points included - on a schema of every assignment of a
shape to each step; the random sessions draw the displays at random and log them for StepsTrace.
The schema's layout is a further attribute (Steps.tla: layout): the set of registered steps (all three, or exactly
one: a call on any other ID is an unknown step - the concrete unknown IDs are "nope", "", another letter case, a
trailing space, "step.output") and, per step, whether the signal's own ID equals its registration key; signal calls
name the key (handler runs), the signal's own differing ID or neither (errors, never panics).  cfg steps_display*
enumerates every single call on every layout as well.
The orchestrator hands
the concrete forms of each raw-input class and handler behaviour out round-robin, so every form in the harness's
tables is exercised.
"""
import os, json, re
import concurrent.futures
from vlib import common

SPECS = ["StepsMC", "StepsTrace"]
PKGS = ["./cmd/steps"]

STATEMENT_BITS = {
    "panic": "unknown step or signal IDs yield errors, never panics (and a call on valid IDs must reach its handler: "
             "'the only step data that run's signal handlers ever see' presupposes they run)",
    "init_twice": "the per-run step data is created exactly once per run ID",
    "foreign_data": "... and is the only step data that run's signal handlers ever see",
    "nil_data": "... and is the only step data that run's signal handlers ever see",
    "data_race": "the per-run step data is created exactly once per run ID (over all schedules)",
    "handler_on_invalid": "invokes a step's handler exactly once if and only if ... the raw input is accepted",
    "handler_skipped": "invokes a step's handler exactly once if and only if ...",
    "handler_twice": "invokes a step's handler exactly once",
    "wrong_argument": "passing it exactly the unserialized value",
    "error_on_valid": "invokes a step's handler exactly once if and only if the step ID exists and the raw input is "
                      "accepted by the step's input schema ... returns the handler's output ID with the serialized output",
    "wrong_output": "returns the handler's output ID with the serialized output",
    "accepts_bad_output": "only if that ID is declared and the data satisfies the declared output schema",
    "no_error": "otherwise returns an error",
    "wrong_error_type": "an error whose type distinguishes an unknown step, a rejected input and an undeclared output ID",
    "untyped_error": "an error whose type distinguishes an unknown step, a rejected input and an undeclared output ID",
}


def signature(m):
    s = m["sig"]
    sig = dict(op=s.get("op"), case=s.get("case"))
    sig["class"] = s.get("class")
    for k in ("frame", "got", "scope"):
        if s.get(k):
            sig[k] = s[k]
    return sig


def shape(case):
    """schedule shape: sequential (no two calls overlap) or concurrent"""
    open_ = 0
    conc = False
    for h in case.get("hist", []):
        if h["ev"] == "begin":
            open_ += 1
            conc = conc or open_ > 1
        elif h["ev"] == "ret":
            open_ -= 1
    return "conc" if conc else "seq"


def call_key(c, mapsteps=(), shortsteps=()):
    st = "unknown" if c["step"] == "nostep" else ("map" if c["step"] in mapsteps else
                                                  "single" if c["step"] in shortsteps else "known")
    if c["kind"] == "step":
        return "step:%s:%s:%s" % (st, c["input"], c["beh"])
    return "signal:%s:%s:%s" % (st, c["sig"], c["input"])


def assign_variants(ctx, cases, counters):
    """hand the concrete forms (raw input, non-conforming output) out round-robin per call class: every form of
    every class that has at least as many calls as forms is exercised, whatever order TLC wrote the states in"""
    cases.sort(key=lambda c: json.dumps(c, sort_keys=True))
    for case in cases:
        vs = []
        first_short = True
        for c in case["calls"]:
            k = call_key(c, case.get("mapsteps", ()), case.get("shortsteps", ()))
            reg = case.get("reg") or []
            if c["step"] == "nostep":
                # the concrete unknown step IDs ("", another letter case, ...) are handed out separately for the
                # schemas with exactly one registered step and for the others
                k += ":reg%d" % min(len(reg), 2)
            elif reg and c["step"] not in reg:
                k += ":unregistered"
            if c["step"] in case.get("shortsteps", ()):
                # the first call on a single-property step picks among the forms of ALL shapes (and so decides the
                # session's shape), later ones among the forms of that shape: counted separately
                k += ":first" if first_short else ":later"
                first_short = False
            vs.append(counters.setdefault(k, ctx.seed % 5040))
            counters[k] += 1
        case["variants"] = vs


def note_forms(counts, r):
    for f in r.get("forms", []):
        counts["forms"].add(f)
    for k, n in (r.get("form_tables") or {}).items():
        counts["tables"][k] = n


def check_form_coverage(ctx, counts):
    """every concrete form of every raw-input class the schedules use must have been exercised"""
    seen = {}
    for f in counts["forms"]:
        scope, kind, cls, name = f.split("/", 3)
        seen.setdefault((scope, kind, cls), set()).add(name)
    missing = []
    for (scope, kind, cls), names in sorted(seen.items()):
        want = counts["tables"].get("%s/%s" % (scope, cls))
        if want is None:
            raise common.Infra("the harness reports no form table for %s/%s" % (scope, cls))
        if len(names) != want:
            missing.append("%s/%s/%s: %d of %d" % (scope, kind, cls, len(names), want))
    if missing:
        raise common.Infra("raw-input / handler-output forms not all exercised by the replayed schedules: " + "; ".join(missing))
    return sum(len(v) for v in seen.values())


def consume(ctx, cases, results, counts):
    """returns the trace lines of the random cases"""
    trace = []
    for case, res in zip(cases, results):
        if res.get("crash"):
            det = res.get("detail") or ""
            m = re.search(r"fatal error: (concurrent map [a-z ]+)", det)
            if m and "pluginsdk/schema" in det:
                # the Go runtime itself reports unsynchronised access to a map of the SDK: evidence in hand,
                # whether or not the schedule-dependent crash shows again on the two re-runs
                fr = re.search(r"pluginsdk/schema\.\(\*?(\w+)\[[^\n]*?\]\)\.(\w+)|pluginsdk/(schema\.[\w.()*]+)\(", det)
                frame = ("schema.%s.%s" % (fr.group(1), fr.group(2)) if fr and fr.group(1) else (fr.group(3) if fr else ""))
                ctx.violation(dict(op="concurrent", case="setup", **{"class": "concurrent_map_access"}, frame=frame),
                              dict(case=case, crash=m.group(1), reproduced=bool(res.get("reproduced")), detail=det[:4000],
                                   statement=STATEMENT_BITS["data_race"]))
                continue
            if not res.get("reproduced"):
                raise common.Infra("unreproduced worker %s on case %s\n%s" % (
                    res["crash"], json.dumps(case)[:300], (res.get("detail") or "")[-1500:]))
            ctx.violation(dict(op=case.get("op", "replay"), case="session", **{"class": res["crash"]},
                               frame=res.get("frame", "")),
                          dict(case=case, crash=res["crash"], detail=(res.get("detail") or "")[:4000]))
            continue
        r = res["res"]
        if r.get("harness_error") or r.get("harness_panic"):
            raise common.Infra("harness failure on %s: %s" % (json.dumps(case)[:200], json.dumps(r)[:1500]))
        if r.get("bind_error"):
            raise common.Infra("binding table out of date: " + r["bind_error"])
        if r.get("stuck"):
            raise common.Infra("a call never returned (cannot be decided by this check): " + r["stuck"][:3000])
        ctx.evaluations += r.get("evals", 0)
        if case.get("op") != "random":
            note_forms(counts, r)
        if case.get("op") == "random":
            counts["sessions"] += r.get("sessions", 0)
            counts["clean"] += r.get("clean", 0)
            for k in r.get("keys", []):
                ctx.distinct.add("random/" + k)
        else:
            sh = shape(case)
            counts[sh] += 1
            if r.get("followed"):
                counts["followed"] += 1
            elif case.get("racy"):
                counts["raced"] += 1
            counts["timeouts"] += r.get("timeouts", 0)
            reg = case.get("reg") or []
            sigregs = set((case.get("sigreg") or {}).values())
            if (reg and len(reg) < 3) or "differ" in sigregs:
                for c in case["calls"]:
                    ctx.distinct.add("layout/reg%d/%s/%s%s" % (len(reg), "+".join(sorted(sigregs)), call_key(c),
                                                              "" if c["step"] in reg or c["step"] == "nostep" else ":unregistered"))
            shapes = sorted(set((case.get("display") or {}).values()) - {"none"})
            if shapes:
                for c in case["calls"]:
                    if c["step"] == "nostep" or c["sig"] == "nosig":
                        for sh in shapes:
                            ctx.distinct.add("display/%s/%s" % (sh, call_key(c)))
            same = len({(c["step"], c["run"]) for c in case["calls"]}) < len(case["calls"])
            ctx.distinct.add("%s/%s/%s" % (sh, "samekey" if same else "diffkey",
                                           "|".join(sorted(call_key(c, case.get("mapsteps", ()), case.get("shortsteps", ()))
                                                           for c in case["calls"]))))
        for m in r.get("mismatches", []):
            sig = signature(m)
            if m.get("drift"):
                ctx.note_drift("%s/%s/%s" % (sig["op"], sig["case"], sig["class"]), m["detail"])
                counts["drift"] += 1
                continue
            d = dict(m["detail"])
            d["statement"] = STATEMENT_BITS.get(sig["class"], "")
            ctx.violation(sig, dict(case=case, detail=d))
        trace.extend(r.get("trace", []))
    return trace


def run_driver(ctx, path, cases=None, race=False, jobs=None):
    drv = ctx.gobuild("./cmd/steps", race=race)
    out = path + ".res"
    if cases is None:
        cases = common.read_ndjson(path)
    else:
        common.write_ndjson(path, cases)
    env = None
    if race:
        env = {"GORACE": "log_path=%s halt_on_error=0 exitcode=0" % (path + ".race"),
               "VERIF_RACELOG": path + ".race"}
    ctx.run([drv, "-in", path, "-out", out, "-j", str(jobs or min(12, common.NCPU)), "-case-timeout", "120s"],
            timeout=1500, env=env)
    results = common.read_ndjson(out)
    if len(results) != len(cases):
        raise common.Infra("driver returned %d results for %d cases" % (len(results), len(cases)))
    return cases, results


def validate_trace(ctx, trace, tag):
    """all lines must be consumed by StepsTrace; returns number of lines accepted"""
    if not trace:
        return 0
    total = 0
    batch = 6000
    # cut at session boundaries
    starts = [i for i, l in enumerate(trace) if l["ev"] == "reset"]
    chunks, cur = [], 0
    for i in starts + [len(trace)]:
        if i - cur >= batch:
            chunks.append((cur, i))
            cur = i
    if cur < len(trace):
        chunks.append((cur, len(trace)))
    rejected = 0
    work = [trace[a:b] for a, b in chunks]
    n = 0
    while work:
        part = work.pop(0)
        n += 1
        tpath = os.path.join(ctx.tmp, "steps-trace-%s-%d.ndjson" % (tag, n))
        common.write_ndjson(tpath, part)
        tr = ctx.tlc("StepsTrace", "steps_trace.cfg", workers=1, env={"VERIF_TRACE": tpath},
                     timeout=900, allow_violation=True)
        m = re.search(r'"C11HW", (\d+), (\d+)', tr.out)
        if not m:
            raise common.Infra("StepsTrace did not report its high-water mark:\n" + "\n".join(tr.out.splitlines()[-30:]))
        hw, ln = int(m.group(1)), int(m.group(2))
        if ln != len(part):
            raise common.Infra("StepsTrace read %d lines, %d were written" % (ln, len(part)))
        if tr.violated and tr.violated != "postcondition":
            raise common.Infra("StepsTrace: %s violated while following a recorded trace - the trace actions "
                               "break the specification's own invariants (spec bug):\n%s"
                               % (tr.violated, "\n".join(tr.out.splitlines()[-40:])))
        if hw == ln + 1:
            total += ln
            continue
        # rejected: line hw (1-based) is the first that no behaviour of Steps.tla can take.  The sessions
        # handed over passed every direct evaluation of the property's statement, so what differs is the
        # order/detail of stages, which C11 does not fix: recorded as drift (and fails no verdict).
        idx = max(0, min(hw - 1, len(part) - 1))
        s0 = max(i for i in range(idx + 1) if part[i]["ev"] == "reset")
        rejected += 1
        ctx.note_drift("trace_rejected", dict(line=part[idx], session=part[s0:idx + 1][:60],
                                              note="StepsTrace cannot take this line after the lines before it"))
        total += s0
        nxt = next((i for i in range(idx + 1, len(part)) if part[i]["ev"] == "reset"), None)
        if nxt is not None and rejected < 8:
            work.insert(0, part[nxt:])       # carry on with the session after the rejected one
    ctx.extra["trace_sessions_rejected"] = ctx.extra.get("trace_sessions_rejected", 0) + rejected
    return total


def model_check(ctx, cfg, vec=None, workers=8):
    env = {"VERIF_OUT": vec} if vec else {"VERIF_OUT": os.path.join(ctx.tmp, "unused.ndjson")}
    r = ctx.tlc("StepsMC", cfg, workers=workers, env=env, timeout=1500)
    ctx.log("StepsMC/%s:" % cfg, r)
    return r


def run(ctx):
    thorough = ctx.tier == "thorough"
    ctx.rule = ("a vector is one complete gate-level schedule of StepsMC (terminal state): a call vector (step or "
                "signal x known/unknown step and signal IDs x run x accepted/rejected raw input x handler behaviour "
                "(output ID declared/second declared/undeclared x data conforming/non-conforming/nil) x step with/without "
                "initializer x input scope "
                "struct-mapped/map-based, the map-based one also with raw inputs that omit a defaulted property or use "
                "a representation accepted by lenient conversion, and with handler output values whose in-memory form "
                "differs from the serialized form of its map-based output scope; one step with single-property input "
                "and signal data objects called with the map spelling and with bare values in the shorthand; every "
                "single call also on schemas of every assignment of a display shape to each step) plus the order "
                "of releases and arrivals at the gates (call begin, initializer, handler, return); distinct = "
                "distinct (sequential|concurrent, same|different (step,run), multiset of call classes); non-trivial = "
                "all (no default configuration exists); random sessions add distinct (kind, situation, behaviour"
                "[, raw-input class on the map-based step])")
    counts = dict(seq=0, conc=0, followed=0, drift=0, sessions=0, clean=0, raced=0, timeouts=0, forms=set(), tables={})
    variant_counters = {}
    cfgs = [("steps_thorough.cfg", "steps_thorough_full.cfg"), ("steps_thorough3.cfg", "steps_thorough3_full.cfg")] \
        if thorough else [("steps_quick.cfg", "steps_quick_full.cfg")]
    nvec = 0
    # the display dimension (replayed below): in the quick tier the model is checked while the others run
    dvec = os.path.join(ctx.tmp, "steps-vectors-display.ndjson")
    dcfg = "steps_display_thorough.cfg" if thorough else "steps_display.cfg"
    dpool = concurrent.futures.ThreadPoolExecutor(1)
    display_run = None if thorough else dpool.submit(model_check, ctx, dcfg, dvec, 4)
    for i, (normal, full) in enumerate(cfgs):
        # every interleaving of every stage: the properties on the model (quick tier: checked while the schedules
        # are exported and replayed; its verdict is collected below, before anything is concluded)
        pool = concurrent.futures.ThreadPoolExecutor(1)
        full_run = pool.submit(model_check, ctx, full)
        if thorough:
            full_run.result()
        # every gate-normal-form schedule: exported and replayed into the real code
        vec = os.path.join(ctx.tmp, "steps-vectors-%d.ndjson" % i)
        r = model_check(ctx, normal, vec)
        cases = common.read_ndjson(vec)
        if not cases:
            raise common.Infra("StepsMC/%s exported no schedule" % normal)
        assign_variants(ctx, cases, variant_counters)
        cases, results = run_driver(ctx, vec + ".cases", cases)
        for c in cases[:1] + cases[len(cases) // 2:len(cases) // 2 + 1] + cases[-1:]:
            ctx.sample(dict(calls=c["calls"], hist=["%s(%d)" % (h["ev"], h["p"]) for h in c["hist"]], res=c["res"]))
        full_run.result()      # raises what the model check of all interleavings raised
        pool.shutdown()
        consume(ctx, cases, results, counts)
        nvec += len(cases)
    # the display dimension: every single call on a schema of every assignment of a display shape to each step
    if display_run is None:
        model_check(ctx, dcfg, dvec)
    else:
        display_run.result()
    dpool.shutdown()
    dcases = common.read_ndjson(dvec)
    if not dcases:
        raise common.Infra("StepsMC/steps_display exported no schedule")
    assign_variants(ctx, dcases, variant_counters)
    dcases, dresults = run_driver(ctx, dvec + ".cases", dcases)
    consume(ctx, dcases, dresults, counts)
    ctx.sample(dict(calls=dcases[-1]["calls"], display=dcases[-1]["display"], res=dcases[-1]["res"]))
    ctx.extra["single_calls_replayed_on_every_display_assignment"] = len(dcases)
    ctx.extra["display_assignments"] = len({json.dumps(c.get("display"), sort_keys=True) for c in dcases})
    nvec += len(dcases)
    ctx.traces += nvec
    ctx.exhaustive = True
    nforms = check_form_coverage(ctx, counts)   # raw-input forms and handler-output forms

    # code -> spec: random concurrent sessions, ledger validated by StepsTrace
    nper = 25
    ncase = 40 if thorough else 12
    rnd = [dict(op="random", seed=ctx.seed * 100000 + i, sessions=nper, np=4, runs=2 + (i % 2)) for i in range(ncase)]
    rcases, rres = run_driver(ctx, os.path.join(ctx.tmp, "steps-random.ndjson"), rnd)
    trace = consume(ctx, rcases, rres, counts)
    ctx.sample(rnd[0])
    if thorough:
        # the same sessions under the race detector (different timing: their ledgers are validated as well)
        rrace = [dict(c, seed=c["seed"] + 50000) for c in rnd]
        rc2, rr2 = run_driver(ctx, os.path.join(ctx.tmp, "steps-random-race.ndjson"), rrace, race=True, jobs=8)
        trace += consume(ctx, rc2, rr2, counts)
        ctx.extra["race_detector_sessions"] = sum(r["res"].get("sessions", 0) for r in rr2 if r.get("res"))
    accepted = validate_trace(ctx, trace, "r")
    ctx.traces += accepted
    if trace:
        ctx.sample(dict(trace_head=trace[:6]))
    ctx.extra.update(input_and_output_forms_exercised_by_schedules=nforms,
                     raw_input_forms_of_the_map_based_step=len([f for f in counts["forms"] if f.startswith("map/")]),
                     raw_input_forms_of_the_single_property_step=len([f for f in counts["forms"] if f.startswith("short/")]),
                     handler_output_forms_of_the_map_based_step=len([f for f in counts["forms"] if f.startswith("mapout/")]),
                     schedules_replayed=nvec, schedules_sequential=counts["seq"], schedules_concurrent=counts["conc"],
                     schedules_followed_exactly=counts["followed"],
                     schedules_left_at_a_runtime_mutex_race=counts["raced"], arrival_timeouts=counts["timeouts"],
                     random_sessions=counts["sessions"],
                     random_sessions_clean_and_trace_validated=counts["clean"], trace_lines=len(trace),
                     trace_lines_accepted=accepted)
    ctx.log("schedules=%d (seq=%d conc=%d followed=%d raced=%d timeouts=%d) random sessions=%d clean=%d trace lines=%d accepted=%d drift=%d"
            % (nvec, counts["seq"], counts["conc"], counts["followed"], counts["raced"], counts["timeouts"], counts["sessions"], counts["clean"],
               len(trace), accepted, len(ctx.drift)))
    for d in ctx.drift[:5]:
        ctx.log("drift:", d["what"], json.dumps(d["sample"], default=str)[:600])
    ctx.assumptions += [
        "gate normal form: a goroutine is released from a gate only when all others are parked, finished or blocked "
        "on the initializer mutex; stages between gates commute with the other goroutines' stages (they touch no "
        "shared state except inside setupStepData, which is a gate)",
        "a disagreement about error *types* beyond the statement's three distinguished classes, about signal-handler "
        "invocation on rejected signal data, or a recorded trace StepsTrace rejects although every direct evaluation "
        "of the statement held, is drift, not a violation",
        "data identity = the call whose initializer run created it (pointer identity in the harness); the initializer "
        "is attributed to its call by goroutine ID",
        "the unserialized value of a raw input of a map-based scope is what an independent copy of that scope's "
        "Unserialize returns (compared with reflect.DeepEqual); the hand-written normal forms of the harness's tables "
        "are checked against it at start (binding check)",
        "the serialized output of a call on the step with map-based output scopes is what an independent copy of the "
        "declared output scope's Serialize returns for the value the handler returned (reflect.DeepEqual); the "
        "hand-written serialized forms of the harness's tables are checked against it at start",
        "a data race reported by the race detector inside schema/step.go, schema.go or signal.go is taken as a "
        "violation of once-per-run initialisation over all schedules; races elsewhere are left to C13",
    ]


def replay(ctx, rp):
    case = rp["replay"].get("case")
    if case is None:
        raise common.Infra("replay file has no case")
    counts = dict(seq=0, conc=0, followed=0, drift=0, sessions=0, clean=0, raced=0, timeouts=0, forms=set(), tables={})
    path = os.path.join(ctx.tmp, "replay.ndjson")
    race = rp.get("signature", {}).get("class") == "data_race"
    reps = [case] * (5 if case.get("op") == "random" else 1)
    cases, results = run_driver(ctx, path, reps, race=race, jobs=1)
    consume(ctx, cases, results, counts)
    ctx.sample(case)
    ctx.rule = "replay of one recorded schedule / random session batch"
