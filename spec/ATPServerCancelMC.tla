--------------------------- MODULE ATPServerCancelMC ---------------------------
EXTENDS ATPServerCancel
R1 == {"r1"}
R2 == {"r1", "r2"}
R3 == {"r1", "r2", "r3"}
None == {}
BehAll == {"ok", "err", "panic"}
BehOk == {"ok"}
BehOkErr == {"ok", "err"}
Empty == ""
=============================================================================
