----------------------------- MODULE ATPSignals -----------------------------
(***************************************************************************)
(* The signal path of an ATP session on its own: callers hand a            *)
(* signalsToStep channel to Execute, every call has a write loop           *)
(* (executeWriteLoop) that takes signals off ITS channel and forwards them *)
(* as runtime messages, and the server hands a signal message to the       *)
(* handler of the run the message names.  ATP.tla has one channel per run  *)
(* and one signal per channel, where "which run does the message name"     *)
(* cannot go wrong; here several calls may have been given ONE channel     *)
(* (Shared), so any of their write loops may take a signal that is         *)
(* addressed - by the RunID field of the schema.Input - to another run.    *)
(*                                                                         *)
(*   tosend    the signals the caller's code still has to put on the       *)
(*             channel, each named by the run it is addressed to           *)
(*   held[w]   the signal the write loop of run w has taken ("" = none)    *)
(*   wire      signal messages on their way: [stamp: run ID in the         *)
(*             envelope, tok: the run the signal was addressed to]         *)
(*   got[r]    what the signal handler of run r was given, in order        *)
(*                                                                         *)
(* Design (current code): the envelope carries the signal's own RunID.     *)
(* Named deviation StampOwn: the write loop stamps its own run ID.         *)
(***************************************************************************)
EXTENDS Naturals, Sequences, FiniteSets

CONSTANTS Runs, Shared, StampOwn, Orders      \* Orders: the orders in which the caller may address its signals

VARIABLES tosend, held, wire, got
vars == <<tosend, held, wire, got>>

Init == /\ tosend \in Orders /\ held = [r \in Runs |-> ""] /\ wire = <<>> /\ got = [r \in Runs |-> <<>>]

\* a channel send completes when a write loop receives: with one shared channel any idle loop, otherwise the loop
\* of the channel's own call
Take(w) ==
  /\ tosend # <<>> /\ held[w] = ""
  /\ Shared \/ w = Head(tosend)
  /\ held' = [held EXCEPT ![w] = Head(tosend)] /\ tosend' = Tail(tosend)
  /\ UNCHANGED <<wire, got>>

\* sendCBOR(RuntimeMessage{RunID: ..., MessageID: signal})
Forward(w) ==
  /\ held[w] # ""
  /\ wire' = Append(wire, [stamp |-> IF StampOwn THEN w ELSE held[w], tok |-> held[w]])
  /\ held' = [held EXCEPT ![w] = ""]
  /\ UNCHANGED <<tosend, got>>

\* the server's read loop: handleSignalMessage -> CallSignal(runID of the envelope)
Dispatch ==
  /\ wire # <<>>
  /\ got' = [got EXCEPT ![Head(wire).stamp] = Append(@, Head(wire).tok)]
  /\ wire' = Tail(wire)
  /\ UNCHANGED <<tosend, held>>

Next == (\E w \in Runs : Take(w) \/ Forward(w)) \/ Dispatch
Spec == Init /\ [][Next]_vars
FairSpec == Spec /\ WF_vars(Next)

TypeOK == /\ \A r \in Runs : held[r] \in Runs \cup {""} /\ Len(got[r]) <= Cardinality(Runs)
          /\ Len(wire) <= Cardinality(Runs)
\* a handler is only ever given signals addressed to its run, and no signal twice
Addressed == \A r \in Runs : \A i \in 1..Len(got[r]) : got[r][i] = r
AtMostOnce == \A r \in Runs : Len(got[r]) <= 1
\* every signal reaches its run
AllDelivered == <>[](\A r \in Runs : got[r] = <<r>>)
=============================================================================
