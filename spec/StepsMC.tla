------------------------------ MODULE StepsMC ------------------------------
(* Model checking configuration of Steps.tla (C11).                           *)
(*                                                                             *)
(* Init picks one call per goroutine out of the call universe (every          *)
(* combination of step/signal, known/unknown IDs, runs, accepted/rejected raw  *)
(* inputs and handler behaviours the constants allow; the steps in MapSteps    *)
(* - input scope map-based - are also called with the raw input classes        *)
(* MapInputs: defaulted property omitted, lenient representations; the steps   *)
(* in ShortSteps - input object with exactly one property - with ShortInputs:  *)
(* a bare non-map value as shorthand); Next                                    *)
(* interleaves them.                                                           *)
(*                                                                             *)
(* Normal = FALSE: every interleaving of every stage (the properties are       *)
(*   checked over all of them).                                                *)
(* Normal = TRUE : "gate normal form" - a goroutine is released from a harness *)
(*   gate (call begin, initializer, handler) only when every other goroutine   *)
(*   is parked at a gate, finished or blocked on the initializer mutex.        *)
(*   Every behaviour is equivalent to one of these by commuting independent    *)
(*   stages, and exactly these can be forced on the real code with the         *)
(*   harness-supplied initializer and handlers as gates.  With KeepHist the    *)
(*   gate-level history is part of the state, so that every distinct           *)
(*   schedule reaches its own terminal state and is exported there.            *)
EXTENDS Steps, Export

CONSTANTS Inputs,       \* raw input classes used (for every step and signal)
          MapSteps,     \* steps whose input scope and signal data scope are map-based (schema.NewObjectSchema:
                        \* unserialized value and raw input are both map[string]any; handler typed map[string]any)
          MapInputs,    \* accepted raw input classes used, in addition, for the steps in MapSteps: "vd" (a
                        \* defaulted property omitted), "vl" (values accepted by lenient conversion)
          ShortSteps,   \* steps whose input object and signal data object have EXACTLY ONE property: a bare value
                        \* that is not a map is shorthand for the object with that property
          ShortInputs,  \* accepted raw input classes used, in addition, for the steps in ShortSteps: "vs"
          Displays,     \* display shapes used
          PerStep,      \* TRUE: every assignment of a shape to each step; FALSE: all steps the same shape
          RegSingles,   \* TRUE: also the schemas in which exactly one step is registered
          SigRegs,      \* signal registrations used: "same" (key = signal ID), "differ" (key # signal ID)
          OwnIdCalls,   \* TRUE: also signal calls that name the signal's own ID OwnSigId
          BehSet,       \* step handler behaviours used
          ExtraBehs,    \* further entries of the (output ID class x data class) product, enumerated for every step
                        \* but on one run and one accepted input only (the outcome depends on neither)
          MapExtraBehs, \* the same for the steps in MapSteps only (data class "confr")
          MapBehs,      \* behaviours used, in addition, for the steps in MapSteps (their OUTPUT scopes are map-based
                        \* too): "okr" (conforming data whose in-memory form differs from its serialized form)
          WithUnknown,  \* include unknown step / unknown signal calls
          Normal, KeepHist

VARIABLES hist,   \* gate-level history: sequence of [ev, p]
          racy    \* two goroutines were blocked on one mutex at once (their order is the runtime's choice)

mcvars == <<vars, hist, racy>>

MkCall(k, s, r, g, i, b) == [kind |-> k, step |-> s, run |-> r, sig |-> g, input |-> i, beh |-> b]
R0 == CHOOSE r \in Runs : TRUE
V0 == CHOOSE i \in Inputs \cap ValidInputs : TRUE
B0 == CHOOSE b \in BehSet : TRUE
B1 == IF "ok" \in BehSet THEN "ok" ELSE B0

ASSUME MapInputs \subseteq ValidInputs
ASSUME MapBehs \subseteq Behs
ASSUME ShortInputs \subseteq ValidInputs
ASSUME Displays \subseteq DisplayShapes /\ Displays # {}
D0 == [s \in StepIds |-> "none"]
L0 == [reg |-> StepIds, sigreg |-> [s \in StepIds |-> "same"]]
Layouts == {[reg |-> r, sigreg |-> [s \in StepIds |-> g]] :
               r \in {StepIds} \cup (IF RegSingles THEN {{s} : s \in StepIds} ELSE {}), g \in SigRegs}
ASSUME SigRegs \subseteq {"same", "differ"} /\ SigRegs # {}
DisplayAssignments == IF PerStep THEN [StepIds -> Displays] ELSE {[s \in StepIds |-> d] : d \in Displays}
ASSUME BehSet \subseteq Behs /\ ExtraBehs \subseteq Behs /\ MapExtraBehs \subseteq Behs

StepCalls ==
    {MkCall("step", s, r, "none", i, B0) : s \in StepIds, r \in Runs, i \in Inputs \ ValidInputs}
    \cup {MkCall("step", s, r, "none", i, b) : s \in StepIds, r \in Runs, i \in Inputs \cap ValidInputs, b \in BehSet}
    \cup {MkCall("step", s, r, "none", i, B1) : s \in MapSteps \cap StepIds, r \in Runs, i \in MapInputs \ Inputs}
    \cup {MkCall("step", s, r, "none", i, b) : s \in MapSteps \cap StepIds, r \in Runs, i \in Inputs \cap ValidInputs,
                                                b \in MapBehs \ BehSet}
    \cup {MkCall("step", s, r, "none", i, B1) : s \in ShortSteps \cap StepIds, r \in Runs, i \in ShortInputs \ Inputs}
    \cup {MkCall("step", s, R0, "none", V0, b) : s \in StepIds, b \in ExtraBehs \ BehSet}
    \cup {MkCall("step", s, R0, "none", V0, b) : s \in MapSteps \cap StepIds, b \in MapExtraBehs \ (BehSet \cup ExtraBehs \cup MapBehs)}
    \cup (IF WithUnknown THEN {MkCall("step", NoStep, R0, "none", V0, B0)} ELSE {})

SignalCalls ==
    {MkCall("signal", s, r, SigId, i, "none") : s \in StepIds, r \in Runs, i \in Inputs}
    \cup {MkCall("signal", s, r, SigId, i, "none") : s \in MapSteps \cap StepIds, r \in Runs, i \in MapInputs \ Inputs}
    \cup {MkCall("signal", s, r, SigId, i, "none") : s \in ShortSteps \cap StepIds, r \in Runs, i \in ShortInputs \ Inputs}
    \cup (IF WithUnknown
          THEN {MkCall("signal", s, r, NoSig, V0, "none") : s \in StepIds, r \in Runs}
               \cup {MkCall("signal", NoStep, R0, SigId, V0, "none")}
               \cup (IF OwnIdCalls THEN {MkCall("signal", s, r, OwnSigId, V0, "none") : s \in StepIds, r \in Runs} ELSE {})
          ELSE {})

Calls == StepCalls \cup SignalCalls

\* the displays vary with the default layout, the layouts with no display (the two do not interact)
AttrChoices == {<<d, CHOOSE l \in Layouts : l = L0 \/ L0 \notin Layouts>> : d \in DisplayAssignments}
               \cup {<<CHOOSE d \in DisplayAssignments : d = D0 \/ D0 \notin DisplayAssignments, l>> : l \in Layouts}

MCInit ==
    /\ \E cv \in [Procs -> Calls] : \E a \in AttrChoices : InitWith(cv, a[1], a[2])
    /\ hist = <<>>
    /\ racy = FALSE

Parked(p) == pc[p] \in {"idle", "ininit", "inhandler", "done"}
Blocked(p) == pc[p] = "setup" /\ mutex[S(p)] # 0
Quiet == \A q \in Procs : Parked(q) \/ Blocked(q)
Rel == Normal => Quiet

Ev(e, p) == hist' = IF KeepHist THEN Append(hist, [ev |-> e, p |-> p]) ELSE hist

MCNext ==
    /\ \E p \in Procs :
          \/ Rel /\ Begin(p) /\ Ev("begin", p)
          \/ Rel /\ InitEnd(p) /\ Ev("initdone", p)
          \/ Rel /\ HandlerReturn(p) /\ Ev("hret", p)
          \/ InitBegin(p) /\ Ev("init", p)
          \/ InvokeHandler(p) /\ Ev("invoke", p)
          \/ Return(p) /\ Ev("ret", p)
          \/ Internal(p) /\ UNCHANGED hist
    /\ racy' = (racy \/ \E s \in StepIds :
                   Cardinality({q \in Procs : pc'[q] = "setup" /\ call[q].step = s /\ mutex'[s] # 0}) >= 2)

MCSpec == MCInit /\ [][MCNext]_mcvars

NoStuckMC == AllDone \/ ENABLED MCNext

ModelOK == HandlerIffValid /\ ExactArgument /\ ErrorClass /\ DisplayBlind /\ InitOncePerRun /\ NoStuckMC

\* terminal states carry one complete schedule each
Export ==
    (AllDone /\ KeepHist) =>
        Emit([calls |-> call, hist |-> hist, ledger |-> ledger, res |-> res,
              ic |-> initCount, sd |-> stepData, racy |-> racy, noinit |-> NoInitSteps,
              mapsteps |-> MapSteps, shortsteps |-> ShortSteps, display |-> display, reg |-> layout.reg, sigreg |-> layout.sigreg])
=============================================================================
