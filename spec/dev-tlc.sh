#!/bin/sh
# developer helper: dev-tlc.sh <Module> <cfg> [extra tlc args]  (runs in a scratch dir)
set -e
M=$1; C=$2; shift 2
D=$(mktemp -d /tmp/devtlc.XXXXXX)
cp /verif/spec/*.tla $D/
cd $D
timeout ${TLC_TIMEOUT:-900} java -XX:+UseParallelGC -Xss256m -Djava.io.tmpdir=$D -cp /opt/veriftools/tla/tla2tools.jar:/opt/veriftools/tla/CommunityModules-deps.jar tlc2.TLC -config /verif/spec/cfg/$C -workers ${W:-8} -deadlock -noGenerateSpecTE -metadir $D/meta "$@" $M.tla 2>&1 | grep -v "^Linting\|^Semantic\|^Parsing\|^Warning: Please\|^Please\|^(Use the\|^TLC2 Version\|^Running breadth\|^Implied-temporal\|^Starting\|^Computing\|^Finished computing\|based on the actual\|calculated (optim\|Estimates of the\|because two distinct"
rm -rf $D
