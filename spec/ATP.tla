--------------------------------- MODULE ATP ---------------------------------
(***************************************************************************)
(* The Arcaflow Transport Protocol as implemented by atp/client.go and     *)
(* atp/server.go: one action per critical section, channel operation or    *)
(* blocking I/O call of the code.  Properties C05 - C08.                   *)
(*                                                                         *)
(* Processes                                                               *)
(*   client: one caller per run (Execute), the read loop (at most one      *)
(*           incarnation alive), one signal write loop per run that has a  *)
(*           signalsToStep channel, the Close caller;                      *)
(*   server: the run loop (session.run / runATPReadLoop), the closure      *)
(*           handler (handleClosure, on the RunATPServer goroutine), one   *)
(*           step goroutine per accepted work-start, one signal goroutine  *)
(*           per accepted signal;                                          *)
(*   wires : c2s and s2c, sequences of fragments in flight.                *)
(*                                                                         *)
(* Known oddities are modelled as the code has them and named:             *)
(*   - MergedExit = FALSE is the pinned client: the read loop decides to   *)
(*     stop under the mutex (LoopCheck) and clears readLoopRunning in a    *)
(*     LATER critical section (LoopExit); TRUE is the repaired client.     *)
(*   - LateClose = FALSE is the pinned server: workDone is closed when the *)
(*     run loop ends (RunExit) although step/signal goroutines may still   *)
(*     send on it (=> Crash "send on closed channel"); TRUE closes it only *)
(*     after they have finished, and the closure handler keeps forwarding  *)
(*     after a fatal error (repaired server).                              *)
(*   - a failed work-start write returns an error but leaves the entry     *)
(*     registered (SendFail).                                              *)
(*   - every Execute makes its own decoder; the read loop uses the decoder *)
(*     of the Execute that started it; bytes a decoder read ahead are lost *)
(*     with it (DropDecoder).                                              *)
(***************************************************************************)
EXTENDS Integers, Sequences, FiniteSets, TLC

CONSTANTS
    Runs,        \* run IDs
    Cap,         \* wire capacity in fragments; 0 = unbuffered pipe (io.Pipe)
    Frag,        \* BOOLEAN: a message may travel as two fragments (and reads may coalesce)
    StepBeh,     \* behaviours a step may show: subset of {"ok", "err", "panic"}
    SigRuns,     \* runs whose caller passes a signalsToStep channel and sends one signal
    BadSigRuns,  \* subset of SigRuns whose signal the server's handler rejects
    EmitRuns,    \* runs whose step emits one signal to the client before finishing (non-SDK servers do)
    NoStepRuns,  \* runs whose Execute names no step (blank step ID): the server answers with a step-fatal error that
                 \* carries NO run ID, which the client hands to every pending call
    WithClose,   \* BOOLEAN: Close() is called at an arbitrary moment
    Serial,      \* BOOLEAN: callers run strictly one after the other (back to back)
    MergedExit,  \* BOOLEAN: see above
    LateClose,   \* BOOLEAN: see above
    SharedDecoder, \* BOOLEAN: FALSE = pinned client, every read loop incarnation has its own decoder (read-ahead is
                 \* dropped with it); TRUE = repaired client, one decoder whose buffer survives the loop
    NoRun        \* the empty run ID

ASSUME Cap \in Nat /\ Frag \in BOOLEAN /\ SigRuns \subseteq Runs /\ BadSigRuns \subseteq Runs /\ NoStepRuns \subseteq Runs

VARIABLES
    \* ---- client
    cpc,        \* [Runs -> caller program counter]
    entries,    \* [Runs -> "none" | "pending" | result] : runningStepResultEntries
    woken,      \* [Runs -> BOOLEAN] : the caller's Cond has been signalled while it waits
    sigch,      \* [Runs -> "none" | "open" | "closed"] : runningStepEmittedSignalChannels
    mu,         \* client mutex: "free" or its holder
    rl,         \* readLoopRunning
    loop,       \* read loop: [pc, msg, buf, how]
    res,        \* [Runs -> "none" | what Execute returned]
    rets,       \* [Runs -> Nat] number of times Execute returned
    wpc,        \* [Runs -> write loop pc]
    done,       \* client.done
    clpc,       \* Close caller pc
    wg,         \* client wait group counter
    gotsig,     \* [Runs -> Nat] signals handed to the caller's signalsFromStep channel
    \* ---- wires
    c2s, s2c,   \* sequences of fragments in flight
    stdinClosed,\* the server closed its input (client writes fail from now on)
    outClosed,  \* the server's output is closed (RunATPServer returned / process exited)
    \* ---- server
    spc,        \* run loop pc
    sbuf,       \* the server decoder's read-ahead
    smsg,       \* message being handled by the run loop
    step,       \* [Runs -> step goroutine pc]
    beh,        \* [Runs -> behaviour chosen for the step]
    sigg,       \* [Runs -> signal goroutine pc]
    workq,      \* workDone channel content
    workClosed, \* workDone closed
    emu,        \* encoderMutex holder
    hpc,        \* closure handler pc
    hmsg,       \* error being forwarded by the closure handler
    hdrain,     \* the closure handler has left its loop on ctx.Done(): a goroutine drains workDone without forwarding
    crashed,    \* "no" or the reason the plugin process died
    accepted,   \* [Runs -> Nat] work-starts accepted (step goroutine spawned)
    terminal,   \* [Runs -> Nat] terminal messages (work-done / step-fatal error) fully written
    srvRet      \* RunATPServer returned

cvars == <<cpc, entries, woken, sigch, mu, rl, loop, res, rets, wpc, done, clpc, wg, gotsig>>
wvars == <<c2s, s2c, stdinClosed, outClosed>>
svars == <<spc, sbuf, smsg, step, beh, sigg, workq, workClosed, emu, hpc, hmsg, hdrain, crashed,
           accepted, terminal, srvRet>>
vars == <<cvars, wvars, svars>>

\* ------------------------------------------------------------------ messages and wires
Msg(t, r, x) == [t |-> t, r |-> r, x |-> x]
NoMsg == Msg("none", NoRun, "")
Whole(m) == [m |-> m, p |-> 0]
Frags(m) == IF Frag THEN {<<Whole(m)>>, <<[m |-> m, p |-> 1], [m |-> m, p |-> 2]>>} ELSE {<<Whole(m)>>}

CanWrite(w) == Len(w) <= Cap          \* a write may begin (one in-progress message beyond Cap)
Flushed(w) == Len(w) <= Cap           \* the in-progress write has been taken over by the reader/buffer

\* what a decoder makes of its buffer: a whole message, nothing yet, or garbage
HeadKind(buf) ==
    IF buf = <<>> THEN "empty"
    ELSE IF buf[1].m.t \in {"eof", "junk"} THEN "garbage"      \* end of stream marker / undecodable bytes
    ELSE IF buf[1].p = 0 THEN "msg"
    ELSE IF buf[1].p = 1 THEN
        (IF Len(buf) = 1 THEN "partial" ELSE IF buf[2].p = 2 /\ buf[2].m = buf[1].m THEN "msg2" ELSE "garbage")
    ELSE "garbage"
HeadMsg(buf) == buf[1].m
DropHead(buf) == IF HeadKind(buf) = "msg2" THEN SubSeq(buf, 3, Len(buf)) ELSE Tail(buf)

\* number of fragments one Read may take: exactly one from an unbuffered pipe, any prefix otherwise
Takes(w) == IF Cap = 0 /\ ~Frag THEN {1} ELSE 1..Len(w)
Prefix(w, k) == SubSeq(w, 1, k)
Suffix(w, k) == SubSeq(w, k + 1, Len(w))

E(st, x) == [st |-> st, x |-> x]
ENone == E("none", NoRun)
EPending == E("pending", NoRun)
Pending == {r \in Runs : entries[r].st = "pending"}
Registered == {r \in Runs : entries[r].st # "none"}
\* lock holders are pairs <<kind, run>>
Free == <<"free", NoRun>>

\* ------------------------------------------------------------------ initial state
Init ==
    /\ cpc = [r \in Runs |-> "idle"]
    /\ entries = [r \in Runs |-> ENone]
    /\ woken = [r \in Runs |-> FALSE]
    /\ sigch = [r \in Runs |-> "none"]
    /\ mu = Free
    /\ rl = FALSE
    /\ loop = [pc |-> "none", msg |-> NoMsg, buf |-> <<>>, how |-> ""]
    /\ res = [r \in Runs |-> ENone]
    /\ rets = [r \in Runs |-> 0]
    /\ wpc = [r \in Runs |-> "none"]
    /\ done = FALSE
    /\ clpc = IF WithClose THEN "idle" ELSE "absent"
    /\ wg = 0
    /\ gotsig = [r \in Runs |-> 0]
    /\ c2s = <<>> /\ s2c = <<>>
    /\ stdinClosed = FALSE /\ outClosed = FALSE
    /\ spc = "recv"                       \* handshake (start message / hello) is sequential: see ATPHello
    /\ sbuf = <<>>
    /\ smsg = NoMsg
    /\ step = [r \in Runs |-> "none"]
    /\ beh = [r \in Runs |-> "none"]
    /\ sigg = [r \in Runs |-> "none"]
    /\ workq = <<>>
    /\ workClosed = FALSE
    /\ emu = Free
    /\ hpc = "select"
    /\ hmsg = NoMsg
    /\ hdrain = FALSE
    /\ crashed = "no"
    /\ accepted = [r \in Runs |-> 0]
    /\ terminal = [r \in Runs |-> 0]
    /\ srvRet = FALSE

Alive == crashed = "no"

(***************************************************************************)
(* CLIENT: Execute (client.go 176-215, 516-573)                            *)
(***************************************************************************)
\* a caller may start when it is its turn (Serial: all callers before it have returned)
MayStart(r) ==
    ~Serial \/ \A q \in Runs : (cpc[q] \in {"idle"}) \/ q = r \/ cpc[q] = "ret"

ExecBegin(r) ==
    /\ cpc[r] = "idle"
    /\ MayStart(r)
    /\ cpc' = [cpc EXCEPT ![r] = "reg"]
    /\ UNCHANGED <<entries, woken, sigch, mu, rl, loop, res, rets, wpc, done, clpc, wg, gotsig, wvars, svars>>

\* prepareResultChannels: one critical section.  A closed client refuses; otherwise the entry is
\* registered, the read loop started if none is running, and the wait group incremented for the
\* signal write loop (go executeWriteLoop follows)
Register(r) ==
    /\ cpc[r] = "reg" /\ mu = Free
    /\ entries[r].st = "none"              \* (duplicate run IDs: see RegisterDup in ATPExt)
    /\ IF done
         THEN /\ cpc' = [cpc EXCEPT ![r] = "ret"]
              /\ res' = [res EXCEPT ![r] = E("closed", NoRun)]
              /\ rets' = [rets EXCEPT ![r] = @ + 1]
              /\ UNCHANGED <<entries, sigch, rl, wg, loop, wpc>>
         ELSE /\ entries' = [entries EXCEPT ![r] = EPending]
              /\ sigch' = [sigch EXCEPT ![r] = IF r \in EmitRuns THEN "open" ELSE "none"]
              /\ wpc' = IF r \in SigRuns THEN [wpc EXCEPT ![r] = "begin"] ELSE wpc
              /\ IF ~rl
                   THEN /\ rl' = TRUE /\ wg' = wg + 1 + (IF r \in SigRuns THEN 1 ELSE 0)
                        /\ loop' = [pc |-> "decode", msg |-> NoMsg, buf |-> loop.buf, how |-> ""]
                   ELSE /\ wg' = wg + (IF r \in SigRuns THEN 1 ELSE 0)
                        /\ UNCHANGED <<rl, loop>>
              /\ cpc' = [cpc EXCEPT ![r] = "sendlock"]
              /\ UNCHANGED <<res, rets>>
    /\ UNCHANGED <<woken, mu, done, clpc, gotsig, wvars, svars>>

\* sendCBOR: the mutex is held across the blocking write
SendLock(r) ==
    /\ cpc[r] = "sendlock" /\ mu = Free
    /\ mu' = <<"c", r>>
    /\ cpc' = [cpc EXCEPT ![r] = "write"]
    /\ UNCHANGED <<entries, woken, sigch, rl, loop, res, rets, wpc, done, clpc, wg, gotsig, wvars, svars>>

SendWrite(r) ==
    /\ cpc[r] = "write" /\ ~stdinClosed /\ CanWrite(c2s)
    /\ \E f \in Frags(IF r \in NoStepRuns THEN Msg("wsbad", NoRun, "") ELSE Msg("ws", r, "")) : c2s' = c2s \o f
    /\ cpc' = [cpc EXCEPT ![r] = "writing"]
    /\ UNCHANGED <<entries, woken, sigch, mu, rl, loop, res, rets, wpc, done, clpc, wg, gotsig,
                   s2c, stdinClosed, outClosed, svars>>

SendDone(r) ==
    /\ cpc[r] = "writing" /\ Flushed(c2s) /\ ~stdinClosed
    /\ mu' = Free
    /\ cpc' = [cpc EXCEPT ![r] = "getres"]
    /\ UNCHANGED <<entries, woken, sigch, rl, loop, res, rets, wpc, done, clpc, wg, gotsig, wvars, svars>>

\* the write fails (peer closed its input): Execute returns the error, THE ENTRY STAYS REGISTERED
SendFail(r) ==
    /\ cpc[r] \in {"write", "writing"} /\ stdinClosed
    /\ mu' = Free
    /\ cpc' = [cpc EXCEPT ![r] = "ret"]
    /\ res' = [res EXCEPT ![r] = E("werr", NoRun)]
    /\ rets' = [rets EXCEPT ![r] = @ + 1]
    /\ UNCHANGED <<entries, woken, sigch, rl, loop, wpc, done, clpc, wg, gotsig, wvars, svars>>

\* getResultV2: result present -> take it; otherwise Cond.Wait (releases the mutex)
GetResult(r) ==
    /\ cpc[r] = "getres" /\ mu = Free
    /\ IF entries[r].st = "pending"
         THEN /\ cpc' = [cpc EXCEPT ![r] = "waiting"]
              /\ UNCHANGED <<entries, res, rets>>
         ELSE /\ cpc' = [cpc EXCEPT ![r] = "ret"]
              /\ res' = [res EXCEPT ![r] = entries[r]]
              /\ rets' = [rets EXCEPT ![r] = @ + 1]
              /\ entries' = [entries EXCEPT ![r] = ENone]
    /\ UNCHANGED <<woken, sigch, mu, rl, loop, wpc, done, clpc, wg, gotsig, wvars, svars>>

\* woken by Signal: re-acquire the mutex, take the result, delete the entry
Take(r) ==
    /\ cpc[r] = "waiting" /\ woken[r] /\ mu = Free
    /\ entries[r].st \notin {"none", "pending"}   \* (nil result after wake-up would panic: NoNilWake)
    /\ cpc' = [cpc EXCEPT ![r] = "ret"]
    /\ res' = [res EXCEPT ![r] = entries[r]]
    /\ rets' = [rets EXCEPT ![r] = @ + 1]
    /\ entries' = [entries EXCEPT ![r] = ENone]
    /\ woken' = [woken EXCEPT ![r] = FALSE]
    /\ UNCHANGED <<sigch, mu, rl, loop, wpc, done, clpc, wg, gotsig, wvars, svars>>

(***************************************************************************)
(* CLIENT: read loop (client.go 341-487)                                   *)
(***************************************************************************)
\* the decoder's blocking Read: move fragments from the wire into its buffer
LoopFill ==
    /\ loop.pc = "decode" /\ HeadKind(loop.buf) \in {"empty", "partial"} /\ s2c # <<>>
    /\ \E k \in Takes(s2c) :
         /\ loop' = [loop EXCEPT !.buf = loop.buf \o Prefix(s2c, k)]
         /\ s2c' = Suffix(s2c, k)
    /\ UNCHANGED <<cpc, entries, woken, sigch, mu, rl, res, rets, wpc, done, clpc, wg, gotsig,
                   c2s, stdinClosed, outClosed, svars>>

\* Decode returns a whole message
LoopDecode ==
    /\ loop.pc = "decode" /\ HeadKind(loop.buf) \in {"msg", "msg2"}
    /\ loop' = [loop EXCEPT !.pc = "handle", !.msg = HeadMsg(loop.buf), !.buf = DropHead(loop.buf)]
    /\ UNCHANGED <<cpc, entries, woken, sigch, mu, rl, res, rets, wpc, done, clpc, wg, gotsig, wvars, svars>>

\* Decode fails: end of stream (the peer's output is closed and everything was read) or garbage
LoopDecodeErr ==
    /\ loop.pc = "decode"
    /\ \/ HeadKind(loop.buf) = "garbage"
       \/ HeadKind(loop.buf) \in {"empty", "partial"} /\ s2c = <<>> /\ outClosed
    /\ loop' = [loop EXCEPT !.pc = "failall", !.how = "exit"]
    /\ UNCHANGED <<cpc, entries, woken, sigch, mu, rl, res, rets, wpc, done, clpc, wg, gotsig, wvars, svars>>

\* sendExecutionResult under the mutex (handleWorkDoneMessage / step-fatal error with a run ID)
Deliver(r, what) ==
    /\ entries' = IF entries[r].st # "none" THEN [entries EXCEPT ![r] = what] ELSE entries
    /\ woken' = IF entries[r].st # "none" /\ cpc[r] = "waiting" THEN [woken EXCEPT ![r] = TRUE] ELSE woken
    /\ sigch' = IF sigch[r] = "open" THEN [sigch EXCEPT ![r] = "closed"] ELSE sigch

LoopHandle ==
    /\ loop.pc = "handle"
    /\ LET m == loop.msg IN
       CASE m.t = "wd" /\ m.r \in Runs ->
              /\ mu = Free
              /\ Deliver(m.r, E("ok", m.x))
              /\ loop' = [loop EXCEPT !.pc = "check"]
              /\ UNCHANGED gotsig
         [] m.t = "err" /\ m.x = "step" /\ m.r \in Runs ->
              /\ mu = Free
              /\ Deliver(m.r, E("err", NoRun))
              /\ loop' = [loop EXCEPT !.pc = "check"]
              /\ UNCHANGED gotsig
         [] m.t = "err" /\ m.x = "server" ->
              /\ loop' = [loop EXCEPT !.pc = "failall", !.how = "exit"]
              /\ UNCHANGED <<entries, woken, sigch, gotsig>>
         [] m.t = "err" /\ m.x = "step" /\ m.r \notin Runs ->
              /\ loop' = [loop EXCEPT !.pc = "failall", !.how = "check"]
              /\ UNCHANGED <<entries, woken, sigch, gotsig>>
         [] m.t = "sig" /\ m.r \in Runs ->
              \* handleSignalMessage: the mutex is held while sending on the caller's channel;
              \* the consumer is always ready (healthy caller), so the hand-over is one step
              /\ mu = Free
              /\ gotsig' = IF sigch[m.r] = "open" THEN [gotsig EXCEPT ![m.r] = @ + 1] ELSE gotsig
              /\ loop' = [loop EXCEPT !.pc = "check"]
              /\ UNCHANGED <<entries, woken, sigch>>
         [] OTHER ->       \* non-fatal error message, unknown message type, work-done without run
              /\ loop' = [loop EXCEPT !.pc = "check"]
              /\ UNCHANGED <<entries, woken, sigch, gotsig>>
    /\ UNCHANGED <<cpc, mu, rl, res, rets, wpc, done, clpc, wg, wvars, svars>>

\* sendErrorToAll: one critical section.  In the repaired client the fatal exits clear
\* readLoopRunning in the same critical section (how = "exit").
LoopFailAll ==
    /\ loop.pc = "failall" /\ mu = Free
    /\ entries' = [r \in Runs |-> IF entries[r].st # "none" THEN E("err", NoRun) ELSE ENone]
    /\ woken' = [r \in Runs |-> IF entries[r].st # "none" /\ cpc[r] = "waiting" THEN TRUE ELSE woken[r]]
    /\ sigch' = [r \in Runs |-> IF entries[r].st # "none" /\ sigch[r] = "open" THEN "closed" ELSE sigch[r]]
    /\ IF loop.how = "exit" /\ MergedExit
         THEN /\ rl' = FALSE /\ wg' = wg - 1
              /\ loop' = [pc |-> "none", msg |-> NoMsg, buf |-> IF SharedDecoder THEN loop.buf ELSE <<>>, how |-> ""]
         ELSE /\ loop' = [loop EXCEPT !.pc = loop.how, !.how = ""]
              /\ UNCHANGED <<rl, wg>>
    /\ UNCHANGED <<cpc, mu, res, rets, wpc, done, clpc, gotsig, wvars, svars>>

\* hasEntriesRemaining under the mutex.  Pinned client: decision only.  Repaired client: the
\* decision and the clearing of readLoopRunning are one critical section.
LoopCheck ==
    /\ loop.pc = "check" /\ mu = Free
    /\ IF Pending # {}
         THEN loop' = [loop EXCEPT !.pc = "decode", !.msg = NoMsg] /\ UNCHANGED <<rl, wg>>
         ELSE IF MergedExit
                THEN /\ rl' = FALSE /\ wg' = wg - 1
                     /\ loop' = [pc |-> "none", msg |-> NoMsg, buf |-> IF SharedDecoder THEN loop.buf ELSE <<>>, how |-> ""]
                ELSE loop' = [loop EXCEPT !.pc = "exit", !.msg = NoMsg] /\ UNCHANGED <<rl, wg>>
    /\ UNCHANGED <<cpc, entries, woken, sigch, mu, res, rets, wpc, done, clpc, gotsig, wvars, svars>>

\* the deferred, separately locked step of the pinned client
LoopExit ==
    /\ loop.pc = "exit" /\ mu = Free
    /\ rl' = FALSE /\ wg' = wg - 1
    /\ loop' = [pc |-> "none", msg |-> NoMsg, buf |-> IF SharedDecoder THEN loop.buf ELSE <<>>, how |-> ""]
    /\ UNCHANGED <<cpc, entries, woken, sigch, mu, res, rets, wpc, done, clpc, gotsig, wvars, svars>>

(***************************************************************************)
(* CLIENT: signal write loop (client.go 283-336) and Close (218-250)       *)
(***************************************************************************)
WBegin(r) ==      \* checks done under the mutex
    /\ wpc[r] = "begin" /\ mu = Free
    /\ IF done THEN wpc' = [wpc EXCEPT ![r] = "none"] /\ wg' = wg - 1
               ELSE wpc' = [wpc EXCEPT ![r] = "select"] /\ UNCHANGED wg
    /\ UNCHANGED <<cpc, entries, woken, sigch, mu, rl, loop, res, rets, done, clpc, gotsig, wvars, svars>>

\* select: the caller's one signal arrives -> sendCBOR(signal)
WLock(r) ==
    /\ wpc[r] = "select" /\ mu = Free
    /\ mu' = <<"w", r>>
    /\ wpc' = [wpc EXCEPT ![r] = "write"]
    /\ UNCHANGED <<cpc, entries, woken, sigch, rl, loop, res, rets, done, clpc, wg, gotsig, wvars, svars>>

WWrite(r) ==
    /\ wpc[r] = "write" /\ ~stdinClosed /\ CanWrite(c2s)
    /\ \E f \in Frags(Msg("sig", r, "")) : c2s' = c2s \o f
    /\ wpc' = [wpc EXCEPT ![r] = "writing"]
    /\ UNCHANGED <<cpc, entries, woken, sigch, mu, rl, loop, res, rets, done, clpc, wg, gotsig,
                   s2c, stdinClosed, outClosed, svars>>

WDone(r) ==       \* after its one signal the caller closes the channel (or the context ends): loop exits
    /\ \/ wpc[r] = "writing" /\ Flushed(c2s) /\ ~stdinClosed
       \/ wpc[r] \in {"write", "writing"} /\ stdinClosed
    /\ mu' = Free
    /\ wpc' = [wpc EXCEPT ![r] = "sent"]
    /\ UNCHANGED <<cpc, entries, woken, sigch, rl, loop, res, rets, done, clpc, wg, gotsig, wvars, svars>>

WExit(r) ==       \* channel closed by the caller, or context cancelled by Close
    /\ wpc[r] \in {"sent", "select"}
    /\ wpc[r] = "select" => clpc \notin {"idle", "absent"}      \* ctx.Done only after Close began
    /\ wpc' = [wpc EXCEPT ![r] = "none"] /\ wg' = wg - 1
    /\ UNCHANGED <<cpc, entries, woken, sigch, mu, rl, loop, res, rets, done, clpc, gotsig, wvars, svars>>

CloseCancel ==    \* Close(): cancelFunc() - visible to the write loops before anything else
    /\ clpc = "idle"
    /\ clpc' = "cancelled"
    /\ UNCHANGED <<cpc, entries, woken, sigch, mu, rl, loop, res, rets, wpc, done, wg, gotsig, wvars, svars>>

CloseBegin ==     \* lock; done = true; unlock
    /\ clpc = "cancelled" /\ mu = Free
    /\ done' = TRUE
    /\ clpc' = "lock"
    /\ UNCHANGED <<cpc, entries, woken, sigch, mu, rl, loop, res, rets, wpc, wg, gotsig, wvars, svars>>

CloseLock ==      \* sendCBOR(client done)
    /\ clpc = "lock" /\ mu = Free
    /\ mu' = <<"close", NoRun>>
    /\ clpc' = "write"
    /\ UNCHANGED <<cpc, entries, woken, sigch, rl, loop, res, rets, wpc, done, wg, gotsig, wvars, svars>>

CloseWrite ==
    /\ clpc = "write" /\ ~stdinClosed /\ CanWrite(c2s)
    /\ \E f \in Frags(Msg("cd", NoRun, "")) : c2s' = c2s \o f
    /\ clpc' = "writing"
    /\ UNCHANGED <<cpc, entries, woken, sigch, mu, rl, loop, res, rets, wpc, done, wg, gotsig,
                   s2c, stdinClosed, outClosed, svars>>

CloseWritten ==   \* written, or the write failed (then Close waits with a timeout: same wait)
    /\ \/ clpc = "writing" /\ Flushed(c2s) /\ ~stdinClosed
       \/ clpc \in {"write", "writing"} /\ stdinClosed
    /\ mu' = Free
    /\ clpc' = "wait"
    /\ UNCHANGED <<cpc, entries, woken, sigch, rl, loop, res, rets, wpc, done, wg, gotsig, wvars, svars>>

CloseReturn ==    \* wg.Wait()
    /\ clpc = "wait" /\ wg = 0
    /\ clpc' = "ret"
    /\ UNCHANGED <<cpc, entries, woken, sigch, mu, rl, loop, res, rets, wpc, done, wg, gotsig, wvars, svars>>

ClientNext ==
    \/ \E r \in Runs : ExecBegin(r) \/ Register(r) \/ SendLock(r) \/ SendWrite(r) \/ SendDone(r)
                       \/ SendFail(r) \/ GetResult(r) \/ Take(r)
                       \/ WBegin(r) \/ WLock(r) \/ WWrite(r) \/ WDone(r) \/ WExit(r)
    \/ LoopFill \/ LoopDecode \/ LoopDecodeErr \/ LoopHandle \/ LoopFailAll \/ LoopCheck \/ LoopExit
    \/ CloseCancel \/ CloseBegin \/ CloseLock \/ CloseWrite \/ CloseWritten \/ CloseReturn

(***************************************************************************)
(* SERVER (server.go)                                                      *)
(***************************************************************************)
\* channel send on workDone: crash if closed, block if full
WorkSend(e) ==
    IF workClosed THEN crashed' = "send on closed channel" /\ UNCHANGED workq
    ELSE Len(workq) < 3 /\ workq' = Append(workq, e) /\ UNCHANGED crashed
WorkSendable == workClosed \/ Len(workq) < 3

SrvFill ==
    /\ Alive /\ spc = "recv" /\ HeadKind(sbuf) \in {"empty", "partial"} /\ c2s # <<>> /\ ~stdinClosed
    /\ \E k \in Takes(c2s) : sbuf' = sbuf \o Prefix(c2s, k) /\ c2s' = Suffix(c2s, k)
    /\ UNCHANGED <<cvars, s2c, stdinClosed, outClosed, spc, smsg, step, beh, sigg, workq, workClosed, emu,
                   hpc, hmsg, hdrain, crashed, accepted, terminal, srvRet>>

SrvDecode ==
    /\ Alive /\ spc = "recv" /\ HeadKind(sbuf) \in {"msg", "msg2"}
    /\ smsg' = HeadMsg(sbuf) /\ sbuf' = DropHead(sbuf)
    /\ spc' = "handle"
    /\ UNCHANGED <<cvars, wvars, step, beh, sigg, workq, workClosed, emu, hpc, hmsg, hdrain, crashed,
                   accepted, terminal, srvRet>>

\* Decode fails because stdin was closed under it (closure handler) or carries garbage
SrvDecodeErr ==
    /\ Alive /\ spc = "recv"
    /\ stdinClosed \/ HeadKind(sbuf) = "garbage"
    /\ spc' = "errsend"
    /\ UNCHANGED <<cvars, wvars, sbuf, smsg, step, beh, sigg, workq, workClosed, emu, hpc, hmsg, hdrain,
                   crashed, accepted, terminal, srvRet>>
\* ... a server-fatal ServerError goes to workDone (blocking send), the run loop ends
SrvErrSend ==
    /\ Alive /\ spc = "errsend"
    /\ WorkSendable /\ WorkSend(Msg("err", NoRun, "server"))
    /\ spc' = "exit"
    /\ UNCHANGED <<cvars, wvars, sbuf, smsg, step, beh, sigg, workClosed, emu, hpc, hmsg, hdrain,
                   accepted, terminal, srvRet>>

\* onRuntimeMessageReceived
SrvHandle ==
    /\ Alive /\ spc = "handle"
    /\ LET m == smsg IN
       CASE m.t = "ws" /\ m.r \in Runs ->            \* handleWorkStartMessage: wg.Add; go runStep
              /\ step' = [step EXCEPT ![m.r] = "run"]
              /\ UNCHANGED beh
              /\ accepted' = [accepted EXCEPT ![m.r] = @ + 1]
              /\ spc' = "recv"
              /\ UNCHANGED <<sigg, workq, crashed, stdinClosed>>
         [] m.t = "sig" /\ m.r \in Runs ->           \* handleSignalMessage
              IF accepted[m.r] > 0
                THEN /\ sigg' = [sigg EXCEPT ![m.r] = "run"]
                     /\ spc' = "recv"
                     /\ UNCHANGED <<step, beh, accepted, workq, crashed, stdinClosed>>
                ELSE /\ WorkSendable /\ WorkSend(Msg("err", m.r, "none"))   \* unknown run: non-fatal error
                     /\ spc' = "recv"
                     /\ UNCHANGED <<step, beh, accepted, sigg, stdinClosed>>
         [] m.t = "wsbad" ->                          \* work-start without run/step ID or with an undecodable
              /\ WorkSendable /\ WorkSend(Msg("err", m.r, "step"))     \* payload: step-fatal error, nothing started
              /\ spc' = "recv"
              /\ UNCHANGED <<step, beh, accepted, sigg, stdinClosed>>
         [] m.t = "bad" ->                            \* unknown message ID, signal without run ID or with an
              /\ WorkSendable /\ WorkSend(Msg("err", m.r, "none"))     \* undecodable payload: non-fatal error
              /\ spc' = "recv"
              /\ UNCHANGED <<step, beh, accepted, sigg, stdinClosed>>
         [] m.t = "cd" ->                             \* client done: close stdin, end the loop
              /\ stdinClosed' = TRUE
              /\ spc' = "exit"
              /\ UNCHANGED <<step, beh, accepted, sigg, workq, crashed>>
         [] OTHER ->                                  \* unknown message ID: non-fatal error
              /\ WorkSendable /\ WorkSend(Msg("err", NoRun, "none"))
              /\ spc' = "recv"
              /\ UNCHANGED <<step, beh, accepted, sigg, stdinClosed>>
    /\ smsg' = NoMsg
    /\ UNCHANGED <<cvars, c2s, s2c, outClosed, sbuf, workClosed, emu, hpc, hmsg, hdrain, terminal, srvRet>>

StepsRunning == {r \in Runs : step[r] \notin {"none", "done"}} \cup {r \in Runs : sigg[r] \notin {"none", "done"}}

\* run(): deferred runDoneChannel <- true; close(workDone); wg.Done()
SrvRunExit ==
    /\ Alive /\ spc = "exit"
    /\ IF LateClose THEN UNCHANGED workClosed ELSE workClosed' = TRUE
    /\ spc' = "gone"
    /\ UNCHANGED <<cvars, wvars, sbuf, smsg, step, beh, sigg, workq, emu, hpc, hmsg, hdrain, crashed,
                   accepted, terminal, srvRet>>

\* (repaired server) workDone is closed once the run loop and every step/signal goroutine are done
SrvLateClose ==
    /\ Alive /\ LateClose /\ spc = "gone" /\ StepsRunning = {} /\ ~workClosed
    /\ workClosed' = TRUE
    /\ UNCHANGED <<cvars, wvars, spc, sbuf, smsg, step, beh, sigg, workq, emu, hpc, hmsg, hdrain, crashed,
                   accepted, terminal, srvRet>>

\* ---- step goroutine (runStep)
\* CallStep returns: the step's behaviour is revealed
StepFinishAs(r, b) ==
    /\ Alive /\ step[r] \in {"run", "run2"}
    /\ beh' = [beh EXCEPT ![r] = b]
    /\ step' = [step EXCEPT ![r] = IF b = "ok" THEN "lock" ELSE "fail"]
    /\ UNCHANGED <<cvars, wvars, spc, sbuf, smsg, sigg, workq, workClosed, emu, hpc, hmsg, hdrain,
                   crashed, accepted, terminal, srvRet>>
StepFinish(r) == \E b \in StepBeh : StepFinishAs(r, b)

\* a step of a non-SDK server may emit a signal to the client while running (through the same
\* encoder discipline); kept abstract: the message appears on the wire in one write
StepEmit(r) ==
    /\ Alive /\ step[r] = "run" /\ r \in EmitRuns /\ emu = Free /\ ~outClosed /\ CanWrite(s2c)
    /\ s2c' = Append(s2c, Whole(Msg("sig", r, "")))
    /\ step' = [step EXCEPT ![r] = "emitted"]
    /\ UNCHANGED <<cvars, c2s, stdinClosed, outClosed, spc, sbuf, smsg, beh, sigg, workq, workClosed, emu,
                   hpc, hmsg, hdrain, crashed, accepted, terminal, srvRet>>
StepEmitted(r) ==
    /\ Alive /\ step[r] = "emitted" /\ Flushed(s2c)
    /\ step' = [step EXCEPT ![r] = "run2"]
    /\ UNCHANGED <<cvars, wvars, spc, sbuf, smsg, beh, sigg, workq, workClosed, emu, hpc, hmsg, hdrain,
                   crashed, accepted, terminal, srvRet>>

\* error / recovered panic: workDone <- ServerError{StepFatal}
StepFail(r) ==
    /\ Alive /\ step[r] = "fail"
    /\ WorkSendable /\ WorkSend(Msg("err", r, "step"))
    /\ step' = [step EXCEPT ![r] = "done"]
    /\ UNCHANGED <<cvars, wvars, spc, sbuf, smsg, beh, sigg, workClosed, emu, hpc, hmsg, hdrain,
                   accepted, terminal, srvRet>>

\* sendRuntimeMessage(work done): encoderMutex, blocking write
StepLock(r) ==
    /\ Alive /\ step[r] = "lock" /\ emu = Free
    /\ emu' = <<"s", r>>
    /\ step' = [step EXCEPT ![r] = "write"]
    /\ UNCHANGED <<cvars, wvars, spc, sbuf, smsg, beh, sigg, workq, workClosed, hpc, hmsg, hdrain, crashed,
                   accepted, terminal, srvRet>>
StepWrite(r) ==
    /\ Alive /\ step[r] = "write" /\ CanWrite(s2c) /\ ~outClosed
    /\ \E f \in Frags(Msg("wd", r, r)) : s2c' = s2c \o f
    /\ step' = [step EXCEPT ![r] = "writing"]
    /\ UNCHANGED <<cvars, c2s, stdinClosed, outClosed, spc, sbuf, smsg, beh, sigg, workq, workClosed, emu,
                   hpc, hmsg, hdrain, crashed, accepted, terminal, srvRet>>
StepWritten(r) ==
    /\ Alive /\ step[r] = "writing" /\ Flushed(s2c)
    /\ emu' = Free
    /\ terminal' = [terminal EXCEPT ![r] = @ + 1]
    /\ step' = [step EXCEPT ![r] = "done"]
    /\ UNCHANGED <<cvars, wvars, spc, sbuf, smsg, beh, sigg, workq, workClosed, hpc, hmsg, hdrain, crashed,
                   accepted, srvRet>>

\* ---- signal goroutine: CallSignal; an error goes to workDone (non-fatal)
SigFinishAs(r, bad) ==
    /\ Alive /\ sigg[r] = "run"
    /\ IF bad
         THEN WorkSendable /\ WorkSend(Msg("err", r, "none"))
         ELSE UNCHANGED <<workq, crashed>>
    /\ sigg' = [sigg EXCEPT ![r] = "done"]
    /\ UNCHANGED <<cvars, wvars, spc, sbuf, smsg, step, beh, workClosed, emu, hpc, hmsg, hdrain,
                   accepted, terminal, srvRet>>
SigFinish(r) == SigFinishAs(r, r \in BadSigRuns)

\* ---- closure handler (handleClosure)
HRecv ==
    /\ Alive /\ hpc = "select" /\ workq # <<>>
    /\ hmsg' = Head(workq) /\ workq' = Tail(workq)
    /\ hpc' = "lock"
    /\ UNCHANGED <<cvars, wvars, spc, sbuf, smsg, step, beh, sigg, workClosed, emu, hdrain, crashed,
                   accepted, terminal, srvRet>>
HClosed ==        \* workDone closed and drained: leave the loop
    /\ Alive /\ hpc = "select" /\ workq = <<>> /\ workClosed
    /\ hpc' = "done"
    /\ UNCHANGED <<cvars, wvars, spc, sbuf, smsg, step, beh, sigg, workq, workClosed, emu, hmsg, hdrain,
                   crashed, accepted, terminal, srvRet>>
HLock ==
    /\ Alive /\ hpc = "lock" /\ emu = Free
    /\ emu' = <<"h", NoRun>> /\ hpc' = "write"
    /\ UNCHANGED <<cvars, wvars, spc, sbuf, smsg, step, beh, sigg, workq, workClosed, hmsg, hdrain, crashed,
                   accepted, terminal, srvRet>>
HWrite ==
    /\ Alive /\ hpc = "write" /\ CanWrite(s2c) /\ ~outClosed
    /\ \E f \in Frags(hmsg) : s2c' = s2c \o f
    /\ hpc' = "writing"
    /\ UNCHANGED <<cvars, c2s, stdinClosed, outClosed, spc, sbuf, smsg, step, beh, sigg, workq, workClosed,
                   emu, hmsg, hdrain, crashed, accepted, terminal, srvRet>>
\* written; a server-fatal error closes stdin and ends forwarding
HWritten ==
    /\ Alive /\ hpc = "writing" /\ Flushed(s2c)
    /\ emu' = Free
    /\ terminal' = IF hmsg.x = "step" /\ hmsg.r \in Runs THEN [terminal EXCEPT ![hmsg.r] = @ + 1] ELSE terminal
    /\ hpc' = IF hmsg.x = "server" THEN "closing" ELSE "select"
    /\ UNCHANGED <<hdrain, stdinClosed>>
    /\ hmsg' = NoMsg
    /\ UNCHANGED <<cvars, c2s, s2c, outClosed, spc, sbuf, smsg, step, beh, sigg, workq, workClosed, crashed,
                   accepted, srvRet>>

\* after a server-fatal error the handler closes the server's input - a step of its own: between the write of the
\* error message and this close the client can still put a message on the wire (found by trace validation: a
\* recorded session had exactly that order).  Pinned server: the handler stops here; repaired server: it closes
\* stdin once and keeps receiving and forwarding until workDone is closed.
HCloseStdin ==
    /\ Alive /\ hpc = "closing"
    /\ stdinClosed' = TRUE
    /\ hpc' = IF LateClose THEN "select" ELSE "done"
    /\ UNCHANGED <<cvars, c2s, s2c, outClosed, spc, sbuf, smsg, step, beh, sigg, workq, workClosed, emu, hmsg, hdrain,
                   crashed, accepted, terminal, srvRet>>

\* The server's context is cancelled (SIGTERM in a plugin process).  NOT client-driven, so outside C07's
\* quantifier and outside ServerNext: spec/ATPServerCancel.tla adds these two actions to the environment.
\* handleClosure leaves its loop at once - whatever is queued or arrives later is received by a goroutine
\* that forwards nothing - and RunATPServer still waits for the read loop (the end of the input) and for
\* the running steps before it returns.
HCtxDone ==
    /\ Alive /\ hpc = "select" /\ ~hdrain
    /\ hpc' = "done" /\ hdrain' = TRUE
    /\ UNCHANGED <<cvars, wvars, spc, sbuf, smsg, step, beh, sigg, workq, workClosed, emu, hmsg, crashed,
                   accepted, terminal, srvRet>>
HDrain ==
    /\ Alive /\ hdrain /\ workq # <<>>
    /\ workq' = Tail(workq)
    /\ UNCHANGED <<cvars, wvars, spc, sbuf, smsg, step, beh, sigg, workClosed, emu, hpc, hmsg, hdrain, crashed,
                   accepted, terminal, srvRet>>

\* RunATPServer returns: handleClosure done and wg.Wait() passed; the process exits and the OS
\* closes its output
SrvReturn ==
    /\ Alive /\ ~srvRet /\ hpc = "done" /\ spc = "gone" /\ StepsRunning = {}
    /\ srvRet' = TRUE /\ outClosed' = TRUE
    /\ UNCHANGED <<cvars, c2s, s2c, stdinClosed, spc, sbuf, smsg, step, beh, sigg, workq, workClosed, emu,
                   hpc, hmsg, hdrain, crashed, accepted, terminal>>

\* a crashed plugin process: its output closes (what the client sees of a panic)
SrvCrashed ==
    /\ ~Alive /\ ~outClosed
    /\ outClosed' = TRUE /\ stdinClosed' = TRUE
    /\ UNCHANGED <<cvars, c2s, s2c, svars>>

ServerNext ==
    \/ SrvFill \/ SrvDecode \/ SrvDecodeErr \/ SrvErrSend \/ SrvHandle \/ SrvRunExit \/ SrvLateClose
    \/ \E r \in Runs : StepFinish(r) \/ StepEmit(r) \/ StepEmitted(r) \/ StepFail(r) \/ StepLock(r)
                       \/ StepWrite(r) \/ StepWritten(r) \/ SigFinish(r)
    \/ HRecv \/ HClosed \/ HLock \/ HWrite \/ HWritten \/ HCloseStdin \/ SrvReturn \/ SrvCrashed

Next == ClientNext \/ ServerNext
Spec == Init /\ [][Next]_vars

\* fairness: every goroutine that can move eventually does
Fairness ==
    /\ \A r \in Runs : WF_vars(Register(r)) /\ WF_vars(SendLock(r)) /\ WF_vars(SendWrite(r))
                       /\ WF_vars(SendDone(r)) /\ WF_vars(SendFail(r)) /\ WF_vars(GetResult(r))
                       /\ WF_vars(Take(r)) /\ WF_vars(ExecBegin(r))
                       /\ WF_vars(WBegin(r)) /\ WF_vars(WLock(r))
                       /\ WF_vars(WWrite(r)) /\ WF_vars(WDone(r)) /\ WF_vars(WExit(r))
                       /\ WF_vars(StepFinish(r)) /\ WF_vars(StepEmitted(r)) /\ WF_vars(StepFail(r))
                       /\ WF_vars(StepLock(r)) /\ WF_vars(StepWrite(r)) /\ WF_vars(StepWritten(r))
                       /\ WF_vars(SigFinish(r))
    /\ WF_vars(LoopFill) /\ WF_vars(LoopDecode) /\ WF_vars(LoopDecodeErr) /\ WF_vars(LoopHandle)
    /\ WF_vars(LoopFailAll) /\ WF_vars(LoopCheck) /\ WF_vars(LoopExit)
    /\ WF_vars(CloseBegin) /\ WF_vars(CloseLock) /\ WF_vars(CloseWrite) /\ WF_vars(CloseWritten) /\ WF_vars(CloseReturn)
    /\ WF_vars(SrvFill) /\ WF_vars(SrvDecode) /\ WF_vars(SrvDecodeErr) /\ WF_vars(SrvErrSend) /\ WF_vars(SrvHandle)
    /\ WF_vars(SrvRunExit) /\ WF_vars(SrvLateClose)
    /\ WF_vars(HRecv) /\ WF_vars(HClosed) /\ WF_vars(HLock) /\ WF_vars(HWrite) /\ WF_vars(HWritten) /\ WF_vars(HCloseStdin)
    /\ WF_vars(SrvReturn) /\ WF_vars(SrvCrashed)
FairSpec == Spec /\ Fairness

(***************************************************************************)
(* PROPERTIES                                                              *)
(***************************************************************************)
TypeOK ==
    /\ rl \in BOOLEAN /\ done \in BOOLEAN
    /\ wg \in 0..(2 * Cardinality(Runs) + 1)
    /\ Len(workq) <= 3

\* ---- C06
CallerActive(r) == cpc[r] \notin {"idle", "ret"}
CloseActive == clpc \in {"cancelled", "lock", "write", "writing", "wait"}
ClientBusy == (\E r \in Runs : CallerActive(r)) \/ CloseActive
\* no reachable state in which a caller or Close is inside a call and nothing at all can move
NoStuck == ClientBusy => ENABLED Next
ReturnsOnce == \A r \in Runs : rets[r] <= 1 /\ (cpc[r] = "ret" <=> rets[r] = 1)
\* when nothing can move any more, every call has returned and no client goroutine is left
\* (in particular: after Close no goroutine started by the client remains blocked)
AllDone == /\ \A r \in Runs : cpc[r] \in {"idle", "ret"} /\ wpc[r] = "none"
           /\ clpc \in {"absent", "ret"} /\ loop.pc = "none" /\ wg = 0
Quiescent == (~ENABLED Next) => AllDone
NoNilWake == \A r \in Runs : cpc[r] = "waiting" /\ woken[r] => entries[r].st \notin {"none", "pending"}
\* the loop flag tells the truth whenever no loop exists
FlagHonest == loop.pc = "none" => ~rl
EventuallyReturns == \A r \in Runs : (cpc[r] = "reg") ~> (cpc[r] = "ret")
CloseReturns == (clpc = "cancelled") ~> (clpc = "ret")

\* ---- C05
\* each Execute returns its own step's result: success carries its own token and the step succeeded
Transparent == \A r \in Runs : res[r].st = "ok" => res[r].x = r /\ beh[r] = "ok"
\* a result is only ever stored into the entry of the run it was sent for
NoCrossTalk == \A r \in Runs : entries[r].st = "ok" => entries[r].x = r
\* no two writers inside one encoder
ClientWriters == {<<"c", r>> : r \in {q \in Runs : cpc[q] \in {"write", "writing"}}}
                 \cup {<<"w", r>> : r \in {q \in Runs : wpc[q] \in {"write", "writing"}}}
                 \cup (IF clpc \in {"write", "writing"} THEN {<<"close", NoRun>>} ELSE {})
ServerWriters == {<<"s", r>> : r \in {q \in Runs : step[q] \in {"write", "writing"}}}
                 \cup (IF hpc \in {"write", "writing"} THEN {<<"h", NoRun>>} ELSE {})
WriterAtomic ==
    /\ Cardinality(ClientWriters) <= 1 /\ (ClientWriters # {} => mu \in ClientWriters)
    /\ Cardinality(ServerWriters) <= 1 /\ (ServerWriters # {} => emu \in ServerWriters)
\* on a connection nobody closes and whose server does not die, a step's own outcome comes back:
\* success for a step that succeeded, an error for one that failed
Faithful ==
    \A r \in Runs : (res[r].st # "none" /\ ~WithClose /\ Alive) =>
        /\ (beh[r] = "ok" => res[r].st = "ok")
        /\ (beh[r] \in {"err", "panic"} => res[r].st = "err")
\* read-ahead is never thrown away (checked where the decoder is dropped: LoopCheck/LoopFailAll/LoopExit
\* reset loop.buf; this action property says the dropped buffer was empty)
NoLoss == [][loop'.pc = "none" /\ loop.pc # "none" => loop'.buf = loop.buf]_vars

\* ---- C07
NoCrash == crashed = "no"
OneTerminal == \A r \in Runs : terminal[r] <= accepted[r]
SrvNoStuck == (~srvRet /\ Alive) => ENABLED Next
=============================================================================
