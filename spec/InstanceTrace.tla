---------------------------- MODULE InstanceTrace ----------------------------
(* Code -> specification for C12 (and the results of the C13 trials).          *)
(*                                                                             *)
(* The harness logs, for every call it made on a real schema instance,         *)
(*   {"ev":"reset","kind","origin"}            a new instance                  *)
(*   {"ev":"call","op","tok","m",              the call (abstract argument)    *)
(*    "ok","rm","rn","panic",                  what it returned                *)
(*    "nondet","freshsame",                    repeated evaluations differed / *)
(*                                             a fresh instance answers alike  *)
(*    "argsame","descsame","defsame",          argument / self-description /   *)
(*                                             defaults unchanged (vs. a fresh *)
(*                                             instance, decided on the real   *)
(*                                             values)                         *)
(*    "dhas","droot","dinner"}                 abstraction of GetDefaults()    *)
(* in the order of the calls.  This module drives the state machine of         *)
(* Instance.tla - one goroutine, all deviations FALSE: the design the property *)
(* demands - through the logged calls: a call line is Start with the logged    *)
(* call, the memory-access steps are silent, Return consumes the line.  A line *)
(* is ACCEPTED iff the logged result is one the pure operator admits (a         *)
(* difference here alone is model detail: reported as "result", which the      *)
(* orchestrator records as drift), equals every earlier result of the same     *)
(* call on this instance and did not vary over repeated evaluations            *)
(* (Deterministic), equals the answer of a fresh instance (HistoryFree on the  *)
(* real values), the argument and the self-description are unchanged and the   *)
(* logged defaults are the decoded declared defaults (CacheIntegrity on the    *)
(* real values).                                                               *)
(* Histories are longer and arguments wider than the enumerated universe       *)
(* (arbitrary object arguments).  Rejected lines are written to VERIF_OUT and  *)
(* the run continues, so that one defect does not hide the lines behind it;    *)
(* the last record says how many lines were consumed.                          *)
EXTENDS Instance, Export

FieldOrder == [at |-> 0, ev |-> 0, g |-> 0, kind |-> 0, k |-> 0, ok |-> 0, op |-> 0, origin |-> 0, st |-> 0,
               tok |-> 0, w |-> 0, what |-> 0, why |-> 0, arg |-> 0, argAfter |-> 0, line |-> 0, m |-> 0, n |-> 0,
               res |-> 0]

Trace == ndJsonDeserialize(IOEnv.VERIF_TRACE)

VARIABLES l,      \* next line
          seen    \* results logged so far on this instance: set of [op, arg, res]
tvars == <<vars, l, seen>>

ToFlat(r) == [p \in P |-> r[p]]
Me == CHOOSE g \in G : TRUE
LArg(e) == Arg(e.tok, ToFlat(e.m))
\* a rejection carries n = the length of the error's path for kind "disabled", 0 elsewhere (the harness logs so)
LRes(e) == Res(e.ok, IF e.ok THEN ToFlat(e.rm) ELSE Empty, e.rn)

ResetTo(k, o) ==
    /\ inst' = [kind |-> k, origin |-> o, shared |-> FALSE]
    /\ phase' = "serve"                     \* the harness links a rebuilt scope (ApplySelf) before it uses it
    /\ link' = [r \in Refs |-> "inner"]
    /\ defaultsCache' = InitialCaches([kind |-> k, origin |-> o, shared |-> FALSE])
    /\ cell' = Restrict(DeclRoot(k), SubPaths)
    /\ unitCache' = [u \in UnitIds |-> [sorted |-> "nil", re |-> "nil", names |-> "nil", memoText |-> "none", memoVal |-> "none"]]
    /\ table' = [r \in Runs |-> "absent"]
    /\ initCount' = [r \in Runs |-> 0]
    /\ scratch' = {}
    /\ mutex' = [x \in DOMAIN mutex |-> 0]
    /\ descr' = Describe([kind |-> k, origin |-> o, shared |-> FALSE])
    /\ argmem' = [g \in G |-> Empty]
    /\ pc' = [g \in G |-> "idle"]
    /\ cur' = [g \in G |-> NoCall]
    /\ loc' = [g \in G |-> NoLoc]
    /\ ncalls' = [g \in G |-> 0]
    /\ hist' = <<>>

TInit ==
    /\ l = 1
    /\ seen = {}
    /\ inst = [kind |-> "none", origin |-> "fresh", shared |-> FALSE]
    /\ phase = "serve"
    /\ link = [r \in Refs |-> "inner"]
    /\ defaultsCache = [o \in Objs |-> Unbuilt]
    /\ cell = Empty
    /\ unitCache = [u \in UnitIds |-> [sorted |-> "nil", re |-> "nil", names |-> "nil", memoText |-> "none", memoVal |-> "none"]]
    /\ table = [r \in Runs |-> "absent"]
    /\ initCount = [r \in Runs |-> 0]
    /\ scratch = {}
    /\ mutex = [x \in {"step", "unit", "root", "inner"} |-> 0]
    /\ descr = Describe(inst)
    /\ argmem = [g \in G |-> Empty]
    /\ pc = [g \in G |-> "idle"]
    /\ cur = [g \in G |-> NoCall]
    /\ loc = [g \in G |-> NoLoc]
    /\ ncalls = [g \in G |-> 0]
    /\ hist = <<>>

TReset ==
    /\ l <= Len(Trace) /\ Trace[l].ev = "reset" /\ pc[Me] = "idle"
    /\ ResetTo(Trace[l].kind, Trace[l].origin)
    /\ l' = l + 1 /\ seen' = {}

\* the logged call begins (Start of Instance.tla with the call fixed by the line)
TStart ==
    /\ l <= Len(Trace) /\ Trace[l].ev = "call" /\ pc[Me] = "idle"
    /\ LET c == Call(Trace[l].op, LArg(Trace[l])) IN
          /\ cur' = [cur EXCEPT ![Me] = c]
          /\ loc' = [loc EXCEPT ![Me] = NoLoc]
          /\ argmem' = [argmem EXCEPT ![Me] = c.arg.m]
          /\ Goto(Me, Entry(c))
    /\ UNCHANGED <<inst, phase, link, defaultsCache, cell, unitCache, table, initCount, scratch, mutex, descr, ncalls, hist,
                   l, seen>>

\* the memory-access steps of the call
TSilent ==
    /\ pc[Me] \notin {"idle", "ret"}
    /\ Step(Me)
    /\ UNCHANGED <<l, seen>>

TReturn ==
    /\ pc[Me] = "ret"
    /\ Return(Me)
    /\ l' = l + 1
    /\ seen' = seen \cup {[op |-> Trace[l].op, arg |-> LArg(Trace[l]), res |-> LRes(Trace[l])]}

TNext == TReset \/ TStart \/ TSilent \/ TReturn
TSpec == TInit /\ [][TNext]_tvars

\* ------------------------------------------------------------------ judging a consumed line
\* evaluated in the state after TReturn: line l-1 was consumed, hist ends with the model's own result
Why(e) ==
    LET want == PureSet(inst, e.op, LArg(e))
        mine == hist[Len(hist)].res
    IN  (IF e.panic THEN {"panic"} ELSE {})
        \cup (IF ~e.panic /\ LRes(e) \notin want THEN {"result"} ELSE {})
        \cup (IF mine \notin want THEN {"model"} ELSE {})                 \* the repaired design itself is pure
        \cup (IF e.nondet \/ \E s \in seen : s.op = e.op /\ s.arg = LArg(e) /\ s.res # LRes(e)
              THEN {"nondeterministic"} ELSE {})
        \cup (IF ~e.freshsame THEN {"history"} ELSE {})
        \cup (IF ~e.argsame THEN {"argument"} ELSE {})
        \cup (IF ~e.descsame THEN {"describe"} ELSE {})
        \cup (IF ~e.defsame THEN {"defaults"} ELSE {})
        \cup (IF e.dhas /\ (ToFlat(e.droot) # Decoded(inst.kind, "root")
                            \/ (HasSub(inst.kind) /\ ToFlat(e.dinner) # Decoded(inst.kind, "inner")))
              THEN {"cache"} ELSE {})

Accepted(e) == Why(e) = {}
\* always TRUE; writes the rejected lines (and, at the end, how many lines were consumed)
Judged ==
    /\ (l > 1 /\ pc[Me] = "idle" /\ Trace[l - 1].ev = "call") =>
           (Accepted(Trace[l - 1]) \/ Emit([what |-> "rejected", line |-> l - 1, why |-> Why(Trace[l - 1])]))
    /\ (l = Len(Trace) + 1 /\ pc[Me] = "idle") => Emit([what |-> "consumed", line |-> Len(Trace), why |-> {}])
=============================================================================
