------------------------------- MODULE ATPMC -------------------------------
(* Model-checking instance of ATP: run IDs are strings so that behaviours   *)
(* can be exported and replayed; see cfg/atp_*.cfg for the constants.       *)
EXTENDS ATP
R1 == {"r1"}
R2 == {"r1", "r2"}
R3 == {"r1", "r2", "r3"}
None == {}
BehAll == {"ok", "err", "panic"}
BehOk == {"ok"}
BehOkErr == {"ok", "err"}
Empty == ""
=============================================================================
