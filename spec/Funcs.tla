----------------------------- MODULE Funcs ---------------------------------
(***************************************************************************)
(* C18 - callable functions (schema/function.go): which handlers the       *)
(* constructors accept, and what Call reports.                             *)
(*                                                                         *)
(* Go types are abstracted to TYPE IDS (strings); two ids are equal iff    *)
(* the Go types are identical (the harness checks that its id function is  *)
(* injective on every type it uses).  What the rules need to know about a  *)
(* type beyond identity is an ATTRIBUTE TABLE                              *)
(*     A[t] = [iface    |-> t is an interface type,                        *)
(*             nilable  |-> a value of t can be nil,                       *)
(*             err      |-> a value of t can be assigned to `error`]       *)
(* - facts of Go's type system, computed by the harness with package       *)
(* reflect and, for the named universe below, checked against this file.   *)
(*                                                                         *)
(*   signature   sig  = [params : Seq(type), results : Seq(type)]          *)
(*               (a plain func type; variadic and non-function handlers    *)
(*               are outside the property's matrix)                        *)
(*   declaration decl = [dyn : BOOLEAN,        NewDynamicCallableFunction  *)
(*                       inputs : Seq(type),   native types of the declared*)
(*                                             parameter schemas           *)
(*                       out : Seq(type),      <<>> = no output schema,    *)
(*                                             <<t>> = native type of it   *)
(*                       err : BOOLEAN]        the error flag              *)
(*               (dyn => out = <<>> /\ err)                                *)
(*   values are TOKENS 0..2: 0 = the zero value of the type (nil for       *)
(*   nilable types), 1 and 2 = two non-zero values.  Values of the type    *)
(*   `error` have tokens 0..6, the ERROR TOKENS (ErrTokClass): what a      *)
(*   handler can hand back as its error - among them errors that are or    *)
(*   wrap the SDK's own *FunctionCallError, as happens when a handler      *)
(*   calls another function and propagates its failure.                    *)
(*   call = [args : Seq(token),  one value of the DECLARED type each,      *)
(*           bad  : 0 or the position that carries a value of a foreign    *)
(*                  type instead,                                          *)
(*           beh  : [k |-> "ret",   r |-> one token per handler result]    *)
(*                  [k |-> "echo",  r |-> as "ret" but r[1] is the position*)
(*                                  of the argument returned as result 1]  *)
(*                  [k |-> "panic", r |-> <<>>]]                           *)
(***************************************************************************)
EXTENDS Integers, Sequences, FiniteSets, TLC


RangeOf(s) == {s[i] : i \in DOMAIN s}

ErrorT == "error"          \* the predeclared interface type error
AnyT   == "interface {}"   \* native type of the any schema

\* ------------------------------------------------------------------ acceptance, declaratively
\* The statement: "accept a handler exactly when its Go parameter and result types agree with
\* the declared parameter schemas, output schema and error flag".  The result list a
\* declaration asks for: the output value (any for a dynamic function), then error if flagged.
HasValue(decl) == decl.dyn \/ decl.out # <<>>
Wanted(decl) == (IF decl.dyn THEN <<AnyT>> ELSE decl.out) \o (IF decl.err THEN <<ErrorT>> ELSE <<>>)

Agree(sig, decl) == sig.params = decl.inputs /\ sig.results = Wanted(decl)

\* Two places where the documentation and the statement leave room, and an implementation
\* may accept or reject ("maybe"): the error slot holds a type that is not `error` itself but
\* can be assigned to it; the value slot of a dynamic function holds an interface type other
\* than any.  Everything else that is not identical is a disagreement.
SlotTolerable(A, decl, j, t) ==
    LET w == Wanted(decl) IN
    \/ t = w[j]
    \/ decl.err /\ j = Len(w) /\ A[t].err
    \/ decl.dyn /\ j = 1 /\ A[t].iface

Tolerable(A, sig, decl) ==
    /\ sig.params = decl.inputs
    /\ Len(sig.results) = Len(Wanted(decl))
    /\ \A j \in DOMAIN sig.results : SlotTolerable(A, decl, j, sig.results[j])

\* "yes" = must accept, "no" = must reject, "maybe" = either
Accepts(A, sig, decl) ==
    IF Agree(sig, decl) THEN "yes" ELSE IF Tolerable(A, sig, decl) THEN "maybe" ELSE "no"

\* ------------------------------------------------------------------ acceptance, rule by rule
\* (the shape of a checker: counts first, then positions; the first rule that fails names the
\* class of the rejection).  TLC checks on every cell that this agrees with Accepts.
RuleParamCount(sig, decl) == Len(sig.params) = Len(decl.inputs)
RuleParamTypes(sig, decl) == \A i \in DOMAIN decl.inputs : sig.params[i] = decl.inputs[i]
NValues(decl) == IF HasValue(decl) THEN 1 ELSE 0
NWanted(decl) == NValues(decl) + (IF decl.err THEN 1 ELSE 0)
RuleResultCount(sig, decl) == Len(sig.results) = NWanted(decl)
\* error is recognised by TYPE IDENTITY - not by the type's name
ErrorSlot(A, t) == IF t = ErrorT THEN "yes" ELSE IF A[t].err THEN "maybe" ELSE "no"
ValueSlot(A, decl, t) ==
    IF decl.dyn THEN (IF t = AnyT THEN "yes" ELSE IF A[t].iface THEN "maybe" ELSE "no")
    ELSE IF t = decl.out[1] THEN "yes" ELSE "no"

Weaker(a, b) == IF a = "no" \/ b = "no" THEN "no" ELSE IF a = "maybe" \/ b = "maybe" THEN "maybe" ELSE "yes"

CheckHandler(A, sig, decl) ==
    IF ~RuleParamCount(sig, decl) THEN [verdict |-> "no", rule |-> "param_count"]
    ELSE IF ~RuleParamTypes(sig, decl) THEN [verdict |-> "no", rule |-> "param_type"]
    ELSE IF ~RuleResultCount(sig, decl) THEN [verdict |-> "no", rule |-> "result_count"]
    ELSE LET n  == Len(sig.results)
             ev == IF decl.err THEN ErrorSlot(A, sig.results[n]) ELSE "yes"
             vv == IF HasValue(decl) THEN ValueSlot(A, decl, sig.results[1]) ELSE "yes"
         IN IF ev = "no" THEN [verdict |-> "no", rule |-> "error_type"]
            ELSE IF vv = "no" THEN [verdict |-> "no", rule |-> "output_type"]
            ELSE [verdict |-> Weaker(ev, vv),
                  rule |-> IF ev = "maybe" THEN "error_type" ELSE IF vv = "maybe" THEN "output_type" ELSE "none"]

\* ------------------------------------------------------------------ calls
\* tokens of values of type error.  Whatever the handler's error IS or WRAPS, it is "an error
\* returned by the handler": function-reported, and the reported source is that very value.
ErrTokClass == << "plain",                    \* 1  errors.New
                  "plain",                    \* 2  another one
                  "wraps_call_shape_error",   \* 3  fmt.Errorf("%w") around a *FunctionCallError that is
                                              \*    NOT function-reported (an inner Call with a wrong
                                              \*    argument count, propagated)
                  "call_error_not_reported",  \* 4  such a *FunctionCallError itself
                  "call_error_reported",      \* 5  a *FunctionCallError marked function-reported itself
                  "typed_nil",                \* 6  a non-nil error interface holding a nil pointer,
                  "typed_nil_slice",          \* 7  ... a nil slice of a slice type with an Error method,
                  "typed_nil_map" >>          \* 8  ... a nil map of such a map type: in Go all three are errors
                                              \*    (err != nil), and what the handler's own caller would see
TokDom(t) == IF t = ErrorT THEN 0..Len(ErrTokClass) ELSE 0..2

FnOutcome(kind, tok, reported) == [kind |-> kind, tok |-> tok, reported |-> reported]
\*   "value"      Call returns (the value with token tok, nil)
\*   "void"       Call returns (nil, nil)
\*   "error"      Call returns an error; reported = it is marked as reported by the function;
\*                for a reported error tok is the token of the handler's error value: the
\*                reported source must be exactly that value
\*   "open_shape" an argument is not of the declared type: the statement only demands that
\*                this is not presented as the function's own error (error that is not
\*                function-reported, or a panic)
\*   "open_panic" the handler panicked: the statement is silent (panic propagates, or a
\*                function-reported error)
\*   "open_nilerr" the handler's last result has a concrete nilable type that implements error (a
\*                leniently accepted cell) and is nil: "no error" and Go's typed-nil-is-an-error
\*                reading are both defensible (the value, or a function-reported error).  A result
\*                declared as `error` is different: an error interface that holds a nil pointer,
\*                slice or map IS a non-nil error, the handler returned it, and Call reports it.

\* nil is not a value of an interface-typed parameter; a foreign value is not of the declared type
WellTyped(A, decl, call) ==
    /\ call.bad = 0
    /\ \A i \in DOMAIN call.args : A[decl.inputs[i]].iface => call.args[i] # 0

\* what the handler hands back at result position j
ResultTok(call, j) == IF call.beh.k = "echo" /\ j = 1 THEN call.args[call.beh.r[1]] ELSE call.beh.r[j]
NonNil(A, t, tok) == tok # 0 \/ ~A[t].nilable

\* operationally, over what the handler really has (its signature): count check, dispatch,
\* unpack the results by position
CallOutcome(A, sig, decl, call) ==
    LET nv  == NValues(decl)
        nr  == Len(sig.results)
        val == IF nv = 1 THEN FnOutcome("value", ResultTok(call, 1), FALSE) ELSE FnOutcome("void", 0, FALSE)
    IN IF Len(call.args) # Len(sig.params) THEN FnOutcome("error", 0, FALSE)
       ELSE IF ~WellTyped(A, decl, call) THEN FnOutcome("open_shape", 0, FALSE)
       ELSE IF call.beh.k = "panic" THEN FnOutcome("open_panic", 0, FALSE)
       ELSE IF nr = nv THEN val
       ELSE IF nr = nv + 1 THEN
            LET t == sig.results[nr]
                et == ResultTok(call, nr) IN
            IF et = 0 /\ A[t].nilable /\ ~A[t].iface
            THEN FnOutcome("open_nilerr", 0, FALSE)
            ELSE IF NonNil(A, t, et) THEN FnOutcome("error", et, TRUE) ELSE val
       ELSE FnOutcome("error", 0, FALSE)

\* declaratively, over the declaration alone - the statement: "An accepted function called
\* with the declared number of arguments of the declared types returns exactly what the
\* handler returned, reports an error returned by the handler as function-reported and a
\* call-shape problem as not function-reported, and a wrong argument count is an error
\* rather than a panic."
CallDeclared(A, decl, call) ==
    IF Len(call.args) # Len(decl.inputs) THEN FnOutcome("error", 0, FALSE)
    ELSE IF ~WellTyped(A, decl, call) THEN FnOutcome("open_shape", 0, FALSE)
    ELSE IF call.beh.k = "panic" THEN FnOutcome("open_panic", 0, FALSE)
    ELSE IF decl.err /\ ResultTok(call, NWanted(decl)) # 0
         THEN FnOutcome("error", ResultTok(call, NWanted(decl)), TRUE)
    ELSE IF HasValue(decl) THEN FnOutcome("value", ResultTok(call, 1), FALSE)
    ELSE FnOutcome("void", 0, FALSE)

\* does an observation of the real Call meet an expected outcome?
\* obs = [kind : "ok"|"error"|"panic", isnil : the returned value is nil,
\*        toks : the tokens whose value equals the returned value, reported : BOOLEAN,
\*        srctoks : the tokens of the error slot's type whose value IS the reported source
\*                  (identity / errors.Is on SourceError, or the returned error itself)]
Meets(exp, obs) ==
    CASE exp.kind = "value"      -> obs.kind = "ok" /\ exp.tok \in RangeOf(obs.toks)
      [] exp.kind = "void"       -> obs.kind = "ok" /\ obs.isnil
      [] exp.kind = "error"      -> /\ obs.kind = "error" /\ obs.reported = exp.reported
                                    /\ exp.reported => exp.tok \in RangeOf(obs.srctoks)
      [] exp.kind = "open_shape" -> obs.kind = "panic" \/ (obs.kind = "error" /\ ~obs.reported)
      [] exp.kind = "open_panic" -> obs.kind = "panic" \/ (obs.kind = "error" /\ obs.reported)
      [] exp.kind = "open_nilerr" -> obs.kind = "ok" \/ (obs.kind = "error" /\ obs.reported)

=============================================================================
