------------------------------- MODULE Compat -------------------------------
(***************************************************************************)
(* C15 - schema-versus-schema compatibility (the ValidateCompatibility     *)
(* methods of schema/{int,float,string,bool,pattern,enum,list,map,object,  *)
(* property,ref,scope,oneof,any}.go when handed a *schema*, not data).     *)
(*                                                                         *)
(* This is a PARTIAL specification, exactly as the property is:            *)
(*                                                                         *)
(*   MustReject(A, B)  consumer A can never consume what producer B emits: *)
(*                     the verdict has to be an error;                     *)
(*   MustAccept(A, B)  B is A, or A rebuilt from its own description: the  *)
(*                     verdict has to be nil;                              *)
(*   everything else   is left open - only "one verdict, and it returns".  *)
(*                                                                         *)
(* Abstract schemas are records with a "kind" tag.  Fields of one name     *)
(* have one type in every kind (TLC compares records field by field):      *)
(*                                                                         *)
(*   [kind: "int" | "float" | "string", min: Opt, max: Opt,                *)
(*        units: "none" | "bytes" | "time" | "custom"]                     *)
(*        (units of an int / float: none, one of the SDK's package-level   *)
(*         unit sets - bytes; nanoseconds for int, seconds for float - or  *)
(*         a unit set the harness generates for the schema.  The statement *)
(*         names no rule on units: different unit sets leave a pair open.) *)
(*   [kind: "bool"] [kind: "pattern"] [kind: "any"]                        *)
(*   [kind: "enum_int" | "enum_string", values: SUBSET Int, named: BOOLEAN,*)
(*        spell: "token" | "rune" | "mixed"]                               *)
(*        (named = every value carries a display name.  spell is how a     *)
(*         STRING enum writes its value n: "token" as the text "v<n>",     *)
(*         "rune" as the one-character string whose code point is n - the  *)
(*         string Go's integer-to-string conversion yields, e.g. 65 -> "A" *)
(*         -, "mixed" the least value as a rune and the others as tokens.  *)
(*         A string enum {"A","B"} and the integer enum {65,66} are of     *)
(*         different base kinds whatever the spelling.)                    *)
(*   [kind: "list", items: Schema, min: Opt, max: Opt, impl: "plain"|"typed"]*)
(*   [kind: "map", keys: Schema, vals: Schema, min: Opt, max: Opt,         *)
(*        impl: "plain" | "typed"]                                         *)
(*        (impl: NewListSchema / NewMapSchema or the typed variants        *)
(*         NewTypedListSchema[T] / NewTypedMapSchema[K, V]; the rules on   *)
(*         sizes and element types do not depend on it)                    *)
(*   [kind: "object", id: STRING, props: SUBSET Prop, id_unenforced: BOOLEAN,*)
(*        impl: "plain" | "mapped" | "typed"]                              *)
(*        (impl: which Go value carries the object - NewObjectSchema,      *)
(*         NewStructMappedObjectSchema[T] (reflects as a struct) or the    *)
(*         typed wrapper NewTypedObject[T]; the contract does not depend   *)
(*         on it, the code's reflection-based gates might)                 *)
(*        Prop = [name: STRING, required: BOOLEAN, type: Schema,           *)
(*                has_default: BOOLEAN, disabled: BOOLEAN,                 *)
(*                conflicts, required_if, required_if_not: SUBSET STRING,  *)
(*                display: "none" | "name" | "desc" | "icon" | "all"]      *)
(*        (display: which parts of the property's documentation exist - no *)
(*         display value at all, a name only, a description only, an icon  *)
(*         only, all three.  Documentation: no reason to reject depends on *)
(*         it (Plain clears it), and the code has to return a verdict -    *)
(*         not a panic - for every shape.)                                 *)
(*        (the last three: rules between the FIELDS OF A VALUE - "not      *)
(*         together with q", "required when q is set", "required when     *)
(*         none of q.. is set"; see RulesHold.  They apply when DATA is    *)
(*         checked; a producer SCHEMA's property map is not a value with   *)
(*         all its fields set, so schema comparison never consults them.)  *)
(*        (has_default: the property declares a default value - the        *)
(*         harness renders one that fits the type; disabled: the property  *)
(*         was switched off with .Disable(reason).  Both concern the USE   *)
(*         of the schema on data: a default is filled in when data is      *)
(*         unserialized, a disabled property refuses data.  Neither changes*)
(*         what the schema IS: a producer schema that omits a required     *)
(*         property still lacks it, and a schema with a disabled property  *)
(*         is still itself.)                                               *)
(*   [kind: "ref", id: STRING]           (resolved in the enclosing scope) *)
(*   [kind: "scope", root: STRING, objects: SUBSET object]                 *)
(*   [kind: "oneof", disc: "string" | "int", field: STRING, inline: BOOLEAN,*)
(*        (inline: the discriminator is a declared property of every       *)
(*         member - of the discriminator's kind - instead of an extra key) *)
(*        members: SUBSET [key: Int, obj: object | ref | scope]]           *)
(*   Opt = [some: BOOLEAN, v: Int]       (some = FALSE: the bound is nil)  *)
(*                                                                         *)
(* References are lexical: a ref denotes the object of that ID in the      *)
(* innermost enclosing scope; scopes may be recursive and mutually         *)
(* recursive, so the structural recursion below carries the set of object  *)
(* pairs already under comparison and stops when it meets one again (a     *)
(* cycle on which no difference was found contributes no reason to         *)
(* reject).                                                                *)
(***************************************************************************)
EXTENDS Integers, FiniteSets, TLC

None    == [some |-> FALSE, v |-> 0]
Some(x) == [some |-> TRUE, v |-> x]

\* ------------------------------------------------------------------ constructors
ScalarU(k, mn, mx, u)  == [kind |-> k, min |-> mn, max |-> mx, units |-> u]
Scalar(k, mn, mx)      == ScalarU(k, mn, mx, "none")
BoolS                   == [kind |-> "bool"]
PatternS                == [kind |-> "pattern"]
AnyS                    == [kind |-> "any"]
EnumS(k, vs, named, sp) == [kind |-> k, values |-> vs, named |-> named, spell |-> sp]
Enum(k, vs, named)     == EnumS(k, vs, named, "token")
ListI(it, mn, mx, impl) == [kind |-> "list", items |-> it, min |-> mn, max |-> mx, impl |-> impl]
List(it, mn, mx)       == ListI(it, mn, mx, "plain")
MapI(ks, vs, mn, mx, impl) == [kind |-> "map", keys |-> ks, vals |-> vs, min |-> mn, max |-> mx, impl |-> impl]
Map(ks, vs, mn, mx)    == MapI(ks, vs, mn, mx, "plain")
PropR(n, t, req, dflt, dis, cf, ri, rin) ==
    [name |-> n, required |-> req, type |-> t, has_default |-> dflt, disabled |-> dis,
     conflicts |-> cf, required_if |-> ri, required_if_not |-> rin, display |-> "none"]
PropD(n, t, req, disp) == [PropR(n, t, req, FALSE, FALSE, {}, {}, {}) EXCEPT !.display = disp]
DisplayShapes == {"none", "name", "desc", "icon", "all"}
PropX(n, t, req, dflt, dis) == PropR(n, t, req, dflt, dis, {}, {}, {})
Prop(n, t, req)        == PropX(n, t, req, FALSE, FALSE)
ObjectI(id, ps, unenf, impl) == [kind |-> "object", id |-> id, props |-> ps, id_unenforced |-> unenf, impl |-> impl]
Object(id, ps, unenf)  == ObjectI(id, ps, unenf, "plain")
Ref(id)                == [kind |-> "ref", id |-> id]
Scope(root, objs)      == [kind |-> "scope", root |-> root, objects |-> objs]
OneOfI(disc, f, ms, inl) == [kind |-> "oneof", disc |-> disc, field |-> f, members |-> ms, inline |-> inl]
OneOf(disc, f, ms)     == OneOfI(disc, f, ms, FALSE)
Member(k, o)           == [key |-> k, obj |-> o]

\* ------------------------------------------------------------------ families
\* "Base kind" with the SDK's documented affinities, so that designed-in leniency is never
\* an alarm: an integer consumer takes integer enums, a string consumer string enums, and
\* object / ref / scope all denote an object.
Family(S) ==
    CASE S.kind \in {"int", "enum_int"}        -> "integer"
      [] S.kind = "float"                      -> "float"
      [] S.kind \in {"string", "enum_string"}  -> "string"
      [] S.kind \in {"object", "ref", "scope"} -> "object"
      [] S.kind = "oneof"                      -> IF S.disc = "string" THEN "one_of_string" ELSE "one_of_int"
      [] OTHER                                 -> S.kind      \* bool, pattern, list, map, any

\* "any" as a consumer: a wildcard over maps, lists, integers, floats, strings and bools (its constructor's
\* words).  What the other kinds emit is made of those - an enum value is an integer or a string, an object
\* or one-of value a map - EXCEPT a pattern, whose values are compiled regular expressions any refuses: a
\* pattern producer can never be consumed by an any consumer, that pair is a pair of different base kinds.
AnyRefuses == {"pattern"}

\* pairs of families the property leaves unconstrained: an any consumer with a producer of a kind it can
\* hold (whether the SDK accepts every such producer - references, scopes, struct-mapped or typed objects -
\* is not fixed by the statement: either verdict), an any producer (its values may or may not fit), and the
\* numeric pair integer <-> float (an integer producer can be consumed by a float consumer through
\* the lenient conversions, so either verdict is consistent with the statement)
Unconstrained(A, B) ==
    \/ A.kind = "any" /\ B.kind \notin AnyRefuses
    \/ B.kind = "any"
    \/ {Family(A), Family(B)} = {"integer", "float"}

\* ------------------------------------------------------------------ references
Lookup(table, id) == CHOOSE o \in table : o.id = id
Declared(table, id) == \E o \in table : o.id = id

\* the object an object-family schema denotes, and the table its references resolve in
Denote(S, table) ==
    CASE S.kind = "object" -> [obj |-> S, table |-> table]
      [] S.kind = "ref"    -> [obj |-> Lookup(table, S.id), table |-> table]
      [] S.kind = "scope"  -> [obj |-> Lookup(S.objects, S.root), table |-> S.objects]

\* ------------------------------------------------------------------ ranges
\* operational: the test on optional bounds, for every combination of nil / non-nil
Disjoint(A, B) ==
    \/ A.max.some /\ B.min.some /\ B.min.v > A.max.v
    \/ A.min.some /\ B.max.some /\ B.max.v < A.min.v

\* declarative: no point of the line lies in both ranges
Within(S, x) == (S.min.some => S.min.v <= x) /\ (S.max.some => x <= S.max.v)
NoCommonPoint(A, B, Line) == ~\E x \in Line : Within(A, x) /\ Within(B, x)

\* ------------------------------------------------------------------ the rejection rules
PropNames(O) == {p.name : p \in O.props}
PropOf(O, n) == CHOOSE p \in O.props : p.name = n
Keys(S)      == {m.key : m \in S.members}

RuleRange(A, B)       == A.kind = B.kind /\ A.kind \in {"int", "float"} /\ Disjoint(A, B)
RuleSize(A, B)        == A.kind = B.kind /\ A.kind \in {"string", "list", "map"} /\ Disjoint(A, B)
\* the concrete values of an enum: the integers, or the strings as <<spelling, n>>
LeastOf(vs) == CHOOSE n \in vs : \A m \in vs : n <= m
SpellOf(S, n) == IF S.spell = "rune" \/ (S.spell = "mixed" /\ n = LeastOf(S.values)) THEN "rune" ELSE "token"
Conc(S) == IF S.kind = "enum_string" THEN {<<SpellOf(S, n), n>> : n \in S.values} ELSE {<<"int", n>> : n \in S.values}
RuleEnumValue(A, B)   == A.kind = B.kind /\ A.kind \in {"enum_int", "enum_string"} /\ ~(Conc(B) \subseteq Conc(A))
RuleID(OA, OB)        == ~OA.id_unenforced /\ ~OB.id_unenforced /\ OA.id # OB.id
RuleUndeclared(OA, OB) == PropNames(OB) \ PropNames(OA) # {}
\* "lacking a required one": whether the consumer also declares a default for it (p.has_default) or has
\* it disabled is deliberately NOT consulted - the producer's schema does not offer the property
RuleMissing(OA, OB)   == \E p \in OA.props : p.required /\ p.name \notin PropNames(OB)
\* "a one-of with another discriminator": the field NAME differs - whether either side inlines the
\* discriminator, and whatever the members declare (members that carry both candidate fields are pairwise
\* compatible; the producer still discriminates on a field the consumer does not read)
RuleDiscriminator(A, B) == A.field # B.field

\* DATA mode (not this property's subject; stated to keep the two modes apart): the rules between fields hold
\* for a value whose set fields are "present".  Schema mode has no such set - Reasons never calls this, and
\* CompatMC checks that clearing every rule (Plain) changes no reason.
RulesHold(O, present) ==
    \A p \in O.props :
        IF p.name \in present
        THEN p.conflicts \cap present = {}
        ELSE /\ ~p.required
             /\ p.required_if \cap present = {}
             /\ (p.required_if_not # {} => p.required_if_not \cap present # {})
RuleMember(A, B)      == Keys(A) \ Keys(B) # {}

\* Reasons(A, B, ta, tb, seen): the set of rules by which consumer A (references resolved
\* in table ta) must reject producer B (table tb).  seen = object pairs under comparison.
RECURSIVE Reasons(_, _, _, _, _)
Reasons(A, B, ta, tb, seen) ==
    IF Unconstrained(A, B) THEN {}
    ELSE IF Family(A) # Family(B) THEN {"kind"}
    ELSE LET f == Family(A) IN
    CASE f \in {"integer", "float", "string"} ->
            (IF RuleRange(A, B) THEN {"range"} ELSE {})
            \cup (IF RuleSize(A, B) THEN {"size"} ELSE {})
            \cup (IF RuleEnumValue(A, B) THEN {"enum_value"} ELSE {})
      [] f = "list" ->
            (IF RuleSize(A, B) THEN {"size"} ELSE {})
            \cup Reasons(A.items, B.items, ta, tb, seen)
      [] f = "map" ->
            (IF RuleSize(A, B) THEN {"size"} ELSE {})
            \cup Reasons(A.keys, B.keys, ta, tb, seen)
            \cup Reasons(A.vals, B.vals, ta, tb, seen)
      [] f = "object" ->
            LET da == Denote(A, ta)
                db == Denote(B, tb)
                OA == da.obj
                OB == db.obj
                here == <<OA, da.table, OB, db.table>>
            IN  IF here \in seen THEN {}
                ELSE (IF RuleID(OA, OB) THEN {"id"} ELSE {})
                     \cup (IF RuleUndeclared(OA, OB) THEN {"undeclared"} ELSE {})
                     \cup (IF RuleMissing(OA, OB) THEN {"missing_required"} ELSE {})
                     \cup UNION { Reasons(PropOf(OA, n).type, PropOf(OB, n).type,
                                          da.table, db.table, seen \cup {here})
                                  : n \in PropNames(OA) \cap PropNames(OB) }
      [] f \in {"one_of_string", "one_of_int"} ->
            (IF RuleDiscriminator(A, B) THEN {"discriminator"} ELSE {})
            \cup (IF RuleMember(A, B) THEN {"member"} ELSE {})
      [] OTHER -> {}           \* bool, pattern: nothing beyond the kind

MustReject(A, B) == Reasons(A, B, {}, {}, {}) # {}

\* Plain(S): S with every property's default and disabled flag, its rules between fields and its display cleared.  The rejection rules are stated
\* on the structure of the two schemas only; CompatMC checks MustReject(A, B) = MustReject(Plain(A), Plain(B))
\* with the same reasons on every pair (a default or a disabled flag neither excuses nor causes a rejection).
RECURSIVE Plain(_)
Plain(S) ==
    CASE S.kind = "list"   -> [S EXCEPT !.items = Plain(@)]
      [] S.kind = "map"    -> [S EXCEPT !.keys = Plain(@), !.vals = Plain(@)]
      [] S.kind = "object" -> [S EXCEPT !.props = {PropX(p.name, Plain(p.type), p.required, FALSE, FALSE) : p \in @}]
      [] S.kind = "scope"  -> [S EXCEPT !.objects = {Plain(o) : o \in @}]
      [] S.kind = "oneof"  -> [S EXCEPT !.members = {Member(m.key, Plain(m.obj)) : m \in @}]
      [] OTHER             -> S

\* HasUnits(S): some int / float of S carries a unit set of its own (the "a" / "b" histories of CompatMC
\* apply to such sides; the package-level sets are always in the used state)
RECURSIVE HasUnits(_)
HasUnits(S) ==
    CASE S.kind \in {"int", "float"} -> S.units = "custom"
      [] S.kind = "list"   -> HasUnits(S.items)
      [] S.kind = "map"    -> HasUnits(S.keys) \/ HasUnits(S.vals)
      [] S.kind = "object" -> \E p \in S.props : HasUnits(p.type)
      [] S.kind = "scope"  -> \E o \in S.objects : HasUnits(o)
      [] S.kind = "oneof"  -> \E m \in S.members : HasUnits(m.obj)
      [] OTHER             -> FALSE

\* Describe / Rebuild are the identity on abstract schemas (the description carries exactly
\* the fields of the AST); what the real SelfSerialize + UnserializeScope do to the Go values
\* is what the harness exercises in its "rebuilt" modes.  Equality of abstract schemas includes the
\* has_default / disabled flags of every property: a schema carrying disabled properties is compatible
\* with itself and with its rebuilt copy like any other.
Rebuilt(A) == A
MustAccept(A, B) == B = A \/ B = Rebuilt(A)

Expect(A, B) == IF MustReject(A, B) THEN "reject" ELSE IF MustAccept(A, B) THEN "accept" ELSE "open"

\* a recorded verdict ("nil" / "err") is consistent with the partial specification
VerdictOK(A, B, verdict) ==
    /\ verdict \in {"nil", "err"}
    /\ MustReject(A, B) => verdict = "err"
    /\ MustAccept(A, B) => verdict = "nil"

\* ------------------------------------------------------------------ well-formedness
\* Schemas the constructors accept and the documented caveats: min <= max where both are
\* set (without it a schema would have to be rejected against itself), enums and one-ofs are
\* non-empty, map keys are int / string / enum, object IDs are unique within a scope, the
\* root and every reference resolve, one-of members are objects that declare the discriminator field
\* - with the discriminator's kind - exactly when the one-of inlines it, the rules between fields name
\* other properties of the same object, defaults are declared on properties of scalar kinds
\* only (the harness has to render a value of the type).
\* struct-mapped and typed objects are bound to ONE Go struct of the harness with a field for each of these
\* names; they have no ID-unenforced variant; scope tables and one-of members hold plain or mapped objects
MappedNames == {"p", "q", "r", "s", "v", "next", "x", "y", "z", "c"}
\* typed lists and maps are instantiated by the harness over scalar element types
TypedItemKinds == {"int", "float", "string", "bool"}
UnitSets == {"none", "bytes", "time", "custom"}
DefaultKinds == {"int", "float", "string", "bool", "enum_int", "enum_string"}
KeyKinds == {"int", "string", "enum_int", "enum_string"}
BoundsOK(S) == /\ (S.min.some => S.min.v >= 0) /\ (S.max.some => S.max.v >= 0)
               /\ (S.min.some /\ S.max.some => S.min.v <= S.max.v)

RECURSIVE WF(_, _)
WF(S, table) ==
    CASE S.kind \in {"int", "float", "string"} ->
            BoundsOK(S) /\ S.units \in UnitSets /\ (S.kind = "string" => S.units = "none")
      [] S.kind \in {"bool", "pattern", "any"} -> TRUE
      [] S.kind \in {"enum_int", "enum_string"} ->
            /\ S.values # {} /\ S.spell \in {"token", "rune", "mixed"}
            /\ (S.kind = "enum_int" => S.spell = "token")
            /\ (S.spell # "token" => \A n \in S.values : n >= 33 /\ n <= 126)     \* printable one-character strings
      [] S.kind = "list" -> BoundsOK(S) /\ WF(S.items, table)
                            /\ S.impl \in {"plain", "typed"}
                            /\ (S.impl = "typed" => S.items.kind \in TypedItemKinds)
      [] S.kind = "map"  -> BoundsOK(S) /\ S.keys.kind \in KeyKinds
                            /\ WF(S.keys, table) /\ WF(S.vals, table)
                            /\ S.impl \in {"plain", "typed"}
                            /\ (S.impl = "typed" => S.keys.kind \in {"int", "string"} /\ S.vals.kind \in TypedItemKinds)
      [] S.kind = "object" ->
            /\ \A p \in S.props, q \in S.props : p.name = q.name => p = q
            /\ \A p \in S.props : WF(p.type, table) /\ (p.has_default => p.type.kind \in DefaultKinds)
            /\ \A p \in S.props : (p.conflicts \cup p.required_if \cup p.required_if_not) \subseteq (PropNames(S) \ {p.name})
            /\ \A p \in S.props : p.display \in DisplayShapes
            /\ S.impl \in {"plain", "mapped", "typed"}
            /\ S.impl # "plain" => (~S.id_unenforced /\ PropNames(S) \subseteq MappedNames)
      [] S.kind = "ref" -> Declared(table, S.id)
      [] S.kind = "scope" ->
            /\ Declared(S.objects, S.root)
            /\ \A o \in S.objects, p \in S.objects : o.id = p.id => o = p
            /\ \A o \in S.objects : o.kind = "object" /\ o.impl # "typed" /\ WF(o, S.objects)
      [] S.kind = "oneof" ->
            /\ S.members # {} /\ S.disc \in {"string", "int"}
            /\ \A m \in S.members, n \in S.members : m.key = n.key => m = n
            /\ \A m \in S.members :
                  /\ m.obj.kind \in {"object", "ref", "scope"}
                  /\ (m.obj.kind = "object" => m.obj.impl # "typed")
                  /\ WF(m.obj, table)
                  /\ LET O == Denote(m.obj, table).obj IN
                        IF S.inline
                        THEN /\ S.field \in PropNames(O)
                             /\ PropOf(O, S.field).type.kind = (IF S.disc = "string" THEN "string" ELSE "int")
                        ELSE S.field \notin PropNames(O)
      [] OTHER -> FALSE

WellFormed(S) == WF(S, {})
=============================================================================
