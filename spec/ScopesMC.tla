------------------------------ MODULE ScopesMC ------------------------------
(***************************************************************************)
(* C14 - exhaustive exploration of the link state machine of Scopes.tla    *)
(* over a universe of scope trees.                                         *)
(*                                                                         *)
(* A tree = a shape (the nesting of <= 3 scopes, <= 2 deep, whose object   *)
(* IDs collide on purpose: top {A,B}, s1 {B,A}, s2 {A,C}) + up to two      *)
(* reference placements (host object, wrapper: directly under a property / *)
(* list / map / one-of / one-of with a second member / object used inline  *)
(* as property type, target: an ID of the host's own scope - including the *)
(* host itself: recursion; two placements: mutual recursion - or an        *)
(* object of an external table in one of two namespaces).  Shapes "bare*"  *)
(* add single-property (marker-less) self-referential objects.             *)
(*                                                                         *)
(* Two tables T1 {X,B}, T2 {X} (their scope T1 is itself mutually          *)
(* recursive and re-uses the ID B); any table may be applied for any       *)
(* namespace over any scope of the tree, in any order, repeatedly: the     *)
(* history is kept out of the VIEW, so the search is exhaustive over       *)
(* application sequences of every length; every distinct link state is     *)
(* exported with one witness sequence plus ALL calls possible in it.       *)
(***************************************************************************)
EXTENDS Scopes, Export
\* TLC orders record fields by first occurrence in the root module: tags first
FieldOrder == [kind |-> 0, k |-> 0, op |-> 0, mode |-> 0, ok |-> 0, tag |-> 0, id |-> 0, ns |-> 0, s |-> 0,
               key |-> 0, name |-> 0, scope |-> 0, table |-> 0, req |-> 0, here |-> 0, chain |-> 0,
               def |-> 0, dis |-> 0, sub |-> 0, props |-> 0, items |-> 0, val |-> 0, v |-> 0, type |-> 0]

CONSTANTS Shapes,     \* subset of {"flat","nest1","nest1l","nest2","sib","bare","bare2","barel","smap"}
          Wrap1,      \* wrappers of the first placement
          Wrap2,      \* wrappers of the second placement ({} = at most one placement)
          PairShapes, \* shapes that get a second placement
          Reqs,       \* "required" flags of the first placement
          DisWraps,   \* wrappers whose placements also come disabled
          DisSet,     \* subset of {"plain", "reason"}
          ExtraNs,    \* namespaces applied although no reference uses them
          InlineK,    \* unrolling depth of Inline
          RawD,       \* nesting depth of the generated inputs (InlineSame)
          RawX,       \* nesting depth of the exported inputs
          EmitInl     \* export the inlined tree too (the harness checks its own inliner against it)
VARIABLE params

PNames == <<"p1", "p2">>
RTags == <<"r1", "r2">>
NTags == <<"n1", "n2">>
MTags == <<"m1", "m2">>

\* ------------------------------------------------------------------ external tables
XT1 == Scope("x1", "X", << Obj("X", "x1X", <<Marker("x1X"), Prop("nx", FALSE, Ref("e1", "", "B"))>>),
                           Obj("B", "x1B", <<Marker("x1B"), Prop("bk", FALSE, ListOf(Ref("e2", "", "X")))>>) >>)
XT2 == Scope("x2", "X", << Obj("X", "x2X", <<Marker("x2X")>>) >>)
\* a table of struct-mapped objects whose IDs collide with the IDs of the "smap" trees; both declare a default
XT3 == Scope("x3", "Settings", << SObj("Settings", "x3S", "Leaf", <<PropD("mode", Leaf, "fast"), Prop("tag", FALSE, Leaf)>>),
                                  SObj("Engine", "x3E", "Leaf", <<PropD("mode", Leaf, "slow"), Prop("tag", FALSE, Leaf)>>) >>)
\* a table whose scope itself waits for a namespace: tree -> (nsa) x4X -> (nsb) X of whichever table x4 is
\* given - T2, or its own table T4 (a cycle across namespaces: x4X.c -> x4X)
XT4 == Scope("x4", "X", << Obj("X", "x4X", <<Marker("x4X"), Prop("c", FALSE, Ref("e4", "nsb", "X"))>>),
                           Obj("B", "x4B", <<Marker("x4B"), Prop("d", FALSE, ListOf(Ref("e5", "nsb", "X")))>>) >>)
ExtMC == [T1 |-> XT1, T2 |-> XT2, T3 |-> XT3]
ExtChain == [T1 |-> XT1, T2 |-> XT2, T4 |-> XT4]
ExtFor(shape) == IF shape = "chain" THEN ExtChain ELSE ExtMC
Canon == [nsa |-> "T1", nsb |-> "T2", nsc |-> "T3"]
CanonFor(shape) == IF shape = "chain" THEN [nsa |-> "T4", nsb |-> "T2", nsc |-> "T3"] ELSE Canon
ExtTargets == {<<"nsa", "X">>, <<"nsa", "B">>, <<"nsb", "X">>}

\* ------------------------------------------------------------------ trees
NoPlace == [hs |-> "", ho |-> "", w |-> "none", ns |-> "", id |-> "", req |-> FALSE, dis |-> ""]

Wrapped(w, i, ns, id) ==
    LET r == Ref(RTags[i], ns, id) IN
    CASE w = "direct"  -> r
      [] w = "list"    -> ListOf(r)
      [] w = "map"     -> MapOf(r)
      [] w = "listmap" -> ListOf(MapOf(r))
      [] w = "oneof"   -> OneOf(<<r>>)
      [] w = "oneof2"  -> OneOf(<<Obj("M", MTags[i], <<Marker(MTags[i])>>), r>>)
      [] w = "inobj"   -> Obj("N", NTags[i], <<Marker(NTags[i]), Prop("q", FALSE, r)>>)

PlProps(P, sc, oid) ==
    LET idx == SelectSeq([i \in DOMAIN P |-> i], LAMBDA i : P[i].w # "none" /\ P[i].hs = sc /\ P[i].ho = oid)
    IN [j \in DOMAIN idx |-> Disabled(Prop(PNames[idx[j]], P[idx[j]].req,
                                           Wrapped(P[idx[j]].w, idx[j], P[idx[j]].ns, P[idx[j]].id)),
                                      P[idx[j]].dis)]

O(P, sc, oid, tag, fixed) == Obj(oid, tag, <<Marker(tag)>> \o fixed \o PlProps(P, sc, oid))

\* the second object of every scope is reachable from the root through a fixed reference "ob"
\* (whose ID is shadowed / shadowing in the nested shapes)
Ob(tag, id) == <<Prop("ob", FALSE, Ref(tag, "", id))>>
S2(P) == Scope("s2", "A", << O(P, "s2", "A", "cA", Ob("o2", "C")), O(P, "s2", "C", "cC", <<>>) >>)
S1(P, inner) == Scope("s1", "B", << O(P, "s1", "B", "bB", Ob("o1", "A") \o inner), O(P, "s1", "A", "bA", <<>>) >>)
Top(P, fa, fb, more) == Scope("top", "A", << O(P, "top", "A", "aA", Ob("o0", "B") \o fa), O(P, "top", "B", "aB", fb) >> \o more)

\* struct-mapped: Root{cfg: Settings by value, alt: Engine by value, name}; Settings{engine: <target> by value,
\* note}; Engine{mode = "local", tag}.  The placement says how cfg is reached (reference / object used
\* inline) and what engine refers to: the local Engine, or - in namespace nsc - an object whose ID is that of
\* the local Settings or Engine.  Inputs that leave out whole sub-objects get them from the declared defaults.
SMap(P) ==
    LET eng == Ref("r1", P[1].ns, P[1].id)
        settings(tag) == SObj("Settings", tag, "Mid", <<Prop("engine", FALSE, eng), Prop("note", FALSE, Leaf)>>)
        cfg == IF P[1].w = "direct" THEN Ref("rc", "", "Settings")
               ELSE SObj("Settings", "aSi", "Mid", <<Prop("engine", FALSE, Ref("r2", P[1].ns, P[1].id)),
                                                     Prop("note", FALSE, Leaf)>>)
    IN Scope("top", "Root",
             << SObj("Root", "aR", "Root", <<Prop("cfg", FALSE, cfg), Prop("alt", FALSE, Ref("ra", "", "Engine")),
                                            Prop("name", FALSE, Leaf)>>),
                settings("aS"),
                SObj("Engine", "aE", "Leaf", <<PropD("mode", Leaf, "local"), Prop("tag", FALSE, Leaf)>>) >>)

\* a declared default on a reference-typed property whose value reaches, through the referenced object B, into
\* a member of B that refers to ANOTHER namespace: A{b: ref B = <default>}, B{p1: <wrapper>(ref ns:X)}
DefText(w) == CASE w = "direct" -> "{\"p1\":{}}"
                [] w = "list"   -> "{\"p1\":[{}]}"
                [] w = "map"    -> "{\"p1\":{\"ka\":{}}}"
DefR(P) ==
    Scope("top", "A",
          << Obj("A", "aA", <<Marker("aA"), PropD("b", Ref("rb", "", "B"), DefText(P[1].w)), Prop("n", FALSE, Leaf)>>),
             Obj("B", "aB", <<Marker("aB"), Prop("p1", FALSE, Wrapped(P[1].w, 1, P[1].ns, P[1].id))>>) >>)

TreeOf(shape, P) ==
    CASE shape = "smap"   -> SMap(P)
      [] shape = "defr"   -> DefR(P)
      [] shape = "chain"  -> Top(P, <<>>, <<>>, <<>>)
      [] shape = "flat"   -> Top(P, <<>>, <<>>, <<>>)
      [] shape = "nest1"  -> Top(P, <<Prop("s1", FALSE, S1(P, <<>>))>>, <<>>, <<>>)
      [] shape = "nest1l" -> Top(P, <<Prop("s1", FALSE, ListOf(S1(P, <<>>)))>>, <<>>, <<>>)
      [] shape = "nest2"  -> Top(P, <<Prop("s1", FALSE, S1(P, <<Prop("s2", FALSE, S2(P))>>))>>, <<>>, <<>>)
      [] shape = "sib"    -> Top(P, <<Prop("s1", FALSE, S1(P, <<>>))>>, <<Prop("s2", FALSE, S2(P))>>, <<>>)
      [] shape = "bare"   -> Top(P, <<Prop("rb", FALSE, Ref("rb", "", "R"))>>, <<>>,
                                 << Obj("R", "aR", <<Prop("next", FALSE, Ref("rr", "", "R"))>>) >>)
      [] shape = "bare2"  -> Top(P, <<Prop("rb", FALSE, Ref("rb", "", "L"))>>, <<>>,
                                 << Obj("R", "aR", <<Prop("next", FALSE, Ref("rr", "", "Q"))>>),
                                    Obj("Q", "aQ", <<Prop("prev", FALSE, Ref("rq", "", "R"))>>),
                                    Obj("L", "aL", <<Prop("one", FALSE, Ref("rl", "", "R"))>>) >>)
      [] shape = "barel"  -> Top(P, <<Prop("rb", FALSE, Ref("rb", "", "R"))>>, <<>>,
                                 << Obj("R", "aR", <<Prop("xs", FALSE, ListOf(Ref("rr", "", "R")))>>) >>)
      \* a tree node written as the bare list of its children; the same through a map, and through a sibling
      \* a shorthand chain through two DIFFERENT marker-less single-property objects that share an ID: the
      \* root A{item: scope}, the inner scope's root B{w: ref A} where A is the INNER A{text}, shadowing the root
      [] shape = "bares"  -> Scope("top", "A",
                                   << Obj("A", "aA", <<Prop("item", FALSE,
                                        Scope("s1", "B", << Obj("B", "bB", <<Prop("w", FALSE, Ref("rw", "", "A"))>>),
                                                            Obj("A", "bA", <<Prop("text", FALSE, Leaf)>>) >>))>>) >>)
      [] shape = "barem"  -> Top(P, <<Prop("rb", FALSE, Ref("rb", "", "R"))>>, <<>>,
                                 << Obj("R", "aR", <<Prop("xs", TRUE, MapOf(Ref("rr", "", "R")))>>) >>)
      [] shape = "barel2" -> Top(P, <<Prop("rb", FALSE, Ref("rb", "", "R"))>>, <<>>,
                                 << Obj("R", "aR", <<Prop("xs", TRUE, ListOf(Ref("rr", "", "Q")))>>),
                                    Obj("Q", "aQ", <<Prop("ys", FALSE, ListOf(MapOf(Ref("rq", "", "R"))))>>) >>)

Bare == {"bare", "bare2", "barel", "barem", "barel2"}
Hosts(shape) ==
    {<<"top", "A">>, <<"top", "B">>}
    \cup (IF shape \in {"nest1", "nest1l", "nest2", "sib"} THEN {<<"s1", "B">>, <<"s1", "A">>} ELSE {})
    \cup (IF shape \in {"nest2", "sib"} THEN {<<"s2", "A">>, <<"s2", "C">>} ELSE {})
IDsOf(sc, shape) ==
    CASE sc = "top" -> {"A", "B"} \cup (IF shape \in Bare THEN {"R"} ELSE {})
                       \cup (IF shape = "bare2" THEN {"Q", "L"} ELSE {})
                       \cup (IF shape = "barel2" THEN {"Q"} ELSE {})
      [] sc = "s1"  -> {"B", "A"}
      [] sc = "s2"  -> {"A", "C"}
Targets(sc, shape) == {<<"", id>> : id \in IDsOf(sc, shape)} \cup ExtTargets
Places(shape, W, Q, DW) ==
    IF shape = "bares"   \* a fixed tree; the placement is a dummy (no host of that name)
    THEN {[hs |-> "top", ho |-> "none", w |-> "direct", ns |-> "", id |-> "A", req |-> FALSE, dis |-> ""]}
    ELSE
    IF shape \in {"defr", "chain"}
    THEN {[hs |-> "top", ho |-> h, w |-> w, ns |-> tg[1], id |-> tg[2], req |-> FALSE, dis |-> ""] :
             h \in (IF shape = "defr" THEN {"B"} ELSE {"A", "B"}), w \in {"direct", "list", "map"},
             tg \in (IF shape = "defr" THEN {<<"nsa", "X">>, <<"nsb", "X">>} ELSE {<<"nsa", "X">>, <<"nsa", "B">>})}
    ELSE
    IF shape = "smap"
    THEN {[hs |-> "top", ho |-> "Settings", w |-> w, ns |-> tg[1], id |-> tg[2], req |-> FALSE, dis |-> ""] :
             w \in {"direct", "inobj"}, tg \in {<<"", "Engine">>, <<"nsc", "Settings">>, <<"nsc", "Engine">>}}
    ELSE
    IF shape \in Bare   \* the marker-less objects are fixed; two placements next to them are enough
    THEN {[hs |-> "top", ho |-> "B", w |-> "direct", ns |-> tg[1], id |-> tg[2], req |-> FALSE, dis |-> ""] :
             tg \in {<<"", "A">>, <<"nsa", "X">>}}
    ELSE
    \* the placement's property may be DISABLED (with / without a reason) for the wrappers in DisWraps
    UNION {{[hs |-> h[1], ho |-> h[2], w |-> wd[1], ns |-> tg[1], id |-> tg[2], req |-> q, dis |-> wd[2]] :
               wd \in {<<w, "">> : w \in W} \cup {<<w, d>> : w \in W \cap DW, d \in DisSet},
               tg \in Targets(h[1], shape), q \in Q} : h \in Hosts(shape)}

\* ------------------------------------------------------------------ behaviours
AppliedNs(P) == ({P[i].ns : i \in DOMAIN P} \ {""}) \cup ExtraNs
Init ==
    \E shape \in Shapes : \E p1 \in Places(shape, Wrap1, Reqs, DisWraps) :
    \E p2 \in (IF shape \in PairShapes THEN Places(shape, Wrap2, {FALSE}, {}) ELSE {}) \cup {NoPlace} :
        /\ params = [shape |-> shape, P |-> <<p1, p2>>]
        /\ InitState(TreeOf(shape, <<p1, p2>>), ExtFor(shape), AppliedNs(<<p1, p2>>))

Next == /\ \E a \in Acts : Do(a)
        /\ UNCHANGED params
Spec == Init /\ [][Next]_<<vars, params>>
View == <<params, link, tab, cov, built>>
HistBound == Len(hist) <= 40

\* ------------------------------------------------------------------ model properties
WellFormedInv == hist = <<>> => WellFormed(tree, ext)
Canonical == Uniform /\ \A n \in Namespaces : NsTab[n] = CanonFor(params.shape)[n]
InlineSame == (Canonical /\ MapBased) => (InlineSameAt(InlineK, RawD) /\ ShorthandLaw)
\* Whatever the tree is held by when a namespace is applied - a property, a list, a map, a step output (all of
\* which hand the call on to what they hold) - the same references get the same objects.
HolderTransparent ==
    hist = <<>> =>
        \A a \in {x \in Acts : x.op = "ns" /\ x.scope = tree.tag /\ ~ix.miss[x]} :
            LET objs == Table(ext[a.table]) IN
            /\ Propagate(ListOf(tree), objs, a.ns) = ix.upd[a]
            /\ Propagate(MapOf(tree), objs, a.ns) = ix.upd[a]
            /\ Propagate(Obj("H", "h", <<Prop("held", FALSE, tree)>>), objs, a.ns) = ix.upd[a]
Untouched == OtherNamespacesUntouched

\* ------------------------------------------------------------------ export
VRs(lk) == [g \in ix.tscopes \cup ix.escopes |-> VR(ScopeByTag(g), lk)]
Diff(l1, l2) == [g \in {x \in DOMAIN l1 : l1[x] # l2[x]} |-> l2[g]]
NextOf == {[act |-> a, diff |-> Diff(link, LinkAfter(link, a)), vr |-> VRs(LinkAfter(link, a))] :
              a \in {x \in Acts : CanDo(x, built)}}
RawTable == LET RL == RLink(link, ObjFn) IN {[raw |-> r, exp |-> Unser(tree, r, tree, RL, {})] : r \in Raws(RawX)}

\* every line stays short: several TLC workers append to one file, and only short appends are atomic
Export ==
    /\ Emit([tid |-> params, hist |-> hist, link |-> link, vr |-> VRs(link), next |-> NextOf])
    /\ hist = <<>> => Emit([tid |-> params, tree |-> tree, ext |-> ext])
    /\ Canonical =>
         LET rt == IF MapBased THEN RawTable ELSE {} IN
         /\ Emit([tid |-> params, nstab |-> NsTab, k |-> InlineK, nraws |-> Cardinality(rt),
                  clink |-> link, rb |-> RebuiltLink, rbvr |-> VR(tree, RebuiltLink),
                  inl |-> IF EmitInl THEN <<Inline(tree, tree, InlineK, RLex(ext, NsTab))>> ELSE <<>>])
         /\ \A x \in rt : Emit([tid |-> params, raw |-> x.raw, exp |-> x.exp])
=============================================================================
