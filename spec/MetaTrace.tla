------------------------------ MODULE MetaTrace ------------------------------
(***************************************************************************)
(* C09 / C10, code -> specification.  The seeded random driver             *)
(* (harness/cmd/meta, mode "rand") builds schemas bigger than the universe  *)
(* of MetaMC through the public constructors, describes them with the real  *)
(* SelfSerialize, mutates the real descriptions at random, and logs per     *)
(* case one line                                                            *)
(*                                                                          *)
(*   {"ev":"c09", target, ast, desc, acc, link, use}                        *)
(*   {"ev":"c10", target,      desc, acc, link, use, labels}                *)
(*                                                                          *)
(* desc = the description handed to the real meta-schema; acc = did its     *)
(* Unserialize accept ("yes"/"no"); link = outcome of the link step         *)
(* performed on the accepted value ("ok"/"fail"/"-"); use = outcome of      *)
(* running every operation on every node afterwards ("ok"/"fail"/"-").      *)
(* A line is accepted iff acceptance and usability (link and use both ok)   *)
(* are what the operators of spec/Meta.tla compute - and, for "c09", iff    *)
(* the real description is Describe(ast) field by field.  (Panics are judged against the property   *)
(* by the harness directly; cases in which SelfSerialize failed carry no    *)
(* description and are not logged.)                                         *)
(***************************************************************************)
EXTENDS Meta, Export
FieldOrder == [kind |-> 0, k |-> 0, mt |-> 0, some |-> 0, op |-> 0, mode |-> 0, name |-> 0, key |-> 0, m |-> 0,
               tok |-> 0, id |-> 0, stage |-> 0, ev |-> 0, line |-> 0, v |-> 0, rep |-> 0, val |-> 0]

Trace == ndJsonDeserialize(IOEnv.VERIF_TRACE)
VARIABLE l
Init == l = 1
Next == l <= Len(Trace) /\ l' = l + 1
Spec == Init /\ [][Next]_l

(* JSON arrays arrive as sequences; unordered collections become sets again *)
RECURSIVE InTree(_)
InTree(j) ==
    CASE j.k = "list" -> L([i \in DOMAIN j.v |-> InTree(j.v[i])])
      [] j.k = "map"  -> M({E(InTree(e.key), InTree(e.val)) : e \in Range(j.v)})
      [] j.k = "num"  -> [k |-> "num", v |-> j.v, rep |-> j.rep]
      [] j.k = "str"  -> S(j.v)
      [] j.k = "bool" -> B(j.v)
      [] j.k = "nil"  -> Nil
      [] j.k = "pkgunits" -> PU(j.v)

InOpt(o)   == IF o.some THEN Some(o.v) ELSE None
InDisp(o)  == IF o.some THEN Some(Disp(InOpt(o.v.name), InOpt(o.v.description), InOpt(o.v.icon))) ELSE None
InUnit(u)  == Unit(u.ss, u.sp, u.ls, u.lp)
InUnits(o) == IF ~o.some THEN None
              ELSE IF o.v.pkg # "" THEN Some(PkgUnits(o.v.pkg))
              ELSE Some(Units(InUnit(o.v.base), {[m |-> x.m, unit |-> InUnit(x.unit)] : x \in Range(o.v.mults)}))
InAtom(a)  == IF a.k = "str" THEN S(a.v) ELSE N(a.v)
InVals(q)  == {EV(InAtom(x.v), InDisp(x.display)) : x \in Range(q)}

RECURSIVE InType(_)
InProp(p) == Prop(p.name, InType(p.type), InDisp(p.display), p.required, p.required_if, p.required_if_not,
                  p.conflicts, InOpt(p.default), p.examples, p.disabled, InOpt(p.disabled_reason), p.empty_is_default)
InObject(j) == TObject(j.id, {InProp(p) : p \in Range(j.props)}, j.id_unenforced, j.layout)
InScope(j)  == TScope(j.root, {KO(o.key, InObject(o.obj)) : o \in Range(j.objects)})
InType(j) ==
    CASE j.kind = "int"    -> TInt(InOpt(j.min), InOpt(j.max), InUnits(j.units))
      [] j.kind = "float"  -> TFloat(InOpt(j.min), InOpt(j.max), InUnits(j.units))
      [] j.kind = "string" -> TString(InOpt(j.min), InOpt(j.max), InOpt(j.pattern))
      [] j.kind \in {"bool", "pattern", "any"} -> [kind |-> j.kind]
      [] j.kind = "enum_int"    -> TEnumI(InVals(j.evals), InUnits(j.units))
      [] j.kind = "enum_string" -> TEnumS(InVals(j.evals), j.typed)
      [] j.kind = "list"   -> TList(InType(j.items), InOpt(j.min), InOpt(j.max), j.typed)
      [] j.kind = "map"    -> TMap(InType(j.keys), InType(j.values), InOpt(j.min), InOpt(j.max), j.typed)
      [] j.kind = "object" -> InObject(j)
      [] j.kind = "oneof"  -> TOneOf(j.disc, j.field, j.inlined, {Mem(InAtom(x.key), InType(x.type)) : x \in Range(j.members)})
      [] j.kind = "ref"    -> TRef(j.id, j.ns, InDisp(j.display))
      [] j.kind = "scope"  -> InScope(j)
InOut(o)  == Out(InScope(o.schema), InDisp(o.display), o.error)
InSig(g)  == Sig(g.id, InScope(g.data), InDisp(g.display))
InStep(s) == Step(s.id, InScope(s.input), {KV(x.key, InOut(x.x)) : x \in Range(s.outputs)},
                  {KV(x.key, InSig(x.x)) : x \in Range(s.handlers)}, {KV(x.key, InSig(x.x)) : x \in Range(s.emitters)},
                  InDisp(s.display))
InTop(j)  == IF j.kind = "schema" THEN TSchema({KV(x.key, InStep(x.x)) : x \in Range(j.steps)}) ELSE InScope(j)

\* the outcomes the operators predict for a description: is it accepted, and if so, is the accepted
\* schema usable.  (At which of the later steps - link or first use - the code notices a fault is logged but
\* left open: the pinned code looks up roots and decodes defaults on first use, a repaired one while linking.)
Expected(target, dd) ==
    LET c == Classify(target, dd) IN
    [acc |-> IF c.stage = "accept" THEN "no" ELSE "yes", usable |-> c.stage = "usable"]

Verdict(e) ==
    LET dd  == InTree(e.desc)
        exp == Expected(e.target, dd)
    IN [desc |-> (e.ev = "c09" => dd = Describe(InTop(e.ast))),
        acc  |-> e.acc = exp.acc,
        use  |-> (e.acc = "yes" => ((e.link = "ok" /\ e.use = "ok") <=> exp.usable))]
LineOK(e) == LET vd == Verdict(e) IN vd.desc /\ vd.acc /\ vd.use

Accepted == l > 1 => LineOK(Trace[l - 1])

\* diagnosis run (after a rejection): judge every line instead of stopping at the first
Diagnose ==
    l > 1 => LET e == Trace[l - 1]
                 vd == Verdict(e)
             IN Emit([line |-> l - 1, ok |-> LineOK(e), verdict |-> vd,
                      exp |-> Expected(e.target, InTree(e.desc)), cause |-> Classify(e.target, InTree(e.desc)).cause])
=============================================================================
