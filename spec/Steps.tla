------------------------------- MODULE Steps -------------------------------
(* C11 - CallStep / CallSignal of a CallableSchema (schema/schema.go,          *)
(* schema/step.go, schema/signal.go).                                          *)
(*                                                                             *)
(* NP goroutines ("procs") each make one call.  A call is a record            *)
(*   [kind: "step"|"signal", step, run, sig, input, beh]                      *)
(* step  in StepIds or "nostep";  sig = "sig" or "nosig" (signals only);       *)
(* input in {"va","vb","vd","vl","vs"} (accepted by the input schema) or "inv"  *)
(*         (rejected).  "va","vb": raw inputs in normal representation;        *)
(*         "vd": accepted, but OMITS a property that has a declared default -  *)
(*         the unserialized value carries the default; "vl": accepted by       *)
(*         lenient conversion (an int/uint64/float or "5" where an integer, an *)
(*         integer where a float, "yes" where a bool is declared) - the        *)
(*         unserialized value is in normal representation; "vs": a bare value  *)
(*         that is NOT a map, accepted because the scope's object has exactly  *)
(*         one property (the schema takes it as shorthand for that property,   *)
(*         through nested single-property objects too) - the unserialized      *)
(*         value is the object with that property set.  For every class       *)
(*         the unserialized value Native(in) is a value different from the raw *)
(*         input: the handler must get Native(in), whatever Go type the raw    *)
(*         input has (a step whose input scope is map-based unserializes       *)
(*         map[string]any to map[string]any: the contract is the same).        *)
(*         "inv" stands for every raw input the schema rejects, whatever the   *)
(*         schema's own error looks like: also when that error has, among its  *)
(*         causes, an error of the type that reports an unknown step (the      *)
(*         units parser's BadArgumentError for an unreadable quantity), the    *)
(*         outcome class is "invalidinput", never "badarg".                    *)
(* beh   = what the step handler returns: a pair (output ID class, data class), *)
(*         the full product OutIdClasses \X OutDataClasses, named by BehTab.    *)
(*         ID classes: "declared" (first declared ID), "declared2" (second      *)
(*         declared ID), "undeclared" (an ID the step does not declare: an      *)
(*         unknown name, a declared name in another letter case, the empty      *)
(*         string).  Data classes: "conf" (conforming data whose in-memory form *)
(*         IS its serialized form), "confr" (conforming data in an in-memory    *)
(*         representation that DIFFERS from its serialized form: int/uint8 for  *)
(*         an integer, []string for a list, a compiled pattern, a struct-mapped *)
(*         sub-object inside a map - the call must return the serialized form), *)
(*         "nonconf" (non-nil data the output schema rejects), "nil" (nil data, *)
(*         untyped or a typed nil pointer / nil map the schema rejects - also   *)
(*         for an output all of whose properties are optional: the empty        *)
(*         object would conform, nil does not).  The ID is looked up first: an  *)
(*         undeclared ID is an "invalidoutput" error WHATEVER the data is.      *)
(*                                                                             *)
(* Every step (and its signal) carries a display of one of DisplayShapes: none *)
(* at all, a name only, a description only, an icon only, all three.  It is    *)
(* documentation: no action reads it and Expected has no display argument -    *)
(* DisplayBlind: the outcome of every call, unknown step and signal IDs        *)
(* included, is the same for every display shape of every step.                *)
(*                                                                             *)
(* One action per stage of the code:                                           *)
(*   Begin -> Lookup -> UnserializeInput -> Setup (SetupHit | InitBegin,       *)
(*   InitEnd: the critical section of setupStepData under initializerMutex,    *)
(*   one mutex per step, shared by the step path and the signal path) ->       *)
(*   InvokeHandler -> HandlerReturn -> CheckOutput (steps) -> Return.          *)
(* The data identity of a run's step data is the proc whose call ran the       *)
(* initializer, which makes identities schedule independent; steps built       *)
(* without an initializer (NoInitSteps) have the zero value, identity 0.       *)
(*                                                                             *)
(* Properties (section "Properties"): HandlerIffValid, ExactArgument,          *)
(* ErrorClass, InitOncePerRun, DataStable.                                     *)
EXTENDS Integers, Sequences, FiniteSets, TLC

CONSTANTS StepIds,      \* declared step IDs
          NoInitSteps,  \* steps built without an initializer (their step data is the zero value, identity 0)
          Runs,         \* run IDs
          NP            \* number of calling goroutines

Procs == 1..NP
DisplayShapes == {"none", "name", "description", "icon", "all"}
NoStep == "nostep"
SigId == "sig"
OwnSigId == "sigown"      \* the signal's own ID where it differs from its registration key: unknown to callers
NoSig == "nosig"
ValidInputs == {"va", "vb", "vd", "vl", "vs"}
AllInputs == ValidInputs \cup {"inv"}
OutIdClasses == {"declared", "declared2", "undeclared"}
OutDataClasses == {"conf", "confr", "nonconf", "nil"}
\* behaviour name, output ID class, data class
BehTab == { <<"ok", "declared", "conf">>,          <<"okr", "declared", "confr">>,
            <<"baddata", "declared", "nonconf">>,  <<"nildata", "declared", "nil">>,
            <<"ok2", "declared2", "conf">>,        <<"ok2r", "declared2", "confr">>,
            <<"baddata2", "declared2", "nonconf">>, <<"nildata2", "declared2", "nil">>,
            <<"undeclared", "undeclared", "conf">>, <<"undeclaredr", "undeclared", "confr">>,
            <<"undeclaredbad", "undeclared", "nonconf">>, <<"undeclarednil", "undeclared", "nil">> }
Behs == {t[1] : t \in BehTab}
BehId(b) == (CHOOSE t \in BehTab : t[1] = b)[2]
BehData(b) == (CHOOSE t \in BehTab : t[1] = b)[3]
ASSUME /\ {<<t[2], t[3]>> : t \in BehTab} = OutIdClasses \X OutDataClasses
       /\ Cardinality(BehTab) = Cardinality(Behs)
       /\ Cardinality(Behs) = Cardinality(OutIdClasses) * Cardinality(OutDataClasses)

VARIABLES call,       \* proc -> call record (fixed by Init)
          display,    \* step -> display shape of the step and of its signal (fixed by Init; documentation only)
          layout,     \* how the schema is put together (fixed by Init): [reg |-> the steps registered in the schema
                      \* (a call on any other ID - a step of another schema, "", another letter case - is an unknown
                      \* step, also when exactly one step is registered), sigreg |-> step -> "same" | "differ": the
                      \* signal handler is registered under the key SigId and its signal's own ID is SigId too /
                      \* is OwnSigId; calls address handlers by the registration KEY]
          pc,         \* proc -> control point
          arg,        \* proc -> unserialized input ("none" before)
          mutex,      \* step -> proc holding initializerMutex, 0 = free
          created,    \* step -> run -> the run's entry exists in the step-data table
          stepData,   \* step -> run -> data identity (creator proc), 0 = nil data
          initCount,  \* step -> run -> number of initializer executions
          ledger,     \* sequence of handler invocations
          res         \* proc -> outcome record

vars == <<call, display, layout, pc, arg, mutex, created, stepData, initCount, ledger, res>>

---------------------------------------------------------------------------
(* The contract as operators *)

\* the unserialized form of an accepted raw input (abstract native value)
Native(in) == CASE in = "va" -> "nva" [] in = "vb" -> "nvb"
                [] in = "vd" -> "nvd"      \* raw input plus the declared defaults of the omitted properties
                [] in = "vl" -> "nvl"      \* raw input with every value converted to its normal representation
                [] in = "vs" -> "nvs"      \* the object whose single property is (the unserialized form of) the bare value
                [] OTHER -> "none"
Unser(in) == IF in \in ValidInputs THEN [ok |-> TRUE, v |-> Native(in)]
                                   ELSE [ok |-> FALSE, v |-> "none"]

IsStep(c) == c.kind = "step"
IsSignal(c) == c.kind = "signal"
StepKnown(c) == c.step \in layout.reg
SigKnown(c) == IsSignal(c) => c.sig = SigId

\* the handler (step handler or signal handler) must run for exactly these calls
Valid(c) == StepKnown(c) /\ SigKnown(c) /\ Unser(c.input).ok

NoRes == [class |-> "none", out |-> "", ser |-> "none"]
Err(cl) == [class |-> cl, out |-> "", ser |-> "none"]
OutId(b) == IF BehId(b) = "declared2" THEN "error" ELSE "success"
Declared(b) == BehId(b) \in {"declared", "declared2"}
Conforms(b) == BehData(b) \in {"conf", "confr"}

\* declarative reading of the property: the outcome of a call as a function of the call alone
Expected(c) ==
    IF ~StepKnown(c) THEN Err("badarg")
    ELSE IF ~SigKnown(c) THEN Err("error")
    ELSE IF ~Unser(c.input).ok THEN Err("invalidinput")
    ELSE IF IsSignal(c) THEN [class |-> "ok", out |-> "", ser |-> "none"]
    ELSE IF ~Declared(c.beh) THEN Err("invalidoutput")     \* whatever the data, nil included
    ELSE IF ~Conforms(c.beh) THEN Err("error")
    ELSE [class |-> "ok", out |-> OutId(c.beh), ser |-> Native(c.input)]

---------------------------------------------------------------------------
(* Initial state for a given call vector *)

InitWith(cv, d, l) ==
    /\ call = cv
    /\ display = d
    /\ layout = l
    /\ pc = [p \in Procs |-> "idle"]
    /\ arg = [p \in Procs |-> "none"]
    /\ mutex = [s \in StepIds |-> 0]
    /\ created = [s \in StepIds |-> [r \in Runs |-> FALSE]]
    /\ stepData = [s \in StepIds |-> [r \in Runs |-> 0]]
    /\ initCount = [s \in StepIds |-> [r \in Runs |-> 0]]
    /\ ledger = <<>>
    /\ res = [p \in Procs |-> NoRes]

---------------------------------------------------------------------------
(* Actions *)

S(p) == call[p].step
R(p) == call[p].run

Goto(p, l) == pc' = [pc EXCEPT ![p] = l]
Fail(p, cl) == /\ Goto(p, "ret")
               /\ res' = [res EXCEPT ![p] = Err(cl)]

\* the caller enters CallStep / CallSignal
Begin(p) ==
    /\ pc[p] = "idle"
    /\ Goto(p, "lookup")
    /\ UNCHANGED <<call, display, layout, arg, mutex, created, stepData, initCount, ledger, res>>

\* s.StepsValue[stepID]; for signals additionally SignalHandlers()[signalID]
Lookup(p) ==
    /\ pc[p] = "lookup"
    /\ IF ~StepKnown(call[p]) THEN Fail(p, "badarg")
       ELSE IF ~SigKnown(call[p]) THEN Fail(p, "error")      \* an error, never a panic
       ELSE Goto(p, "unser") /\ UNCHANGED res
    /\ UNCHANGED <<call, display, layout, arg, mutex, created, stepData, initCount, ledger>>

\* step.Input().Unserialize / signal.DataSchema().Unserialize
UnserializeInput(p) ==
    /\ pc[p] = "unser"
    /\ LET u == Unser(call[p].input) IN
       IF u.ok THEN /\ Goto(p, "setup")
                    /\ arg' = [arg EXCEPT ![p] = u.v]
                    /\ UNCHANGED res
       ELSE /\ Fail(p, "invalidinput")                        \* handler NOT invoked
            /\ UNCHANGED arg
    /\ UNCHANGED <<call, display, layout, mutex, created, stepData, initCount, ledger>>

\* setupStepData, data already there: lock, look up, unlock
SetupHit(p) ==
    /\ pc[p] = "setup"
    /\ mutex[S(p)] = 0
    /\ created[S(p)][R(p)]
    /\ Goto(p, "invoke")
    /\ UNCHANGED <<call, display, layout, arg, mutex, created, stepData, initCount, ledger, res>>

\* setupStepData, first arrival for this run: lock, miss, the initializer starts (mutex held)
InitBegin(p) ==
    /\ pc[p] = "setup"
    /\ mutex[S(p)] = 0
    /\ ~created[S(p)][R(p)]
    /\ S(p) \notin NoInitSteps
    /\ mutex' = [mutex EXCEPT ![S(p)] = p]
    /\ initCount' = [initCount EXCEPT ![S(p)][R(p)] = @ + 1]
    /\ Goto(p, "ininit")
    /\ UNCHANGED <<call, display, layout, arg, created, stepData, ledger, res>>

\* the initializer returns: store, unlock
InitEnd(p) ==
    /\ pc[p] = "ininit"
    /\ stepData' = [stepData EXCEPT ![S(p)][R(p)] = p]
    /\ created' = [created EXCEPT ![S(p)][R(p)] = TRUE]
    /\ mutex' = [mutex EXCEPT ![S(p)] = 0]
    /\ Goto(p, "invoke")
    /\ UNCHANGED <<call, display, layout, arg, initCount, ledger, res>>

\* setupStepData of a step without initializer, first arrival: lock, miss, store the zero value, unlock
SetupCreate(p) ==
    /\ pc[p] = "setup"
    /\ mutex[S(p)] = 0
    /\ ~created[S(p)][R(p)]
    /\ S(p) \in NoInitSteps
    /\ created' = [created EXCEPT ![S(p)][R(p)] = TRUE]
    /\ Goto(p, "invoke")
    /\ UNCHANGED <<call, display, layout, arg, mutex, stepData, initCount, ledger, res>>

Setup(p) == SetupHit(p) \/ SetupCreate(p) \/ InitBegin(p) \/ InitEnd(p)

\* s.handler(ctx, data, input) / signal handler: the invocation is recorded
InvokeHandler(p) ==
    /\ pc[p] = "invoke"
    /\ ledger' = Append(ledger, [p |-> p, kind |-> call[p].kind, step |-> S(p), run |-> R(p),
                                 arg |-> arg[p], data |-> stepData[S(p)][R(p)]])
    /\ Goto(p, "inhandler")
    /\ UNCHANGED <<call, display, layout, arg, mutex, created, stepData, initCount, res>>

\* the handler returns (a signal handler returns nothing: the call succeeds)
HandlerReturn(p) ==
    /\ pc[p] = "inhandler"
    /\ IF IsStep(call[p]) THEN Goto(p, "check") /\ UNCHANGED res
       ELSE /\ Goto(p, "ret")
            /\ res' = [res EXCEPT ![p] = [class |-> "ok", out |-> "", ser |-> "none"]]
    /\ UNCHANGED <<call, display, layout, arg, mutex, created, stepData, initCount, ledger>>

\* output ID lookup, output Validate, output Serialize
CheckOutput(p) ==
    /\ pc[p] = "check"
    /\ LET b == call[p].beh IN
       IF ~Declared(b) THEN Fail(p, "invalidoutput")           \* the ID lookup comes first
       ELSE IF ~Conforms(b) THEN Fail(p, "error")             \* then the declared output's Validate
       ELSE /\ Goto(p, "ret")
            /\ res' = [res EXCEPT ![p] = [class |-> "ok", out |-> OutId(b), ser |-> arg[p]]]
    /\ UNCHANGED <<call, display, layout, arg, mutex, created, stepData, initCount, ledger>>

Return(p) ==
    /\ pc[p] = "ret"
    /\ Goto(p, "done")
    /\ UNCHANGED <<call, display, layout, arg, mutex, created, stepData, initCount, ledger, res>>

\* the same stages under the names of the two entry points
CallStepBegin(p)            == IsStep(call[p]) /\ Begin(p)
CallStepLookup(p)           == IsStep(call[p]) /\ Lookup(p)
CallStepUnserializeInput(p) == IsStep(call[p]) /\ UnserializeInput(p)
CallStepInvokeHandler(p)    == IsStep(call[p]) /\ InvokeHandler(p)
CallStepHandlerReturn(p)    == IsStep(call[p]) /\ HandlerReturn(p)
CallStepCheckOutput(p)      == IsStep(call[p]) /\ CheckOutput(p)
CallStepReturn(p)           == IsStep(call[p]) /\ Return(p)
CallSignalBegin(p)            == IsSignal(call[p]) /\ Begin(p)
CallSignalLookup(p)           == IsSignal(call[p]) /\ Lookup(p)
CallSignalUnserializeInput(p) == IsSignal(call[p]) /\ UnserializeInput(p)
CallSignalInvokeHandler(p)    == IsSignal(call[p]) /\ InvokeHandler(p)
CallSignalHandlerReturn(p)    == IsSignal(call[p]) /\ HandlerReturn(p)
CallSignalReturn(p)           == IsSignal(call[p]) /\ Return(p)

\* actions that are not visible at a harness gate (no event is logged for them)
Internal(p) == Lookup(p) \/ UnserializeInput(p) \/ SetupHit(p) \/ SetupCreate(p) \/ CheckOutput(p)

Step(p) ==
    \/ CallStepBegin(p) \/ CallStepLookup(p) \/ CallStepUnserializeInput(p)
    \/ CallStepInvokeHandler(p) \/ CallStepHandlerReturn(p) \/ CallStepCheckOutput(p) \/ CallStepReturn(p)
    \/ CallSignalBegin(p) \/ CallSignalLookup(p) \/ CallSignalUnserializeInput(p)
    \/ CallSignalInvokeHandler(p) \/ CallSignalHandlerReturn(p) \/ CallSignalReturn(p)
    \/ SetupHit(p) \/ SetupCreate(p) \/ InitBegin(p) \/ InitEnd(p)

Next == \E p \in Procs : Step(p)

AllDone == \A p \in Procs : pc[p] = "done"

---------------------------------------------------------------------------
(* Properties *)

Invocations(p) == Cardinality({i \in DOMAIN ledger : ledger[i].p = p})

\* the handler runs at most once, only for valid calls, and exactly once when the call has
\* got past the handler
HandlerIffValid ==
    \A p \in Procs :
        /\ Invocations(p) <= 1
        /\ Invocations(p) = 1 => Valid(call[p])
        /\ pc[p] \in {"check", "ret", "done"} => (Invocations(p) = 1 <=> Valid(call[p]))

\* the handler gets exactly the unserialized input
ExactArgument ==
    \A i \in DOMAIN ledger : ledger[i].arg = Unser(call[ledger[i].p].input).v

\* operational outcome = declarative outcome; the three distinguished step error classes are
\* pairwise different and different from success
ErrorClass ==
    /\ \A p \in Procs : pc[p] \in {"ret", "done"} => res[p] = Expected(call[p])
    /\ \A p \in Procs : res[p].class # "panic"
    /\ Cardinality({"badarg", "invalidinput", "invalidoutput", "ok"}) = 4

\* no outcome depends on the displays: whatever displays Init picked, the operational outcome is the
\* declarative one, which is a function of the call alone; and no error is a panic
DisplayBlind ==
    /\ display \in [StepIds -> DisplayShapes]
    /\ layout.reg \subseteq StepIds /\ layout.sigreg \in [StepIds -> {"same", "differ"}]
    /\ \A p \in Procs : pc[p] \in {"ret", "done"} => res[p] = Expected(call[p]) /\ res[p].class # "panic"

\* the step data of a run is created at most once, whichever call arrives first, and it is
\* what every handler invocation of that run sees
InitOncePerRun ==
    /\ \A s \in StepIds, r \in Runs : initCount[s][r] <= 1
    /\ \A i \in DOMAIN ledger :
          LET e == ledger[i] IN
          /\ created[e.step][e.run]
          /\ e.data = stepData[e.step][e.run]
          /\ IF e.step \in NoInitSteps THEN e.data = 0 /\ initCount[e.step][e.run] = 0
                                       ELSE e.data # 0 /\ initCount[e.step][e.run] = 1

\* (action property) step data, once created, is never replaced
DataStable ==
    [][\A s \in StepIds, r \in Runs : created[s][r] => created'[s][r] /\ stepData'[s][r] = stepData[s][r]]_vars

\* every behaviour can be completed: nothing but finished sessions is stuck
NoStuck == AllDone \/ ENABLED Next
=============================================================================
