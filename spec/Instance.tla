------------------------------ MODULE Instance ------------------------------
(***************************************************************************)
(* C12 / C13 - the life of ONE schema instance.                            *)
(*                                                                         *)
(* State: the lazily filled caches (defaultsCache[obj], unitCache[u] with  *)
(* its three fields, link[ref]), the decoded default map of a sub-object   *)
(* property (a heap cell that results may alias), the run table of a       *)
(* callable step, the caller-owned argument maps, and the history of       *)
(* completed calls.  Goroutines g \in G step through the lazy paths at     *)
(* MEMORY-ACCESS granularity: every action performs at most one access to  *)
(* a shared location, and Acc(g) names the access goroutine g performs     *)
(* next, so that NoRace is the textbook definition (two goroutines at      *)
(* conflicting accesses - same location, at least one write - without a    *)
(* common lock).                                                           *)
(*                                                                         *)
(* The result of every call is REQUIRED to equal the pure operator         *)
(* Pure(kind, origin, op, arg) (HistoryFree / Isolated).  The model of the *)
(* code as read contains NAMED DEVIATIONS, selected by constants; with all *)
(* of them FALSE the module is the repaired design and every property      *)
(* holds; with one of them TRUE TLC exhibits the defect on the model:      *)
(*   AliasDefaults   the decoded default map of a by-value sub-object is   *)
(*                   handed into the raw data and extended IN PLACE by     *)
(*                   sub-object default propagation (object.go 452-480);   *)
(*                   for kind "objnest": the propagation assembles the     *)
(*                   value of a map-based sub-object ON that sub-object's  *)
(*                   own decoded-defaults map, so the defaults of the      *)
(*                   nested object become a "declared default" of it       *)
(*   LazyUnsync      the lazy caches (units.go 230-241, 251-253, 317-345;  *)
(*                   object.go 69-74) are read, built and written without  *)
(*                   synchronisation                                       *)
(*   CollideEither   two raw map keys denoting one key (of several Go key  *)
(*                   types, or of ONE type with a non-injective conversion *)
(*                   - "7" / "07", "1m" / "60s"): the survivor is          *)
(*                   the one iterated last (map.go 115-128)                *)
(*   StripInPlace    the one-of discriminator is deleted from the caller's *)
(*                   map instead of a clone (oneof.go 431-439)             *)
(*   StripRestore    the discriminator is taken out of the caller's map    *)
(*                   while the member validates and put back on success    *)
(*                   only: a rejected value loses it                       *)
(*   DirtyScratch    validateStruct recycles its scratch map of present    *)
(*                   fields (package-level pool) and clears it on the      *)
(*                   success path of the property loop only: after a value *)
(*                   rejected because of one of its fields, the next       *)
(*                   struct value sees phantom present fields              *)
(*   SharedMarks     the guard of the single-property shorthand (a non-map *)
(*                   value handed down a chain of single-property objects) *)
(*                   marks the objects it walks over ON THE SHARED SCHEMA  *)
(*                   VALUES instead of in a per-call set: two calls see    *)
(*                   each other's marks and reject valid input             *)
(*   SharedInProgress the recursion guard of schema-vs-schema object       *)
(*                   compatibility keeps its set of comparisons in         *)
(*                   progress ACROSS CALLS (package level, mutex-guarded:  *)
(*                   no data race): a call meeting another call's entry    *)
(*                   answers "compatible"                                  *)
(*   StaleMemo       a unit definition remembers the last parsed text and  *)
(*                   its value; the text is stored when the expression     *)
(*                   matches, the value only at the end - an out-of-range  *)
(*                   quantity in between leaves the previous value under   *)
(*                   the new text, and is accepted from then on            *)
(*   SharedError     the error for the use of a disabled property is ONE   *)
(*                   shared value; every enclosing object adds its path    *)
(*                   segment to it in place, so paths grow across calls    *)
(*                   (and the slice is raced)                              *)
(*   SortInPlace     the alternatives of a required_if_not rule are sorted *)
(*                   for the error message ON THE SCHEMA'S OWN LIST: a     *)
(*                   rejected call permutes the declaration                *)
(*   ConvertInPlace  the any schema converts the items of a []any in the   *)
(*                   caller's own slice (int -> int64, ...), also when the *)
(*                   call is rejected                                      *)
(*   HideRestore     one-of Validate / Serialize / data-mode compatibility *)
(*                   take the discriminator out of the CALLER'S map while  *)
(*                   the member works and put it back afterwards: invisible*)
(*                   to one call, but a second call on the same value      *)
(*                   meanwhile finds no discriminator (and the map is      *)
(*                   raced)                                                *)
(*   EarlyExitWalk   object compatibility walks the properties once and    *)
(*                   stops when every given field was matched: whether a   *)
(*                   missing required property is noticed depends on the   *)
(*                   iteration order                                       *)
(*   LastKeyDecides  enum-vs-enum compatibility keeps only the verdict of  *)
(*                   the value it compared LAST: a differing display name  *)
(*                   is noticed only if its value is iterated last         *)
(*   MemoRootUnsync  a scope memoises its root object in a field without   *)
(*                   synchronisation; construction (ApplySelf) fills it,   *)
(*                   but a scope DERIVED from another scope's parts        *)
(*                   (NewScopeSchemaFromScope, signals built from a signal *)
(*                   schema) is never linked itself: its first concurrent  *)
(*                   use races on the field                                *)
(*   ReuseInputContainer  a list schema given a slice that already has the  *)
(*                   Go type of its result writes the unserialised items   *)
(*                   back into the CALLER'S slice ([]any over one-of / any *)
(*                   items, []map[string]any over objects with defaults),  *)
(*                   also when a later item is refused                     *)
(*   ReleaseOutsideLock  a step without signal handlers deletes its run's   *)
(*                   entry from the run table after the handler returned,  *)
(*                   OUTSIDE initializerMutex, while other runs read and   *)
(*                   write the table under it                              *)
(*   CacheEmptyUnsync  a property caches the empty value of its mapped field *)
(*                   (value and field type) on first use, unsynchronised;  *)
(*                   ONE property shared by two struct-mapped objects with *)
(*                   differently typed fields makes concurrent calls swap  *)
(*                   the cache: an empty field is taken as set             *)
(*   NoStepMutex     setupStepData without initializerMutex (step.go 201)  *)
(*   EnumEarlyReturn enum compatibility returns at the first matching key  *)
(*                   (enum.go 53-97 before its repair)                     *)
(* SubOverride is not a deviation of C12/C13 but a semantic switch owned   *)
(* by C03: TRUE = the member's own defaults are merged OVER the declared   *)
(* default of the property (what the code does), FALSE = they only fill    *)
(* what the declared default leaves open.                                  *)
(*                                                                         *)
(* SHARED INPUT is a dimension of the model (inst.shared): the goroutines   *)
(* then pass ONE caller-owned value to their calls, as callers may - an    *)
(* argument is read-only state that no action may change while a call is   *)
(* in progress (InputStable).                                              *)
(*                                                                         *)
(* Values are flat: a map value is a function from the global path set P   *)
(* to integers, Absent = -1 ("n", "t" properties of the root object; "sa", *)
(* "sb" the properties a, b of the by-value sub-object s).                 *)
(***************************************************************************)
EXTENDS Integers, Sequences, FiniteSets, TLC

CONSTANTS G, MaxCalls, Kinds, Origins,
          AliasDefaults, LazyUnsync, CollideEither, StripInPlace, StripRestore, DirtyScratch, SharedMarks, SharedInProgress, StaleMemo, SharedError, SortInPlace, ConvertInPlace, HideRestore, EarlyExitWalk, LastKeyDecides, MemoRootUnsync, ReuseInputContainer, ReleaseOutsideLock, CacheEmptyUnsync, NoStepMutex,
          EnumEarlyReturn, SubOverride

VARIABLES inst,          \* [kind, origin, shared]
          phase,         \* "build" (single-threaded construction / ApplySelf) | "serve"
          link,          \* link[ref] \in {"unlinked"} \cup Objs          (ref.go referencedObjectCache)
          defaultsCache, \* defaultsCache[obj] \in {Unbuilt} \cup [st |-> "built", m |-> flat map]
          cell,          \* the decoded default MAP of root.s (heap object shared by the cache and, under
                         \* AliasDefaults, by the raw data of every call): flat map over {"sa","sb"}
          unitCache,     \* unitCache[u] = [sorted, re, names]
          table,         \* run table of the callable step: table[r] \in {"absent","init"}
          initCount,     \* initializer invocations per run
          scratch,       \* scratch state that must be PER CALL but is shared under a deviation: the recycled map
                         \* of validateStruct (property paths it still holds), the walk marks of the shorthand
                         \* guard (levels "L1".."L3"), the comparisons in progress ("pair.root", "pair.lim");
                         \* always {} in the design the property demands
          mutex,         \* holder of each lock (0 = free)
          descr,         \* the self-description (derived from immutable fields)
          argmem,        \* argmem[g]: the caller-owned argument map while a call is in flight (one cell for
                         \* all goroutines when the input is shared)
          pc, cur, loc,  \* per goroutine: program counter, current call, locals
          ncalls,
          hist           \* completed calls, in completion order

vars == <<inst, phase, link, defaultsCache, cell, unitCache, table, initCount, scratch, mutex, descr, argmem,
          pc, cur, loc, ncalls, hist>>

\* ------------------------------------------------------------------ values
P == {"n", "t", "sa", "sb"}
Absent == -1
Empty == [p \in P |-> Absent]
Flat(n, t, sa, sb) == [p \in P |-> CASE p = "n" -> n [] p = "t" -> t [] p = "sa" -> sa [] OTHER -> sb]
SubPaths == {"sa", "sb"}
Restrict(m, S) == [p \in P |-> IF p \in S THEN m[p] ELSE Absent]
\* base, with every path that over sets replaced
MergeOver(base, over) == [p \in P |-> IF over[p] # Absent THEN over[p] ELSE base[p]]
\* base, with the open paths filled from fill
FillFrom(base, fill) == [p \in P |-> IF base[p] # Absent THEN base[p] ELSE fill[p]]

Arg(tok, m) == [tok |-> tok, m |-> m]
Res(ok, m, n) == [ok |-> ok, m |-> m, n |-> n]
Call(op, arg) == [op |-> op, arg |-> arg]

Objs == {"root", "inner"}
Refs == {"s", "root"}        \* "root": the memoised root object of the scope (construction route "derived")
UnitIds == {"u"}
Runs == {"r1", "r2"}
Unbuilt == [st |-> "unbuilt", m |-> Empty]
Built(m) == [st |-> "built", m |-> m]

\* ------------------------------------------------------------------ the schemas (declarations)
\* declared defaults, as written in the property declarations (JSON text in the code)
DeclRoot(kind) == CASE kind = "objmap"    -> Flat(7, Absent, Absent, Absent)
                    [] kind = "objstruct" -> Flat(7, Absent, 5, Absent)      \* n: 7, s: {"a":5}
                    [] OTHER              -> Empty
DeclInner(kind) == CASE kind = "objstruct" -> Flat(Absent, Absent, 3, 9)     \* a: 3, b: 9
                     [] kind = "objnest" -> Flat(Absent, Absent, 2, 6)       \* the leaf object: f: 2, w: 6
                     [] OTHER -> Empty
Decoded(kind, o) == IF o = "root" THEN DeclRoot(kind) ELSE DeclInner(kind)
HasSub(kind) == kind = "objstruct"
\* struct-mapped objects propagate sub-object defaults; a schema rebuilt from its description is map-based
StructMapped(i) == i.kind = "objstruct" /\ i.origin # "rebuilt"
HasMult(kind) == kind = "units"          \* "units0": a definition without multipliers (characters, percent)
\* the self-description; "rules": the rule lists (conflicts, required_if_not) in the order they were declared
Describe(i) == [kind |-> i.kind, root |-> DeclRoot(i.kind), inner |-> DeclInner(i.kind), rules |-> "declared"]

\* "objdep": a struct-mapped object with pointer fields a, b, c, d (paths n, t, sa, sb of the flat map) and
\* the rules: a conflicts with [c, b]; c is an integer of at most CMax; d is required unless one of [b, a] is
\* given (both lists declared in non-alphabetical order)
CMax == 10
DNotMissing(present) == "sb" \in present \/ "t" \in present \/ "n" \in present
DepVerdict(present, m) ==
    /\ ~(m["sa"] # Absent /\ m["sa"] > CMax)
    /\ ~("n" \in present /\ ("t" \in present \/ "sa" \in present))
    /\ DNotMissing(present)
PresentIn(m) == {p \in P : m[p] # Absent}

\* "objnest": struct-mapped root {n?, limits?: mid}; mid is MAP-BASED {u?, burst?: leaf} and has no default of
\* its own; leaf {f default 2, w default 6}.  Paths: n = root.n, t = limits.u, sa / sb = limits.burst.f / .w.
\* The tokens in LimToks stand for arguments in which "limits" is given (possibly empty).  `cell` is mid's own
\* decoded-defaults map, restricted to its burst property: Empty as declared.
LimToks == {"lim_empty", "lim_u", "lim_burst_f", "lim_rand"}
LeafDefaults == Flat(Absent, Absent, 2, 6)
NestStruct(i) == i.kind = "objnest" /\ i.origin # "rebuilt"
\* mid.Unserialize of the given limits; midDefault = what mid's defaults hold for burst
MidUnser(m, midDefault) ==
    LET given == Restrict(m, SubPaths)
        burst == IF given # Empty THEN FillFrom(given, LeafDefaults)
                 ELSE IF midDefault # Empty THEN FillFrom(midDefault, LeafDefaults) ELSE Empty
    IN MergeOver(Restrict(m, {"t"}), burst)

\* "chain": L1 -> L2 -> L3 -> integer, single-property objects; a non-map value is handed down the chain
\* (shorthand) after a guard has walked the rest of the chain at every level.
\* "compat2": Root{..., limits: ref Limits} compared, schema against schema, with a compatible copy ("same") or
\* with one that differs deep inside ("deep").
Lv == <<"L1", "L2", "L3">>
Depth == 3

ObjKinds == {"objmap", "objstruct"}
UnitKinds == {"units", "units0"}

\* ------------------------------------------------------------------ the call universe
Ops(kind) ==
    CASE kind \in UnitKinds ->
           {Call("unser", Arg("str_ok", Empty)), Call("unser", Arg("str_bad", Empty)),
            \* a well-formed quantity that does not fit into 64 bits, alone and as two items of one list
            Call("unser", Arg("str_over", Empty)), Call("unser", Arg("list_over", Empty)),
            Call("unser", Arg("num", Empty)), Call("fmt", Arg("num", Empty)), Call("ser", Arg("num", Empty))}
      [] kind = "objmap" ->
           {Call("unser", Arg("empty", Empty)), Call("unser", Arg("n1", Flat(1, Absent, Absent, Absent))),
            Call("unser", Arg("bad", Empty)), Call("valid", Arg("n1", Flat(1, Absent, Absent, Absent)))}
      [] kind = "objstruct" ->
           {Call("unser", Arg("empty", Empty)), Call("unser", Arg("n1", Flat(1, Absent, Absent, Absent))),
            Call("unser", Arg("s_a1", Flat(Absent, Absent, 1, Absent))), Call("unser", Arg("bad", Empty)),
            Call("ser", Arg("full", Flat(1, Absent, 1, 1)))}
      [] kind = "patnil" ->
           \* root{filters: list of pattern}: a value whose list holds a nil pattern is refused by the item, the list
           \* and the object each add their path segment (SharedError: onto one package-level error value)
           {Call("valid", Arg("nil_item", Empty)), Call("ser", Arg("nil_item", Empty)), Call("valid", Arg("good", Empty))}
      [] kind = "emptydef" ->
           \* objects A (field of type string) and B (field of a defined string type) share ONE property that treats
           \* the empty value as unset (the string must have at least one character otherwise)
           {Call(op, Arg(t, Empty)) : op \in {"ser", "valid"}, t \in {"empty_a", "empty_b"}}
      [] kind = "listarg" ->
           \* a list (or map) schema given a container of exactly the Go type its result has, whose ELEMENTS change
           \* under unserialisation (defaults, discriminator, canonical numbers); path n stands for such an element
           {Call("unser", Arg(t, Flat(1, Absent, Absent, Absent))) : t \in {"same_type", "same_type_bad", "other_type"}}
      [] kind = "objreq" ->
           \* root{a: REQUIRED, b, c, d, e}: compatibility with an argument that leaves a out but supplies another
           \* valid field - as a map of values, as a map of property schemas, as another object schema of that ID
           {Call("compat", Arg(t, Empty)) : t \in {"data_partial", "data_full", "props_partial", "schema_partial",
                                                    "schema_full"}}
           \cup {Call("unser", Arg("data_partial", Empty)), Call("unser", Arg("data_full", Empty))}
      [] kind = "anylist" ->
           \* an any schema (or an any-typed property) given a []any whose items are not in canonical form
           {Call(op, Arg("list_mixed", Flat(1, Absent, Absent, Absent))) : op \in {"unser", "valid", "ser"}}
           \cup {Call(op, Arg("list_bad", Flat(1, Absent, Absent, Absent))) : op \in {"unser", "valid"}}
           \cup {Call("unser", Arg("map_list", Flat(1, Absent, Absent, Absent)))}
      [] kind = "disabled" ->
           \* root{settings: ref S}, S{legacy: disabled without a reason, keep}
           {Call("unser", Arg("uses_disabled", Empty)), Call("compat", Arg("uses_disabled", Empty)),
            Call("unser", Arg("keeps", Empty))}
      [] kind = "chain" ->
           {Call("unser", Arg("scalar", Empty)), Call("unser", Arg("badscalar", Empty)),
            Call("unser", Arg("nested", Empty)), Call("compat", Arg("scalar", Empty))}
      [] kind = "compat2" ->
           {Call("compat", Arg("same", Empty)), Call("compat", Arg("deep", Empty))}
      [] kind = "objnest" ->
           {Call("unser", Arg("empty", Empty)), Call("unser", Arg("n1", Flat(1, Absent, Absent, Absent))),
            Call("unser", Arg("lim_empty", Empty)), Call("unser", Arg("lim_u", Flat(Absent, 1, Absent, Absent))),
            Call("unser", Arg("lim_burst_f", Flat(1, Absent, 7, Absent))),
            \* the sub-object of the scope on its own
            Call("unsermid", Arg("lim_empty", Empty)), Call("unsermid", Arg("lim_u", Flat(Absent, 1, Absent, Absent)))}
      [] kind = "objdep" ->
           {Call(op, Arg("bad_c", Flat(Absent, 1, 100, 1))) : op \in {"valid", "ser", "unser"}}
           \cup {Call(op, Arg("a_d", Flat(1, Absent, Absent, 1))) : op \in {"valid", "ser", "unser"}}
           \cup {Call("valid", Arg("empty", Empty)), Call("valid", Arg("b", Flat(Absent, 1, Absent, Absent)))}
      [] kind = "mapcoll" ->
           {Call("unser", Arg("collide", Empty)), Call("unser", Arg("single", Empty)),
            Call("unser", Arg("bad", Empty)),
            \* two keys of ONE Go key type that convert to the same key ("7" and "07", "1m" and "60s")
            Call("unser", Arg("typed_collide", Empty))}
      [] kind = "oneof" ->
           \* path "t" stands for the discriminator field of the caller's map
           {Call("unser", Arg("member_a", Flat(1, 1, Absent, Absent))),
            Call("unser", Arg("nodisc", Empty)), Call("ser", Arg("member_a", Flat(1, 1, Absent, Absent))),
            Call("valid", Arg("member_a", Flat(1, 1, Absent, Absent))),
            Call("compat", Arg("member_a", Flat(1, 1, Absent, Absent)))}         \* data-mode compatibility
           \* a value the selected member rejects (its property n is at most CMax)
           \cup {Call(op, Arg("member_a_bad", Flat(100, 1, Absent, Absent))) : op \in {"valid", "ser", "unser"}}
      [] kind = "enum" ->
           {Call("compat", Arg("same", Empty)), Call("compat", Arg("extra", Empty)),
            \* the same values, ONE of them displayed under another name (or none); also as a property of two scopes
            Call("compat", Arg("renamed", Empty)), Call("compat", Arg("unnamed", Empty)),
            Call("compat", Arg("scope_renamed", Empty)), Call("compat", Arg("scope_same", Empty)),
            Call("unser", Arg("member", Empty)), Call("unser", Arg("bad", Empty))}
      [] kind = "steps" ->
           {Call("step", Arg(r, Empty)) : r \in Runs} \cup {Call("signal", Arg(r, Empty)) : r \in Runs}
      [] OTHER -> {}

\* the order in which the runtime iterates a two-element map: 1 = (first, second), 2 = (second, first);
\* only the kinds whose code ranges over a map of the argument / of the compared schema have the choice
Orders(kind) == IF kind \in {"mapcoll", "enum", "objreq"} THEN {1, 2} ELSE {1}

\* ------------------------------------------------------------------ Pure: the required result
\* The set of results the property admits for (schema, op, arg).  A singleton except where the
\* acceptance of an input is left open (two raw keys denoting one key): there every outcome is
\* admitted, but Deterministic demands that it is always the same one.
PureObj(i, arg) ==
    IF arg.tok = "bad" THEN Res(FALSE, Empty, 0)
    ELSE LET k == i.kind
             given == arg.m
             rootDecl == Restrict(DeclRoot(k), {"n", "t"})
             top == FillFrom(Restrict(given, {"n", "t"}), rootDecl)
             sGiven == Restrict(given, SubPaths)
             sPresent == \E p \in SubPaths : given[p] # Absent
             sDecl == Restrict(DeclRoot(k), SubPaths)
             inner == DeclInner(k)
             sub == IF ~HasSub(k) THEN Empty
                    ELSE IF sPresent THEN FillFrom(sGiven, inner)
                    ELSE IF StructMapped(i) /\ SubOverride THEN MergeOver(sDecl, inner)
                    ELSE FillFrom(sDecl, inner)
         IN Res(TRUE, MergeOver(top, sub), 0)

PureSet(i, op, arg) ==
    LET k == i.kind IN
    CASE k \in UnitKinds ->
           (CASE op = "unser" /\ arg.tok = "str_ok" -> {Res(TRUE, Empty, 5)}   \* 5 of the smallest declared unit
              [] op = "unser" /\ arg.tok \in {"str_bad", "str_over", "list_over"} -> {Res(FALSE, Empty, 0)}
              [] OTHER -> {Res(TRUE, Empty, 7)})
      [] k \in ObjKinds ->
           (IF op = "unser" THEN {PureObj(i, arg)} ELSE {Res(TRUE, arg.m, 0)})
      [] k = "mapcoll" ->
           (CASE arg.tok = "collide" -> {Res(TRUE, Empty, 1), Res(TRUE, Empty, 2), Res(FALSE, Empty, 0)}
              [] arg.tok = "typed_collide" -> {Res(FALSE, Empty, 0)}              \* duplicate key
              [] arg.tok = "single" -> {Res(TRUE, Empty, 1)}
              [] OTHER -> {Res(FALSE, Empty, 0)})
      [] k = "patnil" ->
           (IF arg.tok = "good" THEN {Res(TRUE, Empty, 0)} ELSE {Res(FALSE, Empty, 2)})
      [] k = "emptydef" -> {Res(TRUE, Empty, 0)}
      [] k = "listarg" ->
           (IF arg.tok = "same_type_bad" THEN {Res(FALSE, Empty, 0)} ELSE {Res(TRUE, Empty, 0)})
      [] k = "objreq" ->
           (IF arg.tok \in {"data_full", "schema_full"} THEN {Res(TRUE, Empty, 0)} ELSE {Res(FALSE, Empty, 0)})
      [] k = "anylist" ->
           (IF arg.tok = "list_bad" THEN {Res(FALSE, Empty, 0)} ELSE {Res(TRUE, Empty, 0)})
      [] k = "disabled" ->
           \* a rejection carries the path of the offending element: n = its length (two enclosing objects)
           (CASE arg.tok = "keeps" -> {Res(TRUE, Empty, 1)}
              [] op = "unser" -> {Res(FALSE, Empty, 2)}
              [] OTHER -> {Res(FALSE, Empty, 0), Res(FALSE, Empty, 1), Res(FALSE, Empty, 2)})
      [] k = "chain" ->
           (CASE arg.tok = "badscalar" -> {Res(FALSE, Empty, 0)}
              [] op = "compat" -> {Res(TRUE, Empty, 0)}
              [] OTHER -> {Res(TRUE, Empty, 5)})
      [] k = "compat2" ->
           (IF arg.tok = "same" THEN {Res(TRUE, Empty, 0)} ELSE {Res(FALSE, Empty, 0)})
      [] k = "objnest" ->
           (CASE op = "unsermid" -> {Res(TRUE, MidUnser(arg.m, Empty), 0)}
              [] arg.tok \in LimToks -> {Res(TRUE, MergeOver(Restrict(arg.m, {"n"}), MidUnser(arg.m, Empty)), 0)}
              \* limits left out: a struct-mapped parent builds it from the defaults of its sub-objects
              [] OTHER -> {Res(TRUE, MergeOver(Restrict(arg.m, {"n"}), IF NestStruct(i) THEN LeafDefaults ELSE Empty), 0)})
      [] k = "objdep" ->
           (IF DepVerdict(PresentIn(arg.m), arg.m) THEN {Res(TRUE, arg.m, 0)} ELSE {Res(FALSE, Empty, 0)})
      [] k = "oneof" ->
           (IF arg.tok = "nodisc" \/ (arg.m["n"] # Absent /\ arg.m["n"] > CMax)
            THEN {Res(FALSE, Empty, 0)} ELSE {Res(TRUE, arg.m, 0)})
      [] k = "enum" ->
           (CASE op = "compat" /\ arg.tok \in {"same", "scope_same"} -> {Res(TRUE, Empty, 0)}
              [] op = "compat" /\ arg.tok = "extra" -> {Res(FALSE, Empty, 0)}    \* producer has a value the consumer lacks
              [] op = "unser" /\ arg.tok = "member" -> {Res(TRUE, Empty, 1)}
              [] OTHER -> {Res(FALSE, Empty, 0)})
      [] k = "steps" -> {Res(TRUE, Empty, 1)}       \* n = initializer invocations for the run: exactly one
      [] OTHER -> {}

\* ------------------------------------------------------------------ locals
NoLoc == [sawNil |-> FALSE, names |-> "none", raw |-> Empty, priv |-> Empty, res |-> Res(FALSE, Empty, -9),
          ord |-> 1, lvl |-> 1, pos |-> 1, term |-> TRUE, marks |-> {}, next |-> "C1"]
NoCall == Call("none", Arg("none", Empty))

InitialCaches(i) ==
    \* constructors decode the defaults eagerly (object.go 37-48); a schema rebuilt from its description is
    \* filled by reflection and has nil caches; unit caches are always lazy
    [o \in Objs |-> IF i.kind \in ObjKinds /\ i.origin # "rebuilt" THEN Built(Decoded(i.kind, o)) ELSE Unbuilt]

Init ==
    /\ \E k \in Kinds : \E o \in Origins :
          /\ (o = "global" => k \in UnitKinds)              \* package-level values: the unit definitions
          \* "plain": a step built without signal handlers (NewCallableStep)
          /\ (k = "steps" => o \in {"fresh", "derived", "plain"})
          /\ (o = "plain" => k = "steps")
          \* "derived": a scope made of another scope's parts, never linked itself (objmap: NewScopeSchemaFromScope;
          \* steps: the data scopes of signals built from signal schemas)
          /\ (o = "derived" => k \in {"objmap", "steps"})
          \* shared input: explored where a call may write to what the caller handed in
          /\ \E sh \in (IF k = "oneof" /\ Cardinality(G) > 1 THEN BOOLEAN ELSE {FALSE}) :
                inst = [kind |-> k, origin |-> o, shared |-> sh]
    /\ phase = IF inst.origin = "rebuilt" /\ HasSub(inst.kind) THEN "build" ELSE "serve"
    /\ link = [r \in Refs |-> IF r = "root" THEN (IF inst.origin = "derived" THEN "unlinked" ELSE "inner")
                              ELSE IF inst.origin = "rebuilt" THEN "unlinked" ELSE "inner"]
    /\ defaultsCache = InitialCaches(inst)
    /\ cell = Restrict(DeclRoot(inst.kind), SubPaths)
    /\ unitCache = [u \in UnitIds |-> [sorted |-> "nil", re |-> "nil", names |-> "nil", memoText |-> "none", memoVal |-> "none"]]
    /\ table = [r \in Runs |-> "absent"]
    /\ initCount = [r \in Runs |-> 0]
    /\ scratch = {}
    /\ mutex = [l \in {"step", "unit", "root", "inner"} |-> 0]
    /\ descr = Describe(inst)
    /\ argmem = [g \in G |-> Empty]
    /\ pc = [g \in G |-> "idle"]
    /\ cur = [g \in G |-> NoCall]
    /\ loc = [g \in G |-> NoLoc]
    /\ ncalls = [g \in G |-> 0]
    /\ hist = <<>>

\* ------------------------------------------------------------------ accesses (for NoRace)
NoAcc == [at |-> "none", w |-> FALSE]
Rd(l) == [at |-> l, w |-> FALSE]
Wr(l) == [at |-> l, w |-> TRUE]
ObjOf(label) == IF label \in {"I1", "I2", "I3", "IL", "IU"} THEN "inner" ELSE "root"

\* the caller supplied the sub-object s
SPresent(g) == \E p \in SubPaths : cur[g].arg.m[p] # Absent

\* the operations that work on the caller's map itself (Unserialize works on its own copy of the input)
OnCallersMap(g) == cur[g].op # "unser"
Hiding(g) == StripInPlace \/ StripRestore \/ (HideRestore /\ OnCallersMap(g))
\* the access goroutine g performs with its next step
Acc(g) ==
    CASE pc[g] = "P1"  -> Rd("unit.re")
      [] pc[g] = "U1"  -> Rd("unit.sorted")
      [] pc[g] = "U2"  -> Wr("unit.sorted")
      [] pc[g] = "U3"  -> Wr("unit.re")
      [] pc[g] = "U4"  -> Wr("unit.names")
      [] pc[g] = "U5"  -> Wr("unit.namesmap")
      [] pc[g] = "P3"  -> Rd("unit.sorted")
      [] pc[g] = "P3w" -> Wr("unit.sorted")
      [] pc[g] = "P4"  -> Rd("unit.names")
      [] pc[g] = "P5"  -> Rd("unit.namesmap")
      [] pc[g] = "F1"  -> Rd("unit.sorted")
      [] pc[g] = "F2"  -> Wr("unit.sorted")
      [] pc[g] = "D1"  -> Rd("defaults.root")
      [] pc[g] = "D3"  -> Wr("defaults.root")
      [] pc[g] = "I1"  -> Rd("defaults.inner")
      [] pc[g] = "I3"  -> Wr("defaults.inner")
      [] pc[g] = "S0"  -> Rd("link.s")
      [] pc[g] = "S1"  -> Rd("cell.s")             \* rawData[s] = defaults[s] / copy of it
      [] pc[g] = "S3a" -> IF AliasDefaults THEN Wr("cell.s") ELSE NoAcc
      [] pc[g] = "S3b" -> IF AliasDefaults THEN Wr("cell.s") ELSE NoAcc
      [] pc[g] = "S4"  -> IF AliasDefaults THEN Rd("cell.s") ELSE NoAcc
      [] pc[g] = "S5"  -> IF AliasDefaults /\ ~SPresent(g) THEN Rd("cell.s") ELSE NoAcc
      [] pc[g] = "X1"  -> Rd("prop.emptyType")
      [] pc[g] = "X2"  -> Wr("prop.emptyValue")
      [] pc[g] = "X3"  -> Wr("prop.emptyType")
      [] pc[g] = "X4"  -> Rd("prop.emptyValue")
      [] pc[g] = "M1"  -> Rd("scope.root")
      [] pc[g] = "M2"  -> Wr("scope.root")
      [] pc[g] = "O0"  -> IF inst.shared THEN Rd("arg") ELSE NoAcc
      [] pc[g] = "O1"  -> IF inst.shared /\ Hiding(g) THEN Wr("arg") ELSE NoAcc
      [] pc[g] = "O2"  -> IF inst.shared /\ Hiding(g) THEN Wr("arg") ELSE NoAcc
      [] pc[g] = "E1"  -> IF SharedError THEN Wr("err.path") ELSE NoAcc
      [] pc[g] = "E2"  -> IF SharedError THEN Wr("err.path") ELSE NoAcc
      [] pc[g] = "W1"  -> IF SharedMarks THEN Rd(Lv[loc[g].pos]) ELSE NoAcc
      [] pc[g] = "W2"  -> IF SharedMarks THEN Wr(Lv[loc[g].pos]) ELSE NoAcc
      [] pc[g] = "W3"  -> IF SharedMarks /\ loc[g].pos <= Depth THEN Wr(Lv[loc[g].pos]) ELSE NoAcc
      [] pc[g] = "N2"  -> IF AliasDefaults THEN Wr("cell.mid") ELSE NoAcc
      [] pc[g] = "N3"  -> Rd("cell.mid")
      [] pc[g] = "L1"  -> Rd("steps.table")
      [] pc[g] = "L2"  -> Wr("steps.table")
      [] pc[g] = "L5"  -> Wr("steps.table")
      [] pc[g] = "B1"  -> Wr("link.s")
      [] OTHER -> NoAcc

Held(g) == {l \in DOMAIN mutex : mutex[l] = g}
Conflict(g, h) ==
    /\ Acc(g).at # "none" /\ Acc(g).at = Acc(h).at
    /\ Acc(g).w \/ Acc(h).w
    /\ Held(g) \cap Held(h) = {}
Race == \E g \in G : \E h \in G : g # h /\ Conflict(g, h)

\* ------------------------------------------------------------------ helpers for steps
Goto(g, label) == pc' = [pc EXCEPT ![g] = label]
SetLoc(g, f, v) == loc' = [loc EXCEPT ![g][f] = v]
At(g, label) == pc[g] = label /\ phase = "serve"
K == inst.kind

\* ------------------------------------------------------------------ construction phase (ApplySelf)
\* UnserializeScope leaves the references unlinked; the caller (or UnserializeSchema) links them before
\* the schema is shared.  Link writes happen here only - no operation of the statement writes a link.
Build ==
    /\ phase = "build"
    /\ link' = [r \in Refs |-> "inner"]
    /\ phase' = "serve"
    /\ UNCHANGED <<inst, defaultsCache, cell, unitCache, table, initCount, scratch, mutex, descr, argmem, pc, cur, loc,
                   ncalls, hist>>

\* the cell of argmem the call of g works on
Cell(g) == IF inst.shared THEN CHOOSE h \in G : \A k \in G : h <= k ELSE g
InFlight(g) == {h \in G \ {g} : pc[h] # "idle"}

\* ------------------------------------------------------------------ a call begins
Entry(c) ==
    CASE K \in UnitKinds /\ c.op = "unser" /\ c.arg.tok \in {"str_ok", "str_bad", "str_over", "list_over"} ->
             IF LazyUnsync THEN "P1" ELSE "PL"
      [] K \in UnitKinds /\ c.op = "fmt" -> IF LazyUnsync THEN "F1" ELSE "FL"
      [] K \in ObjKinds /\ c.op = "unser" /\ c.arg.tok # "bad" -> IF LazyUnsync THEN "D1" ELSE "DL"
      [] K = "disabled" /\ c.arg.tok = "uses_disabled" -> "E1"
      [] K = "patnil" /\ c.arg.tok = "nil_item" -> "E1"
      [] K = "emptydef" /\ CacheEmptyUnsync -> "X1"
      [] K = "chain" /\ c.arg.tok \in {"scalar", "badscalar"} -> "W1"
      [] K = "compat2" -> "Q1"
      [] K = "objnest" /\ (c.op = "unsermid" \/ c.arg.tok \in LimToks) -> "N3"
      [] K = "objnest" /\ NestStruct(inst) -> "N2"
      [] K = "oneof" -> "O0"
      [] K = "objdep" /\ c.op \in {"valid", "ser"} /\ inst.origin # "rebuilt" -> "V1"   \* validateStruct
      [] K = "objdep" -> "V0"                                                          \* the map forms
      [] K \in {"anylist", "listarg"} -> "A1"
      [] K = "steps" -> IF NoStepMutex THEN "L1" ELSE "L0"
      [] OTHER -> "C1"                              \* no shared state touched: compute and return

Start(g) ==
    /\ At(g, "idle") /\ ncalls[g] < MaxCalls
    /\ \E c \in Ops(K) : \E ord \in Orders(K) :
          /\ inst.origin = "plain" => c.op = "step"                  \* no signal handlers
          \* a shared input is one value: the calls in flight were given the same one
          /\ inst.shared => \A h \in InFlight(g) : cur[h].arg = c.arg
          /\ cur' = [cur EXCEPT ![g] = c]
          /\ loc' = [loc EXCEPT ![g] = [NoLoc EXCEPT !.ord = ord, !.next = Entry(c)]]
          /\ argmem' = IF inst.shared /\ InFlight(g) # {} THEN argmem ELSE [argmem EXCEPT ![Cell(g)] = c.arg.m]
          \* every operation on a scope begins with RootObject()
          /\ Goto(g, IF MemoRootUnsync /\ inst.origin = "derived" /\ (K # "steps" \/ c.op = "signal") THEN "M1" ELSE Entry(c))
    /\ UNCHANGED <<inst, phase, link, defaultsCache, cell, unitCache, table, initCount, scratch, mutex, descr, ncalls, hist>>

\* RootObject() with an unsynchronised memo: if s.rootObject != nil { return it }; look up; s.rootObject = ...
MemoFrame == UNCHANGED <<inst, phase, defaultsCache, cell, unitCache, table, initCount, scratch, mutex, descr, argmem, cur,
                         loc, ncalls, hist>>
MemoRead(g) ==
    /\ At(g, "M1")
    /\ Goto(g, IF link["root"] = "unlinked" THEN "M2" ELSE loc[g].next)
    /\ UNCHANGED link /\ MemoFrame
MemoWrite(g) ==
    /\ At(g, "M2")
    /\ link' = [link EXCEPT !["root"] = "inner"]
    /\ Goto(g, loc[g].next) /\ MemoFrame

\* the stateless operations: the result is a function of the call and - where the code ranges over a map -
\* of the iteration order
Stateless(c, ord) ==
    CASE K = "mapcoll" /\ c.arg.tok \in {"collide", "typed_collide"} ->
             IF CollideEither THEN Res(TRUE, Empty, IF ord = 1 THEN 2 ELSE 1)   \* the key iterated last survives
             ELSE Res(FALSE, Empty, 0)                                           \* repaired: duplicates rejected
      [] K = "enum" /\ c.op = "compat" /\ c.arg.tok \in {"renamed", "unnamed", "scope_renamed"} ->
             \* noticed only if the differing value is compared last (order 2)
             IF LastKeyDecides /\ ord = 1 THEN Res(TRUE, Empty, 0) ELSE Res(FALSE, Empty, 0)
      [] K = "enum" /\ c.op = "compat" /\ c.arg.tok = "extra" ->
             \* the producer's values are {shared, extra}; early return: accepted iff "shared" is met first
             IF EnumEarlyReturn /\ ord = 1 THEN Res(TRUE, Empty, 0) ELSE Res(FALSE, Empty, 0)
      [] K = "objreq" /\ c.op = "compat" /\ c.arg.tok \in {"data_partial", "props_partial", "schema_partial"} ->
             \* one walk over the properties, ended when the given field was matched: order 2 meets the given field
             \* before the required one
             IF EarlyExitWalk /\ ord = 2 THEN Res(TRUE, Empty, 0) ELSE Res(FALSE, Empty, 0)
      [] OTHER -> CHOOSE r \in PureSet(inst, c.op, c.arg) : TRUE

Compute(g) ==
    /\ At(g, "C1")
    /\ SetLoc(g, "res", Stateless(cur[g], loc[g].ord))
    /\ Goto(g, "ret")
    /\ UNCHANGED <<inst, phase, link, defaultsCache, cell, unitCache, table, initCount, scratch, mutex, descr, argmem, cur,
                   ncalls, hist>>

Return(g) ==
    /\ At(g, "ret")
    /\ hist' = Append(hist, [g |-> g, op |-> cur[g].op, arg |-> cur[g].arg, res |-> loc[g].res,
                             argAfter |-> argmem[Cell(g)]])
    /\ ncalls' = [ncalls EXCEPT ![g] = @ + 1]
    /\ Goto(g, "idle")
    /\ cur' = [cur EXCEPT ![g] = NoCall]
    /\ loc' = [loc EXCEPT ![g] = NoLoc]
    /\ argmem' = IF inst.shared THEN argmem ELSE [argmem EXCEPT ![g] = Empty]
    /\ UNCHANGED <<inst, phase, link, defaultsCache, cell, unitCache, table, initCount, scratch, mutex, descr>>

\* ------------------------------------------------------------------ locks (repaired designs, step mutex)
Acquire(g, from, l, to) ==
    /\ At(g, from) /\ mutex[l] = 0
    /\ mutex' = [mutex EXCEPT ![l] = g]
    /\ Goto(g, to)
    /\ UNCHANGED <<inst, phase, link, defaultsCache, cell, unitCache, table, initCount, scratch, descr, argmem, cur, loc,
                   ncalls, hist>>
Release(g, from, l, to) ==
    /\ At(g, from) /\ mutex[l] = g
    /\ mutex' = [mutex EXCEPT ![l] = 0]
    /\ Goto(g, to)
    /\ UNCHANGED <<inst, phase, link, defaultsCache, cell, unitCache, table, initCount, scratch, descr, argmem, cur, loc,
                   ncalls, hist>>

UnitFrame == UNCHANGED <<inst, phase, link, defaultsCache, cell, table, initCount, scratch, mutex, descr, argmem, cur,
                         ncalls, hist>>
SortedBuilt == IF HasMult(K) THEN "built" ELSE "nil"     \* no multipliers: the built slice is nil again

\* ------------------------------------------------------------------ units: parse (units.go 243-300)
\* P1: if u.reCache == nil
ParseReadRe(g) ==
    /\ At(g, "P1")
    /\ Goto(g, IF unitCache["u"].re = "nil" THEN "U1" ELSE "P3")
    /\ UNCHANGED loc /\ UNCHANGED unitCache /\ UnitFrame
\* updateReCache -> getSortedMultipliersCache: read; build; write
UpdReadSorted(g) ==
    /\ At(g, "U1")
    /\ Goto(g, IF unitCache["u"].sorted = "nil" THEN "U2" ELSE "U3")
    /\ UNCHANGED loc /\ UNCHANGED unitCache /\ UnitFrame
UpdWriteSorted(g) ==
    /\ At(g, "U2")
    /\ unitCache' = [unitCache EXCEPT !["u"].sorted = SortedBuilt]
    /\ Goto(g, "U3") /\ UNCHANGED loc /\ UnitFrame
\* compile; u.reCache = regexp.MustCompile(...)
UpdWriteRe(g) ==
    /\ At(g, "U3")
    /\ unitCache' = [unitCache EXCEPT !["u"].re = "built"]
    /\ Goto(g, "U4") /\ UNCHANGED loc /\ UnitFrame
\* u.reSubExpNames = map[string]int{}
UpdWriteNames(g) ==
    /\ At(g, "U4")
    /\ unitCache' = [unitCache EXCEPT !["u"].names = "empty"]
    /\ Goto(g, "U5") /\ UNCHANGED loc /\ UnitFrame
\* for ... u.reSubExpNames[name] = i    (the map writes, taken as one step)
UpdFillNames(g) ==
    /\ At(g, "U5")
    /\ unitCache' = [unitCache EXCEPT !["u"].names = "full"]
    /\ Goto(g, "P3") /\ UNCHANGED loc /\ UnitFrame
\* match, then getSortedMultipliersCache again
ParseReadSorted(g) ==
    /\ At(g, "P3")
    /\ Goto(g, IF unitCache["u"].sorted = "nil" THEN "P3w" ELSE "P4")
    /\ UNCHANGED loc /\ UNCHANGED unitCache /\ UnitFrame
ParseWriteSorted(g) ==
    /\ At(g, "P3w")
    /\ unitCache' = [unitCache EXCEPT !["u"].sorted = SortedBuilt]
    /\ Goto(g, "P4") /\ UNCHANGED loc /\ UnitFrame
\* u.reSubExpNames[...]: the field, then the map it points to
ParseReadNames(g) ==
    /\ At(g, "P4")
    /\ SetLoc(g, "names", unitCache["u"].names)
    /\ Goto(g, "P5") /\ UNCHANGED unitCache /\ UnitFrame
\* the text of the argument as the memo sees it ("none": the expression does not match, nothing is remembered)
MemoText(tok) == CASE tok = "str_ok" -> "ok" [] tok \in {"str_over", "list_over"} -> "over" [] OTHER -> "none"
ParseLookup(g) ==
    /\ At(g, "P5")
    \* a nil or still empty name table yields group 0 - the whole match - for every unit: the number is
    \* parsed from the wrong text
    /\ LET seen == IF loc[g].names = "nil" THEN "nil" ELSE unitCache["u"].names
           good == seen = "full"
           want == CHOOSE r \in PureSet(inst, cur[g].op, cur[g].arg) : TRUE
           plain == IF good \/ ~want.ok THEN want ELSE Res(FALSE, Empty, -1)
           text == MemoText(cur[g].arg.tok)
           memo == unitCache["u"]
       IN IF ~StaleMemo THEN SetLoc(g, "res", plain) /\ UNCHANGED unitCache
          ELSE IF text # "none" /\ memo.memoVal # "none" /\ memo.memoText = text
          THEN \* DEVIATION: the remembered value is returned for the remembered text
               SetLoc(g, "res", Res(TRUE, Empty, 5)) /\ UNCHANGED unitCache
          ELSE /\ SetLoc(g, "res", plain)
               \* the text is stored as soon as the expression matches, the value only when the quantity fits
               /\ unitCache' = [unitCache EXCEPT !["u"].memoText = IF text # "none" THEN text ELSE @,
                                                 !["u"].memoVal = IF text # "none" /\ plain.ok THEN "ok" ELSE @]
    /\ Goto(g, IF LazyUnsync THEN "ret" ELSE "PU") /\ UnitFrame

\* ------------------------------------------------------------------ units: format (units.go 230-241)
FmtReadSorted(g) ==
    /\ At(g, "F1")
    /\ Goto(g, IF unitCache["u"].sorted = "nil" THEN "F2" ELSE "F3")
    /\ UNCHANGED loc /\ UNCHANGED unitCache /\ UnitFrame
FmtWriteSorted(g) ==
    /\ At(g, "F2")
    /\ unitCache' = [unitCache EXCEPT !["u"].sorted = SortedBuilt]
    /\ Goto(g, "F3") /\ UNCHANGED loc /\ UnitFrame
FmtDone(g) ==
    /\ At(g, "F3")
    /\ SetLoc(g, "res", CHOOSE r \in PureSet(inst, cur[g].op, cur[g].arg) : TRUE)
    /\ Goto(g, IF LazyUnsync THEN "ret" ELSE "FU") /\ UNCHANGED unitCache /\ UnitFrame

\* ------------------------------------------------------------------ objects: GetDefaults (object.go 69-74)
ObjFrame == UNCHANGED <<inst, phase, link, unitCache, table, initCount, scratch, mutex, descr, argmem, cur, ncalls, hist>>
FieldRead(g, label, o, ifNil, ifSet) ==
    /\ At(g, label)
    /\ Goto(g, IF defaultsCache[o].st = "unbuilt" THEN ifNil ELSE ifSet)
    /\ UNCHANGED <<defaultsCache, cell, loc>> /\ ObjFrame
Decode(g, label, to) ==              \* extractObjectDefaultValues into a private map
    /\ At(g, label) /\ Goto(g, to)
    /\ UNCHANGED <<defaultsCache, cell, loc>> /\ ObjFrame
Publish(g, label, o, to) ==          \* o.defaultValues = ...   (a fresh decode: the cell holds the declared default)
    /\ At(g, label)
    /\ defaultsCache' = [defaultsCache EXCEPT ![o] = Built(Decoded(K, o))]
    /\ cell' = IF o = "root" THEN Restrict(DeclRoot(K), SubPaths) ELSE cell
    /\ Goto(g, to) /\ UNCHANGED loc /\ ObjFrame

\* after GetDefaults of the root: absent top-level properties take their defaults from the cache
AfterRoot == IF HasSub(K) THEN "S0" ELSE "R1"
AfterRootLabel == IF LazyUnsync THEN AfterRoot ELSE "DU"

TopFill(g) ==                        \* R1: map-based / no sub-object: result from the argument and the cache
    /\ At(g, "R1")
    /\ LET top == FillFrom(Restrict(cur[g].arg.m, {"n", "t"}), Restrict(defaultsCache["root"].m, {"n", "t"}))
       IN SetLoc(g, "res", Res(TRUE, MergeOver(top, loc[g].priv), 0))
    /\ Goto(g, "ret") /\ UNCHANGED <<defaultsCache, cell>> /\ ObjFrame

\* ------------------------------------------------------------------ objects: the by-value sub-object s
\* S0: resolve the reference (property.Type().(Ref).GetObject()): reads the link
SubResolve(g) ==
    /\ At(g, "S0")
    /\ link["s"] = "inner"
    /\ Goto(g, IF SPresent(g) THEN (IF LazyUnsync THEN "I1" ELSE "IL") ELSE "S1")
    /\ UNCHANGED <<defaultsCache, cell, loc>> /\ ObjFrame
\* S1: rawData[s] = defaults[s]: under AliasDefaults the MAP ITSELF (no local copy is taken), else a deep copy
SubTakeDefault(g) ==
    /\ At(g, "S1")
    /\ SetLoc(g, "priv", IF AliasDefaults THEN Empty ELSE cell)
    /\ Goto(g, IF LazyUnsync THEN "I1" ELSE "IL")
    /\ UNCHANGED <<defaultsCache, cell>> /\ ObjFrame
\* after GetDefaults of the member
AfterInner(g) == IF SPresent(g) THEN "S5" ELSE IF StructMapped(inst) THEN "S3a" ELSE "S5"
\* S3a / S3b: applySubObjectDefaultValues: for k, v := range subObjectDefaults { data[k] = v }
Propagated(old, p) ==
    LET d == defaultsCache["inner"].m[p] IN
    IF SubOverride \/ old[p] = Absent THEN [old EXCEPT ![p] = d] ELSE old
SubPropagate(g, label, p, to) ==
    /\ At(g, label)
    /\ IF AliasDefaults
       THEN cell' = Propagated(cell, p) /\ UNCHANGED loc        \* DEVIATION: map write into the shared default
       ELSE SetLoc(g, "priv", Propagated(loc[g].priv, p)) /\ UNCHANGED cell
    /\ Goto(g, to) /\ UNCHANGED defaultsCache /\ ObjFrame
\* S4: the member is unserialised from the raw data (reads the shared map under AliasDefaults)
SubRead(g) ==
    /\ At(g, "S4")
    /\ SetLoc(g, "priv", IF AliasDefaults THEN cell ELSE loc[g].priv)
    /\ Goto(g, "R1") /\ UNCHANGED <<defaultsCache, cell>> /\ ObjFrame
\* S5: member unserialised by its own Unserialize: its defaults fill what is open (map-based member, or s given)
SubOwn(g) ==
    /\ At(g, "S5")
    /\ LET base == IF SPresent(g) THEN Restrict(cur[g].arg.m, SubPaths)
                   ELSE IF AliasDefaults THEN cell ELSE loc[g].priv
       IN SetLoc(g, "priv", FillFrom(base, defaultsCache["inner"].m))
    /\ Goto(g, "R1") /\ UNCHANGED <<defaultsCache, cell>> /\ ObjFrame

\* ------------------------------------------------------------------ one-of: strip the discriminator
OneOfFrame == UNCHANGED <<inst, phase, link, defaultsCache, cell, unitCache, table, initCount, scratch, mutex, descr, cur,
                          ncalls, hist>>
\* O0: the member is selected by the discriminator found in the value (path "t" of the caller's map)
OneOfSelect(g) ==
    /\ At(g, "O0")
    /\ IF argmem[Cell(g)]["t"] = Absent
       THEN SetLoc(g, "res", Res(FALSE, Empty, 0)) /\ Goto(g, "ret")      \* "discriminator field missing"
       ELSE UNCHANGED loc /\ Goto(g, "O1")
    /\ UNCHANGED argmem /\ OneOfFrame
\* O1: the member does not know the discriminator: the design the property demands hands it a clone without it
OneOfStrip(g) ==
    /\ At(g, "O1")
    /\ argmem' = IF Hiding(g) THEN [argmem EXCEPT ![Cell(g)]["t"] = Absent] ELSE argmem
    /\ SetLoc(g, "res", CHOOSE r \in PureSet(inst, cur[g].op, cur[g].arg) : TRUE)
    /\ Goto(g, "O2")
    /\ OneOfFrame
\* O2: the member has judged the value
OneOfMemberDone(g) ==
    /\ At(g, "O2")
    /\ argmem' = IF (StripRestore /\ loc[g].res.ok) \/ (HideRestore /\ OnCallersMap(g) /\ ~StripInPlace /\ ~StripRestore)
                 THEN [argmem EXCEPT ![Cell(g)]["t"] = cur[g].arg.m["t"]] ELSE argmem
    /\ Goto(g, "ret")
    /\ UNCHANGED loc /\ OneOfFrame

\* ------------------------------------------------------------------ per-call scratch: shorthand guard, comparison guard
ScratchFrame == UNCHANGED <<inst, phase, link, defaultsCache, cell, unitCache, table, initCount, mutex, descr, argmem,
                            cur, ncalls, hist>>
\* the set the call works on: its own, or - under the deviation - the shared one
Mine(g, shared) == IF shared THEN scratch ELSE loc[g].marks
\* next local record L, next set S
Put(g, shared, L, S) ==
    IF shared THEN scratch' = S /\ loc' = [loc EXCEPT ![g] = L]
    ELSE scratch' = scratch /\ loc' = [loc EXCEPT ![g] = [L EXCEPT !.marks = S]]

\* the error for the use of a disabled property travels up through the enclosing objects; each adds its segment
\* (scratch holds the segments of the shared error value under the deviation: one number per segment)
ErrSegment(g, label, to, last) ==
    /\ At(g, label)
    /\ LET L == loc[g]
           S == Mine(g, SharedError) \cup {Cardinality(Mine(g, SharedError)) + 1}
       IN Put(g, SharedError, IF last THEN [L EXCEPT !.res = Res(FALSE, Empty, Cardinality(S))] ELSE L, S)
    /\ Goto(g, to) /\ ScratchFrame

\* isEmptyValue with a cache on the (shared) property: scratch holds the cached value "v.<type>" and the cached
\* field type "t.<type>"
MyType(g) == IF cur[g].arg.tok = "empty_a" THEN "string" ELSE "label"
EmptyRead(g) ==
    /\ At(g, "X1")
    /\ Goto(g, IF ("t." \o MyType(g)) \in scratch THEN "X4" ELSE "X2")
    /\ UNCHANGED <<scratch, loc>> /\ ScratchFrame
EmptyWriteValue(g) ==
    /\ At(g, "X2")
    /\ scratch' = (scratch \ {"v.string", "v.label"}) \cup {"v." \o MyType(g)}
    /\ Goto(g, "X3") /\ UNCHANGED loc /\ ScratchFrame
EmptyWriteType(g) ==
    /\ At(g, "X3")
    /\ scratch' = (scratch \ {"t.string", "t.label"}) \cup {"t." \o MyType(g)}
    /\ Goto(g, "X4") /\ UNCHANGED loc /\ ScratchFrame
\* the field equals the cached empty value only if that was built for this field type: else the empty field counts
\* as set and its constraint (at least one character) refuses it
EmptyCompare(g) ==
    /\ At(g, "X4")
    /\ SetLoc(g, "res", IF ("v." \o MyType(g)) \in scratch THEN Res(TRUE, Empty, 0) ELSE Res(FALSE, Empty, 0))
    /\ Goto(g, "ret") /\ UNCHANGED scratch /\ ScratchFrame

\* inlineShorthandTerminates, started at level lvl: is the object at pos already on the walk?
WalkRead(g) ==
    /\ At(g, "W1")
    /\ LET L == loc[g] IN
       IF Lv[L.pos] \in Mine(g, SharedMarks)
       THEN Put(g, SharedMarks, [L EXCEPT !.term = FALSE, !.pos = L.lvl], Mine(g, SharedMarks)) /\ Goto(g, "W3")
       ELSE Put(g, SharedMarks, L, Mine(g, SharedMarks)) /\ Goto(g, "W2")
    /\ ScratchFrame
\* mark it and go on to the object of its only property
WalkMark(g) ==
    /\ At(g, "W2")
    /\ LET L == loc[g]
           S == Mine(g, SharedMarks) \cup {Lv[L.pos]}
       IN IF L.pos = Depth
          THEN Put(g, SharedMarks, [L EXCEPT !.pos = L.lvl], S) /\ Goto(g, "W3")
          ELSE Put(g, SharedMarks, [L EXCEPT !.pos = L.pos + 1], S) /\ Goto(g, "W1")
    /\ ScratchFrame
\* second pass: take the marks off, from lvl on while marked
WalkClear(g) ==
    /\ At(g, "W3")
    /\ LET L == loc[g] IN
       IF L.pos <= Depth /\ Lv[L.pos] \in Mine(g, SharedMarks)
       THEN Put(g, SharedMarks, [L EXCEPT !.pos = L.pos + 1], Mine(g, SharedMarks) \ {Lv[L.pos]}) /\ Goto(g, "W3")
       ELSE Put(g, SharedMarks, L, Mine(g, SharedMarks)) /\ Goto(g, "W4")
    /\ ScratchFrame
\* "leads back into itself": the value is refused; else the value goes to the next level, which guards again
WalkDone(g) ==
    /\ At(g, "W4")
    /\ LET L == loc[g]
           want == CHOOSE r \in PureSet(inst, cur[g].op, cur[g].arg) : TRUE
       IN CASE ~L.term -> SetLoc(g, "res", Res(FALSE, Empty, 0)) /\ Goto(g, "ret")
            [] L.term /\ L.lvl = Depth -> SetLoc(g, "res", want) /\ Goto(g, "ret")
            [] OTHER -> loc' = [loc EXCEPT ![g] = [L EXCEPT !.lvl = L.lvl + 1, !.pos = L.lvl + 1]] /\ Goto(g, "W1")
    /\ UNCHANGED scratch /\ ScratchFrame

\* schema-vs-schema compatibility of objects, with a guard against comparing a pair that is already being compared
CmpBegin(g, label, pair, ifNew, ifUnderWay) ==
    /\ At(g, label)
    /\ LET L == loc[g] IN
       IF pair \in Mine(g, SharedInProgress)
       THEN Put(g, SharedInProgress, L, Mine(g, SharedInProgress)) /\ Goto(g, ifUnderWay)
       ELSE Put(g, SharedInProgress, L, Mine(g, SharedInProgress) \cup {pair}) /\ Goto(g, ifNew)
    /\ ScratchFrame
\* the root pair is under way (in ANOTHER call, under the deviation): "compatible" is returned at once
CmpRootUnderWay(g) ==
    /\ At(g, "Q1x")
    /\ SetLoc(g, "res", Res(TRUE, Empty, 0)) /\ Goto(g, "ret")
    /\ UNCHANGED scratch /\ ScratchFrame
\* the nested pair decides: count against count
CmpLeaf(g) ==
    /\ At(g, "Q3")
    /\ Put(g, SharedInProgress, [loc[g] EXCEPT !.term = (cur[g].arg.tok = "same")],
           Mine(g, SharedInProgress) \ {"pair.lim"})
    /\ Goto(g, "Q4") /\ ScratchFrame
CmpEnd(g) ==
    /\ At(g, "Q4")
    /\ LET L == loc[g] IN
       Put(g, SharedInProgress, [L EXCEPT !.res = IF L.term THEN Res(TRUE, Empty, 0) ELSE Res(FALSE, Empty, 0)],
           Mine(g, SharedInProgress) \ {"pair.root"})
    /\ Goto(g, "ret") /\ ScratchFrame

\* ------------------------------------------------------------------ nested sub-object defaults ("objnest")
\* N2: limits was left out of the argument of the struct-mapped root: applySubObjectDefaultValues assembles it
\* from mid's defaults and, recursively, from the defaults of mid's own sub-objects
NestPropagate(g) ==
    /\ At(g, "N2")
    \* DEVIATION: assembled on mid's shared decoded-defaults map instead of a fresh one
    /\ cell' = IF AliasDefaults THEN Restrict(LeafDefaults, SubPaths) ELSE cell
    /\ SetLoc(g, "res", Res(TRUE, MergeOver(Restrict(cur[g].arg.m, {"n"}), MidUnser(Empty, LeafDefaults)), 0))
    /\ Goto(g, "ret") /\ UNCHANGED defaultsCache /\ ObjFrame
\* N3: limits was given (or mid is called on its own): mid fills what is left out from ITS defaults
NestMid(g) ==
    /\ At(g, "N3")
    /\ LET top == IF cur[g].op = "unsermid" THEN Empty ELSE Restrict(cur[g].arg.m, {"n"})
       IN SetLoc(g, "res", Res(TRUE, MergeOver(top, MidUnser(cur[g].arg.m, cell)), 0))
    /\ Goto(g, "ret") /\ UNCHANGED <<defaultsCache, cell>> /\ ObjFrame

\* the message "required because none of ... are set" is built when d and all its alternatives are left out (and
\* no field is out of range first): under the deviation the schema's own list is sorted for it
AfterRuleMessage(m) ==
    IF SortInPlace /\ ~(m["sa"] # Absent /\ m["sa"] > CMax) /\ ~DNotMissing(PresentIn(m))
    THEN [descr EXCEPT !.rules = "sorted"] ELSE descr

\* ------------------------------------------------------------------ struct-mapped object: validateStruct
\* The set of present fields is collected in a scratch map, then the interdependency rules are judged on it.
\* A field that violates its own constraint ends the loop early.
ValidateStruct(g) ==
    /\ At(g, "V1")
    /\ LET m == cur[g].arg.m
           got == IF DirtyScratch THEN scratch ELSE {}              \* what the handed-out map still holds
           fieldBad == m["sa"] # Absent /\ m["sa"] > CMax
       IN IF fieldBad
          THEN /\ SetLoc(g, "res", Res(FALSE, Empty, 0))
               \* early return: the fields collected before the offending one stay in the recycled map
               /\ \E S \in SUBSET (PresentIn(m) \ {"sa"}) :
                     scratch' = IF DirtyScratch THEN got \cup S ELSE {}
          ELSE /\ SetLoc(g, "res", IF DepVerdict(got \cup PresentIn(m), m) THEN Res(TRUE, m, 0) ELSE Res(FALSE, Empty, 0))
               /\ scratch' = {}
    /\ descr' = AfterRuleMessage(cur[g].arg.m)
    /\ Goto(g, "ret")
    /\ UNCHANGED <<inst, phase, link, defaultsCache, cell, unitCache, table, initCount, mutex, argmem, cur,
                   ncalls, hist>>
\* Unserialize (and the map forms of a rebuilt schema): the rules are judged on a fresh map
DepMap(g) ==
    /\ At(g, "V0")
    /\ SetLoc(g, "res", CHOOSE r \in PureSet(inst, cur[g].op, cur[g].arg) : TRUE)
    /\ descr' = AfterRuleMessage(cur[g].arg.m)
    /\ Goto(g, "ret")
    /\ UNCHANGED <<inst, phase, link, defaultsCache, cell, unitCache, table, initCount, scratch, mutex, argmem, cur,
                   ncalls, hist>>

\* ------------------------------------------------------------------ any schema: lists
\* path n of the caller's value stands for an item in a non-canonical representation (int, uint8, float32, ...)
AnyConvert(g) ==
    /\ At(g, "A1")
    \* DEVIATION: the converted item is written back into the caller's slice - also when a later item is refused
    /\ argmem' = IF cur[g].arg.m["n"] # Absent
                    /\ ((K = "anylist" /\ ConvertInPlace)
                        \/ (K = "listarg" /\ ReuseInputContainer /\ cur[g].arg.tok # "other_type"))
                 THEN [argmem EXCEPT ![Cell(g)]["n"] = 2] ELSE argmem
    /\ SetLoc(g, "res", CHOOSE r \in PureSet(inst, cur[g].op, cur[g].arg) : TRUE)
    /\ Goto(g, "ret")
    /\ UNCHANGED <<inst, phase, link, defaultsCache, cell, unitCache, table, initCount, scratch, mutex, descr, cur, ncalls, hist>>

\* ------------------------------------------------------------------ callable step: setupStepData (step.go 200-223)
StepFrame == UNCHANGED <<inst, phase, link, defaultsCache, cell, unitCache, scratch, mutex, descr, argmem, cur, ncalls, hist>>
RunOf(g) == cur[g].arg.tok
StepLookup(g) ==
    /\ At(g, "L1")
    /\ Goto(g, IF table[RunOf(g)] = "absent" THEN "L2" ELSE "L3")
    /\ UNCHANGED <<table, initCount, loc>> /\ StepFrame
StepInit(g) ==                        \* initializer(); s.stepData[runID] = ...
    /\ At(g, "L2")
    /\ initCount' = [initCount EXCEPT ![RunOf(g)] = @ + 1]
    /\ table' = [table EXCEPT ![RunOf(g)] = "init"]
    /\ Goto(g, "L3") /\ UNCHANGED loc /\ StepFrame
StepDone(g) ==
    /\ At(g, "L3")
    /\ SetLoc(g, "res", Res(TRUE, Empty, initCount[RunOf(g)]))
    /\ Goto(g, IF NoStepMutex THEN "ret" ELSE "L4")
    /\ UNCHANGED <<table, initCount>> /\ StepFrame
\* DEVIATION (steps without signal handlers): after the handler, the run's entry is deleted - no lock is held
AfterUnlock == IF ReleaseOutsideLock /\ inst.origin = "plain" THEN "L5" ELSE "ret"
StepRelease(g) ==
    /\ At(g, "L5")
    /\ table' = [table EXCEPT ![RunOf(g)] = "absent"]
    /\ Goto(g, "ret") /\ UNCHANGED <<initCount, loc>> /\ StepFrame

\* ------------------------------------------------------------------ next-state relation
Step(g) ==
    \/ Start(g) \/ Compute(g) \/ Return(g) \/ MemoRead(g) \/ MemoWrite(g)
    \* units, unsynchronised or under the repaired design's lock
    \/ Acquire(g, "PL", "unit", "P1") \/ Release(g, "PU", "unit", "ret")
    \/ Acquire(g, "FL", "unit", "F1") \/ Release(g, "FU", "unit", "ret")
    \/ ParseReadRe(g) \/ UpdReadSorted(g) \/ UpdWriteSorted(g) \/ UpdWriteRe(g) \/ UpdWriteNames(g)
    \/ UpdFillNames(g) \/ ParseReadSorted(g) \/ ParseWriteSorted(g) \/ ParseReadNames(g) \/ ParseLookup(g)
    \/ FmtReadSorted(g) \/ FmtWriteSorted(g) \/ FmtDone(g)
    \* objects
    \/ Acquire(g, "DL", "root", "D1") \/ Release(g, "DU", "root", AfterRoot)
    \/ FieldRead(g, "D1", "root", "D2", AfterRootLabel) \/ Decode(g, "D2", "D3")
    \/ Publish(g, "D3", "root", AfterRootLabel)
    \/ Acquire(g, "IL", "inner", "I1") \/ Release(g, "IU", "inner", AfterInner(g))
    \/ FieldRead(g, "I1", "inner", "I2", IF LazyUnsync THEN AfterInner(g) ELSE "IU") \/ Decode(g, "I2", "I3")
    \/ Publish(g, "I3", "inner", IF LazyUnsync THEN AfterInner(g) ELSE "IU")
    \/ TopFill(g) \/ SubResolve(g) \/ SubTakeDefault(g)
    \/ SubPropagate(g, "S3a", "sa", "S3b") \/ SubPropagate(g, "S3b", "sb", "S4") \/ SubRead(g) \/ SubOwn(g)
    \* one-of, struct validation, steps
    \/ OneOfSelect(g) \/ OneOfStrip(g) \/ OneOfMemberDone(g) \/ ValidateStruct(g) \/ DepMap(g) \/ AnyConvert(g) \/ NestPropagate(g) \/ NestMid(g)
    \/ ErrSegment(g, "E1", "E2", FALSE) \/ ErrSegment(g, "E2", "ret", TRUE)
    \/ EmptyRead(g) \/ EmptyWriteValue(g) \/ EmptyWriteType(g) \/ EmptyCompare(g)
    \/ WalkRead(g) \/ WalkMark(g) \/ WalkClear(g) \/ WalkDone(g)
    \/ CmpBegin(g, "Q1", "pair.root", "Q2", "Q1x") \/ CmpRootUnderWay(g)
    \/ CmpBegin(g, "Q2", "pair.lim", "Q3", "Q4") \/ CmpLeaf(g) \/ CmpEnd(g)
    \/ Acquire(g, "L0", "step", "L1") \/ Release(g, "L4", "step", AfterUnlock) \/ StepRelease(g)
    \/ StepLookup(g) \/ StepInit(g) \/ StepDone(g)

Next == Build \/ \E g \in G : Step(g)
Spec == Init /\ [][Next]_vars

\* ------------------------------------------------------------------ properties
\* C12
HistoryFree == \A i \in DOMAIN hist : hist[i].res \in PureSet(inst, hist[i].op, hist[i].arg)
Deterministic ==
    \A i \in DOMAIN hist : \A j \in DOMAIN hist :
        (hist[i].op = hist[j].op /\ hist[i].arg = hist[j].arg) => hist[i].res = hist[j].res
CacheIntegrity ==
    /\ \A o \in Objs : defaultsCache[o].st = "built" => defaultsCache[o].m = Decoded(K, o)
    /\ cell = Restrict(DeclRoot(K), SubPaths)
DescribeUnchanged == descr = Describe(inst)
ArgumentPreserved == \A i \in DOMAIN hist : hist[i].argAfter = hist[i].arg.m
\* the caller's value is read-only while a call is in progress
InputStable == \A g \in G : pc[g] # "idle" => argmem[Cell(g)] = cur[g].arg.m
\* C13
NoRace == ~Race
InitOnce == \A r \in Runs : initCount[r] <= 1
Isolated == HistoryFree /\ InitOnce

TypeOK ==
    /\ phase \in {"build", "serve"}
    /\ \A g \in G : ncalls[g] \in 0..MaxCalls
    /\ \A l \in DOMAIN mutex : mutex[l] \in G \cup {0}
=============================================================================
