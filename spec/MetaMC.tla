------------------------------- MODULE MetaMC -------------------------------
(***************************************************************************)
(* C09 / C10: the universes, the mutation operators on description trees,   *)
(* the load state machine (accept -> link -> first use as separate          *)
(* actions) and the vector export.                                          *)
(*                                                                          *)
(*   Mode = "c09": every state with st = "desc" is one generated scope or   *)
(*       plugin schema together with its description; invariants            *)
(*       Describable0, FixedPoint0, SameBehaviour0, MinimalSame.            *)
(*   Mode = "c10": Init picks a valid description of the C09 universe or a  *)
(*       grammar-free tree, Mutate applies up to MaxMut structural          *)
(*       mutations, then Accept / Link / Use step through the load;         *)
(*       invariant AcceptedImpliesUsable0.                                  *)
(***************************************************************************)
EXTENDS Meta, Export, TLCExt
\* TLC orders record fields by first occurrence in the root module: tags first.
FieldOrder == [kind |-> 0, k |-> 0, mt |-> 0, some |-> 0, op |-> 0, mode |-> 0, name |-> 0, key |-> 0, m |-> 0,
               tok |-> 0, id |-> 0, stage |-> 0, v |-> 0, rep |-> 0, val |-> 0]

CONSTANTS Mode,     \* "c09" | "c10"
          Tier,     \* "quick" | "thorough"
          MaxMut    \* number of mutations applied in a row (c10)

VARIABLES src,      \* the AST the description was generated from ([kind |-> "none"] for grammar-free trees)
          tgt,      \* "scope" | "schema": the entry point the description is handed to
          d,        \* the description tree
          st,       \* "desc" | "accepted" | "linked" | "returned" | "rejected" | "bind"
          n,        \* mutations applied so far
          lab,      \* their classes
          pp        \* the node picked for the next mutation (NoPick: none).  Picking is a step of its own only
                    \* so that TLC spreads the mutants of one description over its workers.
vars == <<src, tgt, d, st, n, lab, pp>>
NoPick == <<Nil>>

(* ------------------------------------------------------------------------ *)
(* the C09 universe                                                         *)
(* ------------------------------------------------------------------------ *)
Dn   == Disp(Some("Nm"), None, None)
Dall == Disp(Some("Nm"), Some("Ds"), Some("Ic"))
U1 == Units(Unit("u", "us", "ul", "uls"), {[m |-> 1024, unit |-> Unit("ku", "ku", "kul", "kuls")]})
U0 == Units(Unit("u", "u", "u", "u"), {})

TInt0 == TInt(None, None, None)
TStr0 == TString(None, None, None)
P(name, t) == Prop(name, t, None, FALSE, <<>>, <<>>, <<>>, None, <<>>, FALSE, None, FALSE)

IntTypes    == {TInt(mn, mx, u) : mn \in {None, Some(-2), Some(0), Some(1)}, mx \in {None, Some(5)},
                                  u \in {None, Some(U1)}}
FloatTypes  == {TFloat(mn, mx, u) : mn \in {None, Some(-3), Some(2)}, mx \in {None, Some(9)}, u \in {None, Some(U0)}}
StringTypes == {TString(mn, mx, p) : mn \in {None, Some(0), Some(1)}, mx \in {None, Some(3)}, p \in {None, Some("^a")}}
EnumITypes  == {TEnumI(vs, u) : vs \in {{EV(N(1), Some(Dn))}, {EV(N(-1), Some(D0)), EV(N(2), Some(Dall))},
                                         {EV(N(1), None), EV(N(2), Some(Dn))}},
                                 u \in {None, Some(U1)}}
EnumSTypes  == {TEnumS(vs, ty) : vs \in {{EV(S("a"), Some(Dn))}, {EV(S("a"), Some(D0)), EV(S("b"), Some(Dall))},
                                          {EV(S("a"), None), EV(S("b"), Some(Dn))}},
                                  ty \in {FALSE, TRUE}}
\* numbers measured in the SDK's package-level unit sets (by identity)
PkgUnitTypes == {TInt(None, None, Some(PkgUnits(x))) : x \in PkgUnitNames}
                \cup {TInt(Some(0), Some(5), Some(PkgUnits("nanos"))), TInt(Some(1), None, Some(PkgUnits("bytes")))}
                \cup {TFloat(None, None, Some(PkgUnits(x))) : x \in {"nanos", "seconds", "pct"}}
                \cup {TEnumI({EV(N(1), Some(Dn)), EV(N(60), Some(D0))}, Some(PkgUnits("seconds")))}
Scalars == IntTypes \cup FloatTypes \cup StringTypes \cup {TBool, TPattern, TAny} \cup EnumITypes \cup EnumSTypes
           \cup PkgUnitTypes

RefB == TRef("B", "", None)
Bounds == {<<None, None>>, <<Some(0), Some(2)>>, <<Some(1), None>>}
ListTypes ==
    {TList(it, b[1], b[2], FALSE) : it \in {TStr0, TInt0, RefB, TList(TBool, None, None, FALSE)}, b \in Bounds}
    \cup {TList(TStr0, None, None, TRUE)}
KeyTypes == {TStr0, TInt0, TString(Some(1), Some(3), None), TInt(Some(0), None, None),
             TEnumS({EV(S("a"), Some(Dn))}, FALSE), TEnumI({EV(N(1), Some(Dn))}, None)}
MapTypes ==
    {TMap(ks, vs, b[1], b[2], FALSE) : ks \in KeyTypes, vs \in {TInt0, RefB}, b \in {<<None, None>>, <<Some(1), Some(2)>>}}
    \cup {TMap(TStr0, TAny, None, None, FALSE), TMap(TStr0, TInt0, None, None, TRUE)}
\* the objects a scope offers: B is referenced; for an inlined one-of it declares the discriminator field
ObjB(extra, unenf) == TObject("B", {P("n", TInt0)} \cup extra, unenf, "map")
ObjC(extra) == TObject("C", {P("c", TBool)} \cup extra, FALSE, "map")
DiscProp(disc) == [P("t", IF disc = "string" THEN TStr0 ELSE TInt0) EXCEPT !.required = TRUE]
RefD == TRef("D", "", Some(Dn))
InnerScope == TScope("C", {KO("C", TObject("C", {P("r", TRef("C", "", None)), P("d", RefD)}, FALSE, "map")),
                           KO("D", TObject("D", {P("s", TStr0)}, FALSE, "map"))})
OneOfs(disc, inl) ==
    LET k1 == IF disc = "string" THEN S("x") ELSE N(1)
        k2 == IF disc = "string" THEN S("y") ELSE N(2)
        ex == IF inl THEN {DiscProp(disc)} ELSE {}
    IN {TOneOf(disc, "t", inl, {Mem(k1, RefB)}),
        TOneOf(disc, "t", inl, {Mem(k1, RefB), Mem(k2, ObjC(ex))}),
        TOneOf(disc, "t", inl, {Mem(k1, TScope("C", {KO("C", ObjC(ex))}))}),
        TOneOf(disc, "t", inl, {})}
OneOfTypes == UNION {OneOfs(disc, inl) : disc \in {"string", "int"}, inl \in {FALSE, TRUE}}
RefTypes == {TRef("B", "", dd) : dd \in {None, Some(Dn), Some(D0)}}
            \cup {TRef("A", "", None), TRef("X", "ext", None), TRef("X", "ext", Some(Dall))}
Composite == ListTypes \cup MapTypes \cup OneOfTypes \cup RefTypes
             \cup {ObjC({}), ObjC({P("r", RefB)}), InnerScope}
PropTypes == Scalars \cup Composite

DefaultsFor(t) ==
    CASE t.kind \in {"int", "float", "enum_int", "any"} -> {"1"}
      [] t.kind = "string" -> {"\"ab\"", "ab"}
      [] t.kind = "bool"   -> {"true"}
      [] t.kind = "list"   -> {"[]"}
      \* (a default on a property that refers back to its own object expands for ever: not a usable schema)
      [] t.kind \in {"map", "object", "scope"} \/ (t.kind = "ref" /\ t.id # "A") -> {"{}"}
      [] OTHER -> {}
PropVariants(t) ==
    LET b == P("p", t) IN
    {b, [b EXCEPT !.required = TRUE], [b EXCEPT !.required_if = <<"q">>], [b EXCEPT !.required_if_not = <<"q">>],
     [b EXCEPT !.conflicts = <<"q">>], [b EXCEPT !.examples = <<"1", "x">>],
     [b EXCEPT !.disabled = TRUE, !.disabled_reason = Some("why")], [b EXCEPT !.disabled = TRUE],
     [b EXCEPT !.display = Some(Dn)], [b EXCEPT !.display = Some(Dall)], [b EXCEPT !.display = Some(D0)],
     [b EXCEPT !.required = TRUE, !.required_if = <<"q">>, !.conflicts = <<"n">>, !.display = Some(Dall),
               !.examples = <<"1">>]}
    \cup {[b EXCEPT !.default = Some(tok)] : tok \in DefaultsFor(t)}

NeedsDisc(t) == t.kind = "oneof" /\ t.inlined
BFor(t) == ObjB(IF NeedsDisc(t) THEN {DiscProp(t.disc)} ELSE {}, FALSE)
Scope1(p, b, lay, unenf) ==
    TScope("A", {KO("A", TObject("A", {p, P("q", TInt0)}, unenf, lay)), KO("B", b)})

\* struct-mapped root objects (layout names a struct type of the harness), unenforced IDs, empty-is-default
Layouts == {Scope1(P("p", TInt0), BFor(TInt0), "catPQ", FALSE),
            Scope1([P("p", TStr0) EXCEPT !.empty_is_default = TRUE], BFor(TInt0), "catPQ", FALSE),
            Scope1(P("p", RefB), ObjB({}, TRUE), "map", TRUE),
            TScope("B", {KO("B", ObjB({}, FALSE))})}

\* property names of every class of the partition (Meta!PropNameClass) the constructors and the meta-schema
\* admit; the name also occurs in the presence rules of its sibling and inside a nested inline object
NameScope(nm) ==
    TScope("A", {KO("A", TObject("A", {[P(nm, TInt(Some(0), Some(5), None)) EXCEPT !.display = Some(Dn)],
                                        [P("q", TInt0) EXCEPT !.required_if = <<nm>>],
                                        [P("z", TBool) EXCEPT !.conflicts = <<nm>>, !.required_if_not = <<nm, "q">>],
                                        P("o", TObject("I1", {P(nm, TStr0), P("k", TStr0)}, FALSE, "map"))},
                                  FALSE, "map"))})
NameScopes == {NameScope(nm) : nm \in {x \in PropNames : NameOK(x)}}

QuickProps == {t \in PropTypes :
                  \/ t.kind \in {"bool", "pattern", "any", "object", "scope", "ref", "oneof"}
                  \/ t \in PkgUnitTypes
                  \/ t.kind \in {"int", "float"} /\ (t.units.some <=> t.max.some)
                  \/ t.kind = "string" /\ (t.pattern.some <=> t.max.some)
                  \/ t.kind \in {"enum_int"} /\ ~t.units.some
                  \/ t.kind \in {"enum_string"}
                  \/ t.kind = "list" /\ (t.min.some => t.max.some)
                  \/ t.kind = "map" /\ ~t.min.some}
ScopeUniverse ==
    IF Tier = "quick"
    THEN {Scope1(P("p", t), BFor(t), "map", FALSE) : t \in QuickProps}
         \cup {Scope1(p, BFor(TInt0), "map", FALSE) : p \in PropVariants(TInt0) \cup PropVariants(TStr0)}
         \cup Layouts \cup NameScopes
    ELSE UNION {{Scope1(p, BFor(t), "map", FALSE) : p \in PropVariants(t)} : t \in PropTypes} \cup Layouts \cup NameScopes

\* plugin schemas
ScPlain == Scope1(P("p", TInt0), BFor(TInt0), "map", FALSE)
ScRef   == Scope1([P("p", RefB) EXCEPT !.default = Some("{}")], BFor(RefB), "map", FALSE)
ScOne   == LET t == TOneOf("string", "t", TRUE, {Mem(S("x"), RefB)}) IN Scope1(P("p", t), BFor(t), "map", FALSE)
ScRec   == Scope1(P("p", TList(TRef("A", "", None), None, None, FALSE)), BFor(TInt0), "map", FALSE)
ScRefD  == TScope("D", {KO("D", TObject("D", {[P("r", TRef("E", "", None)) EXCEPT !.required = TRUE], P("q", TInt0)}, FALSE, "map")),
                        KO("E", TObject("E", {P("s", TStr0), P("m", TList(TRef("E", "", None), None, Some(2), FALSE))}, FALSE, "map"))})
DataScopesU == IF Tier = "quick" THEN {ScPlain, ScRef} ELSE {ScPlain, ScRef, ScOne, ScRec}
OutSets(sc) == {{KV("ok", Out(sc, None, FALSE))},
                {KV("ok", Out(sc, Some(Dn), FALSE)), KV("err", Out(ScPlain, Some(Dall), TRUE))}}
SigSets(sc, id) == {{}, {KV(id, Sig(id, sc, None))}, {KV(id, Sig(id, sc, Some(Dn)))}}
Steps1(id) ==
    {Step(id, inp, outs, hs, es, dd) :
        inp \in DataScopesU, outs \in UNION {OutSets(sc) : sc \in DataScopesU},
        hs \in UNION {SigSets(sc, "h") : sc \in {ScRef}}, es \in UNION {SigSets(sc, "e") : sc \in {ScRef}},
        dd \in {None, Some(Dn)}}
StepsQ(id) == {s \in Steps1(id) : s.display.some <=> (s.emitters # {})}
SchemaUniverse ==
    LET one == {TSchema({KV("s1", s)}) : s \in IF Tier = "quick" THEN StepsQ("s1") ELSE Steps1("s1")}
        two == {TSchema({KV("s1", Step("s1", ScRef, {KV("ok", Out(ScOne, None, FALSE))}, {KV("h", Sig("h", ScRec, None))},
                                        {}, None)),
                          KV("s2", Step("s2", ScPlain, {KV("ok", Out(ScRef, None, FALSE))}, {},
                                        {KV("e", Sig("e", ScOne, Some(Dn)))}, Some(Dall)))}),
                 \* one signal ID on both sides of a step: handled and emitted, each with its own data scope and its
                 \* own references (the two must be linked, described and rebuilt independently)
                 TSchema({KV("s1", Step("s1", ScPlain, {KV("ok", Out(ScPlain, None, FALSE))},
                                        {KV("x", Sig("x", ScRef, None))}, {KV("x", Sig("x", ScRefD, Some(Dn)))}, None))}),
                 TSchema({KV("s1", Step("s1", ScRef, {KV("ok", Out(ScRefD, None, TRUE))},
                                        {KV("x", Sig("x", ScRefD, Some(Dn))), KV("h", Sig("h", ScRec, None))},
                                        {KV("x", Sig("x", ScRec, None)), KV("h", Sig("h", ScRef, None))}, Some(Dn)))}),
                 TSchema({})}
    IN one \cup two
\* schemas taken through the life cycle in the quick tier (thorough: all): a property of the root object, a
\* property of a referenced object, every data scope of a plugin schema
LifeBases == {ScPlain, Scope1(P("p", RefB), BFor(RefB), "map", FALSE), ScOne,
              TSchema({KV("s1", Step("s1", ScRef, {KV("ok", Out(ScPlain, None, FALSE))},
                                     {KV("x", Sig("x", ScRef, None))}, {KV("x", Sig("x", ScRefD, Some(Dn)))}, None))})}
Universe == ScopeUniverse \cup SchemaUniverse \cup LifeBases
LifeCycle(s) == Tier = "thorough" \/ s \in LifeBases

(* ------------------------------------------------------------------------ *)
(* life cycle of a built schema (C09): Build -> Describe -> change it in     *)
(* place through a PUBLIC builder -> Describe again -> Rebuild.  The         *)
(* builders the SDK exports on a built schema: PropertySchema.Disable        *)
(* (reason) and PropertySchema.TreatEmptyAsDefaultValue() (Go-side only:     *)
(* the description does not change).  Every description state - before and   *)
(* after a builder call - is held to the same properties.                    *)
(* ------------------------------------------------------------------------ *)
Bld(op, sc, obj, prop) == [op |-> op, scope |-> sc, obj |-> obj, prop |-> prop, reason |-> "why"]
ScopeBuilders(name, sc) ==
    UNION {{Bld("disable", name, x.key, p.name) : p \in {q \in x.obj.props : ~q.disabled}} : x \in sc.objects}
    \cup {Bld("treat_empty", name, x.key, p.name) :
             x \in {y \in sc.objects : y.key = sc.root}, p \in {q \in Lookup(sc.objects, sc.root).props : ~q.empty_is_default}}
BuildProp(p, b) == IF b.op = "disable" THEN [p EXCEPT !.disabled = TRUE, !.disabled_reason = Some(b.reason)]
                   ELSE [p EXCEPT !.empty_is_default = TRUE]
BuildScope(sc, b) ==
    [sc EXCEPT !.objects = {IF x.key = b.obj
                            THEN KO(x.key, [x.obj EXCEPT !.props = {IF p.name = b.prop THEN BuildProp(p, b) ELSE p : p \in @}])
                            ELSE x : x \in @}]
InName(k)      == "steps." \o k \o ".input"
OutName(k, o)  == "steps." \o k \o ".outputs." \o o
HName(k, g)    == "steps." \o k \o ".signal_handlers." \o g
EName(k, g)    == "steps." \o k \o ".signal_emitters." \o g
Builders(s) ==
    IF s.kind # "schema" THEN ScopeBuilders("scope", s)
    ELSE UNION {ScopeBuilders(InName(x.key), x.x.input)
                \cup UNION {ScopeBuilders(OutName(x.key, o.key), o.x.schema) : o \in x.x.outputs}
                \cup UNION {ScopeBuilders(HName(x.key, g.key), g.x.data) : g \in x.x.handlers}
                \cup UNION {ScopeBuilders(EName(x.key, g.key), g.x.data) : g \in x.x.emitters} : x \in s.steps}
BuildStep(k, stp, b) ==
    [stp EXCEPT !.input = IF b.scope = InName(k) THEN BuildScope(@, b) ELSE @,
               !.outputs = {KV(o.key, [o.x EXCEPT !.schema = IF b.scope = OutName(k, o.key) THEN BuildScope(@, b) ELSE @]) : o \in @},
               !.handlers = {KV(g.key, [g.x EXCEPT !.data = IF b.scope = HName(k, g.key) THEN BuildScope(@, b) ELSE @]) : g \in @},
               !.emitters = {KV(g.key, [g.x EXCEPT !.data = IF b.scope = EName(k, g.key) THEN BuildScope(@, b) ELSE @]) : g \in @}]
ApplyBuilder(s, b) ==
    IF s.kind # "schema" THEN BuildScope(s, b)
    ELSE TSchema({KV(x.key, BuildStep(x.key, x.x, b)) : x \in s.steps})

(* ------------------------------------------------------------------------ *)
(* minimal form: every field the meta-schema declares optional is omitted    *)
(* when it carries the default (or the empty value of a field without one)  *)
(* ------------------------------------------------------------------------ *)
RECURSIVE Minimal(_, _)
Droppable(f, x) ==
    \/ f.def.some /\ x = f.def.v
    \/ ~f.def.some /\ ~f.req /\ \/ f.type.mt = "bool" /\ x = B(FALSE)
                                \/ f.type.mt = "list" /\ x = L(<<>>)
                                \/ f.type.mt = "map" /\ x = M({})
FieldOf(o, name) == CHOOSE f \in Fields(o) : f.name = name
ObjMinimal(o, nn) ==
    M({E(e.key, Minimal(FieldOf(o, e.key.v).type, e.val)) :
          e \in {e2 \in nn.v : ~Droppable(FieldOf(o, e2.key.v), e2.val)}})
Minimal(t, nn) ==
    CASE t.mt = "list"  -> L([i \in DOMAIN nn.v |-> Minimal(t.mv, nn.v[i])])
      [] t.mt = "map"   -> M({E(e.key, Minimal(t.mv, e.val)) : e \in nn.v})
      [] t.mt = "obj"   -> (IF nn.k = "pkgunits" THEN nn ELSE ObjMinimal(t.mn, nn))
      [] t.mt = "oneof" -> LET tid == Get(nn, "type_id").v
                           IN M({E(S("type_id"), S(tid))} \cup ObjMinimal(Members(t.mn)[tid], Without(nn, "type_id")).v)
      [] OTHER -> nn
MinimalTop(target, nn) == Minimal(TopType(target), nn)

(* ------------------------------------------------------------------------ *)
(* structural mutations of description trees                                *)
(* ------------------------------------------------------------------------ *)
Sels(x)  == IF x.k = "map" THEN {e.key : e \in x.v} ELSE IF x.k = "list" THEN {N(i) : i \in DOMAIN x.v} ELSE {}
Child(x, sel) == IF x.k = "map" THEN (CHOOSE e \in x.v : e.key = sel).val ELSE x.v[sel.v]
RECURSIVE Paths(_)
Paths(x) == UNION {{<<sel>>} \cup {<<sel>> \o q : q \in Paths(Child(x, sel))} : sel \in Sels(x)}
RECURSIVE NodeAt(_, _)
NodeAt(x, p) == IF p = <<>> THEN x ELSE NodeAt(Child(x, p[1]), Tail(p))
Front(p) == SubSeq(p, 1, Len(p) - 1)
Last(p)  == p[Len(p)]
RECURSIVE Strs(_)
\* the strings in value position
Strs(x) == CASE x.k = "str"  -> {x.v}
             [] x.k = "map"  -> UNION {Strs(e.val) : e \in x.v}
             [] x.k = "list" -> UNION {Strs(x.v[i]) : i \in DOMAIN x.v}
             [] OTHER -> {}
RECURSIVE KeyStrs(_)
KeyStrs(x) == CASE x.k = "map"  -> {e.key.v : e \in {e2 \in x.v : e2.key.k = "str"}} \cup UNION {KeyStrs(e.val) : e \in x.v}
                [] x.k = "list" -> UNION {KeyStrs(x.v[i]) : i \in DOMAIN x.v}
                [] OTHER -> {}

RetypeAtoms == {Nil, B(TRUE), N(0), N(-1), F(3), S("x"), S(""), M({}), L(<<>>)}
FreshKeys(sel) == IF sel.k = "num" THEN {S("zz"), N(7), N(-5), N(-1), N(0)} ELSE {S("zz"), N(7)}
\* keys of a type no description uses, added beside the keys of a mapping: a float that is not a number (a map
\* never finds such a key again), an infinite float, an integer, a boolean, nil, a byte string.  (A list cannot
\* be a key of a decoded map.)
KSpecial(x) == [k |-> "fspecial", v |-> x]
KBytes(x)   == [k |-> "bytes", v |-> x]
ExtraKeys   == {KSpecial("nan"), KSpecial("+inf"), N(7), B(TRUE), Nil, KBytes("ab")}
Mu(op, p, arg) == [op |-> op, path |-> p, arg |-> arg]
MutsAt(x, p, pool) ==
    LET par == NodeAt(x, Front(p))
        sel == Last(p)
        c   == NodeAt(x, p)
    IN {Mu("delete", p, Nil)}
       \cup (IF par.k = "list" THEN {Mu("duplicate", p, Nil)}
             ELSE IF S("zz2") \in Sels(par) THEN {} ELSE {Mu("duplicate", p, S("zz2"))})
       \cup (IF par.k = "map" THEN {Mu("rename", p, a) : a \in FreshKeys(sel) \ Sels(par)} ELSE {})
       \cup {Mu("retype", p, a) : a \in RetypeAtoms \ {c}}
       \cup (IF c.k = "str" THEN {Mu("repoint", p, S(s)) : s \in pool \ {c.v}} ELSE {})
\* at every mapping node (the root included): one more entry under a key of a foreign type
ExtraAt(x, p) == LET nd == NodeAt(x, p) IN
                 IF nd.k = "map" THEN {Mu("extrakey", p, a) : a \in ExtraKeys \ Sels(nd)} ELSE {}
MutsOn(x, p) ==
    ExtraAt(x, p) \cup
    (IF p = <<>> THEN {Mu("retype", <<>>, a) : a \in RetypeAtoms \ {x}}
     ELSE MutsAt(x, p, Strs(x) \cup {"nowhere"}))

LocalEdit(x, sel, mu) ==
    IF x.k = "map"
    THEN CASE mu.op = "delete"    -> M({e \in x.v : e.key # sel})
           [] mu.op = "duplicate" -> M(x.v \cup {E(mu.arg, Child(x, sel))})
           [] mu.op = "rename"    -> M({IF e.key = sel THEN E(mu.arg, e.val) ELSE e : e \in x.v})
           [] OTHER               -> M({IF e.key = sel THEN E(e.key, mu.arg) ELSE e : e \in x.v})
    ELSE CASE mu.op = "delete"    -> L(SubSeq(x.v, 1, sel.v - 1) \o SubSeq(x.v, sel.v + 1, Len(x.v)))
           [] mu.op = "duplicate" -> L(Append(x.v, x.v[sel.v]))
           [] OTHER               -> L([x.v EXCEPT ![sel.v] = mu.arg])
RECURSIVE Edit(_, _, _)
Edit(x, p, mu) ==
    IF Len(p) = 1 THEN LocalEdit(x, p[1], mu)
    ELSE IF x.k = "map" THEN M({IF e.key = p[1] THEN E(e.key, Edit(e.val, Tail(p), mu)) ELSE e : e \in x.v})
    ELSE L([i \in DOMAIN x.v |-> IF i = p[1].v THEN Edit(x.v[i], Tail(p), mu) ELSE x.v[i]])
RECURSIVE AddKey(_, _, _)
AddKey(x, p, key) ==
    IF p = <<>> THEN M(x.v \cup {E(key, Nil)})
    ELSE IF x.k = "map" THEN M({IF e.key = p[1] THEN E(e.key, AddKey(e.val, Tail(p), key)) ELSE e : e \in x.v})
    ELSE L([i \in DOMAIN x.v |-> IF i = p[1].v THEN AddKey(x.v[i], Tail(p), key) ELSE x.v[i]])
Apply(x, mu) == IF mu.op = "extrakey" THEN AddKey(x, mu.path, mu.arg)
                ELSE IF mu.path = <<>> THEN mu.arg ELSE Edit(x, mu.path, mu)

(* ------------------------------------------------------------------------ *)
(* the C10 universe: valid descriptions using every feature, and            *)
(* grammar-free trees                                                       *)
(* ------------------------------------------------------------------------ *)
RichProp == [P("p", TList(RefB, Some(0), Some(2), FALSE)) EXCEPT
                !.display = Some(Dn), !.required_if = <<"q">>, !.default = Some("[]"), !.examples = <<"1">>]
BaseRich  == TScope("A", {KO("A", TObject("A", {RichProp,
                                                [P("q", TInt(Some(0), Some(5), Some(U0))) EXCEPT !.conflicts = <<"s">>],
                                                [P("s", TString(Some(1), None, Some("^a"))) EXCEPT
                                                    !.default = Some("ab"), !.disabled = TRUE, !.disabled_reason = Some("why")]},
                                          FALSE, "map")),
                          KO("B", ObjB({}, FALSE))})
BaseOne   == LET t == TOneOf("string", "t", TRUE, {Mem(S("x"), RefB)}) IN Scope1(P("p", t), BFor(t), "map", FALSE)
BaseOneI  == LET t == TOneOf("int", "t", FALSE, {Mem(N(1), RefB), Mem(N(2), ObjC({}))}) IN Scope1(P("p", t), BFor(t), "map", FALSE)
BaseEnum  == Scope1(P("p", TMap(TStr0, TEnumS({EV(S("a"), Some(Dn))}, FALSE), Some(1), None, FALSE)), BFor(TInt0), "map", FALSE)
BaseEnumI == Scope1(P("p", TEnumI({EV(N(1), Some(D0))}, Some(U1))), BFor(TInt0), "map", FALSE)
BaseInner == Scope1(P("p", InnerScope), BFor(TInt0), "map", FALSE)
BaseSmall == TScope("A", {KO("A", TObject("A", {P("p", TRef("A", "", None)), [P("q", TBool) EXCEPT !.default = Some("true")]},
                                           FALSE, "map"))})
BaseTiny  == TScope("A", {KO("A", TObject("A", {P("p", TStr0)}, FALSE, "map"))})
BaseFloat == Scope1(P("p", TFloat(Some(-3), Some(9), None)), BFor(TInt0), "map", FALSE)
\* (the step handles and emits a signal with the same ID; each side has its own data scope and reference)
\* Every data schema of the step - input, output, handled and emitted signal - carries presence rules
\* (required_if, required_if_not, conflicts): the names in those lists are free strings, and repointing one
\* of them yields a rule that names no property of its object.
BaseSmallB  == TScope("B", {KO("B", TObject("B", {P("r", TRef("B", "", None)),
                                                  [P("n", TInt0) EXCEPT !.conflicts = <<"r">>, !.display = Some(Dn)]}, FALSE, "map"))})
BaseSmallR  == TScope("A", {KO("A", TObject("A", {[P("p", TRef("A", "", None)) EXCEPT !.required_if_not = <<"q">>],
                                                  [P("q", TBool) EXCEPT !.default = Some("true"), !.required_if = <<"p">>]},
                                            FALSE, "map"))})
BaseOneR    == LET t == TOneOf("string", "t", TRUE, {Mem(S("x"), RefB)})
               IN TScope("A", {KO("A", TObject("A", {P("p", t), [P("q", TInt0) EXCEPT !.conflicts = <<"p">>]}, FALSE, "map")),
                               KO("B", BFor(t))})
BaseSchema  == TSchema({KV("s1", Step("s1", BaseSmallR, {KV("ok", Out(BaseOneR, Some(Dn), FALSE))},
                                      {KV("h", Sig("h", BaseSmallR, None))}, {KV("h", Sig("h", BaseSmallB, None))}, None))})
BaseSchemaS == TSchema({KV("s1", Step("s1", BaseTiny, {KV("ok", Out(BaseSmall, None, TRUE))}, {}, {}, Some(Dn)))})
\* units (with multipliers) on an integer, a float and an integer enum: the multiplier keys get mutated
BaseUnits == TScope("A", {KO("A", TObject("A", {P("i", TInt(Some(0), Some(5), Some(U1))),
                                                P("f", TFloat(Some(-3), Some(9), Some(U1))),
                                                P("e", TEnumI({EV(N(1), Some(D0))}, Some(U1)))}, FALSE, "map"))})
\* chains of single-property objects linked by references: a non-mapping value handed to the root travels
\* down the chain through the single-property shorthand; it must come back with an error or a value
Single(id, t) == KO(id, TObject(id, {P("p", t)}, FALSE, "map"))
RefTo(id) == TRef(id, "", None)
Chains == {TScope("A", {Single("A", RefTo("A"))}),                                              \* A -> A
           TScope("A", {Single("A", RefTo("B")), Single("B", RefTo("A"))}),                     \* A -> B -> A
           TScope("A", {Single("A", RefTo("B")), Single("B", RefTo("B"))}),                     \* A -> B -> B
           TScope("A", {Single("A", RefTo("B")), Single("B", RefTo("C")), Single("C", RefTo("B"))}),   \* A -> B -> C -> B
           TScope("A", {Single("A", RefTo("B")), Single("B", RefTo("C")), Single("C", TStr0)})}        \* A -> B -> C, ends
ChainSchema == TSchema({KV("s1", Step("s1", TScope("A", {Single("A", RefTo("B")), Single("B", RefTo("B"))}),
                                      {KV("ok", Out(TScope("A", {Single("A", RefTo("B")), Single("B", RefTo("C")), Single("C", RefTo("B"))}),
                                                    None, FALSE))}, {}, {}, None))})
\* objects declared INLINE - as a property type, a list item, a map value, a one-of member -, each with a
\* defaulted property: they are in no scope table, so whatever a loader does per table entry misses them
InlineObj(id, t, def) == TObject(id, {[P("d", t) EXCEPT !.default = Some(def)], P("k", TStr0)}, FALSE, "map")
BaseInline == TScope("A", {KO("A", TObject("A",
                  {P("o", InlineObj("I1", TInt0, "1")),
                   P("l", TList(InlineObj("I2", TStr0, "ab"), None, None, FALSE)),
                   P("m", TMap(TStr0, InlineObj("I3", TBool, "true"), None, None, FALSE)),
                   P("u", TOneOf("string", "t", FALSE, {Mem(S("x"), InlineObj("I4", TInt0, "5"))}))},
                  FALSE, "map"))})
\* a reference at every kind of position that can hold one - directly on an object: property, list item, map
\* value, one-of (string keys) member, one-of (INTEGER keys) member, property of an inline object; and below
\* containers - in the input of a plugin schema, which stands alone (a foreign namespace cannot be supplied)
\* (the positions below containers inside the inline object are mutated in the thorough tier only)
RefsBelow == IF Tier = "quick" THEN {}
             ELSE {P("c", TList(TOneOf("int", "t", FALSE, {Mem(N(1), RefB)}), None, None, FALSE)),
                   P("v", TMap(TStr0, TOneOf("string", "t", FALSE, {Mem(S("x"), RefB)}), None, None, FALSE))}
RefsObj == TObject("A", {P("d", RefB),
                         P("l", TList(RefB, None, None, FALSE)),
                         P("m", TMap(TStr0, RefB, None, None, FALSE)),
                         P("s", TOneOf("string", "t", FALSE, {Mem(S("x"), RefB)})),
                         P("i", TOneOf("int", "t", FALSE, {Mem(N(1), RefB)})),
                         P("o", TObject("I1", {P("r", RefB)} \cup RefsBelow, FALSE, "map"))}, FALSE, "map")
BaseRefs == TSchema({KV("s1", Step("s1", TScope("A", {KO("A", RefsObj), KO("B", ObjB({}, FALSE))}), {}, {}, {}, None))})
\* a NESTED scope at every kind of position - property type, list item, map value, one-of (string keys) member,
\* one-of (integer keys) member, and a scope nested in a nested scope - inside the input of a step, and one in
\* its output and in the data of a signal: every one of them has a root of its own that the mutations rename to
\* an absent ID, delete, empty and turn into an integer
NS(id, props) == TScope(id, {KO(id, TObject(id, props, FALSE, "map"))})
NestedObj == TObject("A", {P("p", NS("N1", {P("v", TInt0)})),
                           P("l", TList(NS("N2", {}), None, None, FALSE)),
                           P("m", TMap(TStr0, NS("N3", {}), None, None, FALSE)),
                           P("s", TOneOf("string", "t", FALSE, {Mem(S("x"), NS("N4", {}))})),
                           P("i", TOneOf("int", "t", FALSE, {Mem(N(1), NS("N5", {}))})),
                           P("d", NS("N6", {P("w", NS("N7", {}))}))}, FALSE, "map")
NestedSmall(id) == TScope("A", {KO("A", TObject("A", {P("p", NS(id, {}))}, FALSE, "map"))})
BaseNested == TSchema({KV("s1", Step("s1", TScope("A", {KO("A", NestedObj)}),
                                     {KV("ok", Out(NestedSmall("N8"), None, FALSE))},
                                     {KV("h", Sig("h", NestedSmall("N9"), None))}, {}, None))})
\* bases that are exercised as they are (quick tier: not mutated)
PlainBases == IF Tier = "quick" THEN Chains \cup {ChainSchema} ELSE {}
Bases == IF Tier = "quick" THEN {BaseRich, BaseOne, BaseSmall, BaseSchema, BaseUnits, BaseInline, BaseRefs, BaseNested}
         ELSE IF MaxMut = 1 THEN {BaseRich, BaseOne, BaseOneI, BaseEnum, BaseEnumI, BaseInner, BaseSmall, BaseTiny,
                                  BaseFloat, BaseSchema, BaseSchemaS, BaseUnits, BaseInline, BaseRefs, BaseNested, ChainSchema} \cup Chains
         ELSE {BaseSmall, BaseTiny, BaseSchemaS}

\* grammar-free trees: atoms, and one or two levels of containers under the keys the entry points look for
GFAtoms == {Nil, B(TRUE), N(0), N(-1), F(3), S("x"), S("A")}
GFKeys  == {S("root"), S("objects"), S("steps"), S("zz"), N(1)}
GF1 == GFAtoms \cup {M({}), L(<<>>)} \cup {L(<<a>>) : a \in GFAtoms} \cup {M({E(kk, a)}) : kk \in GFKeys, a \in GFAtoms}
GF2 == GF1 \cup {M({E(S("root"), a), E(S("objects"), b)}) : a \in {S("A"), N(0), Nil}, b \in GF1}
           \cup {M({E(S("steps"), b)}) : b \in GF1}
           \cup {M({E(S("steps"), M({E(S("A"), b)}))}) : b \in GF1}
GFTrees == IF Tier = "quick" THEN GF1 ELSE GF2
NoSrc == [kind |-> "none"]

(* ------------------------------------------------------------------------ *)
(* state machine                                                            *)
(* ------------------------------------------------------------------------ *)
Init ==
    /\ lab = <<>> /\ pp = NoPick
    /\ \/ /\ st = "bind" /\ src = NoSrc /\ tgt = "scope" /\ d = Nil /\ n = 0
       \/ /\ st = "desc" /\ Mode = "c09" /\ n = 0
          /\ src \in Universe
          /\ tgt = Target(src) /\ d = Describe(src)
       \/ /\ st = "desc" /\ Mode = "c10"
          /\ \/ src \in Bases /\ n = 0 /\ tgt = Target(src) /\ d = Describe(src)
             \/ src \in PlainBases /\ n = MaxMut /\ tgt = Target(src) /\ d = Describe(src)
             \/ src = NoSrc /\ n = 0 /\ tgt \in {"scope", "schema"} /\ d \in GFTrees

Pick ==
    /\ Mode = "c10" /\ st = "desc" /\ n < MaxMut /\ pp = NoPick
    /\ pp' \in {<<>>} \cup Paths(d)
    /\ UNCHANGED <<src, tgt, d, st, n, lab>>
Mutate ==
    /\ st = "desc" /\ pp # NoPick
    /\ \E mu \in MutsOn(d, pp) :
          /\ d' = Apply(d, mu)
          /\ lab' = Append(lab, mu.op)
    /\ n' = n + 1 /\ pp' = NoPick
    /\ UNCHANGED <<src, tgt, st>>
\* the three steps the code separates: meta-schema acceptance, linking, first use
Accept ==
    /\ st = "desc" /\ pp = NoPick
    /\ st' = IF MetaAccepts(tgt, d) THEN "accepted" ELSE "rejected"
    /\ UNCHANGED <<src, tgt, d, n, lab, pp>>
Link ==
    /\ st = "accepted"
    /\ st' = IF LinkCauseTop(Rebuild(tgt, d)) = "ok" THEN "linked" ELSE "rejected"
    /\ UNCHANGED <<src, tgt, d, n, lab, pp>>
Use ==
    /\ st = "linked"
    /\ st' = IF UseCauseTop(Rebuild(tgt, d)) = "ok" THEN "returned" ELSE "rejected"
    /\ UNCHANGED <<src, tgt, d, n, lab, pp>>
\* C09: a public builder changes the built schema in place; it is described again
Builder ==
    /\ Mode = "c09" /\ st = "desc" /\ n < MaxMut /\ LifeCycle(src)
    /\ \E b \in Builders(src) :
          /\ src' = ApplyBuilder(src, b)
          /\ lab' = Append(lab, b)
    /\ d' = Describe(src')
    /\ n' = n + 1
    /\ UNCHANGED <<tgt, st, pp>>
Next == Pick \/ Mutate \/ Builder \/ Accept \/ Link \/ Use
Spec == Init /\ [][Next]_vars
View == <<src, tgt, d, st, pp>>

(* ------------------------------------------------------------------------ *)
(* properties                                                               *)
(* ------------------------------------------------------------------------ *)
IsCase == st = "desc" /\ pp = NoPick
\* C09 on the model
Describable0   == (IsCase /\ Mode = "c09") => Describable(src)
FixedPoint0    == (IsCase /\ Mode = "c09") => FixedPoint(src)
SameBehaviour0 == (IsCase /\ Mode = "c09") => SameBehaviour(src) /\ RebuiltUsable(src)
MinimalSame    == (IsCase /\ Mode = "c09") =>
                      /\ MetaAccepts(tgt, MinimalTop(tgt, d))
                      /\ Rebuild(tgt, MinimalTop(tgt, d)) = Rebuild(tgt, d)
\* C10 on the model: a description that made it through the three steps is fully usable (declarative
\* reading), and one that did not is turned down with an error at one of them
AcceptedImpliesUsable0 ==
    LET c == Classify(tgt, d) IN
    CASE pp # NoPick -> TRUE
      [] st = "desc"     -> AcceptedImpliesUsable(tgt, d)
      [] st = "returned" -> c.stage = "usable" /\ Usable(Rebuild(tgt, d))
      [] st = "linked"   -> c.stage \in {"first_use", "usable"}
      [] st = "accepted" -> c.stage # "accept"
      [] st = "rejected" -> c.stage # "usable"
      [] OTHER -> TRUE
\* the base descriptions are valid ones
BasesValid == (IsCase /\ lab = <<>> /\ src # NoSrc) => Classify(tgt, d).stage = "usable"

(* ------------------------------------------------------------------------ *)
(* export: compact JSON of a tree                                           *)
(*   string "..", integer 5 ({"u":5} once a transport made it unsigned),    *)
(*   boolean, float {"f":halves}, nil {"z":true}, package units {"pu":name}, *)
(*   list {"l":[..]}, map {"m":{"sKEY":..,"i5":..}} ({"m":[]} when empty)   *)
(* ------------------------------------------------------------------------ *)
\* keys: "s<string>", "i<integer>", "f<halves>", "n<nan|+inf>", "b<TRUE|FALSE>", "z" (nil), "y<bytes>"
JKey(a) == CASE a.k = "str"  -> "s" \o a.v
             [] a.k = "num"  -> (IF a.rep = "f" THEN "f" \o ToString(a.v) ELSE "i" \o ToString(a.v))
             [] a.k = "fspecial" -> "n" \o a.v
             [] a.k = "bool" -> "b" \o ToString(a.v)
             [] a.k = "nil"  -> "z"
             [] a.k = "bytes" -> "y" \o a.v
RECURSIVE J(_)
J(x) == CASE x.k = "str"  -> x.v
          [] x.k = "num"  -> (IF x.rep = "f" THEN [f |-> x.v] ELSE IF x.rep = "u" THEN [u |-> x.v] ELSE x.v)
          [] x.k = "bool" -> x.v
          [] x.k = "nil"  -> [z |-> TRUE]
          [] x.k = "pkgunits" -> [pu |-> x.v]
          [] x.k = "list" -> [l |-> [i \in DOMAIN x.v |-> J(x.v[i])]]
          [] x.k = "map"  -> [m |-> [kk \in {JKey(e.key) : e \in x.v} |-> J((CHOOSE e \in x.v : JKey(e.key) = kk).val)]]

TokAttr(s) == [tok |-> s, id |-> s \notin BadIds /\ ~IsFloatTok(s), pat |-> s \notin BadPats, json |-> JsonOK(s),
               quoted |-> QuotedOK(s),
               word |-> IF s \in TrueWords THEN "t" ELSE IF s \in FalseWords THEN "f" ELSE "-",
               int |-> IF s \in DOMAIN IntOfStr THEN Some(IntOfStr[s]) ELSE None]
AllDescs == IF Mode = "c09" THEN {Describe(s) : s \in Universe} ELSE {Describe(s) : s \in Bases \cup PlainBases} \cup GFTrees
AllToks == UNION {Strs(x) \cup KeyStrs(x) : x \in AllDescs}
           \cup UNION {Strs(a) : a \in RetypeAtoms} \cup {"nowhere", "zz", "zz2"}
           \cup {ToString(i) : i \in {-5, -1, 0, 1, 2, 7, 1024}}

\* A vector is written in pieces of at most ChunkLen characters, one line each:
\*     <fp1>#<fp2>#<k>#<n>#"<piece k of n of the JSON text>"
\* (fp1, fp2: two fingerprints of the record, together its identity).  TLC's workers append to the same file
\* concurrently; an append of up to 8192 bytes is one write and stays whole, a longer line is written in several
\* and gets interleaved with the lines of other workers - and whole ASTs are longer than that.
ChunkLen == 3000
EmitV(rec) ==
    LET s  == ToJson(rec)
        f1 == TLCFP(rec)
        f2 == TLCFP(<<rec, "#">>)
        nn == (Len(s) + ChunkLen - 1) \div ChunkLen
    IN \A kk \in 1..nn :
          CSVWrite("%1$s#%2$s#%3$s#%4$s#%5$s",
                   <<f1, f2, kk, nn, SubSeq(s, (kk - 1) * ChunkLen + 1, IF kk * ChunkLen < Len(s) THEN kk * ChunkLen ELSE Len(s))>>,
                   IOEnv.VERIF_OUT)
XfSample == M({E(S("a"), N(5)), E(S("b"), N(-1)), E(S("c"), F(3)), E(S("d"), F(4)), E(S("e"), M({})),
               E(N(1024), L(<<B(TRUE), S("x"), N(0), Nil>>))})
Export ==
    CASE st = "bind" -> EmitV([mode |-> "bind", toks |-> {TokAttr(s) : s \in AllToks},
                              xf_sample |-> J(XfSample), xf |-> [x \in Transports |-> J(Xf(x, XfSample))],
                              int_bounds_nonneg |-> IntBoundsNonNeg, enum_keys |-> EnumKeys])
      [] pp # NoPick -> Emit([mode |-> "pick"])
      [] st = "desc" /\ Mode = "c09" ->
            EmitV([mode |-> "c09", target |-> tgt, ast |-> src, desc |-> J(d), minimal |-> J(MinimalTop(tgt, d)),
                  usable |-> Usable(src), utoks |-> UnitTokens, builders |-> lab])
      [] st = "desc" /\ Mode = "c10" ->
            LET c == Classify(tgt, d) IN
            EmitV([mode |-> "c10", target |-> tgt, desc |-> J(d), labels |-> lab, grammar_free |-> (src = NoSrc),
                  accepts |-> (c.stage # "accept"), stage |-> c.stage, cause |-> c.cause])
      [] OTHER -> TRUE
=============================================================================
