------------------------------ MODULE SchemaMC ------------------------------
(***************************************************************************)
(* Exhaustive enumeration for C02 and C04.  Every state is one vector      *)
(*     (schema, operation, argument, declared outcome, operational outcome)*)
(* Init picks the configuration by nested \E (no big set is built); there  *)
(* are no histories here, so Next is a stutter.                            *)
(*                                                                         *)
(*   ModelOK  on the model: Exact (Unserialize = Denotes /\ Satisfies, and *)
(*            the result IS the denoted value), SamePaths (Validate and    *)
(*            Serialize enforce Satisfies on native values and Serialize   *)
(*            emits the wire form), Total (every operator has an outcome   *)
(*            for every value class at every position - a missing CASE arm *)
(*            is a TLC error).                                             *)
(*   Export   one JSON line per state for the conformance harness.         *)
(*                                                                         *)
(* Mode "c02": every combination of absent/present bounds against          *)
(*   {min-1, min, max, max+1}, sizes 0..3 against size bounds nil,0,1,2,   *)
(*   NaN/Inf, the int64 edge points, every representation.                 *)
(* Mode "c04": every schema kind x every value class at every position of  *)
(*   schemas of depth <= 2 (Deep: 3).                                      *)
(* Mode "bind": the abstraction tables, for the harness' start-up checks.  *)
(***************************************************************************)
EXTENDS ErrPath, Export
\* TLC orders record fields by FIRST OCCURRENCE of the name in the root module (not
\* alphabetically) and compares / tests equality of records field by field in that order.  Tag
\* fields must therefore be met before payload fields of different types: this definition is the
\* first place any of these names occurs.  (Values.tla has an ASSUME that fails at start-up if
\* the order is ever wrong.)
FieldOrder == [fam |-> 0, kind |-> 0, k |-> 0, rep |-> 0, t |-> 0, ok |-> 0, d |-> 0, some |-> 0, op |-> 0, id |-> 0, name |-> 0, v |-> 0]
CONSTANTS Mode,     \* "c02" | "c04" | "c03" | "c01" | "bind"
          Deep      \* FALSE: quick tier (depth 2), TRUE: thorough tier (depth 3, longer collections)
VARIABLE vec

G(g) == TokGroup[g]

\* ------------------------------------------------------------------ raw scalars
SmallInts == IF Deep THEN -2..4 ELSE -1..3
IntPts == SmallInts \cup EdgePts
RawInts == UNION {{I(r, n) : r \in RepsOf(n)} : n \in IntPts} \cup {I("named", n) : n \in {0, 1, 2, IMax}}
SmallHalves == IF Deep THEN -4..9 ELSE -2..7
RawFloats ==
    {F(r, h) : r \in FloatReps, h \in SmallHalves \cup {2 * n : n \in EdgePts}}
    \cup {F("named", 2), F("named", 3)}
    \cup {FS(r, x) : r \in FloatReps, x \in {"nan", "+inf", "-inf"}}
RawBools == {B(TRUE), B(FALSE), BR("named", TRUE)}
RawOther ==
    {Nil, Re("a")} \cup {J(c) : c \in JunkClasses}
    \cup {L("any", <<>>), L("any", <<I64(1)>>), L("bytes", <<I("uint8", 1)>>),
          M("string_any", <<>>), M("any_any", << <<Str("a"), I64(1)>> >>)}
StrsFor(s) ==
    CASE s.kind \in {"int", "enum_int"} -> IF s.units.some THEN G("g_unit") ELSE G("g_int") \cup G("g_symd")
      [] s.kind = "float" -> IF s.units.some THEN G("g_unit") ELSE G("g_float") \cup G("g_symd") \cup G("g_symf")
      [] s.kind = "string" -> G("g_len") \cup G("g_pattern") \cup G("g_basic")
      [] s.kind = "bool" -> G("g_bool")
      [] s.kind = "pattern" -> G("g_re") \cup G("g_basic")
      [] s.kind = "enum_string" -> G("g_basic") \cup G("g_key") \cup {"1.000000", "NaN"}
      [] s.kind = "any" -> G("g_basic")
RawStrs(s) == {Str(t) : t \in StrsFor(s)} \cup {S("named", t) : t \in {"a", "1"}}
ScalarRaw(s) == RawInts \cup RawFloats \cup RawBools \cup RawOther \cup RawStrs(s)

\* ------------------------------------------------------------------ C02: scalar schemas
UnitOpts == {None, Some("sec")}
IntBP == BoundPairs(IF Deep THEN {0, 1, 2, 3} ELSE {1, 2})
         \cup { <<Some(IMin), Some(IMax)>>, <<Some(IMin + 1), Some(IMax - 1)>>, <<Some(IMax), None>>,
                <<None, Some(IMin)>>, <<Some(-1), Some(0)>>, <<Some(IMax - 1), Some(IMax)>> }
FloatBP == BoundPairs(IF Deep THEN {1, 2, 3, 4, 6} ELSE {2, 3, 4})      \* half units: 1.0, 1.5, 2.0
           \cup { <<Some(2 * IMin), Some(2 * IMax)>>, <<Some(2 * IMax), None>>, <<None, Some(2 * IMin)>>,
                  <<Some(2 * (IMax + 1)), None>>, <<Some(-1), Some(1)>> }
SizeBP == BoundPairs(IF Deep THEN {0, 1, 2, 3} ELSE {0, 1, 2})
C02Scalars ==
    IntSchemas(IntBP, UnitOpts) \cup FloatSchemas(FloatBP, UnitOpts)
    \cup StringSchemas(SizeBP, OptOf(PatternIds))
    \cup {BoolS, PatternS, AnyS}
    \cup {EnumIntS(vs, u) : vs \in { <<1, 2>>, <<0>>, <<>>, <<IMax, IMin>>, <<-1, 3>> }, u \in UnitOpts}
    \cup {EnumStrS(vs, t) : vs \in { <<"a", "b">>, <<"1", "#empty">>, <<>>, <<"true", "1.000000", "NaN">> }, t \in BOOLEAN}

\* amounts around 2^63 / 2^64 as unit strings of every built-in unit set, with and without bounds
BigUnitSchemas ==
    UNION { { IntS(None, None, Some(u)), IntS(None, Some(3), Some(u)), IntS(Some(1), None, Some(u)), IntS(Some(IMin), Some(IMax), Some(u)),
              FloatS(None, None, Some(u)), FloatS(None, Some(6), Some(u)), EnumIntS(<<1, 2>>, Some(u)), EnumIntS(<<IMax>>, Some(u)) } : u \in UnitIds }
BigRaw == {Str(t) : t \in G("g_big") \cup {"1", "#empty", "a"}} \cup {I64(1), I64(IMax)}

\* native values of a scalar schema's type (for Validate / Serialize)
ScalarNatives(s) ==
    CASE s.kind \in {"int", "enum_int"} -> {I64(n) : n \in {x \in IntPts : FitsI64(x)}}
      [] s.kind = "float" ->
            {F64(h) : h \in SmallHalves \cup {2 * n : n \in EdgePts}} \cup {FS("float64", x) : x \in {"nan", "+inf", "-inf"}}
      [] s.kind = "string" -> {Str(t) : t \in G("g_len") \cup G("g_pattern") \cup {"#d:1000000"}}
      [] s.kind = "bool" -> {B(TRUE), B(FALSE)}
      [] s.kind = "pattern" -> {Re(t) : t \in {x \in G("g_re") : Tok[x].re}}
      [] s.kind = "enum_string" ->
            {S(IF s.typed THEN "named" ELSE "string", t) : t \in {"a", "b", "c", "1", "#empty", "true", "1.000000", "NaN"}}
      [] s.kind = "any" ->
            {I64(1), I64(IMax), F64(3), FS("float64", "nan"), Str("a"), B(TRUE), L("any", <<>>),
             L("any", <<I64(1), Str("a")>>), M("any_any", <<>>), M("any_any", << <<Str("a"), I64(1)>>, <<I64(1), L("any", <<>>)>> >>)}

\* ------------------------------------------------------------------ C02: containers
ItemSchemas ==
    { IntS(Some(1), Some(2), None), FloatS(Some(2), None, None), StringS(Some(1), Some(2), Some("lower")),
      BoolS, EnumStrS(<<"a", "b">>, TRUE), AnyS, IntS(None, None, Some("sec")) }
ElemCands ==
    { I64(0), I64(1), I("uint64", 2), I64(3), F64(2), F64(3), Str("1"), Str("a"), Str("abc"), Str("2s"),
      B(TRUE), Nil, FS("float64", "nan") }
    \cup (IF Deep THEN {F("float32", 4), I("int8", 1), S("named", "a"), I64(IMax)} ELSE {})
ScalarValueKinds == {"bool", "int", "float", "str"}
Homog(xs) == Len(xs) > 0 /\ xs[1].k \in ScalarValueKinds /\ \A i \in DOMAIN xs : xs[i].k = xs[1].k /\ xs[i].rep = xs[1].rep
MaxL == IF Deep THEN 3 ELSE 2
ElemSeqs ==
    SeqsUpTo(ElemCands, MaxL)
    \cup (IF Deep THEN {} ELSE {<<x, x, x>> : x \in ElemCands} \cup {<<I64(1), I64(2), I64(0)>>, <<Str("a"), Str("b"), I64(1)>>})
RawLists ==
    {L("any", xs) : xs \in ElemSeqs}
    \cup {L("typed", xs) : xs \in {ys \in ElemSeqs : Homog(ys)}}
    \cup {L("bytes", <<>>), L("bytes", <<I("uint8", 1)>>), L("bytes", <<I("uint8", 1), I("uint8", 2)>>),
          L("typed", <<>>), Nil, Str("a"), M("any_any", <<>>), J("ptr")}
ListBoundsTyped == (SizeBP \X {FALSE}) \cup ({<<None, None>>, <<Some(1), Some(2)>>} \X {TRUE})
C02Lists == {ListS(i, bt[1][1], bt[1][2], bt[2]) : i \in ItemSchemas, bt \in ListBoundsTyped}

NativeElems(s) ==
    CASE s.kind = "int" -> {I64(n) : n \in 0..3}
      [] s.kind = "float" -> {F64(1), F64(2), F64(3), FS("float64", "nan")}
      [] s.kind = "string" -> {Str("#empty"), Str("a"), Str("ab"), Str("abc"), Str("A")}
      [] s.kind = "bool" -> {B(TRUE), B(FALSE)}
      [] s.kind = "enum_string" -> {S(IF s.typed THEN "named" ELSE "string", t) : t \in {"a", "b", "c"}}
      [] s.kind = "enum_int" -> {I64(n) : n \in 0..3}
      [] s.kind = "any" -> {I64(1), Str("a"), L("any", <<>>)}
NativeLists(s) == {L("typed", xs) : xs \in SeqsUpTo(NativeElems(s.items), 3)}

KeySchemas == { StringS(None, Some(1), None), IntS(Some(1), Some(2), None), EnumStrS(<<"a", "b">>, FALSE), EnumIntS(<<1, 2>>, None) }
ValSchemas == { IntS(Some(1), Some(2), None), AnyS, StringS(Some(1), None, None) }
KeyCands == << Str("a"), Str("b"), Str("1"), Str("ab"), I64(1), I("uint64", 1), I64(2), I64(3), F64(2), B(TRUE) >>
ValCands == { I64(1), I64(3), Str("a") } \cup (IF Deep THEN {Nil, I("uint64", 2), F64(2)} ELSE {})
Val2 == IF Deep THEN ValCands ELSE {I64(1), I64(3)}
NK == Len(KeyCands)
PairSeqs ==
    { <<>> }
    \cup { << <<KeyCands[i], w>> >> : i \in 1..NK, w \in ValCands }
    \cup { << <<KeyCands[i], w1>>, <<KeyCands[j], w2>> >> : i \in 1..NK, j \in 1..NK, w1 \in Val2, w2 \in Val2 }
    \cup { << <<Str("a"), I64(1)>>, <<Str("b"), I64(1)>>, <<Str("1"), I64(2)>> >>,
           << <<I64(1), I64(1)>>, <<I64(2), I64(1)>>, <<I64(3), I64(2)>> >>,
           << <<I64(1), I64(1)>>, <<I64(2), I64(1)>>, <<Str("1"), I64(2)>> >> }
DistinctKeys(ps) == \A i, j \in DOMAIN ps : i < j => ps[i][1] # ps[j][1]
\* canonical order for two pairs (a Go map has no order)
Canon(ps) == Len(ps) # 2 \/ (\E i, j \in 1..NK : i < j /\ KeyCands[i] = ps[1][1] /\ KeyCands[j] = ps[2][1])
GoodPairs == {ps \in PairSeqs : DistinctKeys(ps) /\ Canon(ps)}
AllKeys(ps, k, rep) == \A i \in DOMAIN ps : ps[i][1].k = k /\ ps[i][1].rep = rep
HomogPairs(ps) ==
    /\ Len(ps) > 0
    /\ \A i \in DOMAIN ps : ps[i][1].k = ps[1][1].k /\ ps[i][1].rep = ps[1][1].rep /\ ps[i][1].k \in ScalarValueKinds
    /\ \A i \in DOMAIN ps : ps[i][2].k = ps[1][2].k /\ ps[i][2].k \in ScalarValueKinds /\ ps[i][2].rep = ps[1][2].rep
RawMaps ==
    {M("any_any", ps) : ps \in GoodPairs}
    \cup {M("string_any", ps) : ps \in {q \in GoodPairs : AllKeys(q, "str", "string")}}
    \cup {M("int64_any", ps) : ps \in {q \in GoodPairs : AllKeys(q, "int", "int64")}}
    \cup {M("typed", ps) : ps \in {q \in GoodPairs : HomogPairs(q)}}
    \cup {Nil, L("any", <<>>), Str("a"), J("struct")}
MapBP == { <<None, None>>, <<Some(0), Some(0)>>, <<Some(1), Some(1)>>, <<Some(2), Some(2)>>, <<None, Some(1)>>,
           <<Some(2), None>>, <<Some(1), Some(2)>> }
MapBoundsTyped == (MapBP \X {FALSE}) \cup ({<<None, None>>} \X {TRUE})
C02Maps == {MapS(k, w, bt[1][1], bt[1][2], bt[2]) : k \in KeySchemas, w \in ValSchemas, bt \in MapBoundsTyped}
NativeKeys(s) ==
    CASE s.kind = "string" -> <<Str("a"), Str("b"), Str("ab")>>
      [] s.kind = "int" -> <<I64(1), I64(2), I64(3)>>
      [] s.kind = "enum_string" -> <<Str("a"), Str("b"), Str("c")>>
      [] s.kind = "enum_int" -> <<I64(1), I64(2), I64(3)>>
NativeVals(s) ==
    CASE s.kind = "int" -> {I64(1), I64(3)}
      [] s.kind = "any" -> {I64(1), Str("a")}
      [] s.kind = "string" -> {Str("a"), Str("#empty")}
NativeMaps(s) ==
    LET ks == NativeKeys(s.keys) ws == NativeVals(s.values) IN
    { M("typed", <<>>) }
    \cup { M("typed", << <<ks[i], w>> >>) : i \in 1..3, w \in ws }
    \cup { M("typed", << <<ks[p[1]], w1>>, <<ks[p[2]], w2>> >>) : p \in { <<1, 2>>, <<1, 3>>, <<2, 3>> }, w1 \in ws, w2 \in ws }
    \cup { M("typed", << <<ks[1], w>>, <<ks[2], w>>, <<ks[3], w>> >>) : w \in ws }

\* raw containers whose Go type already EQUALS the schema's reflected type (map[string]any, map[int64]any, []any) while
\* their elements still need the `any` normalisation - the accepted result is the denoted (normalised) value
AnyElemsRaw == { I("int", 1), I("uint8", 2), I("uint64", 1), F("float32", 3), I64(1), Str("a"), L("typed", <<Str("a"), Str("b")>>), L("any", <<I("int", 1)>>),
                 M("string_any", << <<Str("a"), I("int", 1)>> >>), M("int64_any", << <<I64(1), I("uint8", 1)>> >>), L("bytes", <<I("uint8", 1)>>) }
AnyContainerSchemas ==
    { MapS(StringS(None, None, None), AnyS, None, None, t) : t \in {FALSE} } \cup { MapS(IntS(None, None, None), AnyS, None, None, FALSE), ListS(AnyS, None, None, FALSE),
      MapS(StringS(None, None, None), MapS(StringS(None, None, None), AnyS, None, None, FALSE), None, None, FALSE),
      ListS(MapS(StringS(None, None, None), AnyS, None, None, FALSE), None, None, FALSE),
      ListS(MapS(IntS(None, None, None), AnyS, None, None, FALSE), None, None, FALSE) }
AnyContainerRaw(s) ==
    LET smap(x) == M("string_any", << <<Str("a"), x>> >>)
        imap(x) == M("int64_any", << <<I64(1), x>> >>)
    IN IF s.kind = "list" THEN
            (IF s.items.kind = "any" THEN {L("any", <<x>>) : x \in AnyElemsRaw} \cup {L("any", <<x, y>>) : x \in {I("int", 1), Str("a")}, y \in AnyElemsRaw}
             ELSE IF s.items.keys.kind = "string" THEN {L("any", <<smap(x)>>) : x \in AnyElemsRaw} \cup {L("typed", <<smap(x)>>) : x \in AnyElemsRaw}
             ELSE {L("any", <<imap(x)>>) : x \in AnyElemsRaw} \cup {L("typed", <<imap(x)>>) : x \in AnyElemsRaw})
       ELSE IF s.values.kind = "map" THEN {smap(smap(x)) : x \in AnyElemsRaw} \cup {M("typed", << <<Str("a"), smap(x)>> >>) : x \in AnyElemsRaw}
       ELSE IF s.keys.kind = "string" THEN {smap(x) : x \in AnyElemsRaw} \cup {M("any_any", << <<Str("a"), x>> >>) : x \in AnyElemsRaw}
                                          \cup {M("string_any", << <<Str("a"), x>>, <<Str("b"), y>> >>) : x \in {I("int", 1)}, y \in AnyElemsRaw}
       ELSE {imap(x) : x \in AnyElemsRaw} \cup {M("any_any", << <<I("int", 1), x>> >>) : x \in AnyElemsRaw}

\* depth 3 (thorough): containers of containers over a reduced leaf set
DeepSchemas ==
    IF ~Deep THEN {}
    ELSE LET inner == { ListS(IntS(Some(1), Some(2), None), Some(1), Some(2), FALSE),
                        ListS(IntS(Some(1), Some(2), None), None, None, TRUE),
                        MapS(StringS(None, Some(1), None), IntS(Some(1), Some(2), None), None, Some(1), FALSE) }
         IN {ListS(i, p[1], p[2], t) : i \in inner, p \in {<<None, None>>, <<Some(1), Some(2)>>}, t \in BOOLEAN}
            \cup {MapS(StringS(None, Some(1), None), i, p[1], p[2], t) : i \in inner, p \in {<<None, None>>, <<Some(1), Some(1)>>}, t \in BOOLEAN}
DeepInnerRaw(s) ==
    IF s.kind = "list"
    THEN {L("any", xs) : xs \in SeqsUpTo({I64(0), I64(1), I("uint64", 2), Str("1"), Nil}, 2)} \cup {L("typed", <<I64(1), I64(2)>>), Nil, I64(1)}
    ELSE {M("any_any", ps) : ps \in { <<>>, << <<Str("a"), I64(1)>> >>, << <<Str("a"), I64(3)>> >>, << <<Str("ab"), I64(1)>> >>,
                                      << <<I64(1), I64(1)>> >>, << <<Str("a"), I64(1)>>, <<Str("b"), I64(2)>> >> }}
         \cup {M("string_any", << <<Str("a"), I("uint64", 2)>> >>), Nil, L("any", <<>>)}
DeepRaw(s) ==
    IF s.kind = "list"
    THEN {L("any", xs) : xs \in SeqsUpTo(DeepInnerRaw(s.items), 2)} \cup {Nil}
    ELSE {M("any_any", << <<Str("a"), x>> >>) : x \in DeepInnerRaw(s.values)}
         \cup {M("string_any", << <<Str("a"), x>>, <<Str("b"), y>> >>) : x \in DeepInnerRaw(s.values), y \in DeepInnerRaw(s.values)}
         \cup {M("any_any", <<>>), Nil}

\* raw arguments of `any` beyond the scalars
AnyElems == << I64(1), I("uint64", IMax + 1), Str("a"), Nil, J("ptr"), L("any", <<I("int", 1)>>), FS("float32", "nan"),
               I("named", 1), M("string_any", << <<Str("a"), I("int8", 1)>> >>), F("float32", 3) >>
AnyRaw ==
    {L(r, xs) : r \in {"any"}, xs \in SeqsUpTo(Range(AnyElems), 2)}
    \cup {M("any_any", << <<k, AnyElems[i]>> >>) : k \in {Str("a"), I64(1), I("uint64", 1), B(TRUE), F64(2), F("float32", 3), S("named", "a")}, i \in DOMAIN AnyElems}
    \cup {M("any_any", << <<I64(1), I64(1)>>, <<I("uint64", 1), I64(2)>> >>),        \* two raw keys, one key
          M("any_any", << <<I64(1), I64(1)>>, <<Str("1"), I64(2)>> >>),
          M("string_any", << <<Str("a"), Nil>> >>), M("int64_any", << <<I64(1), Str("a")>> >>),
          M("any_any", << <<FS("float64", "nan"), I64(1)>> >>), M("any_any", << <<FS("float64", "-inf"), I64(1)>> >>),
          M("typed", << <<Str("a"), I64(1)>>, <<Str("b"), I64(2)>> >>),
          L("typed", <<I("uint64", IMax + 1)>>), L("typed", <<Str("a"), Str("b")>>), L("bytes", <<I("uint8", 1)>>)}

\* ------------------------------------------------------------------ C04: kinds x classes x positions
NameObj == ObjectS("N", << Prop("b", StringS(None, None, None), TRUE) >>, "map", FALSE)
MiddleObj == ObjectS("W", << PropS("a", IntS(None, None, None), FALSE, <<>>, <<>>, <<>>, Some(F64(2)), FALSE, FALSE),
                            PropS("x", NameObj, FALSE, <<>>, <<>>, <<>>, Some(Str("a")), FALSE, FALSE) >>, "wide", FALSE)
C04ObjLeafs ==
    { ObjectS("O", << Prop("a", IntS(Some(1), Some(2), None), TRUE), Prop("b", StringS(None, None, None), FALSE) >>, "map", FALSE),
      ObjectS("O", << Prop("a", IntS(Some(1), Some(2), None), FALSE) >>, "map", FALSE),
      ObjectS("O", << Prop("a", IntS(Some(1), Some(2), None), FALSE), Prop("x", AnyS, FALSE) >>, "ptrs", TRUE),
      ObjectS("E", << PropS("l", ListS(IntS(None, None, None), None, None, FALSE), FALSE, <<>>, <<>>, <<>>, None, FALSE, TRUE),
                      PropS("m", MapS(StringS(None, None, None), IntS(None, None, None), None, None, FALSE), FALSE, <<>>, <<>>, <<>>, None, FALSE, TRUE),
                      PropS("b", StringS(None, None, None), FALSE, <<>>, <<>>, <<>>, None, FALSE, TRUE) >>, "wide", FALSE),
      OneOfS("string", "type", FALSE, << <<"a", ObjectS("A", <<Prop("a", IntS(Some(1), Some(2), None), TRUE)>>, "map", FALSE)>>,
                                         <<"b", ObjectS("B", <<Prop("b", StringS(None, None, None), FALSE)>>, "map", FALSE)>> >>),
      OneOfS("int", "type", TRUE, << <<1, ObjectS("A", <<Prop("a", IntS(Some(1), Some(2), None), TRUE), Prop("type", IntS(None, None, None), TRUE)>>, "map", FALSE)>> >>),
      OneOfS("string", "type", FALSE, << <<"a", ObjectS("A", <<Prop("a", IntS(Some(1), Some(2), None), TRUE)>>, "sub", FALSE)>> >>),
      \* objects without any property (a non-map value has no property to be shorthand for), also as a member of an
      \* object and behind a reference
      ObjectS("E0", <<>>, "map", FALSE), ObjectS("E0", <<>>, "ptrs", FALSE), ObjectS("E0", <<>>, "wide_p", TRUE),
      ObjectS("O", << Prop("a", IntS(Some(1), Some(2), None), FALSE), Prop("n", ObjectS("E0", <<>>, "map", FALSE), FALSE) >>, "map", FALSE),
      ScopeS("R", << ObjectS("R", << Prop("a", IntS(Some(1), Some(2), None), FALSE), Prop("n", RefS("E0"), FALSE) >>, "map", FALSE), ObjectS("E0", <<>>, "map", FALSE) >>),
      ObjectS("T", << Prop("a", IntS(Some(1), Some(2), None), TRUE), Prop("w", MiddleObj, FALSE) >>, "outer", FALSE),
      \* objects mapped to a POINTER type, and a one-of over such a member: the typed nil pointer of exactly that
      \* type (junk classes nil_wide / nil_sub) reaches them at the root, as list item, map value and one-of value
      ObjectS("O", << Prop("a", IntS(Some(1), Some(2), None), TRUE), Prop("x", AnyS, FALSE) >>, "wide_p", FALSE),
      ObjectS("O", << Prop("a", IntS(Some(1), Some(2), None), TRUE) >>, "sub_p", TRUE),
      ObjectS("O", << Prop("a", IntS(Some(1), Some(2), None), TRUE) >>, "sub", FALSE),
      ObjectS("O", << Prop("a", IntS(Some(1), Some(2), None), TRUE), Prop("sp", ObjectS("S", <<Prop("a", IntS(None, None, None), TRUE)>>, "sub_p", FALSE), FALSE) >>, "wide", FALSE),
      OneOfS("string", "type", FALSE, << <<"a", ObjectS("A", <<Prop("a", IntS(Some(1), Some(2), None), TRUE)>>, "sub_p", FALSE)>>,
                                         <<"b", ObjectS("B", <<Prop("a", IntS(Some(1), Some(2), None), TRUE)>>, "wide_p", FALSE)>> >>),
      ScopeS("R", << ObjectS("R", << Prop("a", IntS(Some(1), Some(2), None), TRUE), Prop("n", RefS("R"), FALSE) >>, "map", FALSE) >>) }
\* single-property self-references (the inline-shorthand loop): a small value set, at the root and nested
C04LoopLeafs ==
    { ScopeS("A", << ObjectS("A", << Prop("n", RefS("A"), FALSE) >>, "map", FALSE) >>),
      ScopeS("A", << ObjectS("A", << Prop("n", RefS("B"), FALSE) >>, "map", FALSE), ObjectS("B", << Prop("n", RefS("A"), TRUE) >>, "map", FALSE) >>) }
\* default expansion that refers back to its own object (reported by another builder): a defaulted property
\* whose type is the object itself, and - struct-mapped - a member of the object's own type next to a default
C04DefLoopLeafs ==
    { ScopeS("A", << ObjectS("A", << PropS("n", RefS("A"), FALSE, <<>>, <<>>, <<>>, Some(M("string_any", <<>>)), FALSE, FALSE) >>, "map", FALSE) >>),
      ScopeS("A", << ObjectS("A", << PropS("a", IntS(None, None, None), FALSE, <<>>, <<>>, <<>>, Some(F64(2)), FALSE, FALSE),
                                     Prop("x", RefS("A"), FALSE) >>, "ptrs", FALSE) >>) }
\* chains of single-property objects (each handing a non-map value on through the inline shorthand): a loop
\* behind the entry object, longer cycles, and a chain that ends.  Root id "LOOP...": the orchestrator runs
\* these vectors with a short per-case timeout, so that "does not return" costs seconds.
One(id, next) == ObjectS(id, << Prop("n", RefS(next), FALSE) >>, "map", FALSE)
C04ChainLeafs ==
    { ScopeS("LOOP0", << One("LOOP0", "o1"), One("o1", "o1") >>),                              \* o0 -> o1 -> o1
      ScopeS("LOOP0", << One("LOOP0", "o1"), One("o1", "o2"), One("o2", "o1") >>),             \* o0 -> o1 -> o2 -> o1
      ScopeS("LOOP0", << One("LOOP0", "o1"), One("o1", "o2"), One("o2", "LOOP0") >>),          \* a 3-cycle
      ScopeS("LOOP0", << One("LOOP0", "o1"), One("o1", "o2"),
                         ObjectS("o2", << Prop("a", IntS(Some(1), Some(2), None), TRUE) >>, "map", FALSE) >>) }   \* a chain that ends
C04ChainValues == { Str("a"), Str("1"), Nil, I64(1), L("any", <<I64(1)>>), L("bytes", <<I("uint8", 1)>>),
                    M("any_any", << <<Str("n"), Str("a")>> >>), M("string_any", << <<Str("n"), M("any_any", << <<Str("n"), I64(1)>> >>)>> >>) }
\* termination within a bound polynomial in the input: schemas that recurse through a list / a map, and
\* WELL-FORMED values nested d levels (root id "DEEP0": run with the short per-case bound, hang = verdict)
NodeScope == ScopeS("DEEP0", << ObjectS("DEEP0", << Prop("a", IntS(None, None, None), TRUE), Prop("l", ListS(RefS("DEEP0"), None, None, FALSE), FALSE) >>, "map", FALSE) >>)
DirScope == ScopeS("DEEP0", << ObjectS("DEEP0", << Prop("m", MapS(StringS(None, None, None), RefS("DEEP0"), None, None, FALSE), FALSE) >>, "map", FALSE) >>)
RECURSIVE DeepNode(_, _), DeepDir(_, _)
DeepNode(d, rep) ==
    IF d = 0 THEN M(rep, << <<Str("a"), I64(1)>> >>)
    ELSE M(rep, << <<Str("a"), I64(1)>>, <<Str("l"), L(IF rep = "string_any" THEN "typed" ELSE "any", <<DeepNode(d - 1, rep)>>)>> >>)
DeepDir(d, rep) ==
    IF d = 0 THEN M(rep, <<>>)
    ELSE M(rep, << <<Str("m"), M(IF rep = "string_any" THEN "typed" ELSE "any_any", << <<Str("a"), DeepDir(d - 1, rep)>> >>)>> >>)
DeepDepths == {2, 4}      \* the shape is checked on the model at small depth; the harness scales the depth (deep.go: 16..64)
C04LoopValues == { Str("a"), L("any", <<I64(1)>>), M("any_any", <<>>), M("any_any", << <<Str("n"), Nil>> >>),
                   M("string_any", << <<Str("n"), M("any_any", << <<Str("n"), M("any_any", <<>>)>> >>)>> >>) }
C04Leafs ==
    { IntS(Some(1), Some(2), None), IntS(None, None, Some("sec")), FloatS(Some(2), Some(4), None), FloatS(None, None, Some("sec")),
      IntS(None, Some(3), Some("bytes")), FloatS(None, None, Some("nanos")),
      StringS(Some(1), Some(2), Some("lower")), BoolS, PatternS, EnumIntS(<<1, 2>>, None),
      EnumStrS(<<"a", "b">>, FALSE), EnumStrS(<<"a", "b">>, TRUE), AnyS,
      ListS(IntS(Some(1), Some(2), None), None, Some(2), FALSE), ListS(AnyS, None, None, FALSE),
      ListS(StringS(None, None, None), Some(1), None, TRUE),
      MapS(StringS(None, None, None), IntS(Some(1), Some(2), None), None, Some(2), FALSE),
      MapS(IntS(None, None, None), AnyS, None, None, FALSE),
      MapS(EnumStrS(<<"a", "b">>, FALSE), StringS(None, None, None), None, None, TRUE) }
    \cup C04ObjLeafs
C04Values ==
    {Nil, B(TRUE), B(FALSE), BR("named", TRUE)}
    \cup {I(r, 1) : r \in IntReps \cup {"named"}} \cup {I("uint64", IMax + 1), I64(IMin), I64(IMax), I64(0), I("int", -1), I("named", 0)}
    \cup {F(r, 3) : r \in FloatReps \cup {"named"}} \cup {F64(2), F64(2 * (IMax + 1)), F64(2 * (IMin - 1))}
    \cup {FS(r, x) : r \in FloatReps, x \in {"nan", "+inf", "-inf"}}
    \cup {Str("a"), Str("1"), Str("#empty"), Str("["), Str("true"), Str("1s"), Str("nan"), S("named", "a"), S("named", "1"),
          Str("5m30s"), Str("1x"), Str("#sp"), Str("#big:9223372036854775808s"), Str("#big:8191PB"), Str("#big:106752d")}
    \cup {L("any", <<>>), L("any", <<I64(1)>>), L("any", <<Nil>>), L("any", <<I64(1), Str("a")>>), L("typed", <<>>),
          L("typed", <<Str("a")>>), L("typed", <<I64(1), I64(2)>>), L("bytes", <<I("uint8", 1)>>), L("bytes", <<>>),
          L("any", <<L("any", <<>>)>>), L("any", <<J("nilptr")>>), L("typed", <<I("named", 1)>>)}
    \cup {M(r, <<>>) : r \in MapReps}
    \cup {M("string_any", << <<Str("a"), I64(1)>> >>), M("string_any", << <<Str("a"), Nil>> >>),
          M("any_any", << <<I64(1), Str("a")>>, <<Str("b"), Nil>> >>), M("any_any", << <<Str("a"), I64(1)>> >>),
          M("int64_any", << <<I64(1), I64(1)>> >>), M("typed", << <<Str("a"), I64(1)>> >>), M("typed", << <<I("uint64", 1), Str("a")>> >>),
          M("any_any", << <<B(TRUE), I64(1)>> >>), M("any_any", << <<F64(3), I64(1)>> >>), M("any_any", << <<S("named", "a"), I64(1)>> >>),
          M("any_any", << <<I("named", 1), I64(1)>> >>), M("any_any", << <<Nil, I64(1)>> >>), M("string_any", << <<Str("a"), J("func")>> >>),
          M("any_any", << <<FS("float64", "nan"), I64(1)>> >>), M("any_any", << <<FS("float64", "+inf"), Str("a")>> >>),
          M("typed", << <<FS("float64", "nan"), I64(1)>> >>)}
    \cup {Re("a")} \cup {J(c) : c \in JunkClasses}
    \* arrays as map keys and nested
    \cup { M("any_any", << <<J("arr_str2"), Str("a")>> >>), M("any_any", << <<J("arr_int2"), I64(1)>>, <<Str("a"), I64(1)>> >>),
           M("any_any", << <<J("arr_named"), I64(1)>> >>), M("any_any", << <<J("arr0"), I64(1)>> >>),
           L("any", <<J("arr_int2")>>), M("string_any", << <<Str("a"), J("arr_str2")>> >>), L("any", <<J("map_arrkey")>>) }
    \cup { M("any_any", << <<Str("a"), I64(1)>>, <<Str("type"), Str("a")>> >>), M("string_any", << <<Str("a"), I64(1)>>, <<Str("type"), Str("a")>> >>),
           M("string_any", << <<Str("a"), I64(1)>>, <<Str("type"), I64(1)>> >>), M("any_any", << <<Str("a"), I64(1)>>, <<Str("type"), I("uint64", 1)>> >>),
           M("int64_any", << <<I64(1), Str("type")>> >>), M("typed", << <<Str("type"), Str("a")>> >>), M("typed", << <<S("named", "type"), Str("a")>> >>),
           M("string_any", << <<Str("type"), Nil>> >>), M("any_any", << <<Str("a"), I64(1)>>, <<Str("n"), Str("a")>> >>),
           M("string_any", << <<Str("n"), L("any", <<I64(1)>>)>> >>), M("string_any", << <<Str("n"), M("any_any", <<>>)>> >>), M("string_any", << <<Str("a"), I64(1)>>, <<Str("n"), M("any_any", << <<Str("a"), Nil>> >>)>> >>),
           Struct("wide", << <<"l", Some(L("typed", <<>>))>>, <<"m", Some(M("typed", <<>>))>>, <<"b", Some(Str("#empty"))>> >>),
           Struct("wide", << <<"l", Some(L("typed", <<I64(1)>>))>>, <<"m", Some(M("typed", << <<Str("a"), I64(1)>> >>))>>, <<"b", Some(Str("a"))>> >>),
           Struct("ptrs", << <<"a", Some(I64(1))>>, <<"x", None>> >>), Struct("ptrs", << <<"a", None>>, <<"x", Some(L("any", <<Nil>>))>> >>),
           Struct("sub", << <<"a", Some(I64(1))>> >>), Struct("sub_p", << <<"a", Some(I64(1))>> >>), Struct("notag", << <<"A", Some(I64(1))>> >>),
           Struct("wide_p", << <<"a", Some(I64(1))>>, <<"x", None>> >>), Struct("wide_p", << <<"a", Some(I64(3))>>, <<"x", Some(Str("a"))>> >>),
           Struct("wide", << <<"a", Some(I64(1))>>, <<"sp", None>> >>),
           Struct("wide", << <<"a", Some(I64(1))>>, <<"sp", Some(Struct("sub_p", << <<"a", Some(I64(1))>> >>))>> >>) }
Hashable(x) == x.k \in {"nil", "bool", "int", "float", "fspecial", "str", "re", "struct"} \/ (x.k = "junk" /\ x.v \in {"time", "struct", "ptr", "nilptr", "nilre", "chan", "nil_wide", "nil_sub", "arr_int2", "arr_str2", "arr0", "arr_named"})
StrKey == StringS(None, None, None)
\* one level of context around (leaf, x)
Wrap1(leaf, x) ==
    { <<ListS(leaf, None, None, t), L("any", <<x>>)>> : t \in BOOLEAN }
    \cup { <<ListS(leaf, None, None, FALSE), L("any", <<x, x>>)>> }
    \cup (IF x.k \in ScalarValueKinds THEN { <<ListS(leaf, None, None, FALSE), L("typed", <<x>>)>> } ELSE {})
    \cup { <<MapS(StrKey, leaf, None, None, t), M("string_any", << <<Str("a"), x>> >>)>> : t \in BOOLEAN }
    \cup { <<MapS(StrKey, leaf, None, None, FALSE), M("any_any", << <<Str("a"), x>> >>)>> }
    \cup (IF leaf.kind \in MapKeyKinds /\ Hashable(x)
          THEN { <<MapS(leaf, IntS(None, None, None), None, None, FALSE), M("any_any", << <<x, I64(1)>> >>)>> } ELSE {})
Positions(leaf, x) ==
    { <<leaf, x>> } \cup Wrap1(leaf, x)
    \cup (IF Deep THEN UNION { Wrap1(p[1], p[2]) : p \in Wrap1(leaf, x) } ELSE {})


\* ------------------------------------------------------------------ C03: objects, one-of, references
TA == IntS(Some(1), Some(2), None)
TB == StringS(Some(1), Some(2), None)
TC == BoolS
\* all sub-sequences (in the given order) of a sequence of names
RECURSIVE SubSeqs(_)
SubSeqs(q) == IF Len(q) = 0 THEN { <<>> } ELSE LET r == SubSeqs(Tail(q)) IN r \cup {<<Head(q)>> \o x : x \in r}
\* every flag combination of one property, its rule lists ranging over the other properties
PropFlags(name, type, others, def, disSet, eidSet) ==
    {PropS(name, type, req, rif, rifn, cf, dv, dis, eid) :
        req \in BOOLEAN, rif \in SubSeqs(others), rifn \in SubSeqs(others), cf \in SubSeqs(others),
        dv \in {None, Some(def)}, dis \in disSet, eid \in eidSet}
\* one rule kind per property (the reduced lattice for three properties)
PropReduced(name, type, others, def) ==
    {Prop(name, type, FALSE), Prop(name, type, TRUE),
     PropS(name, type, FALSE, <<>>, <<>>, <<>>, Some(def), FALSE, FALSE),
     PropS(name, type, FALSE, <<>>, <<>>, <<>>, None, TRUE, FALSE)}
    \cup {PropS(name, type, FALSE, q, <<>>, <<>>, None, FALSE, FALSE) : q \in SubSeqs(others) \ { <<>> }}
    \cup {PropS(name, type, FALSE, <<>>, q, <<>>, None, FALSE, FALSE) : q \in SubSeqs(others) \ { <<>> }}
    \cup {PropS(name, type, FALSE, <<>>, <<>>, q, None, FALSE, FALSE) : q \in SubSeqs(others) \ { <<>> }}
DefA == F64(2)            \* the JSON text 1 decodes to float64(1)
DefB == Str("a")
DefC == B(TRUE)
Objs1(layout, dis, eid) == {ObjectS("O", <<pa>>, layout, FALSE) : pa \in PropFlags("a", TA, <<>>, DefA, dis, eid)}
Objs2(layout, dis, eid) ==
    {ObjectS("O", <<pa, pb>>, layout, FALSE) :
        pa \in PropFlags("a", TA, <<"b">>, DefA, dis, eid), pb \in PropFlags("b", TB, <<"a">>, DefB, dis, eid)}
Objs3(layout) ==
    {ObjectS("O", <<pa, pb, pc>>, layout, FALSE) :
        pa \in PropReduced("a", TA, <<"b", "c">>, DefA), pb \in PropReduced("b", TB, <<"a", "c">>, DefB),
        pc \in PropReduced("c", TC, <<"a", "b">>, DefC)}
\* per property: a valid and an invalid raw value, a valid and an invalid native value
RawChoices(n) ==
    CASE n = "a" -> {I64(1), I64(3)}
      [] n = "b" -> {Str("a"), Str("abc")}
      [] n = "c" -> {B(TRUE), I64(2)}
      [] n = "l" -> {L("any", <<I64(1)>>), L("any", <<>>), L("any", <<I64(3)>>)}
NatChoices(n) ==
    CASE n = "a" -> {I64(1), I64(3)}
      [] n = "b" -> {Str("a"), Str("abc")}
      [] n = "c" -> {B(TRUE)}
\* every mapping: a subset of the properties supplied, each with one of its choices
RECURSIVE PairSets(_, _)
PairSets(names, native) ==
    IF Len(names) = 0 THEN { <<>> }
    ELSE LET rest == PairSets(Tail(names), native)
             ch == IF native THEN NatChoices(Head(names)) ELSE RawChoices(Head(names))
         IN rest \cup {<< <<Str(Head(names)), w>> >> \o r : w \in ch, r \in rest}
NamesOf(s) == [i \in DOMAIN s.props |-> s.props[i].name]
ObjRawArgs(s) ==
    {M("any_any", ps) : ps \in PairSets(NamesOf(s), FALSE)}
ObjRawExtra(s) ==
    { M("string_any", << <<Str("a"), I64(1)>> >>), M("typed", << <<Str("a"), I64(1)>> >>),
      M("any_any", << <<Str("a"), I64(1)>>, <<Str("x"), I64(1)>> >>),            \* an undeclared key
      M("any_any", << <<Str("a"), I64(1)>>, <<I64(1), I64(1)>> >>),              \* a non-string key
      M("any_any", << <<S("named", "a"), I64(1)>> >>),                           \* a key of a defined string type
      M("int64_any", << <<I64(1), I64(1)>> >>),
      M("any_any", << <<Str("a"), Nil>> >>), M("any_any", << <<Str("a"), Str("1")>> >>), M("any_any", << <<Str("a"), I("uint64", 2)>> >>),
      Nil, I64(1), I64(3), Str("1"), Str("a"), L("any", <<I64(1)>>), J("ptr") }
\* native values: map-based
ObjNatArgs(s) == {M("string_any", ps) : ps \in PairSets(NamesOf(s), TRUE)}
\* native values: struct-mapped (every field: absent where the field can be, else one of the choices or zero)
RECURSIVE FieldSeqs(_, _, _)
FieldSeqs(s, i, acc) ==
    IF i > Len(s.props) THEN {acc}
    ELSE LET p == s.props[i]
             z == FieldZero(s, p)
             opts == {Some(w) : w \in NatChoices(p.name)} \cup {z}
         IN UNION {FieldSeqs(s, i + 1, Append(acc, <<p.name, o>>)) : o \in opts}
StructNatArgs(s) == {Struct(s.layout, fs) : fs \in FieldSeqs(s, 1, <<>>)}
NatArgs(s) == IF s.layout = "map" THEN ObjNatArgs(s) ELSE StructNatArgs(s)
NatExtra(s) == { M("any_any", << <<Str("a"), I64(1)>> >>), M("string_any", << <<Str("a"), I64(1)>>, <<Str("x"), I64(1)>> >>),
                 M("string_any", << <<Str("a"), Nil>> >>), Nil, I64(1), Struct("notag", << <<"A", Some(I64(1))>>, <<"B", Some(Str("a"))>> >>), J("struct") }

\* sub-objects (finding 19) and every field kind of the catalogue
SubObj(defA) == ObjectS("S", << PropS("a", IntS(None, None, None), FALSE, <<>>, <<>>, <<>>, defA, FALSE, ~defA.some),
                               PropS("b", StringS(None, None, None), FALSE, <<>>, <<>>, <<>>, Some(Str("b")), FALSE, FALSE) >>, "sub", FALSE)
SubObjects ==
    { ObjectS("P", << Prop("a", TA, TRUE), PropS("s", SubObj(Some(F64(6))), FALSE, <<>>, <<>>, <<>>, dv, FALSE, FALSE) >>, lay, FALSE) :
        dv \in {None, Some(M("string_any", << <<Str("a"), F64(10)>> >>)), Some(M("string_any", <<>>))}, lay \in {"wide", "wide_p"} }
    \cup { ObjectS("P", << Prop("a", TA, TRUE), Prop("sp", SubObj(None), FALSE) >>, "wide", FALSE),
           ObjectS("P", << Prop("a", TA, TRUE), Prop("s", SubObj(None), TRUE) >>, "ptrs", TRUE) }
\* an object-typed property whose declared default is in the single-property SHORTHAND form (a non-map default),
\* inside a by-value struct-mapped member that has no default of its own, inside a struct-mapped object
ShorthandDefaultObjs ==
    { ObjectS("T", << Prop("a", TA, TRUE), Prop("w", MiddleObj, FALSE) >>, "outer", FALSE), MiddleObj,
      ObjectS("T", << Prop("a", TA, TRUE), PropS("x", NameObj, FALSE, <<>>, <<>>, <<>>, Some(Str("a")), FALSE, FALSE) >>, "map", FALSE) }
ShorthandDefaultRaw ==
    { M("any_any", << <<Str("a"), I64(1)>> >>), M("any_any", <<>>), M("any_any", << <<Str("a"), I64(1)>>, <<Str("w"), M("any_any", <<>>)>> >>),
      M("any_any", << <<Str("a"), I64(1)>>, <<Str("w"), M("any_any", << <<Str("x"), Str("b")>> >>)>> >>),
      M("any_any", << <<Str("a"), I64(1)>>, <<Str("x"), M("string_any", << <<Str("b"), Str("ab")>> >>)>> >>) }
SubRawArgs ==
    { M("any_any", << <<Str("a"), I64(1)>> >>), M("any_any", << <<Str("a"), I64(1)>>, <<Str("s"), M("any_any", <<>>)>> >>),
      M("any_any", << <<Str("a"), I64(1)>>, <<Str("s"), M("string_any", << <<Str("a"), I64(7)>> >>)>> >>),
      M("any_any", << <<Str("a"), I64(1)>>, <<Str("sp"), M("string_any", << <<Str("a"), I64(7)>> >>)>> >>),
      M("any_any", << <<Str("a"), I64(1)>>, <<Str("s"), M("string_any", << <<Str("x"), I64(7)>> >>)>> >>),
      M("any_any", << <<Str("a"), I64(1)>>, <<Str("s"), I64(1)>> >>) }
Opt3(name, type, eid) == PropS(name, type, FALSE, <<>>, <<>>, <<>>, None, FALSE, eid)
ZooProps(eid) ==
    << Prop("a", TA, FALSE), Prop("b", TB, FALSE), Prop("c", TC, FALSE), Prop("f", FloatS(None, Some(4), None), FALSE),
       Prop("e", EnumStrS(<<"a", "b">>, TRUE), FALSE), Opt3("l", ListS(TA, None, Some(2), FALSE), eid),
       Opt3("ls", ListS(TB, None, None, FALSE), eid), Opt3("m", MapS(StringS(None, None, None), TA, None, None, FALSE), eid),
       Prop("x", AnyS, FALSE) >>
ZooObjs == { ObjectS("Z", ZooProps(FALSE), "map", FALSE), ObjectS("Z", ZooProps(TRUE), "ptrs", FALSE), ObjectS("Z", ZooProps(TRUE), "ptrs", TRUE) }
ZooRaw ==
    { M("any_any", <<>>),
      M("any_any", << <<Str("a"), I("uint64", 1)>>, <<Str("b"), Str("a")>>, <<Str("c"), Str("yes")>>, <<Str("f"), I64(1)>>, <<Str("e"), Str("a")>>,
                      <<Str("l"), L("any", <<I64(1), Str("2")>>)>>, <<Str("ls"), L("typed", <<Str("a")>>)>>,
                      <<Str("m"), M("any_any", << <<Str("a"), I64(2)>> >>)>>, <<Str("x"), L("any", <<I("int", 1)>>)>> >>),
      M("string_any", << <<Str("l"), L("any", <<I64(1), I64(3)>>)>> >>), M("string_any", << <<Str("e"), Str("c")>> >>),
      M("string_any", << <<Str("m"), M("any_any", << <<I64(1), I64(1)>> >>)>> >>), M("string_any", << <<Str("x"), Nil>> >>),
      M("string_any", << <<Str("f"), FS("float64", "nan")>> >>), M("string_any", << <<Str("l"), L("any", <<>>)>>, <<Str("ls"), L("any", <<>>)>> >>) }

\* explicit zero values for optional (pointer-field) properties: a supplied 0 / "" / false / 0.0 is a value, not absence
ZA == IntS(None, None, None)
ZB == StringS(None, None, None)
ZF == FloatS(None, None, None)
ZeroProps(mode) ==
    IF mode = "default"
    THEN << PropS("a", ZA, FALSE, <<>>, <<>>, <<>>, Some(F64(6)), FALSE, FALSE), PropS("b", ZB, FALSE, <<>>, <<>>, <<>>, Some(Str("ab")), FALSE, FALSE),
            PropS("c", BoolS, FALSE, <<>>, <<>>, <<>>, Some(B(TRUE)), FALSE, FALSE), PropS("f", ZF, FALSE, <<>>, <<>>, <<>>, Some(F64(3)), FALSE, FALSE) >>
    ELSE << Prop("a", ZA, mode = "required"), Prop("b", ZB, mode = "required"), Prop("c", BoolS, mode = "required"), Prop("f", ZF, mode = "required") >>
ZeroObjs == {ObjectS("Z", ZeroProps(m), lay, FALSE) : m \in {"default", "required", "optional"}, lay \in {"ptrs", "map"}}
ZeroChoices ==
    [a |-> {I64(0), Str("0"), F64(0), I64(1)}, b |-> {Str("#empty"), Str("a")}, c |-> {B(FALSE), Str("no"), I64(0), B(TRUE)}, f |-> {F64(0), I64(0), Str("0"), F64(3)}]
ZeroRaw ==
    {M("any_any", << <<Str(n), x>> >>) : n \in {"a"}, x \in ZeroChoices.a} \cup {M("any_any", << <<Str("b"), x>> >>) : x \in ZeroChoices.b}
    \cup {M("any_any", << <<Str("c"), x>> >>) : x \in ZeroChoices.c} \cup {M("any_any", << <<Str("f"), x>> >>) : x \in ZeroChoices.f}
    \cup {M("string_any", << <<Str("a"), w>>, <<Str("b"), x>>, <<Str("c"), y>>, <<Str("f"), z>> >>) :
            w \in {I64(0), I64(1)}, x \in {Str("#empty"), Str("a")}, y \in {B(FALSE), B(TRUE)}, z \in {F64(0), F64(3)}}
    \cup {M("any_any", <<>>)}
ZeroContainers == {ListS(o, None, None, FALSE) : o \in {q \in ZeroObjs : q.layout = "ptrs"}} \cup {MapS(ZB, o, None, None, FALSE) : o \in {q \in ZeroObjs : q.layout = "ptrs"}}
ZeroInner == { M("any_any", << <<Str("a"), I64(0)>>, <<Str("b"), Str("#empty")>>, <<Str("c"), B(FALSE)>>, <<Str("f"), F64(0)>> >>),
               M("any_any", << <<Str("a"), I64(1)>>, <<Str("b"), Str("a")>>, <<Str("c"), B(TRUE)>>, <<Str("f"), F64(3)>> >>) }
ZeroContainerRaw(s) ==
    IF s.kind = "list" THEN {L("any", <<x>>) : x \in ZeroInner} \cup {L("any", <<x, y>>) : x \in ZeroInner, y \in ZeroInner}
    ELSE {M("string_any", << <<Str("a"), x>> >>) : x \in ZeroInner}

\* string properties backed by []byte / []rune / defined-string FIELDS of a struct
StrsObjs ==
    { ObjectS("B", << Prop("b", StringS(Some(1), Some(2), None), TRUE), Prop("r", StringS(None, Some(2), None), TRUE),
                      PropS("e", StringS(None, None, None), FALSE, <<>>, <<>>, <<>>, Some(Str("ab")), FALSE, FALSE), Prop("a", IntS(None, None, None), TRUE) >>, "strs", t) : t \in BOOLEAN }
StrsRaw ==
    { M("any_any", << <<Str("b"), x>>, <<Str("r"), y>>, <<Str("a"), I64(1)>> >>) : x \in {Str("a"), Str("#eacute"), Str("abc"), I64(1)}, y \in {Str("a"), Str("#eacute"), Str("#empty")} }
    \cup { M("string_any", << <<Str("b"), Str("a")>>, <<Str("r"), Str("ab")>>, <<Str("e"), Str("b")>>, <<Str("a"), I("uint64", 2)>> >>) }
\* treat-empty-as-default on by-value fields (struct layouts only)
EidObjs ==
    { ObjectS("E", << PropS("a", IntS(None, Some(2), None), req, <<>>, <<>>, cf, None, FALSE, TRUE),
                      PropS("b", StringS(None, Some(2), None), FALSE, rif, <<>>, <<>>, None, FALSE, eb) >>, "wide", FALSE) :
        req \in BOOLEAN, cf \in SubSeqs(<<"b">>), rif \in SubSeqs(<<"a">>), eb \in {TRUE} }
    \cup { ObjectS("E", << PropS("l", ListS(TA, None, None, FALSE), FALSE, <<>>, <<>>, <<>>, None, FALSE, TRUE) >>, "wide", FALSE) }  \* finding 15
EidNat(s) ==
    IF Len(s.props) = 1
    THEN { Struct("wide", << <<"l", Some(L("typed", xs))>> >>) : xs \in { <<>>, <<I64(1)>>, <<I64(3)>> } }
    ELSE { Struct("wide", << <<"a", Some(I64(x))>>, <<"b", Some(Str(y))>> >>) : x \in {0, 1, 3}, y \in {"#empty", "a", "abc"} }

\* one-of
DiscProp(disc) == Prop("type", IF disc = "int" THEN IntS(None, None, None) ELSE StringS(None, None, None), TRUE)
MemberObj(id, p, disc, inl, layout) == ObjectS(id, IF inl THEN <<p, DiscProp(disc)>> ELSE <<p>>, layout, FALSE)
OneOfs ==
    { OneOfS(disc, "type", inl,
             IF disc = "int"
             THEN [i \in 1..n |-> <<i, MemberObj(<<"A", "B", "C">>[i], <<Prop("a", TA, TRUE), Prop("b", TB, FALSE), Prop("c", TC, TRUE)>>[i], disc, inl, "map")>>]
             ELSE [i \in 1..n |-> <<(<<"a", "b", "1">>)[i], MemberObj(<<"A", "B", "C">>[i], <<Prop("a", TA, TRUE), Prop("b", TB, FALSE), Prop("c", TC, TRUE)>>[i], disc, inl, "map")>>]) :
        disc \in {"string", "int"}, inl \in BOOLEAN, n \in {2, 3} }
OneOfStruct ==
    { OneOfS(disc, "type", FALSE,
             << <<IF disc = "int" THEN 1 ELSE "a", ObjectS("A", <<Prop("a", TA, TRUE)>>, "sub", FALSE)>>,
                <<IF disc = "int" THEN 2 ELSE "b", ObjectS("B", <<Prop("B", TB, TRUE)>>, "notag", FALSE)>> >>) : disc \in {"string", "int"} }
OneOfAny == OneOfS("string", "type", FALSE, << <<"a", ObjectS("A", << Prop("x", AnyS, FALSE), Prop("a", TA, FALSE) >>, "map", FALSE)>> >>)
OneOfAnyArgs ==
    { M("string_any", << <<Str("type"), Str("a")>>, <<Str("x"), x>> >>) :
        x \in { L("any", <<I64(1), Str("a")>>), L("any", <<I64(1), I64(2)>>), I64(1), M("any_any", << <<I64(1), I64(1)>>, <<Str("a"), I64(1)>> >>),
                L("any", << L("any", <<>>), M("any_any", <<>>) >>) } }
\* struct-mapped members declared under the ZERO key (0 / the empty string)
OneOfZeroKey ==
    { OneOfS(disc, "type", FALSE,
             << <<IF disc = "int" THEN 0 ELSE "#empty", ObjectS("A", <<Prop("a", TA, TRUE)>>, lay, FALSE)>>,
                <<IF disc = "int" THEN 1 ELSE "a", ObjectS("B", <<Prop("B", TB, TRUE)>>, "notag", FALSE)>> >>) :
        disc \in {"string", "int"}, lay \in {"sub", "sub_p"} }
    \cup { OneOfS(disc, "type", FALSE, << <<IF disc = "int" THEN 0 ELSE "#empty", ObjectS("A", <<Prop("a", TA, TRUE)>>, "map", FALSE)>>,
                                         <<IF disc = "int" THEN 1 ELSE "a", ObjectS("B", <<Prop("b", TB, FALSE)>>, "map", FALSE)>> >>) : disc \in {"string", "int"} }
DiscRaws == { I64(0), Str("#empty"), Str("0"), Str("a"), Str("b"), Str("1"), Str("2"), Str("c"), I64(1), I("uint64", 1), I64(2), I64(9), F64(2), B(TRUE), Nil, S("named", "a"),
              \* not integers, though their truncation is a declared key: 1.5, 2.5, 0.5, -0.5 (float64 / float32), NaN, Inf, "1.5"
              F64(3), F("float32", 3), F64(5), F64(1), F64(-1), FS("float64", "nan"), FS("float64", "+inf"), FS("float32", "-inf"), Str("1.5"), Str("1.0"),
              F("float32", 4) }
Bodies == { <<>>, << <<Str("a"), I64(1)>> >>, << <<Str("a"), I64(3)>> >>, << <<Str("b"), Str("a")>> >>, << <<Str("c"), B(TRUE)>> >>,
            << <<Str("a"), I64(1)>>, <<Str("x"), I64(1)>> >> }
OneOfRawArgs ==
    {M(r, body \o << <<Str("type"), d>> >>) : r \in {"any_any", "string_any"}, body \in Bodies, d \in DiscRaws}
    \cup {M("any_any", body) : body \in Bodies}
    \cup { M("int64_any", << <<I64(1), I64(1)>> >>), M("typed", << <<Str("type"), Str("a")>> >>), M("typed", << <<S("named", "type"), Str("a")>> >>),
           M("any_any", << <<Str("type"), Str("a")>>, <<I64(1), I64(1)>> >>), Nil, Str("a"), L("any", <<>>), J("struct"),
           M("any_any", << <<Str("B"), Str("a")>>, <<Str("type"), Str("b")>> >>), M("any_any", << <<Str("B"), Str("a")>>, <<Str("type"), I64(2)>> >>) }
NatDiscs == { Str("a"), Str("b"), Str("c"), I64(1), I64(2), I("uint64", 1), I64(9), Nil, I64(0), Str("#empty") }
OneOfNatArgs ==
    {M("string_any", body \o << <<Str("type"), d>> >>) : body \in Bodies, d \in NatDiscs}
    \cup {M("string_any", body) : body \in Bodies}
    \cup { M("any_any", << <<Str("a"), I64(1)>>, <<Str("type"), Str("a")>> >>), Nil, Str("a"),
           Struct("sub", << <<"a", Some(I64(1))>> >>), Struct("sub", << <<"a", Some(I64(3))>> >>),
           Struct("notag", << <<"B", Some(Str("a"))>> >>), Struct("wide", << <<"a", Some(I64(1))>> >>),
           Struct("sub_p", << <<"a", Some(I64(1))>> >>), Struct("sub_p", << <<"a", Some(I64(3))>> >>), J("nil_sub") }

\* references: a self-referential object, a reference to a sibling object, a one-of over references
SelfScope(layout) ==
    ScopeS("R", << ObjectS("R", << Prop("a", TA, TRUE), Prop(IF layout = "map" THEN "n" ELSE "sp", RefS("R"), FALSE) >>, layout, FALSE) >>)
\* a single-property object whose only property refers to the object itself: the inline shorthand hands a
\* non-map value to the property - the same object - for ever (reported by an independent reader)
LoopScope == ScopeS("A", << ObjectS("A", << Prop("n", RefS("A"), FALSE) >>, "map", FALSE) >>)
LoopScope2 == ScopeS("A", << ObjectS("A", << Prop("n", RefS("B"), FALSE) >>, "map", FALSE), ObjectS("B", << Prop("n", RefS("A"), TRUE) >>, "map", FALSE) >>)
RefScopes ==
    { SelfScope("map"), LoopScope }      \* (LoopScope2 and the nested positions: C04 universe)
    \cup { ScopeS("R", << ObjectS("R", << Prop("a", TA, TRUE), Prop("n", RefS("N"), FALSE) >>, "map", FALSE),
                          ObjectS("N", << PropS("b", TB, FALSE, <<>>, <<>>, <<>>, Some(DefB), FALSE, FALSE) >>, "map", FALSE) >>),
           ScopeS("R", << ObjectS("R", << Prop("u", OneOfS("string", "type", FALSE, << <<"a", RefS("A")>>, <<"b", RefS("R")>> >>), FALSE) >>, "map", FALSE),
                          ObjectS("A", << Prop("a", TA, TRUE) >>, "map", FALSE) >>),
           ScopeS("R", << ObjectS("R", << Prop("l", ListS(RefS("N"), None, Some(2), FALSE), FALSE) >>, "map", FALSE),
                          ObjectS("N", << Prop("a", TA, TRUE) >>, "map", FALSE) >>) }
RefRawArgs ==
    LET leafs == { M("any_any", << <<Str("a"), I64(1)>> >>), M("any_any", << <<Str("a"), I64(3)>> >>), M("any_any", <<>>), I64(1) }
        wrap(n, x) == M("any_any", << <<Str("a"), I64(1)>>, <<Str(n), x>> >>)
    IN leafs \cup {wrap("n", x) : x \in leafs} \cup {wrap("n", wrap("n", x)) : x \in leafs}
       \cup { M("any_any", << <<Str("a"), I64(1)>>, <<Str("n"), M("any_any", << <<Str("b"), Str("a")>> >>)>> >>),
              M("any_any", << <<Str("a"), I64(1)>>, <<Str("n"), M("any_any", << <<Str("b"), Str("abc")>> >>)>> >>),
              M("any_any", << <<Str("u"), M("any_any", << <<Str("type"), Str("a")>>, <<Str("a"), I64(1)>> >>)>> >>),
              M("any_any", << <<Str("u"), M("any_any", << <<Str("type"), Str("b")>>,
                                <<Str("u"), M("any_any", << <<Str("type"), Str("a")>>, <<Str("a"), I64(3)>> >>)>> >>)>> >>),
              M("any_any", << <<Str("l"), L("any", << M("any_any", << <<Str("a"), I64(1)>> >>), M("any_any", << <<Str("a"), I64(3)>> >>) >>)>> >>),
              M("any_any", << <<Str("l"), L("any", << M("any_any", << <<Str("a"), I64(1)>> >>) >>)>> >>),
              \* non-map values at the root and nested (the shorthand loop), and proper nesting of the loop scopes
              Str("a"), L("any", <<I64(1)>>), M("any_any", << <<Str("n"), I64(1)>> >>),
              M("any_any", << <<Str("n"), M("any_any", <<>>)>> >>), M("any_any", << <<Str("n"), M("any_any", << <<Str("n"), M("any_any", <<>>)>> >>)>> >>),
              M("any_any", << <<Str("n"), M("any_any", << <<Str("n"), Str("a")>> >>)>> >>) }

\* ------------------------------------------------------------------ bind tables
WireSamples ==
    << Nil, B(TRUE), I64(1), I64(0), I64(-1), I("int", 3), I("uint8", 2), I("named", 1), I64(IMax), I("uint64", IMax + 1), I64(IMin),
       F64(3), F64(2), F64(-2), F64(0), F("float32", 3), F("float32", 2), FS("float64", "nan"), FS("float64", "+inf"), FS("float32", "-inf"),
       Str("a"), Str("#empty"), Str("1"), Str("true"), Str("1.5"), Str("nan"), Str("#eacute"), S("named", "a"),
       L("any", <<>>), L("any", <<I64(1), Str("a"), Nil>>), L("typed", <<I64(1), I64(2)>>), L("typed", <<Str("a")>>), L("bytes", <<I("uint8", 1)>>),
       L("any", <<L("any", <<F64(3)>>)>>),
       M("string_any", <<>>), M("any_any", <<>>), M("string_any", << <<Str("a"), I64(1)>> >>), M("any_any", << <<Str("a"), I64(1)>> >>),
       M("any_any", << <<I64(1), Str("a")>>, <<Str("b"), F64(3)>> >>), M("int64_any", << <<I64(1), I64(-1)>> >>),
       M("typed", << <<Str("a"), I64(1)>> >>), M("string_any", << <<Str("a"), M("any_any", << <<I64(2), Nil>> >>)>> >>),
       M("any_any", << <<B(TRUE), I64(1)>> >>) >>
OptT(c, x) == IF c THEN Some(x) ELSE None
TransportCase(w) ==
    [w |-> w,
     cbor |-> IF CBORable(w) THEN Some(CBOR(w)) ELSE None,
     json |-> IF JSONable(w) THEN Some(JSON(w)) ELSE None,
     yaml |-> IF YAMLable(w) THEN Some(YAML(w)) ELSE None]

\* ------------------------------------------------------------------ the state machine
Vec(s, op, x) ==
    [fam |-> "schema", s |-> s, op |-> op, arg |-> x, exp |-> Declared(s, op, x), mod |-> Outcome(s, op, x), sub |-> Sub(s, op, x)]

\* ------------------------------------------------------------------ C02: colliding keys in typed raw maps
\* Two DIFFERENT raw keys of one Go type can denote the same key: the strings "1" / "01" / "+1" for an integer key,
\* "60s" / "1m" with units.  Raw maps keyed by strings (map[string]any, map[string]string) and by interface values,
\* against integer-keyed map schemas with and without a lower size bound; the pair <<"1", "2">> is the control.
DupKeySchemas ==
    {MapS(k, w, b[1], b[2], t) :
        k \in {IntS(None, None, None), IntS(Some(1), Some(7), None), IntS(None, None, Some("sec")), EnumIntS(<<1, 7>>, None)},
        w \in {StringS(None, None, None), AnyS}, b \in { <<None, None>>, <<Some(2), None>>, <<Some(2), Some(2)>> }, t \in BOOLEAN}
DupKeyTexts(s) ==
    IF s.keys.units.some
    THEN { <<"60s", "1m">>, <<"1m", "60s">>, <<"1s", "0m1s">>, <<"1s", "1m">>, <<"1", "1s">> }
    ELSE { <<"1", "01">>, <<"01", "1">>, <<"1", "+1">>, <<"01", "+1">>, <<"7", "+7">>, <<"7", "07">>, <<"07", "+7">>, <<"1", "2">>, <<"1", "7">> }
DupKeyRaw(s) ==
    {M(rep, << <<Str(p[1]), Str("a")>>, <<Str(p[2]), Str("b")>> >>) : rep \in {"string_any", "any_any", "typed"}, p \in DupKeyTexts(s)}
    \cup (IF s.keys.units.some THEN {}
          ELSE {M(rep, << <<Str("1"), Str("a")>>, <<Str("2"), Str("a")>>, <<Str("01"), Str("b")>> >>) : rep \in {"string_any", "typed"}}
               \cup {M("any_any", << <<Str("01"), Str("a")>>, <<I64(1), Str("b")>> >>)})

\* ------------------------------------------------------------------ C02: unanchored patterns
\* (the scalar universe holds every pattern x every value token; here below list items, on all three operations)
UnanchoredPats == {"lit", "idn", "sfx"}
PatListSchemas == {ListS(StringS(None, None, Some(p)), None, None, t) : p \in UnanchoredPats, t \in BOOLEAN}
PatPairToks == {"abc", "xabc", "my id-7", "id-7", "file.txt", ".txt", "txt"}
PatListItems == {<<t>> : t \in G("g_pattern")} \cup {<<t, u>> : t \in PatPairToks, u \in PatPairToks}
PatListOf(rep, ts) == L(rep, [i \in 1..Len(ts) |-> Str(ts[i])])

InitC02Extra ==
    \/ \E s \in DupKeySchemas : \E x \in DupKeyRaw(s) : vec = Vec(s, "unser", x)
    \/ \E s \in PatListSchemas : \E ts \in PatListItems :
          \/ \E rep \in {"any", "typed"} : vec = Vec(s, "unser", PatListOf(rep, ts))
          \/ ~s.typed /\ \E op \in {"valid", "ser"} : vec = Vec(s, op, PatListOf("typed", ts))

InitC02 ==
    \/ \E s \in BigUnitSchemas : \E x \in BigRaw : vec = Vec(s, "unser", x)
    \/ \E s \in C02Scalars :
          \/ \E x \in ScalarRaw(s) : vec = Vec(s, "unser", x)
          \/ s.kind = "any" /\ \E x \in AnyRaw : vec = Vec(s, "unser", x)
          \/ \E x \in ScalarNatives(s) : \E op \in {"valid", "ser"} : vec = Vec(s, op, x)
    \/ \E s \in C02Lists :
          \/ \E x \in RawLists : vec = Vec(s, "unser", x)
          \/ ~s.typed /\ \E x \in NativeLists(s) : \E op \in {"valid", "ser"} : vec = Vec(s, op, x)
    \/ \E s \in C02Maps :
          \/ \E x \in RawMaps : vec = Vec(s, "unser", x)
          \/ ~s.typed /\ \E x \in NativeMaps(s) : \E op \in {"valid", "ser"} : vec = Vec(s, op, x)
    \/ \E s \in DeepSchemas : \E x \in DeepRaw(s) : vec = Vec(s, "unser", x)
    \/ \E s \in AnyContainerSchemas : \E x \in AnyContainerRaw(s) : vec = Vec(s, "unser", x)
    \/ InitC02Extra

InitC04 ==
    \/ \E leaf \in C04Leafs : \E x \in C04Values : \E p \in Positions(leaf, x) :
          \/ \E op \in {"valid", "ser"} : vec = Vec(p[1], op, p[2])
          \/ Decodable(x) /\ \E op \in {"unser", "compat"} : vec = Vec(p[1], op, p[2])
    \/ \E leaf \in C04LoopLeafs : \E x \in C04LoopValues :
          \E p \in { <<leaf, x>>, <<ListS(leaf, None, None, FALSE), L("any", <<x>>)>> } :
              \E op \in {"unser", "compat", "valid", "ser"} : vec = Vec(p[1], op, p[2])
    \/ \E leaf \in C04ChainLeafs : \E x \in C04ChainValues :
          \E p \in { <<leaf, x>>, <<ListS(leaf, None, None, FALSE), L("any", <<x>>)>> } :
              \E op \in {"unser", "compat"} : vec = Vec(p[1], op, p[2])
    \/ \E d \in DeepDepths :
          \/ \E op \in {"unser", "compat"} : vec = Vec(NodeScope, op, DeepNode(d, "any_any")) \/ vec = Vec(DirScope, op, DeepDir(d, "any_any"))
          \/ \E op \in {"valid", "ser"} : vec = Vec(NodeScope, op, DeepNode(d, "string_any")) \/ vec = Vec(DirScope, op, DeepDir(d, "string_any"))
    \/ \E leaf \in C04DefLoopLeafs : \E x \in { M("any_any", <<>>), M("string_any", << <<Str("a"), I64(1)>> >>) } :
          \E op \in {"unser", "compat"} : vec = Vec(leaf, op, x)

DisSet == IF Deep THEN BOOLEAN ELSE {FALSE}
\* three properties, one of them with a rule list of length TWO over the other two (any / none-of semantics)
L2Prop(name, type, kind, others) ==
    CASE kind = "rif" -> PropS(name, type, FALSE, others, <<>>, <<>>, None, FALSE, FALSE)
      [] kind = "rifn" -> PropS(name, type, FALSE, <<>>, others, <<>>, None, FALSE, FALSE)
      [] kind = "cf" -> PropS(name, type, FALSE, <<>>, <<>>, others, None, FALSE, FALSE)
Objs3L2(layout) ==
    {ObjectS("O", << L2Prop("a", TA, k, <<"b", "c">>), Prop("b", TB, FALSE), Prop("c", TC, FALSE) >>, layout, FALSE) : k \in {"rif", "rifn", "cf"}}
    \cup {ObjectS("O", << Prop("a", TA, FALSE), Prop("b", TB, FALSE), L2Prop("c", TC, k, <<"a", "b">>) >>, layout, FALSE) : k \in {"rif", "rifn", "cf"}}
    \cup {ObjectS("O", << L2Prop("a", TA, "rifn", <<"b", "c">>), L2Prop("b", TB, "cf", <<"a", "c">>), L2Prop("c", TC, "rif", <<"a", "b">>) >>, layout, FALSE)}
C03Objects ==
    Objs1("map", BOOLEAN, {FALSE}) \cup Objs2("map", DisSet, {FALSE})
    \cup Objs1("ptrs", BOOLEAN, {FALSE}) \cup Objs2("ptrs", DisSet, {FALSE})
    \cup Objs3L2("map") \cup Objs3L2("ptrs")
    \cup (IF Deep THEN Objs3("map") \cup Objs3("ptrs") ELSE {})
\* ------------------------------------------------------------------ C03 / C01: map-based and scope-typed members of struct-mapped objects
\* A MAP-BASED sub-object (NewObjectSchema) as a non-required member of a struct-mapped parent, held by value in a field
\* of type map[string]any (layout opts) or in an interface field (ptrs.x): omitted, it is built from its own defaults
\* like any member that is not a pointer (SchemaSem!EffectiveDefault) - and the round trip is the identity.
MapSub(defs) ==
    ObjectS("S", << PropS("a", IntS(None, None, None), FALSE, <<>>, <<>>, <<>>, IF defs THEN Some(F64(12)) ELSE None, FALSE, FALSE),
                    PropS("b", StringS(None, None, None), FALSE, <<>>, <<>>, <<>>, IF defs THEN Some(Str("b")) ELSE None, FALSE, FALSE) >>, "map", FALSE)
OptsObjects ==
    { ObjectS("P", << Prop("a", TA, TRUE), PropS("o", MapSub(d), FALSE, <<>>, <<>>, <<>>, dv, FALSE, FALSE) >>, "opts", FALSE) :
        d \in BOOLEAN, dv \in {None, Some(M("string_any", << <<Str("a"), F64(20)>> >>))} }
    \cup { ObjectS("P", << Prop("a", TA, FALSE), Prop("x", MapSub(d), FALSE) >>, "ptrs", FALSE) : d \in BOOLEAN }
OptsRaw ==
    LET subs == { M("any_any", <<>>), M("string_any", << <<Str("a"), I64(7)>> >>), M("string_any", << <<Str("b"), Str("a")>> >>),
                  M("string_any", << <<Str("x"), I64(7)>> >>), I64(1) }
    IN { M("any_any", << <<Str("a"), I64(1)>> >>), M("any_any", <<>>) }
       \cup { M("any_any", << <<Str("a"), I64(1)>>, <<Str(n), w>> >>) : n \in {"o", "x"}, w \in subs }
\* A nested SCOPE as a member: absent and without a declared default it stays absent (it is no object-typed member that
\* gets its root's defaults), so it does not count as set for its siblings' conflicts / required_if
ScopeMember == ScopeS("L", << ObjectS("L", << PropS("b", StringS(None, None, None), FALSE, <<>>, <<>>, <<>>, Some(Str("a")), FALSE, FALSE) >>, "map", FALSE) >>)
ScopeMemberObjs ==
    { ObjectS("C", << PropS("x", ScopeMember, FALSE, <<>>, <<>>, cf, None, FALSE, FALSE),
                      PropS("c", BoolS, FALSE, <<>>, <<>>, <<"x">>, None, FALSE, FALSE),
                      PropS("b", TB, FALSE, rif, <<>>, <<>>, None, FALSE, FALSE) >>, lay, FALSE) :
        cf \in { <<>>, <<"c">> }, rif \in { <<>>, <<"x">> }, lay \in {"ptrs", "map"} }
    \* by value (a map[string]any field): required, so that absence need not be represented (caveat ii)
    \cup { ObjectS("P", << Prop("a", TA, TRUE), Prop("o", ScopeMember, TRUE) >>, "opts", FALSE) }
ScopeMemberRaw ==
    LET xs == { M("any_any", <<>>), M("string_any", << <<Str("b"), Str("ab")>> >>) } IN
    { M("any_any", <<>>), M("any_any", << <<Str("c"), B(TRUE)>> >>), M("any_any", << <<Str("b"), Str("a")>> >>),
      M("any_any", << <<Str("c"), B(TRUE)>>, <<Str("b"), Str("a")>> >>), M("any_any", << <<Str("a"), I64(1)>> >>) }
    \cup { M("any_any", << <<Str("x"), w>> >>) : w \in xs } \cup { M("any_any", << <<Str("x"), w>>, <<Str("b"), Str("a")>> >>) : w \in xs }
    \cup { M("any_any", << <<Str("x"), w>>, <<Str("b"), Str("a")>>, <<Str("c"), B(TRUE)>> >>) : w \in xs }
    \cup { M("any_any", << <<Str("a"), I64(1)>>, <<Str("o"), w>> >>) : w \in xs }

\* ------------------------------------------------------------------ C03: equal IDs on a shorthand chain
\* The single-property inline shorthand hands a lone non-map value down a chain of single-property objects.  Two
\* DIFFERENT objects of the chain may carry the same ID - an object nested directly, or the root of a nested scope
\* (its own table) named like the outer object: that is no cycle, the lone value reaches the leaf.  (Genuine
\* self-references - LoopScope - are rejected: RefScopes.)
SameIdLeaf(id) == ObjectS(id, << Prop("a", TA, TRUE) >>, "map", FALSE)
SameIdChains ==
    { ObjectS("P", << Prop("x", SameIdLeaf(i2), TRUE) >>, "map", FALSE) : i2 \in {"P", "Q"} }
    \cup { ObjectS("P", << Prop("x", ScopeS(i2, << SameIdLeaf(i2) >>), TRUE) >>, "map", FALSE) : i2 \in {"P", "Q"} }
    \cup { ScopeS("P", << ObjectS("P", << Prop("x", ScopeS("P", << SameIdLeaf("P") >>), TRUE) >>, "map", FALSE) >>),
           \* three links, the first and the last named alike
           ObjectS("P", << Prop("x", ObjectS("Q", << Prop("n", SameIdLeaf("P"), TRUE) >>, "map", FALSE), TRUE) >>, "map", FALSE),
           \* a reference in between: P -> ref N -> (nested scope) P
           ScopeS("P", << ObjectS("P", << Prop("x", RefS("N"), TRUE) >>, "map", FALSE),
                          ObjectS("N", << Prop("n", ScopeS("P", << SameIdLeaf("P") >>), TRUE) >>, "map", FALSE) >>) }
SameIdRaw ==
    { I64(1), I64(3), Str("1"), Str("a"), Nil, L("any", <<I64(1)>>),
      M("any_any", << <<Str("x"), I64(1)>> >>), M("any_any", << <<Str("x"), M("any_any", << <<Str("a"), I64(1)>> >>)>> >>),
      M("any_any", << <<Str("x"), M("any_any", << <<Str("n"), I64(1)>> >>)>> >>), M("any_any", <<>>) }

\* ------------------------------------------------------------------ C03: list / map fields left at their zero value
\* A by-value field of slice / map type always holds a value: left unassigned it is the EMPTY list / map (nil), which
\* is a value of the property - "set" for required / conflicts / required_if, serialised as an empty list / mapping.
\* (The harness runs every native struct value a second time with its empty list / map fields left nil.)
NFL == ListS(IntS(None, None, None), None, None, FALSE)
NFM == MapS(StringS(None, None, None), IntS(None, None, None), None, None, FALSE)
NilFieldProps ==
    { << Prop("a", TA, FALSE), Prop(nt[1], nt[2], TRUE) >> : nt \in { <<"l", NFL>>, <<"m", NFM>> } }
    \cup { << PropS("a", TA, FALSE, IF r = 1 THEN <<nt[1]>> ELSE <<>>, IF r = 2 THEN <<nt[1]>> ELSE <<>>, IF r = 3 THEN <<nt[1]>> ELSE <<>>,
                     None, FALSE, FALSE), Prop(nt[1], nt[2], TRUE) >> : nt \in { <<"l", NFL>>, <<"m", NFM>> }, r \in 1..3 }
    \cup { << Prop("a", TA, FALSE), PropS(nt[1], nt[2], TRUE, <<>>, <<>>, <<"a">>, None, FALSE, FALSE) >> : nt \in { <<"l", NFL>>, <<"m", NFM>> } }
    \cup { << Prop("l", NFL, TRUE), Prop("m", NFM, TRUE) >>,
           << Prop("l", NFL, TRUE), PropS("m", NFM, TRUE, <<>>, <<>>, <<"l">>, None, FALSE, FALSE) >> }
NilFieldObjs == {ObjectS("Z", ps, "ptrs", FALSE) : ps \in NilFieldProps}
NilFieldChoices(n) ==
    CASE n = "a" -> {None, Some(I64(1))}
      [] n = "l" -> {Some(L("typed", <<>>)), Some(L("typed", <<I64(1)>>))}
      [] n = "m" -> {Some(M("typed", <<>>)), Some(M("typed", << <<Str("a"), I64(1)>> >>))}
NilFieldNat(s) ==
    {Struct(s.layout, << <<s.props[1].name, v1>>, <<s.props[2].name, v2>> >>) :
        v1 \in NilFieldChoices(s.props[1].name), v2 \in NilFieldChoices(s.props[2].name)}
NilFieldRawChoices(n) ==
    CASE n = "a" -> {I64(1)}
      [] n = "l" -> {L("any", <<>>), L("any", <<I64(1)>>), Nil}
      [] n = "m" -> {M("any_any", <<>>), M("string_any", << <<Str("a"), I64(1)>> >>)}
NilFieldRaw(s) ==
    LET one(i) == {M("any_any", << <<Str(s.props[i].name), w>> >>) : w \in NilFieldRawChoices(s.props[i].name)} IN
    {M("any_any", <<>>)} \cup one(1) \cup one(2)
    \cup {M("any_any", << <<Str(s.props[1].name), w1>>, <<Str(s.props[2].name), w2>> >>) :
            w1 \in NilFieldRawChoices(s.props[1].name), w2 \in NilFieldRawChoices(s.props[2].name)}

InitC03 ==
    \/ \E s \in SameIdChains : \E x \in SameIdRaw : vec = Vec(s, "unser", x)
    \/ \E s \in OptsObjects : \E x \in OptsRaw : vec = Vec(s, "unser", x)
    \/ \E s \in ScopeMemberObjs : \E x \in ScopeMemberRaw : vec = Vec(s, "unser", x)
    \/ \E s \in NilFieldObjs :
          \/ \E x \in NilFieldRaw(s) : vec = Vec(s, "unser", x)
          \/ \E x \in NilFieldNat(s) : \E op \in {"valid", "ser"} : vec = Vec(s, op, x)
    \/ \E s \in C03Objects :
          \/ \E x \in ObjRawArgs(s) : vec = Vec(s, "unser", x)
          \/ Len(s.props) <= 2 /\ ~(\E i \in DOMAIN s.props : s.props[i].disabled) /\ \E x \in ObjRawExtra(s) : \E op \in {"unser", "compat"} : vec = Vec(s, op, x)
          \/ \E x \in NatArgs(s) : vec = Vec(s, "valid", x)
          \/ (Deep \/ Len(s.props) # 2 \/ s.layout = "map") /\ \E x \in NatArgs(s) : vec = Vec(s, "ser", x)
          \/ Len(s.props) = 1 /\ \E x \in NatExtra(s) : \E op \in {"valid", "ser"} : vec = Vec(s, op, x)
    \/ \E s \in SubObjects : \E x \in SubRawArgs : vec = Vec(s, "unser", x)
    \/ \E s \in ShorthandDefaultObjs : \E x \in ShorthandDefaultRaw : \E op \in {"unser", "compat"} : vec = Vec(s, op, x)
    \/ \E s \in ZooObjs : \E x \in ZooRaw : vec = Vec(s, "unser", x)
    \/ \E s \in ZeroObjs : \E x \in ZeroRaw : vec = Vec(s, "unser", x)
    \/ \E s \in StrsObjs : \E x \in StrsRaw : vec = Vec(s, "unser", x)
    \/ \E s \in ZeroContainers : \E x \in ZeroContainerRaw(s) : vec = Vec(s, "unser", x)
    \/ \E s \in EidObjs :
          \/ \E x \in ObjRawArgs(s) : vec = Vec(s, "unser", x)
          \/ \E x \in EidNat(s) : \E op \in {"valid", "ser"} : vec = Vec(s, op, x)
    \/ \E s \in OneOfs \cup OneOfStruct \cup OneOfZeroKey :
          \/ \E x \in OneOfRawArgs : \E op \in {"unser", "compat"} : vec = Vec(s, op, x)
          \/ \E x \in OneOfNatArgs : \E op \in {"valid", "ser"} : vec = Vec(s, op, x)
    \/ \E s \in RefScopes : \E x \in RefRawArgs : \E op \in {"unser", "compat"} : (s = LoopScope => op = "unser") /\ vec = Vec(s, op, x)
    \/ \E x \in OneOfAnyArgs : \E op \in {"unser", "valid", "ser", "compat"} : vec = Vec(OneOfAny, op, x)

\* ------------------------------------------------------------------ C01: chained round trip
\* one vector per (schema, accepted raw value): Unserialize -> Validate -> Serialize -> (real CBOR) ->
\* Unserialize -> Serialize; exp = the declared outcome of the first step, mod / wire = the model's native
\* value and wire form
VecChain(s, x) ==
    LET u == Unser(s, x) IN
    [fam |-> "schema", s |-> s, op |-> "chain", arg |-> x, exp |-> Declared(s, "unser", x), mod |-> u,
     sub |-> <<>>, wire |-> IF u.ok = "yes" THEN Ser(s, u.v) ELSE Rej]
Accepting(s, x) == Declared(s, "unser", x).ok # "no"
C01Scalars ==
    IntSchemas({ <<None, None>>, <<Some(1), Some(2)>>, <<Some(IMin), Some(IMax)>> }, UnitOpts)
    \cup FloatSchemas({ <<None, None>>, <<Some(2), Some(4)>>, <<None, Some(2 * IMax)>> }, UnitOpts)
    \cup StringSchemas({ <<None, None>>, <<Some(1), Some(2)>> }, {None, Some("lower")})
    \cup {BoolS, PatternS, AnyS}
    \cup {EnumIntS(vs, u) : vs \in { <<1, 2>>, <<IMax, IMin>> }, u \in UnitOpts}
    \cup {EnumStrS(vs, t) : vs \in { <<"a", "b">>, <<"1", "#empty">>, <<"true", "1.000000", "NaN">> }, t \in BOOLEAN}
C01Containers ==
    {ListS(i, bt[1], bt[2], t) : i \in ItemSchemas \cup {ListS(TA, None, None, FALSE), MapS(StringS(None, None, None), TA, None, None, FALSE)},
                               bt \in { <<None, None>>, <<Some(1), Some(2)>> }, t \in BOOLEAN}
    \cup {MapS(k, IntS(None, None, None), Some(2), Some(2), FALSE) : k \in KeySchemas}
    \cup {MapS(k, w, None, Some(2), t) : k \in KeySchemas, w \in ValSchemas \cup {ListS(TA, None, None, FALSE), FloatS(None, None, None)}, t \in BOOLEAN}
C01ContainerRaw(s) ==
    IF s.kind = "list"
    THEN (IF s.items.kind \in ContainerKinds
          THEN {L("any", xs) : xs \in SeqsUpTo({L("any", <<I64(1)>>), L("typed", <<I("uint64", 2), I("uint64", 1)>>), M("any_any", << <<Str("a"), I64(1)>> >>),
                                                M("string_any", << <<Str("a"), Str("2")>> >>), L("any", <<>>), M("any_any", <<>>)}, 2)}
          ELSE {L("any", xs) : xs \in SeqsUpTo(ElemCands, 2)} \cup {L("typed", xs) : xs \in {ys \in SeqsUpTo(ElemCands, 2) : Homog(ys)}}
               \cup {L("bytes", <<I("uint8", 1), I("uint8", 2)>>)})
    ELSE {M("any_any", ps) : ps \in {q \in GoodPairs : Len(q) <= 2}}
         \cup {M("string_any", << <<Str("a"), x>> >>) : x \in {L("any", <<I64(1), Str("2")>>), L("any", <<>>), F("float32", 3), I64(IMax), FS("float64", "nan")}}
\* typed lists / maps whose item type is a one-of (NewTypedListSchema[any], NewTypedMapSchema[string, any]): what a
\* decoder hands over ([]any of map[string]any) already "has the native type", yet every item still has to be unserialized
ItemOneOf == OneOfS("string", "type", FALSE,
                    << <<"a", ObjectS("A", << PropS("a", IntS(None, None, None), FALSE, <<>>, <<>>, <<>>, Some(F64(6)), FALSE, FALSE),
                                             Prop("b", StringS(None, None, None), FALSE) >>, "map", FALSE)>>,
                       <<"b", ObjectS("B", << Prop("c", BoolS, TRUE) >>, "map", FALSE)>> >>)
TypedAnyContainers == {ListS(ItemOneOf, None, None, t) : t \in BOOLEAN} \cup {MapS(StringS(None, None, None), ItemOneOf, None, None, t) : t \in BOOLEAN}
TypedAnyItems ==
    { M("string_any", << <<Str("type"), Str("a")>> >>),                                   \* omits the defaulted property
      M("string_any", << <<Str("type"), Str("a")>>, <<Str("a"), F64(2)>> >>),              \* a JSON-decoded number
      M("string_any", << <<Str("type"), Str("a")>>, <<Str("a"), Str("1")>>, <<Str("b"), I64(1)>> >>),   \* numeric string / number for a string
      M("string_any", << <<Str("type"), Str("b")>>, <<Str("c"), Str("yes")>> >>),
      M("any_any", << <<Str("type"), Str("a")>>, <<Str("a"), I("uint64", 2)>> >>) }
TypedAnyRaw(s) ==
    IF s.kind = "list" THEN {L("any", <<x>>) : x \in TypedAnyItems} \cup {L("any", <<x, y>>) : x \in TypedAnyItems, y \in TypedAnyItems} \cup {L("any", <<>>)}
    ELSE {M("string_any", << <<Str("a"), x>> >>) : x \in TypedAnyItems} \cup {M("any_any", << <<Str("a"), x>>, <<Str("b"), y>> >>) : x \in TypedAnyItems, y \in TypedAnyItems}
MBSchemas == {StringS(p[1], p[2], None) : p \in { <<None, Some(1)>>, <<None, Some(2)>>, <<None, Some(5)>>, <<Some(2), None>>, <<Some(6), None>>,
                                                  <<Some(3), Some(5)>>, <<None, None>> }}
             \cup {ListS(StringS(None, Some(2), None), None, None, t) : t \in BOOLEAN}
             \cup {ObjectS("O", <<Prop("b", StringS(None, Some(5), None), TRUE)>>, lay, FALSE) : lay \in {"map", "ptrs"}}
MBRaw(s) ==
    LET toks == {Str(t) : t \in G("g_mb") \cup {"a", "ab"}} IN
    CASE s.kind = "string" -> toks
      [] s.kind = "list" -> {L("any", <<x>>) : x \in toks}
      [] s.kind = "object" -> {M("any_any", << <<Str("b"), x>> >>) : x \in toks}
\* "The typed entry points return the same results as the untyped ones" - also where the result is a rejection:
\* every scalar schema of C01 with the raw values the statement REJECTS, and every bounded float schema of the C02
\* universe (with and without units) with the non-finite classes - NaN, +-Inf as float64 / float32 / string.
\* The harness runs UnserializeType on the raw value and ValidateType / SerializeType on it where it is of the
\* entry points' type, against Unserialize / Validate / Serialize.
NonFiniteRaw(s) ==
    {FS(r, x) : r \in FloatReps, x \in {"nan", "+inf", "-inf"}}
    \cup {Str(t) : t \in {u \in G("g_float") : Tok[u].flt.ok /\ Tok[u].flt.cls # "num"}}
BoundedFloats == {s \in FloatSchemas(FloatBP, UnitOpts) : s.min.some \/ s.max.some}
InitC01 ==
    \/ \E s \in C01Scalars : \E x \in ScalarRaw(s) : ~Accepting(s, x) /\ vec = VecChain(s, x)
    \/ \E s \in BoundedFloats : \E x \in NonFiniteRaw(s) : vec = VecChain(s, x)
    \/ \E s \in OptsObjects : \E x \in OptsRaw : Accepting(s, x) /\ vec = VecChain(s, x)
    \/ \E s \in ScopeMemberObjs : \E x \in ScopeMemberRaw : Accepting(s, x) /\ vec = VecChain(s, x)
    \* (the chain is run whenever the CODE accepts: these vectors are not filtered by the model's verdict)
    \/ \E s \in MBSchemas : \E x \in MBRaw(s) : vec = VecChain(s, x)
    \/ \E s \in C01Scalars \cup C02Scalars : \E x \in ScalarRaw(s) \cup (IF s.kind = "any" THEN AnyRaw ELSE {}) : Accepting(s, x) /\ vec = VecChain(s, x)
    \/ \E s \in C01Containers : \E x \in C01ContainerRaw(s) : Accepting(s, x) /\ vec = VecChain(s, x)
    \/ Deep /\ \E s \in C02Lists : \E x \in RawLists : Accepting(s, x) /\ vec = VecChain(s, x)
    \/ Deep /\ \E s \in C02Maps : \E x \in RawMaps : Accepting(s, x) /\ vec = VecChain(s, x)
    \/ \E s \in Objs1("map", {FALSE}, {FALSE}) \cup Objs2("map", {FALSE}, {FALSE}) \cup Objs1("ptrs", {FALSE}, {FALSE})
               \cup (IF Deep THEN Objs2("ptrs", {FALSE}, {FALSE}) ELSE {}) :
          \E x \in ObjRawArgs(s) \cup (IF Len(s.props) = 1 THEN ObjRawExtra(s) ELSE {}) : Accepting(s, x) /\ vec = VecChain(s, x)
    \/ \E s \in SubObjects : \E x \in SubRawArgs : Accepting(s, x) /\ vec = VecChain(s, x)
    \/ \E s \in ZooObjs : \E x \in ZooRaw : Accepting(s, x) /\ vec = VecChain(s, x)
    \/ \E s \in ZeroObjs : \E x \in ZeroRaw : vec = VecChain(s, x)
    \/ \E s \in ZeroContainers : \E x \in ZeroContainerRaw(s) : vec = VecChain(s, x)
    \/ \E s \in EidObjs : \E x \in ObjRawArgs(s) : Accepting(s, x) /\ vec = VecChain(s, x)
    \/ \E s \in OneOfs \cup OneOfStruct \cup OneOfZeroKey : \E x \in OneOfRawArgs : Accepting(s, x) /\ vec = VecChain(s, x)
    \/ \E s \in TypedAnyContainers : \E x \in TypedAnyRaw(s) : vec = VecChain(s, x)
    \/ \E s \in StrsObjs : \E x \in StrsRaw : vec = VecChain(s, x)
    \/ \E s \in RefScopes : \E x \in RefRawArgs : Accepting(s, x) /\ vec = VecChain(s, x)
    \/ \E x \in OneOfAnyArgs : Accepting(OneOfAny, x) /\ vec = VecChain(OneOfAny, x)

\* ------------------------------------------------------------------ C17: error paths
BaseOp(op) == IF op = "path_unser" THEN "unser" ELSE "valid"
VecPath(c, op) ==
    LET arg == IF op = "path_unser" THEN c.bad ELSE c.nbad.v
        good == IF op = "path_unser" THEN c.good ELSE c.ngood
    IN [fam |-> "schema", s |-> c.s, op |-> op, arg |-> arg, good |-> good, exp |-> Declared(c.s, BaseOp(op), arg),
        mod |-> Outcome(c.s, BaseOp(op), arg), goodok |-> Outcome(c.s, BaseOp(op), good).ok, sub |-> <<>>,
        path |-> ExpectedPath(c), fault |-> c.fault, key |-> c.key]
InitC17 ==
    \E leaf \in AllLeafCases : \E ks \in KindSeqs(IF Deep THEN 3 ELSE 2) :
        LET n == Nest(ks, leaf) IN
        n.ok /\ \E op \in {"path_unser", "path_valid"} :
            /\ (op = "path_valid" => n.c.nbad.some)
            /\ (op = "path_unser" => Unser(leaf.s, leaf.bad).ok = "no")
            /\ (leaf \notin LeafCases => (IF Len(ks) <= (IF Deep THEN 2 ELSE 1) THEN TRUE ELSE ks[1] \in {"list", "object", "oneof"}))
            /\ vec = VecPath(n.c, op)

InitBind ==
    \/ vec = [fam |-> "bind", what |-> "strings", toks |-> TokSeq, dec |-> DecSeq, ftok |-> FSeq,
            imax |-> IMax, imin |-> IMin, symlen |-> SymLen, layouts |-> Layouts]
    \/ vec = [fam |-> "bind", what |-> "transport", cases |-> [i \in DOMAIN WireSamples |-> TransportCase(WireSamples[i])]]

Init ==
    CASE Mode = "c02" -> InitC02
      [] Mode = "c04" -> InitC04
      [] Mode = "c03" -> InitC03
      [] Mode = "c01" -> InitC01
      [] Mode = "c17" -> InitC17
      [] Mode = "bind" -> InitBind
Next == UNCHANGED vec
Spec == Init /\ [][Next]_vec

\* ------------------------------------------------------------------ properties of the model
IsVec == vec.fam = "schema"
\* A vector stores mod = Outcome(s, op, arg) (SchemaSem) and exp = Declared(s, op, arg)
\* (SchemaDecl), so the invariants of SchemaDecl are evaluated on the stored outcomes:
\* C02, first sentence - SchemaDecl!Exact(s, raw): Unserialize accepts exactly what denotes a
\* satisfying value, and the result IS the denoted value
ExactOK == (IsVec /\ vec.op = "unser") => Refines(vec.mod, vec.exp)
\* C02, second sentence - SchemaDecl!SamePaths(s, v): Validate / Serialize enforce the same
\* constraints on native values (definite on both sides) and Serialize emits the wire form
SamePathsOK ==
    (IsVec /\ vec.op \in {"valid", "ser"}) =>
        /\ Refines(vec.mod, vec.exp)
        /\ (IsNative(vec.s, vec.arg) /\ ~UsesDisabled(vec.s, vec.arg)) => vec.mod.ok \in {"yes", "no"} /\ vec.exp.ok \in {"yes", "no"}
\* C04 on the model: every operator yields an outcome for this (position, class) - a missing
\* CASE arm would already have stopped TLC while computing the vector
TotalOK == IsVec => /\ vec.mod.ok \in {"yes", "no", "maybe"} /\ vec.exp.ok \in {"yes", "no", "maybe"}
                    /\ WF(vec.s) /\ WFV(vec.arg)
\* C01 on the model: SchemaDecl!RoundTrip
RoundTripOK == (IsVec /\ vec.op = "chain") => RoundTrip(vec.s, vec.arg) /\ Refines(vec.mod, vec.exp)
\* C17 on the model (ErrPath!SingleFaultRejected): the valid input is accepted, the single fault rejected
SingleFaultOK == (IsVec /\ vec.op \in {"path_unser", "path_valid"}) => vec.goodok = "yes" /\ vec.mod.ok = "no"
ModelOK == ExactOK /\ SamePathsOK /\ TotalOK /\ RoundTripOK /\ SingleFaultOK
Export == Emit(vec)
=============================================================================
