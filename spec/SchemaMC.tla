------------------------------ MODULE SchemaMC ------------------------------
(***************************************************************************)
(* Exhaustive enumeration for C02 and C04.  Every state is one vector      *)
(*     (schema, operation, argument, declared outcome, operational outcome)*)
(* Init picks the configuration by nested \E (no big set is built); there  *)
(* are no histories here, so Next is a stutter.                            *)
(*                                                                         *)
(*   ModelOK  on the model: Exact (Unserialize = Denotes /\ Satisfies, and *)
(*            the result IS the denoted value), SamePaths (Validate and    *)
(*            Serialize enforce Satisfies on native values and Serialize   *)
(*            emits the wire form), Total (every operator has an outcome   *)
(*            for every value class at every position - a missing CASE arm *)
(*            is a TLC error).                                             *)
(*   Export   one JSON line per state for the conformance harness.         *)
(*                                                                         *)
(* Mode "c02": every combination of absent/present bounds against          *)
(*   {min-1, min, max, max+1}, sizes 0..3 against size bounds nil,0,1,2,   *)
(*   NaN/Inf, the int64 edge points, every representation.                 *)
(* Mode "c04": every schema kind x every value class at every position of  *)
(*   schemas of depth <= 2 (Deep: 3).                                      *)
(* Mode "bind": the abstraction tables, for the harness' start-up checks.  *)
(***************************************************************************)
EXTENDS SchemaDecl, Export
\* TLC orders record fields by FIRST OCCURRENCE of the name in the root module (not
\* alphabetically) and compares / tests equality of records field by field in that order.  Tag
\* fields must therefore be met before payload fields of different types: this definition is the
\* first place any of these names occurs.  (Values.tla has an ASSUME that fails at start-up if
\* the order is ever wrong.)
FieldOrder == [fam |-> 0, kind |-> 0, k |-> 0, rep |-> 0, ok |-> 0, d |-> 0, some |-> 0, op |-> 0, id |-> 0, v |-> 0]
CONSTANTS Mode,     \* "c02" | "c04" | "bind"
          Deep      \* FALSE: quick tier (depth 2), TRUE: thorough tier (depth 3, longer collections)
VARIABLE vec

G(g) == TokGroup[g]

\* ------------------------------------------------------------------ raw scalars
SmallInts == IF Deep THEN -2..4 ELSE -1..3
IntPts == SmallInts \cup EdgePts
RawInts == UNION {{I(r, n) : r \in RepsOf(n)} : n \in IntPts} \cup {I("named", n) : n \in {0, 1, 2, IMax}}
SmallHalves == IF Deep THEN -4..9 ELSE -2..7
RawFloats ==
    {F(r, h) : r \in FloatReps, h \in SmallHalves \cup {2 * n : n \in EdgePts}}
    \cup {F("named", 2), F("named", 3)}
    \cup {FS(r, x) : r \in FloatReps, x \in {"nan", "+inf", "-inf"}}
RawBools == {B(TRUE), B(FALSE), BR("named", TRUE)}
RawOther ==
    {Nil, Re("a")} \cup {J(c) : c \in JunkClasses}
    \cup {L("any", <<>>), L("any", <<I64(1)>>), L("bytes", <<I("uint8", 1)>>),
          M("string_any", <<>>), M("any_any", << <<Str("a"), I64(1)>> >>)}
StrsFor(s) ==
    CASE s.kind \in {"int", "enum_int"} -> IF s.units.some THEN G("g_unit") ELSE G("g_int") \cup G("g_symd")
      [] s.kind = "float" -> IF s.units.some THEN G("g_unit") ELSE G("g_float") \cup G("g_symd") \cup G("g_symf")
      [] s.kind = "string" -> G("g_len") \cup G("g_pattern") \cup G("g_basic")
      [] s.kind = "bool" -> G("g_bool")
      [] s.kind = "pattern" -> G("g_re") \cup G("g_basic")
      [] s.kind = "enum_string" -> G("g_basic") \cup G("g_key") \cup {"1.000000", "NaN"}
      [] s.kind = "any" -> G("g_basic")
RawStrs(s) == {Str(t) : t \in StrsFor(s)} \cup {S("named", t) : t \in {"a", "1"}}
ScalarRaw(s) == RawInts \cup RawFloats \cup RawBools \cup RawOther \cup RawStrs(s)

\* ------------------------------------------------------------------ C02: scalar schemas
UnitOpts == {None, Some("sec")}
IntBP == BoundPairs(IF Deep THEN {0, 1, 2, 3} ELSE {1, 2})
         \cup { <<Some(IMin), Some(IMax)>>, <<Some(IMin + 1), Some(IMax - 1)>>, <<Some(IMax), None>>,
                <<None, Some(IMin)>>, <<Some(-1), Some(0)>>, <<Some(IMax - 1), Some(IMax)>> }
FloatBP == BoundPairs(IF Deep THEN {1, 2, 3, 4, 6} ELSE {2, 3, 4})      \* half units: 1.0, 1.5, 2.0
           \cup { <<Some(2 * IMin), Some(2 * IMax)>>, <<Some(2 * IMax), None>>, <<None, Some(2 * IMin)>>,
                  <<Some(2 * (IMax + 1)), None>>, <<Some(-1), Some(1)>> }
SizeBP == BoundPairs(IF Deep THEN {0, 1, 2, 3} ELSE {0, 1, 2})
C02Scalars ==
    IntSchemas(IntBP, UnitOpts) \cup FloatSchemas(FloatBP, UnitOpts)
    \cup StringSchemas(SizeBP, OptOf(PatternIds))
    \cup {BoolS, PatternS, AnyS}
    \cup {EnumIntS(vs, u) : vs \in { <<1, 2>>, <<0>>, <<>>, <<IMax, IMin>>, <<-1, 3>> }, u \in UnitOpts}
    \cup {EnumStrS(vs, t) : vs \in { <<"a", "b">>, <<"1", "#empty">>, <<>>, <<"true", "1.000000", "NaN">> }, t \in BOOLEAN}

\* native values of a scalar schema's type (for Validate / Serialize)
ScalarNatives(s) ==
    CASE s.kind \in {"int", "enum_int"} -> {I64(n) : n \in {x \in IntPts : FitsI64(x)}}
      [] s.kind = "float" ->
            {F64(h) : h \in SmallHalves \cup {2 * n : n \in EdgePts}} \cup {FS("float64", x) : x \in {"nan", "+inf", "-inf"}}
      [] s.kind = "string" -> {Str(t) : t \in G("g_len") \cup G("g_pattern") \cup {"#d:1000000"}}
      [] s.kind = "bool" -> {B(TRUE), B(FALSE)}
      [] s.kind = "pattern" -> {Re(t) : t \in {x \in G("g_re") : Tok[x].re}}
      [] s.kind = "enum_string" ->
            {S(IF s.typed THEN "named" ELSE "string", t) : t \in {"a", "b", "c", "1", "#empty", "true", "1.000000", "NaN"}}
      [] s.kind = "any" ->
            {I64(1), I64(IMax), F64(3), FS("float64", "nan"), Str("a"), B(TRUE), L("any", <<>>),
             L("any", <<I64(1), Str("a")>>), M("any_any", <<>>), M("any_any", << <<Str("a"), I64(1)>>, <<I64(1), L("any", <<>>)>> >>)}

\* ------------------------------------------------------------------ C02: containers
ItemSchemas ==
    { IntS(Some(1), Some(2), None), FloatS(Some(2), None, None), StringS(Some(1), Some(2), Some("lower")),
      BoolS, EnumStrS(<<"a", "b">>, TRUE), AnyS, IntS(None, None, Some("sec")) }
ElemCands ==
    { I64(0), I64(1), I("uint64", 2), I64(3), F64(2), F64(3), Str("1"), Str("a"), Str("abc"), Str("2s"),
      B(TRUE), Nil, FS("float64", "nan") }
    \cup (IF Deep THEN {F("float32", 4), I("int8", 1), S("named", "a"), I64(IMax)} ELSE {})
ScalarValueKinds == {"bool", "int", "float", "str"}
Homog(xs) == Len(xs) > 0 /\ xs[1].k \in ScalarValueKinds /\ \A i \in DOMAIN xs : xs[i].k = xs[1].k /\ xs[i].rep = xs[1].rep
MaxL == IF Deep THEN 3 ELSE 2
ElemSeqs ==
    SeqsUpTo(ElemCands, MaxL)
    \cup (IF Deep THEN {} ELSE {<<x, x, x>> : x \in ElemCands} \cup {<<I64(1), I64(2), I64(0)>>, <<Str("a"), Str("b"), I64(1)>>})
RawLists ==
    {L("any", xs) : xs \in ElemSeqs}
    \cup {L("typed", xs) : xs \in {ys \in ElemSeqs : Homog(ys)}}
    \cup {L("bytes", <<>>), L("bytes", <<I("uint8", 1)>>), L("bytes", <<I("uint8", 1), I("uint8", 2)>>),
          L("typed", <<>>), Nil, Str("a"), M("any_any", <<>>), J("ptr")}
ListBoundsTyped == (SizeBP \X {FALSE}) \cup ({<<None, None>>, <<Some(1), Some(2)>>} \X {TRUE})
C02Lists == {ListS(i, bt[1][1], bt[1][2], bt[2]) : i \in ItemSchemas, bt \in ListBoundsTyped}

NativeElems(s) ==
    CASE s.kind = "int" -> {I64(n) : n \in 0..3}
      [] s.kind = "float" -> {F64(1), F64(2), F64(3), FS("float64", "nan")}
      [] s.kind = "string" -> {Str("#empty"), Str("a"), Str("ab"), Str("abc"), Str("A")}
      [] s.kind = "bool" -> {B(TRUE), B(FALSE)}
      [] s.kind = "enum_string" -> {S(IF s.typed THEN "named" ELSE "string", t) : t \in {"a", "b", "c"}}
      [] s.kind = "enum_int" -> {I64(n) : n \in 0..3}
      [] s.kind = "any" -> {I64(1), Str("a"), L("any", <<>>)}
NativeLists(s) == {L("typed", xs) : xs \in SeqsUpTo(NativeElems(s.items), 3)}

KeySchemas == { StringS(None, Some(1), None), IntS(Some(1), Some(2), None), EnumStrS(<<"a", "b">>, FALSE), EnumIntS(<<1, 2>>, None) }
ValSchemas == { IntS(Some(1), Some(2), None), AnyS, StringS(Some(1), None, None) }
KeyCands == << Str("a"), Str("b"), Str("1"), Str("ab"), I64(1), I("uint64", 1), I64(2), I64(3), F64(2), B(TRUE) >>
ValCands == { I64(1), I64(3), Str("a") } \cup (IF Deep THEN {Nil, I("uint64", 2), F64(2)} ELSE {})
Val2 == IF Deep THEN ValCands ELSE {I64(1), I64(3)}
NK == Len(KeyCands)
PairSeqs ==
    { <<>> }
    \cup { << <<KeyCands[i], w>> >> : i \in 1..NK, w \in ValCands }
    \cup { << <<KeyCands[i], w1>>, <<KeyCands[j], w2>> >> : i \in 1..NK, j \in 1..NK, w1 \in Val2, w2 \in Val2 }
    \cup { << <<Str("a"), I64(1)>>, <<Str("b"), I64(1)>>, <<Str("1"), I64(2)>> >>,
           << <<I64(1), I64(1)>>, <<I64(2), I64(1)>>, <<I64(3), I64(2)>> >>,
           << <<I64(1), I64(1)>>, <<I64(2), I64(1)>>, <<Str("1"), I64(2)>> >> }
DistinctKeys(ps) == \A i, j \in DOMAIN ps : i < j => ps[i][1] # ps[j][1]
\* canonical order for two pairs (a Go map has no order)
Canon(ps) == Len(ps) # 2 \/ (\E i, j \in 1..NK : i < j /\ KeyCands[i] = ps[1][1] /\ KeyCands[j] = ps[2][1])
GoodPairs == {ps \in PairSeqs : DistinctKeys(ps) /\ Canon(ps)}
AllKeys(ps, k, rep) == \A i \in DOMAIN ps : ps[i][1].k = k /\ ps[i][1].rep = rep
HomogPairs(ps) ==
    /\ Len(ps) > 0
    /\ \A i \in DOMAIN ps : ps[i][1].k = ps[1][1].k /\ ps[i][1].rep = ps[1][1].rep /\ ps[i][1].k \in ScalarValueKinds
    /\ \A i \in DOMAIN ps : ps[i][2].k = ps[1][2].k /\ ps[i][2].k \in ScalarValueKinds /\ ps[i][2].rep = ps[1][2].rep
RawMaps ==
    {M("any_any", ps) : ps \in GoodPairs}
    \cup {M("string_any", ps) : ps \in {q \in GoodPairs : AllKeys(q, "str", "string")}}
    \cup {M("int64_any", ps) : ps \in {q \in GoodPairs : AllKeys(q, "int", "int64")}}
    \cup {M("typed", ps) : ps \in {q \in GoodPairs : HomogPairs(q)}}
    \cup {Nil, L("any", <<>>), Str("a"), J("struct")}
MapBP == { <<None, None>>, <<Some(0), Some(0)>>, <<Some(1), Some(1)>>, <<Some(2), Some(2)>>, <<None, Some(1)>>,
           <<Some(2), None>>, <<Some(1), Some(2)>> }
MapBoundsTyped == (MapBP \X {FALSE}) \cup ({<<None, None>>} \X {TRUE})
C02Maps == {MapS(k, w, bt[1][1], bt[1][2], bt[2]) : k \in KeySchemas, w \in ValSchemas, bt \in MapBoundsTyped}
NativeKeys(s) ==
    CASE s.kind = "string" -> <<Str("a"), Str("b"), Str("ab")>>
      [] s.kind = "int" -> <<I64(1), I64(2), I64(3)>>
      [] s.kind = "enum_string" -> <<Str("a"), Str("b"), Str("c")>>
      [] s.kind = "enum_int" -> <<I64(1), I64(2), I64(3)>>
NativeVals(s) ==
    CASE s.kind = "int" -> {I64(1), I64(3)}
      [] s.kind = "any" -> {I64(1), Str("a")}
      [] s.kind = "string" -> {Str("a"), Str("#empty")}
NativeMaps(s) ==
    LET ks == NativeKeys(s.keys) ws == NativeVals(s.values) IN
    { M("typed", <<>>) }
    \cup { M("typed", << <<ks[i], w>> >>) : i \in 1..3, w \in ws }
    \cup { M("typed", << <<ks[p[1]], w1>>, <<ks[p[2]], w2>> >>) : p \in { <<1, 2>>, <<1, 3>>, <<2, 3>> }, w1 \in ws, w2 \in ws }
    \cup { M("typed", << <<ks[1], w>>, <<ks[2], w>>, <<ks[3], w>> >>) : w \in ws }

\* depth 3 (thorough): containers of containers over a reduced leaf set
DeepSchemas ==
    IF ~Deep THEN {}
    ELSE LET inner == { ListS(IntS(Some(1), Some(2), None), Some(1), Some(2), FALSE),
                        ListS(IntS(Some(1), Some(2), None), None, None, TRUE),
                        MapS(StringS(None, Some(1), None), IntS(Some(1), Some(2), None), None, Some(1), FALSE) }
         IN {ListS(i, p[1], p[2], t) : i \in inner, p \in {<<None, None>>, <<Some(1), Some(2)>>}, t \in BOOLEAN}
            \cup {MapS(StringS(None, Some(1), None), i, p[1], p[2], t) : i \in inner, p \in {<<None, None>>, <<Some(1), Some(1)>>}, t \in BOOLEAN}
DeepInnerRaw(s) ==
    IF s.kind = "list"
    THEN {L("any", xs) : xs \in SeqsUpTo({I64(0), I64(1), I("uint64", 2), Str("1"), Nil}, 2)} \cup {L("typed", <<I64(1), I64(2)>>), Nil, I64(1)}
    ELSE {M("any_any", ps) : ps \in { <<>>, << <<Str("a"), I64(1)>> >>, << <<Str("a"), I64(3)>> >>, << <<Str("ab"), I64(1)>> >>,
                                      << <<I64(1), I64(1)>> >>, << <<Str("a"), I64(1)>>, <<Str("b"), I64(2)>> >> }}
         \cup {M("string_any", << <<Str("a"), I("uint64", 2)>> >>), Nil, L("any", <<>>)}
DeepRaw(s) ==
    IF s.kind = "list"
    THEN {L("any", xs) : xs \in SeqsUpTo(DeepInnerRaw(s.items), 2)} \cup {Nil}
    ELSE {M("any_any", << <<Str("a"), x>> >>) : x \in DeepInnerRaw(s.values)}
         \cup {M("string_any", << <<Str("a"), x>>, <<Str("b"), y>> >>) : x \in DeepInnerRaw(s.values), y \in DeepInnerRaw(s.values)}
         \cup {M("any_any", <<>>), Nil}

\* raw arguments of `any` beyond the scalars
AnyElems == << I64(1), I("uint64", IMax + 1), Str("a"), Nil, J("ptr"), L("any", <<I("int", 1)>>), FS("float32", "nan"),
               I("named", 1), M("string_any", << <<Str("a"), I("int8", 1)>> >>), F("float32", 3) >>
AnyRaw ==
    {L(r, xs) : r \in {"any"}, xs \in SeqsUpTo(Range(AnyElems), 2)}
    \cup {M("any_any", << <<k, AnyElems[i]>> >>) : k \in {Str("a"), I64(1), I("uint64", 1), B(TRUE), F64(2), F("float32", 3), S("named", "a")}, i \in DOMAIN AnyElems}
    \cup {M("any_any", << <<I64(1), I64(1)>>, <<I("uint64", 1), I64(2)>> >>),        \* two raw keys, one key
          M("any_any", << <<I64(1), I64(1)>>, <<Str("1"), I64(2)>> >>),
          M("string_any", << <<Str("a"), Nil>> >>), M("int64_any", << <<I64(1), Str("a")>> >>),
          M("any_any", << <<FS("float64", "nan"), I64(1)>> >>), M("any_any", << <<FS("float64", "-inf"), I64(1)>> >>),
          M("typed", << <<Str("a"), I64(1)>>, <<Str("b"), I64(2)>> >>),
          L("typed", <<I("uint64", IMax + 1)>>), L("typed", <<Str("a"), Str("b")>>), L("bytes", <<I("uint8", 1)>>)}

\* ------------------------------------------------------------------ C04: kinds x classes x positions
C04Leafs ==
    { IntS(Some(1), Some(2), None), IntS(None, None, Some("sec")), FloatS(Some(2), Some(4), None),
      StringS(Some(1), Some(2), Some("lower")), BoolS, PatternS, EnumIntS(<<1, 2>>, None),
      EnumStrS(<<"a", "b">>, FALSE), EnumStrS(<<"a", "b">>, TRUE), AnyS,
      ListS(IntS(Some(1), Some(2), None), None, Some(2), FALSE), ListS(AnyS, None, None, FALSE),
      ListS(StringS(None, None, None), Some(1), None, TRUE),
      MapS(StringS(None, None, None), IntS(Some(1), Some(2), None), None, Some(2), FALSE),
      MapS(IntS(None, None, None), AnyS, None, None, FALSE),
      MapS(EnumStrS(<<"a", "b">>, FALSE), StringS(None, None, None), None, None, TRUE) }
C04Values ==
    {Nil, B(TRUE), B(FALSE), BR("named", TRUE)}
    \cup {I(r, 1) : r \in IntReps \cup {"named"}} \cup {I("uint64", IMax + 1), I64(IMin), I64(IMax), I64(0), I("int", -1), I("named", 0)}
    \cup {F(r, 3) : r \in FloatReps \cup {"named"}} \cup {F64(2), F64(2 * (IMax + 1)), F64(2 * (IMin - 1))}
    \cup {FS(r, x) : r \in FloatReps, x \in {"nan", "+inf", "-inf"}}
    \cup {Str("a"), Str("1"), Str("#empty"), Str("["), Str("true"), Str("1s"), Str("nan"), S("named", "a"), S("named", "1")}
    \cup {L("any", <<>>), L("any", <<I64(1)>>), L("any", <<Nil>>), L("any", <<I64(1), Str("a")>>), L("typed", <<>>),
          L("typed", <<Str("a")>>), L("typed", <<I64(1), I64(2)>>), L("bytes", <<I("uint8", 1)>>), L("bytes", <<>>),
          L("any", <<L("any", <<>>)>>), L("any", <<J("nilptr")>>), L("typed", <<I("named", 1)>>)}
    \cup {M(r, <<>>) : r \in MapReps}
    \cup {M("string_any", << <<Str("a"), I64(1)>> >>), M("string_any", << <<Str("a"), Nil>> >>),
          M("any_any", << <<I64(1), Str("a")>>, <<Str("b"), Nil>> >>), M("any_any", << <<Str("a"), I64(1)>> >>),
          M("int64_any", << <<I64(1), I64(1)>> >>), M("typed", << <<Str("a"), I64(1)>> >>), M("typed", << <<I("uint64", 1), Str("a")>> >>),
          M("any_any", << <<B(TRUE), I64(1)>> >>), M("any_any", << <<F64(3), I64(1)>> >>), M("any_any", << <<S("named", "a"), I64(1)>> >>),
          M("any_any", << <<I("named", 1), I64(1)>> >>), M("any_any", << <<Nil, I64(1)>> >>), M("string_any", << <<Str("a"), J("func")>> >>),
          M("any_any", << <<FS("float64", "nan"), I64(1)>> >>), M("any_any", << <<FS("float64", "+inf"), Str("a")>> >>),
          M("typed", << <<FS("float64", "nan"), I64(1)>> >>)}
    \cup {Re("a")} \cup {J(c) : c \in JunkClasses}
Hashable(x) == x.k \in {"nil", "bool", "int", "float", "fspecial", "str", "re"} \/ (x.k = "junk" /\ x.v \in {"time", "struct", "ptr", "nilptr", "nilre", "chan"})
StrKey == StringS(None, None, None)
\* one level of context around (leaf, x)
Wrap1(leaf, x) ==
    { <<ListS(leaf, None, None, t), L("any", <<x>>)>> : t \in BOOLEAN }
    \cup { <<ListS(leaf, None, None, FALSE), L("any", <<x, x>>)>> }
    \cup (IF x.k \in ScalarValueKinds THEN { <<ListS(leaf, None, None, FALSE), L("typed", <<x>>)>> } ELSE {})
    \cup { <<MapS(StrKey, leaf, None, None, t), M("string_any", << <<Str("a"), x>> >>)>> : t \in BOOLEAN }
    \cup { <<MapS(StrKey, leaf, None, None, FALSE), M("any_any", << <<Str("a"), x>> >>)>> }
    \cup (IF leaf.kind \in MapKeyKinds /\ Hashable(x)
          THEN { <<MapS(leaf, IntS(None, None, None), None, None, FALSE), M("any_any", << <<x, I64(1)>> >>)>> } ELSE {})
Positions(leaf, x) ==
    { <<leaf, x>> } \cup Wrap1(leaf, x)
    \cup (IF Deep THEN UNION { Wrap1(p[1], p[2]) : p \in Wrap1(leaf, x) } ELSE {})

\* ------------------------------------------------------------------ bind tables
WireSamples ==
    << Nil, B(TRUE), I64(1), I64(0), I64(-1), I("int", 3), I("uint8", 2), I("named", 1), I64(IMax), I("uint64", IMax + 1), I64(IMin),
       F64(3), F64(2), F64(-2), F64(0), F("float32", 3), F("float32", 2), FS("float64", "nan"), FS("float64", "+inf"), FS("float32", "-inf"),
       Str("a"), Str("#empty"), Str("1"), Str("true"), Str("1.5"), Str("nan"), Str("#eacute"), S("named", "a"),
       L("any", <<>>), L("any", <<I64(1), Str("a"), Nil>>), L("typed", <<I64(1), I64(2)>>), L("typed", <<Str("a")>>), L("bytes", <<I("uint8", 1)>>),
       L("any", <<L("any", <<F64(3)>>)>>),
       M("string_any", <<>>), M("any_any", <<>>), M("string_any", << <<Str("a"), I64(1)>> >>), M("any_any", << <<Str("a"), I64(1)>> >>),
       M("any_any", << <<I64(1), Str("a")>>, <<Str("b"), F64(3)>> >>), M("int64_any", << <<I64(1), I64(-1)>> >>),
       M("typed", << <<Str("a"), I64(1)>> >>), M("string_any", << <<Str("a"), M("any_any", << <<I64(2), Nil>> >>)>> >>),
       M("any_any", << <<B(TRUE), I64(1)>> >>) >>
OptT(c, x) == IF c THEN Some(x) ELSE None
TransportCase(w) ==
    [w |-> w,
     cbor |-> IF CBORable(w) THEN Some(CBOR(w)) ELSE None,
     json |-> IF JSONable(w) THEN Some(JSON(w)) ELSE None,
     yaml |-> IF YAMLable(w) THEN Some(YAML(w)) ELSE None]

\* ------------------------------------------------------------------ the state machine
Vec(s, op, x) ==
    [fam |-> "schema", s |-> s, op |-> op, arg |-> x, exp |-> Declared(s, op, x), mod |-> Outcome(s, op, x), sub |-> Sub(s, op, x)]

InitC02 ==
    \/ \E s \in C02Scalars :
          \/ \E x \in ScalarRaw(s) : vec = Vec(s, "unser", x)
          \/ s.kind = "any" /\ \E x \in AnyRaw : vec = Vec(s, "unser", x)
          \/ \E x \in ScalarNatives(s) : \E op \in {"valid", "ser"} : vec = Vec(s, op, x)
    \/ \E s \in C02Lists :
          \/ \E x \in RawLists : vec = Vec(s, "unser", x)
          \/ ~s.typed /\ \E x \in NativeLists(s) : \E op \in {"valid", "ser"} : vec = Vec(s, op, x)
    \/ \E s \in C02Maps :
          \/ \E x \in RawMaps : vec = Vec(s, "unser", x)
          \/ ~s.typed /\ \E x \in NativeMaps(s) : \E op \in {"valid", "ser"} : vec = Vec(s, op, x)
    \/ \E s \in DeepSchemas : \E x \in DeepRaw(s) : vec = Vec(s, "unser", x)

InitC04 ==
    \E leaf \in C04Leafs : \E x \in C04Values : \E p \in Positions(leaf, x) :
        \/ \E op \in {"valid", "ser"} : vec = Vec(p[1], op, p[2])
        \/ Decodable(x) /\ \E op \in {"unser", "compat"} : vec = Vec(p[1], op, p[2])

InitBind ==
    \/ vec = [fam |-> "bind", what |-> "strings", toks |-> TokSeq, dec |-> DecSeq, ftok |-> FSeq,
            imax |-> IMax, imin |-> IMin, symlen |-> SymLen]
    \/ vec = [fam |-> "bind", what |-> "transport", cases |-> [i \in DOMAIN WireSamples |-> TransportCase(WireSamples[i])]]

Init ==
    CASE Mode = "c02" -> InitC02
      [] Mode = "c04" -> InitC04
      [] Mode = "bind" -> InitBind
Next == UNCHANGED vec
Spec == Init /\ [][Next]_vec

\* ------------------------------------------------------------------ properties of the model
IsVec == vec.fam = "schema"
\* A vector stores mod = Outcome(s, op, arg) (SchemaSem) and exp = Declared(s, op, arg)
\* (SchemaDecl), so the invariants of SchemaDecl are evaluated on the stored outcomes:
\* C02, first sentence - SchemaDecl!Exact(s, raw): Unserialize accepts exactly what denotes a
\* satisfying value, and the result IS the denoted value
ExactOK == (IsVec /\ vec.op = "unser") => Refines(vec.mod, vec.exp)
\* C02, second sentence - SchemaDecl!SamePaths(s, v): Validate / Serialize enforce the same
\* constraints on native values (definite on both sides) and Serialize emits the wire form
SamePathsOK ==
    (IsVec /\ vec.op \in {"valid", "ser"}) =>
        /\ Refines(vec.mod, vec.exp)
        /\ IsNative(vec.s, vec.arg) => vec.mod.ok \in {"yes", "no"} /\ vec.exp.ok \in {"yes", "no"}
\* C04 on the model: every operator yields an outcome for this (position, class) - a missing
\* CASE arm would already have stopped TLC while computing the vector
TotalOK == IsVec => /\ vec.mod.ok \in {"yes", "no", "maybe"} /\ vec.exp.ok \in {"yes", "no", "maybe"}
                    /\ WF(vec.s) /\ WFV(vec.arg)
ModelOK == ExactOK /\ SamePathsOK /\ TotalOK
Export == Emit(vec)
=============================================================================
