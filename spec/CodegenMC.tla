----------------------------- MODULE CodegenMC -----------------------------
(* Exhaustive enumeration of the code-generator contract.  An initial state is *)
(* one INPUT (document, argument form); it is exported as a vector with the   *)
(* structs Gen demands and replayed into the real generator.  From there the  *)
(* Observe machine explores the legal histories of repeated runs: the first   *)
(* observation may be any output meeting the contract (any order of structs   *)
(* and fields, either spelling of a reference), every later observation of    *)
(* the same input must be identical to the first.                              *)
(* The machine is the life of ONE DIRECTORY: dir is the input whose output    *)
(* typedef_output.go holds (NoFile: fresh).  Prepare puts the output of       *)
(* ANOTHER input there before the first run - the same document with other    *)
(* arguments, or the same arguments with a document that has one object less  *)
(* / one object more (a longer output first and then a shorter one, and the   *)
(* other way round) -; every run leaves its own output, so that the second    *)
(* run is a run over the output of the same input.  What Observe accepts does *)
(* not depend on dir: the prepared states have the successors of the fresh    *)
(* one.  The arguments are part of the input as much as the schema file is:   *)
(* where Prepare keeps the document, the schema file of the directory is the  *)
(* very file the earlier run read - UNTOUCHED, older than the output that run *)
(* has left -, and only the arguments differ; where it takes another document *)
(* the schema file has been REPLACED since (SchemaFile).                      *)
(* Every state before the first run is exported as a vector (prev =           *)
(* dir): the harness puts the real output of prev into the directory, runs    *)
(* the input there and demands exp, valid Go and the bytes the same input     *)
(* gives in a fresh directory.                                                *)
(* The input of a run is more than document and arguments: deco names the     *)
(* attributes the schema file carries besides (AttributeBlind: exp does not   *)
(* depend on it), route how the generator is invoked (InvocationBlind: the    *)
(* observations of one input under all routes are one).                       *)
(*                                                                            *)
(* Documents: 0..MaxObjs objects, 0..MaxProps properties each (every shape);  *)
(* the properties take their types from the cyclic sequence Kinds (every type *)
(* ID, without and WITH an id of its own - the inline object that carries its *)
(* ID, and an id next to every other type ID; references to each object of    *)
(* the document, to itself, to an object outside the document), started at    *)
(* every offset in Rots.  The names come    *)
(* from three NAMING SCHEMES: "plain" (pairwise different words), "fold"      *)
(* (names that differ only in the capitalisation after the first letter:      *)
(* NodeSpec / Nodespec / NODESPEC, podIP / podIp / podip) and "title" (names  *)
(* that differ in the first letter's case and so become the same Go name:     *)
(* foo / Foo, bar / Bar); the two latter at the offsets in RotsAlt.           *)
EXTENDS Codegen, Export
CONSTANTS MaxObjs,   \* objects per document 0..MaxObjs (<= 3)
          MaxProps,  \* properties per object 0..MaxProps (<= 3)
          Rots,      \* offsets into Kinds, scheme "plain"
          RotsAlt,   \* offsets into Kinds, schemes "fold" and "title"
          SeqSchemes, \* Prepare (a used directory) for the documents of these schemes ...
          SeqRots    \* ... at these offsets
VARIABLES v,         \* the input [doc, args]
          par,       \* the parameters v.doc was made from [sch, n, counts, r] (constant along a behaviour)
          seen,      \* Observe: input -> first observation
          nobs,      \* number of observations so far (saturates at 2)
          dir,       \* the input whose output the directory's typedef_output.go holds (NoFile: none)
          deco,      \* the attributes the schema files of this behaviour carry (Codegen!Decos; constant)
          route      \* how the NEXT run is invoked (Codegen!Routes)
vars == <<v, par, seen, nobs, dir, deco, route>>

\* ------------------------------------------------------------------ names (abstraction table)
\* name -> title-cased form, lower-cased form; checked by the harness against the standard library
N(t, f) == [title |-> t, fold |-> f]
NameTable ==
    ("alpha"      :> N("Alpha", "alpha"))           @@
    ("beta_2"     :> N("Beta_2", "beta_2"))         @@
    ("Gamma"      :> N("Gamma", "gamma"))           @@
    ("one"        :> N("One", "one"))               @@
    ("twoWords"   :> N("TwoWords", "twowords"))     @@
    ("x_3"        :> N("X_3", "x_3"))               @@
    ("NodeSpec"   :> N("NodeSpec", "nodespec"))     @@
    ("Nodespec"   :> N("Nodespec", "nodespec"))     @@
    ("NODESPEC"   :> N("NODESPEC", "nodespec"))     @@
    ("podIP"      :> N("PodIP", "podip"))           @@
    ("podIp"      :> N("PodIp", "podip"))           @@
    ("podip"      :> N("Podip", "podip"))           @@
    ("foo"        :> N("Foo", "foo"))               @@
    ("Foo"        :> N("Foo", "foo"))               @@
    ("bar"        :> N("Bar", "bar"))               @@
    ("Bar"        :> N("Bar", "bar"))               @@
    ("ObjectMeta" :> N("ObjectMeta", "objectmeta")) @@
    ("absent"     :> N("Absent", "absent"))
Schemes == {"plain", "fold", "title"}
ObjNamesOf(sch) == CASE sch = "plain" -> <<"alpha", "beta_2", "Gamma">>
                     [] sch = "fold"  -> <<"NodeSpec", "Nodespec", "NODESPEC">>
                     [] sch = "title" -> <<"foo", "Foo", "alpha">>
PropNamesOf(sch) == CASE sch = "plain" -> <<"one", "twoWords", "x_3">>
                      [] sch = "fold"  -> <<"podIP", "podIp", "podip">>
                      [] sch = "title" -> <<"bar", "Bar", "one">>
Outside   == "ObjectMeta"       \* referenced, not declared in the document (README's example)
AbsentName == "absent"          \* an ignore argument naming no object of the document

\* the key rule of Codegen.tla: lower-cased, unless the same map holds another name with the
\* same lower-cased form - then title-cased
KeyIn(nm, names) ==
    IF \E other \in names \ {nm} : NameTable[other].fold = NameTable[nm].fold
    THEN NameTable[nm].title ELSE NameTable[nm].fold

\* ------------------------------------------------------------------ property kinds
\* target = the id written in the type mapping: 0 none, 1..3 the name of that object of the
\* document, 4 a name outside the document.  With "ref" it is the referenced object; with any
\* other type ID it is an id the type carries itself (every non-ref type ID occurs with one).
K(tid, target) == [tid |-> tid, target |-> target]
Kinds == << K("string", 0), K("integer", 0), K("ref", 1), K("object", 4), K("float", 0), K("map", 0),
            K("bool", 0), K("string", 1), K("ref", 4), K("list", 0), K("integer", 2), K("enum_string", 0),
            K("ref", 2), K("float", 3), K("enum_integer", 0), K("object", 1), K("pattern", 0),
            K("scope", 0), K("bool", 4), K("object", 0), K("one_of_string", 0), K("ref", 3), K("list", 2),
            K("one_of_int", 0), K("any", 0), K("enum_string", 3), K("enum_integer", 1), K("pattern", 2),
            K("scope", 4), K("one_of_string", 1), K("one_of_int", 3), K("any", 2), K("map", 4) >>
NK == Len(Kinds)
ASSUME \A i \in 1..NK : Kinds[i].tid = "ref" => Kinds[i].target # 0
ASSUME \A t \in TypeIDs \ {"ref"} : \E i, j \in 1..NK :
            Kinds[i] = K(t, 0) /\ Kinds[j].tid = t /\ Kinds[j].target # 0

RECURSIVE Before(_, _)
Before(counts, i) == IF i <= 1 THEN 0 ELSE counts[i - 1] + Before(counts, i - 1)

RefName(sch, kind, n) == IF kind.target = 0 THEN ""
                         ELSE IF kind.target \in 1..n THEN ObjNamesOf(sch)[kind.target] ELSE Outside

MkProp(sch, k, m, kind, n) ==      \* k-th property; m = most properties among the objects of its group
    LET nm == PropNamesOf(sch)[k]
        rf == RefName(sch, kind, n)
    IN [name |-> nm, title |-> NameTable[nm].title,
        key |-> KeyIn(nm, {PropNamesOf(sch)[x] : x \in 1..m}), tid |-> kind.tid,
        ref |-> rf, reftitle |-> IF rf = "" THEN "" ELSE NameTable[rf].title]

\* the key of a property is taken among the property names of ALL objects that share the
\* object's key (foo / Foo are looked up as one group of structs)
MkDoc(sch, n, counts, r) ==
    LET onames == {ObjNamesOf(sch)[x] : x \in 1..n}
        OKey(i) == KeyIn(ObjNamesOf(sch)[i], onames)
        Widest(i) == CHOOSE c \in {counts[j] : j \in {x \in 1..n : OKey(x) = OKey(i)}} :
                        \A j \in {x \in 1..n : OKey(x) = OKey(i)} : counts[j] <= c
    IN [i \in 1..n |->
        LET nm == ObjNamesOf(sch)[i] IN
        [name |-> nm, title |-> NameTable[nm].title, key |-> OKey(i),
         props |-> [k \in 1..counts[i] |->
                      MkProp(sch, k, Widest(i), Kinds[((r + Before(counts, i) + k - 1) % NK) + 1], n)]]]

ArgForms(sch, n) == {[form |-> "no_ignore", ign |-> ""]}
                    \cup {[form |-> "with_ignore", ign |-> x] : x \in {ObjNamesOf(sch)[i] : i \in 1..n} \cup {AbsentName}}

\* ------------------------------------------------------------------ outputs a conforming generator may produce
Perms(S) == {p \in [1..Cardinality(S) -> S] : \A i, j \in DOMAIN p : p[i] = p[j] => i = j}
Outs(doc, args) == {Emitted(doc, p, rev, titled) : p \in Perms(Live(doc, args)), rev \in BOOLEAN, titled \in BOOLEAN}

\* ------------------------------------------------------------------ a used directory
\* the inputs whose output the directory may hold before the first run of v: the same document
\* with each other argument form (no argument <-> an object ignored <-> a name that is no
\* object), and the same arguments with the document cut by its last object / grown by one
\* more object (of MaxProps properties)
PrevInputs ==
    IF par.sch \notin SeqSchemes \/ par.r \notin SeqRots THEN {}
    ELSE {[doc |-> v.doc, args |-> a] : a \in ArgForms(par.sch, par.n) \ {v.args}}
         \cup (IF par.n >= 1
                THEN {[doc |-> MkDoc(par.sch, par.n - 1, [i \in 1..(par.n - 1) |-> par.counts[i]], par.r),
                       args |-> v.args]}
                ELSE {})
         \cup (IF par.n < MaxObjs
                THEN {[doc |-> MkDoc(par.sch, par.n + 1,
                                     [i \in 1..(par.n + 1) |-> IF i <= par.n THEN par.counts[i] ELSE MaxProps], par.r),
                       args |-> v.args]}
                ELSE {})

\* ------------------------------------------------------------------ attributes and invocation
\* Every input is decorated: one decoration per input, going round Decos with the document and
\* the argument form; and for the documents of SeqSchemes x SeqRots without an argument EVERY
\* decoration (the same document under all of them: AttributeBlind on one input).
DecoSeq == <<"bare", "limits", "attributes", "full">>
ASSUME Range(DecoSeq) = Decos
PickDeco(p, a) == DecoSeq[((p.r + Before(p.counts, p.n + 1) + p.n + (IF a.form = "no_ignore" THEN 0 ELSE 1)) % 4) + 1]
DecosFor(p, a) == IF p.sch \in SeqSchemes /\ p.r \in SeqRots /\ a.form = "no_ignore" THEN Decos ELSE {PickDeco(p, a)}

\* The first run of the fullest document of every size (SeqSchemes x SeqRots) is also made under
\* every other route - Invoke -, the runs after it by the pre-built binary again: a history
\* across routes, of which Observe accepts what it accepts of any other (InvocationBlind).
RoutesFor(p) == IF p.sch \in SeqSchemes /\ p.r \in SeqRots /\ (\A i \in 1..p.n : p.counts[i] = MaxProps)
                THEN Routes ELSE {"binary"}
Key == ObsKey(v.doc, v.args, deco, route)

\* what became of the directory's schema file between the earlier run and the first run of v
SchemaFile == IF dir = NoFile THEN "written"
              ELSE IF dir.doc = v.doc THEN "untouched"   \* only the arguments differ
              ELSE "replaced"

\* ------------------------------------------------------------------ the machine
Init ==
    \E sch \in Schemes : \E n \in 0..MaxObjs : \E counts \in [1..n -> 0..MaxProps] :
    \E r \in (IF sch = "plain" THEN Rots ELSE RotsAlt) : \E a \in ArgForms(sch, n) :
    \E d \in DecosFor([sch |-> sch, n |-> n, counts |-> counts, r |-> r], a) :
        /\ v = [doc |-> MkDoc(sch, n, counts, r), args |-> a]
        /\ par = [sch |-> sch, n |-> n, counts |-> counts, r |-> r]
        /\ seen = NoObs
        /\ nobs = 0
        /\ dir = NoFile
        /\ deco = d
        /\ route = "binary"

\* an earlier run of another input in this directory has left its output
Prepare(w) ==
    /\ nobs = 0 /\ dir = NoFile /\ route = "binary" /\ deco = PickDeco(par, v.args)
    /\ dir' = w
    /\ UNCHANGED <<v, par, seen, nobs, deco, route>>

\* the first run is invoked another way
Invoke(rt) ==
    /\ nobs = 0 /\ dir = NoFile /\ route = "binary" /\ deco = PickDeco(par, v.args)
    /\ route' = rt
    /\ UNCHANGED <<v, par, seen, nobs, dir, deco>>

\* a run: what is accepted depends neither on dir nor on route (Key has no route); afterwards
\* the file holds this input's output, and the next run is made by the pre-built binary
Observe(out) ==
    /\ nobs < 2
    /\ ObsAccepts(seen, Key, out)
    /\ seen' = ObsRecord(seen, Key, out)
    /\ nobs' = nobs + 1
    /\ dir' = v
    /\ route' = "binary"
    /\ UNCHANGED <<v, par, deco>>

Next == \/ \E out \in Outs(v.doc, v.args) : Observe(out)
        \/ \E w \in PrevInputs : Prepare(w)
        \/ \E rt \in RoutesFor(par) \ {"binary"} : Invoke(rt)
Spec == Init /\ [][Next]_vars

\* "Running it again on the same input produces byte-identical output" - however it is invoked
Stable == [][Observed(seen, Key) => seen' = seen]_vars

\* ------------------------------------------------------------------ the property on the model
DropFirst(out) == SubSeq(out, 2, Len(out))
ModelOK ==
    LET doc == v.doc
        args == v.args
        live == Live(doc, args)
    IN /\ WF(doc)
       \* the two blindness laws: the demand ignores the attributes, the record of an
       \* observation ignores the invocation
       /\ deco \in Decos /\ route \in Routes
       /\ AttributeBlind(doc, args) /\ Expected(doc, args, deco) = Gen(doc, args)
       /\ InvocationBlind(doc, args, deco) /\ Key = ObsKey(doc, args, deco, "binary")
       /\ (nobs = 0 /\ (route # "binary" \/ dir # NoFile)) => deco = PickDeco(par, args)
       /\ nobs > 0 => route = "binary"
       /\ Shape(doc) \in {"empty", "single", "multi", "multi_casevariant"}
       \* the directory: fresh or holding another input's output before the first run, this
       \* input's own output after it
       /\ nobs = 0 => dir = NoFile \/ (dir # v /\ WF(dir.doc) /\ dir.args.form \in {"no_ignore", "with_ignore"})
       /\ nobs = 0 => (SchemaFile = "untouched" <=> (dir # NoFile /\ dir.args # v.args /\ dir.doc = v.doc))
       /\ nobs > 0 => dir = v
       /\ (nobs = 0 /\ dir = NoFile /\ route = "binary" /\ deco = PickDeco(par, args)) =>
            \* exactly one struct per non-ignored object, one field per property
            /\ Cardinality(Gen(doc, args)) = Cardinality(live)
            /\ \A i \in live : \E g \in Gen(doc, args) :
                  g.key = doc[i].key /\ Cardinality(g.fields) = Len(doc[i].props)
            \* operational (Emitted) = declarative (Meets), whatever the order and spelling
            /\ \A out \in Outs(doc, args) :
                  /\ Meets(doc, args, out)
                  /\ Verdict(doc, args, out) = "ok"
                  /\ InGen(doc, args, out)
                  /\ ~NameDrift(doc, out)
                  /\ DuplicateNames(out) => CaseVariants(doc)
                  /\ WrongTypeOf(doc, args, out) = ""
                  \* and the declarative reading rejects what it must reject
                  /\ Len(out) > 0 => /\ ~Meets(doc, args, DropFirst(out))
                                     /\ Verdict(doc, args, DropFirst(out)) = "missing_struct"
                                     /\ ~Meets(doc, args, out \o <<out[1]>>)
                                     /\ Verdict(doc, args, out \o <<out[1]>>) \in
                                            {"duplicate_struct", "ignored_struct_emitted"}
            \* an ignored object that is emitted nevertheless is rejected
            /\ (live # DOMAIN doc) =>
                  LET all == Emitted(doc, [i \in DOMAIN doc |-> i], FALSE, FALSE)
                  IN ~Meets(doc, args, all) /\ Verdict(doc, args, all) = "ignored_struct_emitted"
            \* a property is a reference by its type ID, not by carrying an id: a generator that
            \* types every property with an id by that id is rejected (wherever the statement fixes
            \* the type), and the diagnosis names a type ID that carries an id
            /\ LET idt == EmittedIdTyped(doc, CHOOSE p \in Perms(live) : TRUE)
                    carried == {q \in UNION {Range(doc[i].props) : i \in live} : Carried(q) /\ ~TypeFree(q)}
               IN IF carried = {} THEN Meets(doc, args, idt)
                  ELSE /\ ~Meets(doc, args, idt)
                       /\ Verdict(doc, args, idt) # "ok"
                       \* (structs that share a key - foo / Foo - may be diagnosed against each other)
                       /\ ~CaseVariants(doc) => /\ Verdict(doc, args, idt) = "wrong_field_type"
                                                /\ WrongTypeOf(doc, args, idt) \in {q.tid : q \in carried}
                                                /\ WrongTypeCarriesId(doc, args, idt)
       /\ Observed(seen, Key) => Meets(doc, args, seen[Key])

\* one vector per state before the first run: the input (document, arguments, decoration), how
\* the run is invoked, what the directory holds (prev; its args.form is "fresh" for a fresh
\* directory) and the structs demanded
Export ==
    nobs = 0 => Emit([doc |-> v.doc, args |-> v.args, shape |-> Shape(v.doc),
                      sat |-> Satisfiable(v.doc, v.args),
                      exp |-> [structs |-> Expected(v.doc, v.args, deco)],
                      prev |-> dir, schema |-> SchemaFile, deco |-> deco, route |-> route])
=============================================================================
