----------------------------- MODULE CodegenMC -----------------------------
(* Exhaustive enumeration of the code-generator contract.  An initial state is *)
(* one INPUT (document, argument form); it is exported as a vector with the   *)
(* structs Gen demands and replayed into the real generator.  From there the  *)
(* Observe machine explores the legal histories of repeated runs: the first   *)
(* observation may be any output meeting the contract (any order of structs   *)
(* and fields, either spelling of a reference), every later observation of    *)
(* the same input must be identical to the first.                              *)
(*                                                                            *)
(* Documents: 0..MaxObjs objects, 0..MaxProps properties each (every shape);  *)
(* the properties take their types from the cyclic sequence Kinds (every type *)
(* ID; references to each object of the document, to itself, to an object     *)
(* outside the document), started at every offset in Rots.  The names come    *)
(* from three NAMING SCHEMES: "plain" (pairwise different words), "fold"      *)
(* (names that differ only in the capitalisation after the first letter:      *)
(* NodeSpec / Nodespec / NODESPEC, podIP / podIp / podip) and "title" (names  *)
(* that differ in the first letter's case and so become the same Go name:     *)
(* foo / Foo, bar / Bar); the two latter at the offsets in RotsAlt.           *)
EXTENDS Codegen, Export
CONSTANTS MaxObjs,   \* objects per document 0..MaxObjs (<= 3)
          MaxProps,  \* properties per object 0..MaxProps (<= 3)
          Rots,      \* offsets into Kinds, scheme "plain"
          RotsAlt    \* offsets into Kinds, schemes "fold" and "title"
VARIABLES v,         \* the input [doc, args]
          seen,      \* Observe: input -> first observation
          nobs       \* number of observations so far (saturates at 2)
vars == <<v, seen, nobs>>

\* ------------------------------------------------------------------ names (abstraction table)
\* name -> title-cased form, lower-cased form; checked by the harness against the standard library
N(t, f) == [title |-> t, fold |-> f]
NameTable ==
    ("alpha"      :> N("Alpha", "alpha"))           @@
    ("beta_2"     :> N("Beta_2", "beta_2"))         @@
    ("Gamma"      :> N("Gamma", "gamma"))           @@
    ("one"        :> N("One", "one"))               @@
    ("twoWords"   :> N("TwoWords", "twowords"))     @@
    ("x_3"        :> N("X_3", "x_3"))               @@
    ("NodeSpec"   :> N("NodeSpec", "nodespec"))     @@
    ("Nodespec"   :> N("Nodespec", "nodespec"))     @@
    ("NODESPEC"   :> N("NODESPEC", "nodespec"))     @@
    ("podIP"      :> N("PodIP", "podip"))           @@
    ("podIp"      :> N("PodIp", "podip"))           @@
    ("podip"      :> N("Podip", "podip"))           @@
    ("foo"        :> N("Foo", "foo"))               @@
    ("Foo"        :> N("Foo", "foo"))               @@
    ("bar"        :> N("Bar", "bar"))               @@
    ("Bar"        :> N("Bar", "bar"))               @@
    ("ObjectMeta" :> N("ObjectMeta", "objectmeta")) @@
    ("absent"     :> N("Absent", "absent"))
Schemes == {"plain", "fold", "title"}
ObjNamesOf(sch) == CASE sch = "plain" -> <<"alpha", "beta_2", "Gamma">>
                     [] sch = "fold"  -> <<"NodeSpec", "Nodespec", "NODESPEC">>
                     [] sch = "title" -> <<"foo", "Foo", "alpha">>
PropNamesOf(sch) == CASE sch = "plain" -> <<"one", "twoWords", "x_3">>
                      [] sch = "fold"  -> <<"podIP", "podIp", "podip">>
                      [] sch = "title" -> <<"bar", "Bar", "one">>
Outside   == "ObjectMeta"       \* referenced, not declared in the document (README's example)
AbsentName == "absent"          \* an ignore argument naming no object of the document

\* the key rule of Codegen.tla: lower-cased, unless the same map holds another name with the
\* same lower-cased form - then title-cased
KeyIn(nm, names) ==
    IF \E other \in names \ {nm} : NameTable[other].fold = NameTable[nm].fold
    THEN NameTable[nm].title ELSE NameTable[nm].fold

\* ------------------------------------------------------------------ property kinds
K(tid, target) == [tid |-> tid, target |-> target]   \* target: 0 none, 1..3 object index, 4 outside
Kinds == << K("string", 0), K("integer", 0), K("ref", 1), K("float", 0), K("map", 0), K("bool", 0),
            K("ref", 4), K("list", 0), K("enum_string", 0), K("ref", 2), K("enum_integer", 0),
            K("pattern", 0), K("scope", 0), K("object", 0), K("one_of_string", 0), K("ref", 3),
            K("one_of_int", 0), K("any", 0) >>
NK == Len(Kinds)

RECURSIVE Before(_, _)
Before(counts, i) == IF i <= 1 THEN 0 ELSE counts[i - 1] + Before(counts, i - 1)

RefName(sch, kind, n) == IF kind.tid # "ref" THEN ""
                         ELSE IF kind.target \in 1..n THEN ObjNamesOf(sch)[kind.target] ELSE Outside

MkProp(sch, k, m, kind, n) ==      \* k-th property; m = most properties among the objects of its group
    LET nm == PropNamesOf(sch)[k]
        rf == RefName(sch, kind, n)
    IN [name |-> nm, title |-> NameTable[nm].title,
        key |-> KeyIn(nm, {PropNamesOf(sch)[x] : x \in 1..m}), tid |-> kind.tid,
        ref |-> rf, reftitle |-> IF rf = "" THEN "" ELSE NameTable[rf].title]

\* the key of a property is taken among the property names of ALL objects that share the
\* object's key (foo / Foo are looked up as one group of structs)
MkDoc(sch, n, counts, r) ==
    LET onames == {ObjNamesOf(sch)[x] : x \in 1..n}
        OKey(i) == KeyIn(ObjNamesOf(sch)[i], onames)
        Widest(i) == CHOOSE c \in {counts[j] : j \in {x \in 1..n : OKey(x) = OKey(i)}} :
                        \A j \in {x \in 1..n : OKey(x) = OKey(i)} : counts[j] <= c
    IN [i \in 1..n |->
        LET nm == ObjNamesOf(sch)[i] IN
        [name |-> nm, title |-> NameTable[nm].title, key |-> OKey(i),
         props |-> [k \in 1..counts[i] |->
                      MkProp(sch, k, Widest(i), Kinds[((r + Before(counts, i) + k - 1) % NK) + 1], n)]]]

ArgForms(sch, n) == {[form |-> "no_ignore", ign |-> ""]}
                    \cup {[form |-> "with_ignore", ign |-> x] : x \in {ObjNamesOf(sch)[i] : i \in 1..n} \cup {AbsentName}}

\* ------------------------------------------------------------------ outputs a conforming generator may produce
Perms(S) == {p \in [1..Cardinality(S) -> S] : \A i, j \in DOMAIN p : p[i] = p[j] => i = j}
Outs(doc, args) == {Emitted(doc, p, rev, titled) : p \in Perms(Live(doc, args)), rev \in BOOLEAN, titled \in BOOLEAN}

\* ------------------------------------------------------------------ the machine
Init ==
    \E sch \in Schemes : \E n \in 0..MaxObjs : \E counts \in [1..n -> 0..MaxProps] :
    \E r \in (IF sch = "plain" THEN Rots ELSE RotsAlt) : \E a \in ArgForms(sch, n) :
        /\ v = [doc |-> MkDoc(sch, n, counts, r), args |-> a]
        /\ seen = NoObs
        /\ nobs = 0

Observe(out) ==
    /\ nobs < 2
    /\ ObsAccepts(seen, v, out)
    /\ seen' = ObsRecord(seen, v, out)
    /\ nobs' = nobs + 1
    /\ UNCHANGED v

Next == \E out \in Outs(v.doc, v.args) : Observe(out)
Spec == Init /\ [][Next]_vars

\* "Running it again on the same input produces byte-identical output"
Stable == [][Observed(seen, v) => seen' = seen]_vars

\* ------------------------------------------------------------------ the property on the model
DropFirst(out) == SubSeq(out, 2, Len(out))
ModelOK ==
    LET doc == v.doc
        args == v.args
        live == Live(doc, args)
    IN /\ WF(doc)
       /\ Shape(doc) \in {"empty", "single", "multi", "multi_casevariant"}
       /\ nobs = 0 =>
            \* exactly one struct per non-ignored object, one field per property
            /\ Cardinality(Gen(doc, args)) = Cardinality(live)
            /\ \A i \in live : \E g \in Gen(doc, args) :
                  g.key = doc[i].key /\ Cardinality(g.fields) = Len(doc[i].props)
            \* operational (Emitted) = declarative (Meets), whatever the order and spelling
            /\ \A out \in Outs(doc, args) :
                  /\ Meets(doc, args, out)
                  /\ Verdict(doc, args, out) = "ok"
                  /\ InGen(doc, args, out)
                  /\ ~NameDrift(doc, out)
                  /\ DuplicateNames(out) => CaseVariants(doc)
                  /\ WrongTypeOf(doc, args, out) = ""
                  \* and the declarative reading rejects what it must reject
                  /\ Len(out) > 0 => /\ ~Meets(doc, args, DropFirst(out))
                                     /\ Verdict(doc, args, DropFirst(out)) = "missing_struct"
                                     /\ ~Meets(doc, args, out \o <<out[1]>>)
                                     /\ Verdict(doc, args, out \o <<out[1]>>) \in
                                            {"duplicate_struct", "ignored_struct_emitted"}
            \* an ignored object that is emitted nevertheless is rejected
            /\ (live # DOMAIN doc) =>
                  LET all == Emitted(doc, [i \in DOMAIN doc |-> i], FALSE, FALSE)
                  IN ~Meets(doc, args, all) /\ Verdict(doc, args, all) = "ignored_struct_emitted"
       /\ Observed(seen, v) => Meets(doc, args, seen[v])

Export ==
    nobs = 0 => Emit([doc |-> v.doc, args |-> v.args, shape |-> Shape(v.doc),
                      sat |-> Satisfiable(v.doc, v.args),
                      exp |-> [structs |-> Gen(v.doc, v.args)]])
=============================================================================
