----------------------------- MODULE CodegenMC -----------------------------
(* Exhaustive enumeration of the code-generator contract.  An initial state is *)
(* one INPUT (document, argument form); it is exported as a vector with the   *)
(* structs Gen demands and replayed into the real generator.  From there the  *)
(* Observe machine explores the legal histories of repeated runs: the first   *)
(* observation may be any output meeting the contract (any order of structs   *)
(* and fields, either spelling of a reference), every later observation of    *)
(* the same input must be identical to the first.                              *)
(*                                                                            *)
(* Documents: 0..MaxObjs objects, 0..MaxProps properties each (every shape);  *)
(* the properties take their types from the cyclic sequence Kinds (every type *)
(* ID; references to each object of the document, to itself, to an object     *)
(* outside the document), started at every offset in Rots.                    *)
EXTENDS Codegen, Export
CONSTANTS MaxObjs,   \* objects per document 0..MaxObjs (<= 3)
          MaxProps,  \* properties per object 0..MaxProps (<= 3)
          Rots       \* offsets into Kinds
VARIABLES v,         \* the input [doc, args]
          seen,      \* Observe: input -> first observation
          nobs       \* number of observations so far (saturates at 2)
vars == <<v, seen, nobs>>

\* ------------------------------------------------------------------ names (abstraction table)
\* name -> title-cased form, lower-cased key; checked by the harness against the standard library
NameTable ==
    ("alpha"      :> [title |-> "Alpha",      key |-> "alpha"])      @@
    ("beta_2"     :> [title |-> "Beta_2",     key |-> "beta_2"])     @@
    ("Gamma"      :> [title |-> "Gamma",      key |-> "gamma"])      @@
    ("one"        :> [title |-> "One",        key |-> "one"])        @@
    ("twoWords"   :> [title |-> "TwoWords",   key |-> "twowords"])   @@
    ("x_3"        :> [title |-> "X_3",        key |-> "x_3"])        @@
    ("ObjectMeta" :> [title |-> "ObjectMeta", key |-> "objectmeta"]) @@
    ("absent"     :> [title |-> "Absent",     key |-> "absent"])
ObjNames  == <<"alpha", "beta_2", "Gamma">>
PropNames == <<"one", "twoWords", "x_3">>
Outside   == "ObjectMeta"       \* referenced, not declared in the document (README's example)
AbsentName == "absent"          \* an ignore argument naming no object of the document

\* ------------------------------------------------------------------ property kinds
K(tid, target) == [tid |-> tid, target |-> target]   \* target: 0 none, 1..3 object index, 4 outside
Kinds == << K("string", 0), K("integer", 0), K("ref", 1), K("float", 0), K("map", 0), K("bool", 0),
            K("ref", 4), K("list", 0), K("enum_string", 0), K("ref", 2), K("enum_integer", 0),
            K("pattern", 0), K("scope", 0), K("object", 0), K("one_of_string", 0), K("ref", 3),
            K("one_of_int", 0), K("any", 0) >>
NK == Len(Kinds)

RECURSIVE Before(_, _)
Before(counts, i) == IF i <= 1 THEN 0 ELSE counts[i - 1] + Before(counts, i - 1)

RefName(kind, n) == IF kind.tid # "ref" THEN ""
                    ELSE IF kind.target \in 1..n THEN ObjNames[kind.target] ELSE Outside

MkProp(k, kind, n) ==
    LET nm == PropNames[k]
        rf == RefName(kind, n)
    IN [name |-> nm, title |-> NameTable[nm].title, key |-> NameTable[nm].key, tid |-> kind.tid,
        ref |-> rf, reftitle |-> IF rf = "" THEN "" ELSE NameTable[rf].title]

MkDoc(n, counts, r) ==
    [i \in 1..n |->
        LET nm == ObjNames[i] IN
        [name |-> nm, title |-> NameTable[nm].title, key |-> NameTable[nm].key,
         props |-> [k \in 1..counts[i] |-> MkProp(k, Kinds[((r + Before(counts, i) + k - 1) % NK) + 1], n)]]]

ArgForms(n) == {[form |-> "no_ignore", ign |-> ""]}
               \cup {[form |-> "with_ignore", ign |-> x] : x \in {ObjNames[i] : i \in 1..n} \cup {AbsentName}}

\* ------------------------------------------------------------------ outputs a conforming generator may produce
Live(doc, args) == {i \in DOMAIN doc : ~Ignored(doc[i], args)}
Perms(S) == {p \in [1..Cardinality(S) -> S] : \A i, j \in DOMAIN p : p[i] = p[j] => i = j}
Outs(doc, args) == {Emitted(doc, p, rev, titled) : p \in Perms(Live(doc, args)), rev \in BOOLEAN, titled \in BOOLEAN}

\* ------------------------------------------------------------------ the machine
Init ==
    \E n \in 0..MaxObjs : \E counts \in [1..n -> 0..MaxProps] : \E r \in Rots : \E a \in ArgForms(n) :
        /\ v = [doc |-> MkDoc(n, counts, r), args |-> a]
        /\ seen = NoObs
        /\ nobs = 0

Observe(out) ==
    /\ nobs < 2
    /\ ObsAccepts(seen, v, out)
    /\ seen' = ObsRecord(seen, v, out)
    /\ nobs' = nobs + 1
    /\ UNCHANGED v

Next == \E out \in Outs(v.doc, v.args) : Observe(out)
Spec == Init /\ [][Next]_vars

\* "Running it again on the same input produces byte-identical output"
Stable == [][Observed(seen, v) => seen' = seen]_vars

\* ------------------------------------------------------------------ the property on the model
DropFirst(out) == SubSeq(out, 2, Len(out))
ModelOK ==
    LET doc == v.doc
        args == v.args
        live == Live(doc, args)
    IN /\ WF(doc)
       /\ Shape(doc) \in {"empty", "single", "multi"}
       /\ nobs = 0 =>
            \* exactly one struct per non-ignored object, one field per property
            /\ Cardinality(Gen(doc, args)) = Cardinality(live)
            /\ \A i \in live : \E g \in Gen(doc, args) :
                  g.key = doc[i].key /\ Cardinality(g.fields) = Len(doc[i].props)
            \* operational (Emitted) = declarative (Meets), whatever the order and spelling
            /\ \A out \in Outs(doc, args) :
                  /\ Meets(doc, args, out)
                  /\ Verdict(doc, args, out) = "ok"
                  /\ AbsInGen(doc, args, out)
                  /\ ~NameDrift(doc, out)
                  /\ WrongTypeOf(doc, args, out) = ""
                  \* and the declarative reading rejects what it must reject
                  /\ Len(out) > 0 => /\ ~Meets(doc, args, DropFirst(out))
                                     /\ Verdict(doc, args, DropFirst(out)) = "missing_struct"
                                     /\ ~Meets(doc, args, out \o <<out[1]>>)
                                     /\ Verdict(doc, args, out \o <<out[1]>>) = "duplicate_struct"
            \* an ignored object that is emitted nevertheless is rejected
            /\ (live # DOMAIN doc) =>
                  LET all == Emitted(doc, [i \in DOMAIN doc |-> i], FALSE, FALSE)
                  IN ~Meets(doc, args, all) /\ Verdict(doc, args, all) = "ignored_struct_emitted"
       /\ Observed(seen, v) => Meets(doc, args, seen[v])

Export ==
    nobs = 0 => Emit([doc |-> v.doc, args |-> v.args, shape |-> Shape(v.doc),
                      sat |-> Satisfiable(v.doc, v.args),
                      exp |-> [structs |-> Gen(v.doc, v.args)]])
=============================================================================
