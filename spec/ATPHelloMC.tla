----------------------------- MODULE ATPHelloMC -----------------------------
(* Model-checking instance of ATPHello; see cfg/hello_*.cfg. *)
EXTENDS ATPHello
R1 == {"r1"}
R2 == {"r1", "r2"}
R3 == {"r1", "r2", "r3"}
None == {}
=============================================================================
