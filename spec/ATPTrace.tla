------------------------------ MODULE ATPTrace ------------------------------
(***************************************************************************)
(* Trace validation of real ATP sessions against ATP.tla.                  *)
(*                                                                         *)
(* The harness records one event per hook point (atp/verif_hook_on.go) and *)
(* per transport operation, in one total order consistent with every lock  *)
(* of the implementation.  Each line is consumed by exactly one action of   *)
(* the specification, with the logged fields bound to the action's         *)
(* arguments and checked against the resulting state; a line the           *)
(* specification cannot take leaves the trace rejected at that line.       *)
(* Lines are flattened by the orchestrator to                              *)
(*   [ev, r, k, n, b, rs]   (event, run, kind, number, flag, list of runs) *)
(* Several sessions are concatenated with "reset" lines.                   *)
(***************************************************************************)
EXTENDS ATPClientEnv, Json, IOUtils

Trace == ndJsonDeserialize(IOEnv.VERIF_TRACE)
VARIABLE l
tvars == <<vars, l>>

Ev == Trace[l]
Is(name) == l <= Len(Trace) /\ Trace[l].ev = name /\ l' = l + 1
R == Ev.r

MsgOfId(n) == CASE n = 1 -> "ws" [] n = 2 -> "wd" [] n = 3 -> "sig" [] n = 4 -> "cd" [] n = 5 -> "err" [] OTHER -> "junk"

TInit == Init /\ l = 1 /\ TLCSet(1, 1)
\* high-water mark of consumed lines (CONSTRAINT; evaluated on every state found)
HighWater == TLCSet(1, IF l > TLCGet(1) THEN l ELSE TLCGet(1))
\* POSTCONDITION: every line was consumed
Accepted == PrintT(<<"HIGHWATER", TLCGet(1), Len(Trace)>>) /\ TLCGet(1) = Len(Trace) + 1

\* Init with every variable primed (TLC does not take Init' of the extended module as assignments)
InitPrimed ==
    /\ cpc' = [r \in Runs |-> "idle"]
    /\ entries' = [r \in Runs |-> ENone]
    /\ woken' = [r \in Runs |-> FALSE]
    /\ sigch' = [r \in Runs |-> "none"]
    /\ mu' = Free
    /\ rl' = FALSE
    /\ loop' = [pc |-> "none", msg |-> NoMsg, buf |-> <<>>, how |-> ""]
    /\ res' = [r \in Runs |-> ENone]
    /\ rets' = [r \in Runs |-> 0]
    /\ wpc' = [r \in Runs |-> "none"]
    /\ done' = FALSE
    /\ clpc' = IF WithClose THEN "idle" ELSE "absent"
    /\ wg' = 0
    /\ gotsig' = [r \in Runs |-> 0]
    /\ c2s' = <<>> /\ s2c' = <<>>
    /\ stdinClosed' = FALSE /\ outClosed' = FALSE
    /\ spc' = "recv"                       \* handshake (start message / hello) is sequential: see ATPHello
    /\ sbuf' = <<>>
    /\ smsg' = NoMsg
    /\ step' = [r \in Runs |-> "none"]
    /\ beh' = [r \in Runs |-> "none"]
    /\ sigg' = [r \in Runs |-> "none"]
    /\ workq' = <<>>
    /\ workClosed' = FALSE
    /\ emu' = Free
    /\ hpc' = "select"
    /\ hmsg' = NoMsg
    /\ hdrain' = FALSE
    /\ crashed' = "no"
    /\ accepted' = [r \in Runs |-> 0]
    /\ terminal' = [r \in Runs |-> 0]
    /\ srvRet' = FALSE

TReset == Is("reset") /\ InitPrimed

\* ------------------------------------------------------------------ client
TExec == Is("c.exec") /\ ExecBegin(R)
TRegister ==
    /\ Is("c.register") /\ Register(R)
    /\ IF Ev.k = "closed" THEN cpc'[R] = "ret"
       ELSE /\ cpc'[R] = "sendlock"
            /\ Ev.n = Cardinality({q \in Runs : entries'[q].st # "none"})
            /\ Ev.b = ~rl /\ rl'
TSend ==
    /\ Is("c.send")
    /\ CASE Ev.k = "ws" -> SendLock(R)
         [] Ev.k = "sig" -> WLock(R)
         [] Ev.k = "cd" -> CloseLock
         [] OTHER -> FALSE
TC2SWrite ==
    /\ Is("t.c2s.write")
    /\ \/ \E r \in Runs : SendWrite(r)
       \/ \E r \in Runs : WWrite(r)
       \/ CloseWrite
    /\ Len(c2s') = Len(c2s) + Ev.n
TSent ==
    /\ Is("c.sent")
    /\ CASE Ev.k = "ws" -> SendDone(R) \/ SendFail(R)
         [] Ev.k = "sig" -> WDone(R)
         [] Ev.k = "cd" -> CloseWritten
         [] OTHER -> FALSE
TWait == Is("c.wait") /\ GetResult(R) /\ cpc'[R] = "waiting"
TTake ==
    /\ Is("c.take")
    /\ (GetResult(R) /\ cpc'[R] = "ret") \/ Take(R)
    /\ (res'[R].st = "err") = Ev.b
TS2CRead ==
    /\ Is("t.s2c.read") /\ LoopFill
    /\ Len(s2c) = Len(s2c') + Ev.n
TDecode ==
    /\ Is("c.decode")
    /\ IF Ev.b THEN LoopDecodeErr
       ELSE /\ LoopDecode
            /\ loop'.msg.t = MsgOfId(Ev.n) \/ (loop'.msg.t = "bad" /\ MsgOfId(Ev.n) = "junk")
            /\ loop'.msg.r = R
TDeliver ==
    /\ Is("c.deliver") /\ LoopHandle
    /\ loop.msg.r = R
    /\ loop.msg.t \in {"wd", "err"}
    /\ (entries[R].st # "none") = Ev.b
TErrMsg ==      \* classification of an error message; the step-fatal one with a run ID is followed by c.deliver
    /\ Is("c.errmsg")
    /\ loop.pc = "handle" /\ loop.msg.t = "err" /\ loop.msg.r = R
    /\ IF loop.msg.x = "step" /\ R \in Runs
         THEN Ev.k = "step" /\ UNCHANGED vars
         ELSE Ev.k = loop.msg.x /\ LoopHandle
TUnknown == Is("c.unknown") /\ LoopHandle /\ loop.msg.t \notin {"wd", "sig", "err"}
TSigFwd ==
    /\ Is("c.sigfwd") /\ LoopHandle /\ loop.msg.t = "sig" /\ loop.msg.r = R
    /\ (sigch[R] = "open") = Ev.b
TDeliverAll ==
    /\ Is("c.deliverAll") /\ LoopFailAll
    /\ {Ev.rs[i] : i \in DOMAIN Ev.rs} = Registered
TCheck ==
    /\ Is("c.check") /\ LoopCheck
    /\ Ev.b = (Pending # {})
TLoopExit == Is("c.loopExit") /\ LoopExit
TWBegin == Is("c.wloop.begin") /\ WBegin(R) /\ wpc'[R] = "select"
TWExit ==
    /\ Is("c.wloop.exit")
    /\ IF Ev.k = "done" THEN WBegin(R) /\ wpc'[R] = "none" ELSE WExit(R)
TCloseDone == Is("c.close.done") /\ CloseBegin
TCloseRet == Is("c.close.ret") /\ CloseReturn

\* ------------------------------------------------------------------ server
TC2SRead ==
    /\ Is("t.c2s.read") /\ SrvFill
    /\ Len(c2s) = Len(c2s') + Ev.n
TRecv ==
    /\ Is("s.recv")
    /\ IF Ev.b THEN SrvDecodeErr
       ELSE /\ SrvDecode
            /\ smsg'.t \in {"bad", "wsbad"} \/ (smsg'.t = MsgOfId(Ev.n) /\ smsg'.r = R)
TStart == Is("s.start") /\ SrvHandle /\ smsg.t = "ws" /\ smsg.r = R /\ step'[R] = "run"
TSignal == Is("s.signal") /\ SrvHandle /\ smsg.t = "sig" /\ smsg.r = R /\ sigg'[R] = "run"
\* the server's input is closed: by the run loop on client-done (SrvHandle), or by the closure handler
\* after a fatal error (HCloseStdin; when the input is closed already the second close has no event and is silent)
TStdinClose ==
    /\ Is("t.c2s.rclose")
    /\ IF Ev.k = "srvloop" THEN SrvHandle /\ smsg.t = "cd" ELSE HCloseStdin

\* Channel operations on workDone are lock-free: the hook fires after the operation, so another
\* goroutine can observe (and log) its effect first.  They are therefore silent steps of the trace
\* specification (taken whenever the specification enables them), and their events only confirm
\* that the step has been taken.
Silent ==
    /\ l' = l
    /\ \/ \E r \in Runs : StepFail(r)
       \/ \E r \in Runs : SigFinishAs(r, TRUE)
       \/ SrvErrSend
       \/ (spc = "handle" /\ smsg.t \notin {"ws", "cd"} /\ ~(smsg.t = "sig" /\ smsg.r \in Runs /\ accepted[smsg.r] > 0) /\ SrvHandle)
       \/ SrvRunExit \/ SrvLateClose
       \/ HRecv
       \/ (stdinClosed /\ HCloseStdin)
       \/ CloseCancel
       \/ HDrain              \* (after a cancelled server context) the draining goroutine has no event of its own
    /\ crashed' = "no"
TErrq ==
    /\ Is("s.errq") /\ UNCHANGED vars
    /\ CASE Ev.k = "srvloop" -> spc \notin {"errsend", "handle"}
         [] Ev.k = "step" -> step[R] = "done"
         [] Ev.k = "sig" -> sigg[R] = "done"
         [] OTHER -> FALSE
TErrqClose == Is("s.errq.close") /\ UNCHANGED vars /\ workClosed
TStepEnd ==
    /\ Is("s.step.end")
    /\ StepFinishAs(R, IF Ev.b THEN "err" ELSE "ok")
TStepPanic == Is("s.step.panic") /\ StepFinishAs(R, "panic")
TSigDone ==
    /\ Is("s.sig.done")
    /\ IF sigg[R] = "run" THEN SigFinishAs(R, FALSE) ELSE UNCHANGED vars
TSrvSend ==
    /\ Is("s.send")
    /\ IF Ev.n = 2 THEN StepLock(R) ELSE HLock /\ hmsg.r = R
TS2CWrite ==
    /\ Is("t.s2c.write")
    /\ (\E r \in Runs : StepWrite(r)) \/ HWrite
    /\ Len(s2c') = Len(s2c) + Ev.n
TSrvSent ==
    /\ Is("s.sent")
    /\ ~Ev.b
    /\ IF Ev.n = 2 THEN StepWritten(R) ELSE HWritten
THRecv ==
    /\ Is("s.closure.recv") /\ UNCHANGED vars
    /\ hpc = "lock" /\ hmsg.r = R /\ hmsg.x = Ev.k
THExit == Is("s.closure.exit") /\ IF Ev.k = "ctx" THEN HCtxDone ELSE Ev.k = "closed" /\ HClosed
TReturn == Is("s.return") /\ SrvReturn

\* ------------------------------------------------------------------ scripted client (C07 sessions)
TEnvWrite ==
    /\ Is("e.write")
    /\ EnvSend(Msg(Ev.k, R, ""), Ev.b)
TEnvEOF == Is("e.eof") /\ IF Ended \/ stdinClosed THEN UNCHANGED vars ELSE EnvEOF
TEnvRead ==
    /\ Is("e.read")
    /\ Len(s2c) >= Ev.n
    /\ s2c' = SubSeq(s2c, Ev.n + 1, Len(s2c))
    /\ UNCHANGED <<cvars, c2s, stdinClosed, outClosed, svars>>

\* ------------------------------------------------------------------ scripted breaking server (C08 sessions)
UnsolMsg(k, r) == CASE k = "err_server" -> Msg("err", NoRun, "server")
                    [] k = "err_none" -> Msg("err", r, "none")
                    [] k = "err_step" -> Msg("err", NoRun, "step")
                    [] k = "sig" -> Msg("sig", r, "")
                    [] k = "wd_dup" -> Msg("wd", r, "dup")
                    [] OTHER -> Msg("bad", NoRun, "")
TFRead == Is("f.read") /\ Ev.n = 1 /\ FRead
TFReply == Is("f.reply") /\ FReply(R, Ev.k) /\ Len(s2c') = Len(s2c) + 1
TFUnsol == Is("f.unsol") /\ FUnsolicited(UnsolMsg(Ev.k, R))
TFGarbage == Is("f.garbage") /\ FGarbage
TFPartial == Is("f.partial") /\ FPartial(R)
TFCloseOut == Is("f.close_out") /\ IF outClosed THEN UNCHANGED vars ELSE FClose
TFCloseIn == Is("f.close_in") /\ IF stdinClosed THEN UNCHANGED vars ELSE FCloseIn

TNext ==
    /\ \/ TReset \/ Silent \/ TEnvWrite \/ TEnvEOF \/ TEnvRead
       \/ TFRead \/ TFReply \/ TFUnsol \/ TFGarbage \/ TFPartial \/ TFCloseOut \/ TFCloseIn
       \/ TExec \/ TRegister \/ TSend \/ TC2SWrite \/ TSent \/ TWait \/ TTake \/ TS2CRead \/ TDecode
       \/ TDeliver \/ TErrMsg \/ TUnknown \/ TSigFwd \/ TDeliverAll \/ TCheck \/ TLoopExit
       \/ TWBegin \/ TWExit \/ TCloseDone \/ TCloseRet
       \/ TC2SRead \/ TRecv \/ TStart \/ TSignal \/ TStdinClose \/ TErrq \/ TErrqClose
       \/ TStepEnd \/ TStepPanic \/ TSigDone \/ TSrvSend \/ TS2CWrite \/ TSrvSent \/ THRecv \/ THExit \/ TReturn
TSpec == TInit /\ [][TNext]_tvars

\* the properties of ATP.tla are evaluated in every state of every accepted trace
TraceInvClientEnv == NoNilWake /\ FlagHonest /\ NoFabrication /\ FReturnsOnce
TraceInv == NoNilWake /\ FlagHonest /\ Transparent /\ NoCrossTalk /\ WriterAtomic /\ NoCrash /\ OneTerminal
            /\ \A r \in Runs : rets[r] <= 1
=============================================================================
