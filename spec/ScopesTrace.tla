----------------------------- MODULE ScopesTrace -----------------------------
(***************************************************************************)
(* C14, code -> specification.  A seeded random driver (harness/cmd/scopes *)
(* op "rand") builds trees bigger than the universe of ScopesMC (more and  *)
(* deeper scopes, nested wrappers, one-ofs with several members, three     *)
(* namespaces, up to four tables), constructs them inner scope first,      *)
(* applies a random sequence of calls and logs                             *)
(*                                                                         *)
(*   {"ev":"build","tree":AST,"ext":{table:AST},"nss":[namespace..]}       *)
(*   {"ev":"self"|"ns","scope":tag,"ns":..,"table":..,                     *)
(*    "link":[[ref tag, object tag | "None"]..],  observed after the call  *)
(*    "vr":[[scope tag, ValidateReferences() = nil]..]}                    *)
(*                                                                         *)
(* Every call line must be an enabled action of Scopes.tla (ApplySelf /    *)
(* ApplyNamespace) and the observed link table and verdicts must be the    *)
(* ones the specification computes.  Many runs are concatenated; "build"   *)
(* resets the state.  "rebuilt" / "rebuilt_ns" lines carry the links of    *)
(* the same tree rebuilt from its description (SelfSerialize ->            *)
(* UnserializeScope: one ApplySelf on the root), before and after the      *)
(* namespaces of the run's last calls were applied to it.                  *)
(***************************************************************************)
EXTENDS Scopes, Json, IOUtils
\* TLC orders record fields by first occurrence in the root module: tags first
FieldOrder == [kind |-> 0, k |-> 0, op |-> 0, mode |-> 0, ok |-> 0, ev |-> 0, tag |-> 0, id |-> 0, ns |-> 0, s |-> 0,
               key |-> 0, name |-> 0, scope |-> 0, table |-> 0, req |-> 0, here |-> 0, chain |-> 0,
               def |-> 0, dis |-> 0, sub |-> 0, props |-> 0, items |-> 0, val |-> 0, v |-> 0, type |-> 0]

Trace == ndJsonDeserialize(IOEnv.VERIF_TRACE)
VARIABLE l

Empty == /\ tree = Leaf /\ ext = <<>> /\ ix = <<>> /\ link = <<>> /\ tab = <<>>
         /\ cov = {} /\ built = {} /\ hist = <<>>

Init == l = 1 /\ Empty

Step(e) ==
    CASE e.ev = "build" -> /\ tree' = e.tree
                           /\ ext' = e.ext
                           /\ ix' = BuildIx(e.tree, e.ext, Range(e.nss))
                           /\ link' = InitLink(ix')
                           /\ tab' = InitTab(ix')
                           /\ cov' = {} /\ built' = {} /\ hist' = <<>>
      [] e.ev = "self"  -> ApplySelf(e.scope)
      [] e.ev = "ns"    -> ApplyNamespace(e.scope, e.ns, e.table)
      \* observations of the tree rebuilt from its own description: no step of the constructed tree
      [] e.ev \in {"rebuilt", "rebuilt_ns"} -> UNCHANGED vars

Next == l <= Len(Trace) /\ l' = l + 1 /\ Step(Trace[l])
Spec == Init /\ [][Next]_<<l, vars>>

\* the generator's contract: only well-formed trees are recorded
Generated == (l > 1 /\ Trace[l - 1].ev = "build") => WellFormed(tree, ext)

TreeTags == {s.tag : s \in TreeSites}
Accepted ==
    l > 1 =>
      LET e == Trace[l - 1]
          obs == {<<p[1], p[2]>> : p \in Range(e.link)}
      IN CASE e.ev = "build"      -> TRUE
           [] e.ev = "rebuilt"    -> obs = {<<g, RebuiltLink[g]>> : g \in TreeTags}   \* one ApplySelf on the root
           [] e.ev = "rebuilt_ns" -> obs = {<<g, link[g]>> : g \in TreeTags}          \* + the namespaces just applied
           [] OTHER               -> obs = {<<g, link[g]>> : g \in DOMAIN link}

AcceptedCallVR(e) ==
    (l > 1 /\ Trace[l - 1].ev # "build") =>
        \A p \in Range(Trace[l - 1].vr) :
            /\ p[1] \in built \cup ix.escopes
            /\ p[2] = VR(ScopeByTag(p[1]), link)
            /\ p[2] = AllLinkedUnder(p[1], link)

AcceptedVR ==
    l > 1 =>
      LET e == Trace[l - 1] IN
      CASE e.ev = "build"      -> TRUE
        [] e.ev = "rebuilt"    -> \A p \in Range(e.vr) : p[2] = VR(tree, RebuiltLink)
        [] e.ev = "rebuilt_ns" -> \A p \in Range(e.vr) : p[2] = VR(tree, link)
        [] OTHER               -> AcceptedCallVR(e)

\* the declarative reading holds along every recorded run as well
LexicalT == (l > 1 /\ tree # Leaf) => Lexical /\ ExtStable
=============================================================================
