------------------------------- MODULE Units -------------------------------
(***************************************************************************)
(* C16 - unit formatting and parsing (schema/units.go).                    *)
(*                                                                         *)
(* A units definition is a descending sequence of multipliers; the base    *)
(* unit has multiplier 1 and index Len(def)+1.  Text is abstracted to      *)
(* TOKENS: a count followed by a unit index (0 = a bare number without a   *)
(* unit name).  The harness renders tokens with the real unit names (short *)
(* / long, singular / plural, several spacings) and compares the real      *)
(* Format* output byte for byte with the rendering of FormatTokens, and    *)
(* the real Parse* result with Parse.                                      *)
(*                                                                         *)
(* Floats are half-units: the quantity h stands for h/2, so an odd h has   *)
(* the fractional part .5 (exactly representable, printed "x.5").          *)
(***************************************************************************)
EXTENDS Integers, Sequences, FiniteSets, TLC

\* ------------------------------------------------------------------ definitions
\* id -> descending multipliers.  "sec", "pct", "chr" are the built-in second, percent and
\* character sets (the harness checks that the real definitions have exactly these
\* multipliers); g* are generated definitions (names chosen by the harness: prefixes of
\* each other, regexp metacharacters).  Byte and nanosecond sets have multipliers beyond
\* TLC's 32-bit integers; they are covered through UnitsTrace (digit structure) only.
Defs == [ sec |-> <<86400, 3600, 60>>,
          pct |-> <<>>,
          chr |-> <<>>,
          g10 |-> <<10>>,
          g12 |-> <<12, 4>>,
          g73 |-> <<7, 3>>,
          gcs |-> <<1000000, 1000>>,               \* names that differ only in letter case (mW / MW)
          gfm |-> <<10000, 100>>,                  \* formatting verbs and escapes in the names of NON-base units (%, %d, \n as text, $1)
          gk  |-> <<1000000, 1000, 10, 2>> ]
DefIds == DOMAIN Defs

Base(def) == Len(def) + 1
Mult(def, u) == IF u = Base(def) THEN 1 ELSE def[u]
Units(def) == 1..Base(def)

\* ------------------------------------------------------------------ formatting
RECURSIVE DigitsFrom(_, _, _)
DigitsFrom(def, i, rem) ==
    IF i > Len(def) THEN <<rem>>
    ELSE <<rem \div def[i]>> \o DigitsFrom(def, i + 1, rem % def[i])

\* greedy decomposition, largest multiplier first; one digit per unit
Digits(def, n) == DigitsFrom(def, 1, n)

Tok(c, u, half) == [c |-> c, u |-> u, half |-> half]

\* the non-zero digits, in order; zero is printed as "0 <base plural>"
FormatTokens(def, n) ==
    IF n = 0 THEN << Tok(0, Base(def), FALSE) >>
    ELSE LET d == Digits(def, n)
             all == [i \in 1..Base(def) |-> Tok(d[i], i, FALSE)]
         IN SelectSeq(all, LAMBDA t : t.c # 0)

\* half-unit quantity h (= h/2): whole part decomposed, the base digit carries the half
FormatTokensHalf(def, h) ==
    IF h = 0 THEN << Tok(0, Base(def), FALSE) >>
    ELSE LET d == Digits(def, h \div 2)
             odd == (h % 2) = 1
             all == [i \in 1..Base(def) |-> Tok(d[i], i, odd /\ i = Base(def))]
         IN SelectSeq(all, LAMBDA t : t.c # 0 \/ t.half)

\* ------------------------------------------------------------------ parsing
RECURSIVE SumToks(_, _)
\* value in half-units (so that a fractional base count is representable)
SumToks(def, toks) ==
    IF toks = <<>> THEN 0
    ELSE LET t == Head(toks)
             u == IF t.u = 0 THEN Base(def) ELSE t.u
         IN 2 * t.c * Mult(def, u) + (IF t.half THEN 1 ELSE 0) + SumToks(def, Tail(toks))

UnitOf(def, t) == IF t.u = 0 THEN Base(def) ELSE t.u

\* the grammar of the property statement: counts followed by declared unit names, largest
\* unit first (strictly: every unit at most once), integral counts
Strict(def, toks) ==
    /\ Len(toks) >= 1
    /\ \A i \in 1..Len(toks) : toks[i].u \in Units(def) /\ ~toks[i].half
    /\ \A i \in 1..(Len(toks) - 1) : toks[i].u < toks[i + 1].u

\* forms the SDK deliberately also reads, and the statement does not speak about: a bare
\* number (base unit implied) in last position, a fractional base count.  For these the
\* only demand is "never a wrong number": an error or the right value.
Lenient(def, toks) ==
    /\ Len(toks) >= 1
    /\ ~Strict(def, toks)
    /\ \A i \in 1..Len(toks) : toks[i].u \in (Units(def) \cup {0})
    /\ \A i \in 1..Len(toks) : toks[i].u = 0 => i = Len(toks)
    /\ \A i \in 1..Len(toks) : toks[i].half => UnitOf(def, toks[i]) = Base(def)
    /\ \A i \in 1..(Len(toks) - 1) : UnitOf(def, toks[i]) < UnitOf(def, toks[i + 1])

Class(def, toks) ==
    IF Strict(def, toks) THEN "strict" ELSE IF Lenient(def, toks) THEN "lenient" ELSE "other"

\* expected outcome of parsing: ok \in {"yes","maybe","no"}; h = value in half units
Parse(def, toks) ==
    LET c == Class(def, toks) IN
    IF c = "strict" THEN [ok |-> "yes", h |-> SumToks(def, toks)]
    ELSE IF c = "lenient" THEN [ok |-> "maybe", h |-> SumToks(def, toks)]
    ELSE [ok |-> "no", h |-> 0]

\* ------------------------------------------------------------------ properties of the model
\* (checked by TLC on every state of UnitsMC)
InverseInt(def, n) ==
    LET t == FormatTokens(def, n) IN Strict(def, t) /\ Parse(def, t) = [ok |-> "yes", h |-> 2 * n]

InverseHalf(def, h) ==
    LET t == FormatTokensHalf(def, h) IN
        /\ Class(def, t) \in {"strict", "lenient"}
        /\ Parse(def, t).h = h

\* greedy digits are canonical: every digit below the ratio to the next larger unit's
\* remainder, and they add up
RECURSIVE DigitSum(_, _, _)
DigitSum(def, d, i) == IF i > Base(def) THEN 0 ELSE d[i] * Mult(def, i) + DigitSum(def, d, i + 1)
Canonical(def, n) ==
    LET d == Digits(def, n) IN
        /\ Len(d) = Base(def)
        /\ DigitSum(def, d, 1) = n
        /\ \A i \in 2..Base(def) : DigitSum(def, d, i) < Mult(def, i - 1)
=============================================================================
