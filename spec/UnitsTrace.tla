----------------------------- MODULE UnitsTrace -----------------------------
(* Code -> specification for quantities TLC's 32-bit integers cannot hold     *)
(* (byte and nanosecond sets, 63-bit values).  The harness logs, for text the *)
(* SDK printed, the lexed tokens with the ratios between adjacent units; this *)
(* trace specification accepts a line iff the tokens are a canonical greedy   *)
(* decomposition: units strictly descending, no zero digit printed, every     *)
(* digit below the ratio to the next larger unit.  (That the digits add up to *)
(* the quantity is 63-bit arithmetic, done by the harness with math/big.)     *)
EXTENDS Integers, Sequences, TLC, Json, IOUtils
Trace == ndJsonDeserialize(IOEnv.VERIF_TRACE)
VARIABLE l
Init == l = 1
Next == l <= Len(Trace) /\ l' = l + 1
Spec == Init /\ [][Next]_l

LineOK(e) ==
    /\ e.lexed
    /\ Len(e.toks) >= 1
    /\ \A i \in 1..Len(e.toks) :
          LET t == e.toks[i] IN
          /\ t.u \in 1..(Len(e.ratios) + 1)
          /\ (t.c = 0 => Len(e.toks) = 1 /\ t.u = Len(e.ratios) + 1)
          /\ (t.u > 1 /\ ~t.big => t.c < e.ratios[t.u - 1])
          /\ (t.u > 1 => ~t.big)
    /\ \A i \in 1..(Len(e.toks) - 1) : e.toks[i].u < e.toks[i + 1].u

Accepted == l > 1 => LineOK(Trace[l - 1])
=============================================================================
