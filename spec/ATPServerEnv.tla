---------------------------- MODULE ATPServerEnv ----------------------------
(***************************************************************************)
(* C07: the server of ATP.tla against an ARBITRARY client.  The client      *)
(* processes are replaced by an environment that may send, in any order,    *)
(* any message of a grammar of valid and invalid client behaviour, cut a    *)
(* message short, end the input at any moment, and that keeps reading the   *)
(* server's output.  All server actions are those of ATP.tla.               *)
(*   ws(r)    valid work-start for run r (the step's behaviour - success,   *)
(*            error [unknown step, rejected input, undeclared output,       *)
(*            invalid data], panic - is chosen when CallStep returns)       *)
(*   sig(r)   signal for run r (accepted only if r was started)             *)
(*   cd       client done                                                   *)
(*   bad      decodable but unacceptable, answered by a non-fatal error     *)
(*            (unknown message ID, signal without run ID / bad payload)     *)
(*   wsbad    work-start without run or step ID or with a payload of the    *)
(*            wrong type: answered by a step-fatal error, nothing started   *)
(*   junk     bytes that are not a CBOR runtime message                     *)
(*   partial  the first fragment of a message, then nothing more of it      *)
(*   eof      end of input                                                  *)
(* The number of environment steps is bounded by MaxEnv (counter kept in    *)
(* the otherwise unused client variable wg).                                *)
(***************************************************************************)
EXTENDS ATP

CONSTANT MaxEnv

sent == wg
Ended == \E i \in DOMAIN c2s : c2s[i].m.t = "eof"
InputOver == Ended \/ (\E i \in DOMAIN sbuf : sbuf[i].m.t = "eof") \/ spc \notin {"recv", "handle"}

EnvMsgs == {Msg("ws", r, "") : r \in Runs} \cup {Msg("sig", r, "") : r \in Runs}
           \cup {Msg("cd", NoRun, ""), Msg("bad", NoRun, ""), Msg("wsbad", NoRun, ""), Msg("junk", NoRun, "")}

\* a client write completes only when the server takes it (or has closed its input): the
\* environment is sequential, like a real client's encoder
\* the model keeps one step and one signal goroutine per run ID, so the environment sends at most one
\* work-start and one signal per run ID (duplicate run IDs are exercised by the harness directly,
\* with the counting oracle of EnvOneTerminal)
InFlight(m) == (\E i \in DOMAIN c2s : c2s[i].m = m) \/ (\E i \in DOMAIN sbuf : sbuf[i].m = m) \/ smsg = m
Fresh(m) == CASE m.t = "ws" -> accepted[m.r] = 0 /\ ~InFlight(m)
              [] m.t = "sig" -> sigg[m.r] = "none" /\ ~InFlight(m)
              [] OTHER -> TRUE

EnvSend(m, whole) ==
    /\ sent < MaxEnv /\ ~Ended /\ CanWrite(c2s) /\ ~stdinClosed /\ Fresh(m)
    /\ c2s' = Append(c2s, IF whole THEN Whole(m) ELSE [m |-> m, p |-> 1])
    /\ wg' = wg + 1
    /\ UNCHANGED <<cpc, entries, woken, sigch, mu, rl, loop, res, rets, wpc, done, clpc, gotsig,
                   s2c, stdinClosed, outClosed, svars>>

EnvEOF ==
    /\ ~Ended /\ ~stdinClosed
    /\ c2s' = Append(c2s, Whole(Msg("eof", NoRun, "")))
    /\ UNCHANGED <<cvars, s2c, stdinClosed, outClosed, svars>>

\* the client keeps reading whatever the server writes
EnvRead ==
    /\ s2c # <<>>
    /\ s2c' = Tail(s2c)
    /\ UNCHANGED <<cvars, c2s, stdinClosed, outClosed, svars>>

EnvNext ==
    \/ \E m \in EnvMsgs : EnvSend(m, TRUE)
    \/ \E r \in Runs : EnvSend(Msg("ws", r, ""), FALSE)      \* cut short inside a message
    \/ EnvEOF \/ EnvRead
    \/ ServerNext

EnvSpec == Init /\ [][EnvNext]_vars

EnvFair ==
    /\ WF_vars(EnvRead) /\ WF_vars(EnvEOF)
    /\ \A r \in Runs : WF_vars(StepFinish(r)) /\ WF_vars(StepEmitted(r)) /\ WF_vars(StepFail(r))
                       /\ WF_vars(StepLock(r)) /\ WF_vars(StepWrite(r)) /\ WF_vars(StepWritten(r))
                       /\ WF_vars(SigFinish(r))
    /\ WF_vars(SrvFill) /\ WF_vars(SrvDecode) /\ WF_vars(SrvDecodeErr) /\ WF_vars(SrvErrSend) /\ WF_vars(SrvHandle)
    /\ WF_vars(SrvRunExit) /\ WF_vars(SrvLateClose)
    /\ WF_vars(HRecv) /\ WF_vars(HClosed) /\ WF_vars(HLock) /\ WF_vars(HWrite) /\ WF_vars(HWritten) /\ WF_vars(HCloseStdin)
    /\ WF_vars(SrvReturn)
EnvFairSpec == EnvSpec /\ EnvFair

\* ------------------------------------------------------------------ properties (C07)
\* the server never dies
EnvNoCrash == crashed = "no"
\* while its output is open it never sends more terminal messages for a run than it accepted work-starts
EnvOneTerminal == \A r \in Runs : terminal[r] <= accepted[r]
\* it cannot get stuck: whenever it has not returned, something can still move, or it legitimately
\* waits for more input (input not ended, nothing to read)
SrvWaitingForInput == spc = "recv" /\ c2s = <<>> /\ HeadKind(sbuf) \in {"empty", "partial"} /\ ~stdinClosed
EnvNoStuck == (~srvRet /\ Alive /\ ~SrvWaitingForInput) => ENABLED (ServerNext \/ EnvRead)
\* every accepted work-start is eventually answered (its output stays open until it returns)
EnvAnswers == \A r \in Runs : (accepted[r] = 1) ~> (terminal[r] = 1)
\* once input has ended it returns
EnvReturns == Ended ~> srvRet
=============================================================================
