--------------------------- MODULE ATPSignalsMC ---------------------------
EXTENDS ATPSignals, TLC
R3 == {"r1", "r2", "r3"}
R4 == {"r1", "r2", "r3", "r4"}
\* every order in which the caller can address one signal to each run
Perms(S) == {f \in [1..Cardinality(S) -> S] : \A a, b \in 1..Cardinality(S) : f[a] = f[b] => a = b}
AllOrders3 == Perms(R3)
AllOrders4 == Perms(R4)
=============================================================================
