-------------------------- MODULE ATPServerCancel --------------------------
(***************************************************************************)
(* The server of ATP.tla against an arbitrary client (ATPServerEnv.tla)    *)
(* whose context may be cancelled at any moment (HCtxDone) - the SIGTERM    *)
(* path of a plugin process.  Cancellation is not something a client can   *)
(* send, so C07 does not quantify over it; this module records what the    *)
(* code does on that path and what still holds:                            *)
(*   - no crash, never more terminal messages than accepted work-starts,   *)
(*     no state in which the server can neither move nor legitimately      *)
(*     waits for input (CancelNoStuck);                                    *)
(*   - it still returns once the input has ended (CancelReturns): cancel   *)
(*     alone does not end the read loop, and steps are waited for;         *)
(*   - a successful step is still answered (its work-done does not pass    *)
(*     through the closure handler: CancelOkAnswered);                     *)
(*   - what is LOST: errors queued or raised after the cancellation are    *)
(*     drained, not forwarded - EnvAnswers does not hold here, and TLC is  *)
(*     required to exhibit it (cfg atp_cancel_unanswered): a failing step  *)
(*     goes unanswered once the context is cancelled.                      *)
(***************************************************************************)
EXTENDS ATPServerEnv

CancelNext == EnvNext \/ HCtxDone \/ HDrain
CancelSpec == Init /\ [][CancelNext]_vars
CancelFairSpec == CancelSpec /\ EnvFair /\ WF_vars(HDrain)

CancelNoStuck == (~srvRet /\ Alive /\ ~SrvWaitingForInput) => ENABLED (ServerNext \/ EnvRead \/ HDrain)
\* after the cancellation the handler writes nothing any more
CancelSilent == hdrain => hpc = "done"
CancelReturns == Ended ~> srvRet
CancelOkAnswered == \A r \in Runs : (accepted[r] = 1 /\ beh[r] = "ok") ~> (terminal[r] = 1)
=============================================================================
