---------------------------- MODULE CodegenTrace ----------------------------
(* Code -> specification.  A seeded random driver runs the real generator on   *)
(* documents outside the enumerated universe (more objects and properties,     *)
(* arbitrary identifiers, other YAML styles) and logs one line per successful  *)
(* run:                                                                        *)
(*   {ev:"run", inp, run, doc, args, structs, hash, rel}                       *)
(* doc / args in the shapes of Codegen.tla, structs = what go/parser found in  *)
(* typedef_output.go (file order), hash = SHA-256 of its bytes, inp = identity *)
(* of the input (document, arguments) - checked, not trusted: two lines with   *)
(* the same inp must carry the same doc and args.  rel = what the run found in *)
(* its directory: "fresh" (no output file), the output of the same input      *)
(* ("over_own_output"), or the output an earlier run of ANOTHER input has left *)
(* there ("over_longer_output", "over_shorter_output", "over_equal_output":    *)
(* its length against this input's output).  The driver runs every input in a fresh directory first    *)
(* and then again in a directory used by other inputs (other arguments, a      *)
(* shorter and a longer document).  seen is keyed by the input alone: rel is   *)
(* no part of the input, so a run over an existing file must be identical to   *)
(* the run in the fresh directory; rel only names the detail of a rejection.   *)
(*                                                                             *)
(* A line is accepted iff the observed structs meet the contract (Verdict)     *)
(* and the Observe machine accepts the observation (identical to the first     *)
(* observation of that input).  Diagnose exports the specification's verdict   *)
(* for every line (used by the orchestrator to name the defect class when      *)
(* Accepted fails).                                                            *)
EXTENDS Codegen, Export
Trace == ndJsonDeserialize(IOEnv.VERIF_TRACE)
VARIABLES l,      \* next line to consume
          seen    \* Observe: inp -> first observation of that input
vars == <<l, seen>>

\* deco (the attributes the schema file carried) is part of the input's identity, route (how
\* the generator was invoked) is not: lines of one inp made under different routes must carry
\* one observation (Codegen!InvocationBlind); the verdict on the structs does not look at deco
\* (Codegen!AttributeBlind: Verdict takes doc and args).
Obs(e) == [doc |-> e.doc, args |-> e.args, deco |-> e.deco, structs |-> e.structs, hash |-> e.hash]

Init == l = 1 /\ seen = NoObs
Next == /\ l <= Len(Trace)
        /\ l' = l + 1
        /\ seen' = ObsRecord(seen, Trace[l].inp, Obs(Trace[l]))
Spec == Init /\ [][Next]_vars

SameInput(e) == Observed(seen, e.inp) =>
                    seen[e.inp].doc = e.doc /\ seen[e.inp].args = e.args /\ seen[e.inp].deco = e.deco

Rels == {"fresh", "over_own_output", "over_longer_output", "over_shorter_output", "over_equal_output"}

LineVerdict(e) ==
    IF ~WF(e.doc) \/ ~SameInput(e) \/ e.args.form \notin {"no_ignore", "with_ignore"} \/ e.rel \notin Rels
       \/ e.deco \notin Decos \/ e.route \notin Routes
    THEN "bad_trace"
    ELSE LET sv == Verdict(e.doc, e.args, e.structs)
         IN IF sv # "ok" THEN sv
            ELSE IF ~ObsAccepts(seen, e.inp, Obs(e)) THEN "nondeterministic_bytes"
            ELSE "ok"

\* what exactly differs / which type ID is mistyped: the detail field of the signature
Details(e) ==
    LET c == LineVerdict(e) IN
    IF c = "nondeterministic_bytes"
    THEN LET a == seen[e.inp].structs
             b == e.structs
             d == (IF StructOrderDiffers(a, b) THEN {"struct_order"} ELSE {})
                  \cup (IF FieldOrderDiffers(a, b) THEN {"field_order"} ELSE {})
         IN IF e.route # "binary" THEN {"invocation"}   \* differs from the pre-built binary's run
            ELSE IF e.rel # "fresh" THEN {e.rel}  \* differs from the fresh directory's: by what it found
            ELSE IF d = {} THEN {"content"} ELSE d
    ELSE IF c = "wrong_field_type" THEN {WrongTypeOf(e.doc, e.args, e.structs)}
    ELSE {}

Accepted == l <= Len(Trace) => LineVerdict(Trace[l]) = "ok"

Diagnose ==
    l <= Len(Trace) =>
        LET e == Trace[l] IN
        Emit([n |-> l, inp |-> e.inp, run |-> e.run, verdict |-> LineVerdict(e), details |-> Details(e),
              shape |-> Shape(e.doc), form |-> e.args.form, rel |-> e.rel, route |-> e.route,
              carried |-> IF LineVerdict(e) = "wrong_field_type"
                          THEN WrongTypeCarriesId(e.doc, e.args, e.structs) ELSE FALSE,
              drift |-> IF LineVerdict(e) = "bad_trace" THEN FALSE ELSE NameDrift(e.doc, e.structs),
              dupnames |-> DuplicateNames(e.structs)])
=============================================================================
