#!/usr/bin/env python3
"""debug helper: dev-trace.py <scenario.json> [sig runs] [bad runs] : run one scenario, validate, show state at rejection"""
import sys, json, os, re
sys.path.insert(0, "/verif")
from vlib import common
from props import atp_common as A
sc = json.load(open(sys.argv[1]))
sig = sys.argv[2].split(",") if len(sys.argv) > 2 and sys.argv[2] else []
bad = sys.argv[3].split(",") if len(sys.argv) > 3 and sys.argv[3] else []
ctx = common.Ctx("DBG", "quick", 1)
if "events" in sc:      # a saved session (replay file of a trace rejection): no run, just validate
    res = dict(events=sc["events"])
    sc = dict(id=sc.get("session", "saved"), cap=0)
else:
    rr = A.run_driver(ctx, [sc], jobs=1)[0]
    res = rr["res"]
print({k: v for k, v in res.items() if k not in ("events", "gates")})
ok, info = A.validate(ctx, [(sc["id"], res["events"])], ["r1", "r2", "r3"], sc.get("cap", 0), sig, bad)
print("accepted:", ok)
if not ok:
    print(json.dumps({k: v for k, v in info.items() if k != "tlc_tail"}, indent=1))
    fl = [A.flatten(e) for e in A.merge_env(res["events"])]
    fl = [f for f in fl if f]
    for i, f in enumerate(fl[: info["line_no"] + 1]):
        print(i + 2, f)
    # state at the high-water mark
    import glob, subprocess
    wd = sorted(glob.glob(ctx.tmp + "/tlc-*"))[-1]
    cfg = open(wd + "/run.cfg").read().replace("INVARIANT TraceInv", "INVARIANT TraceInv Probe")
    open(wd + "/run.cfg", "w").write(cfg)
    t = open(wd + "/ATPTrace.tla").read().replace("====================", "Probe == l < %d\n====================" % (info["highwater"]), 1)
    open(wd + "/ATPTrace.tla", "w").write(t)
    p = subprocess.run(["java", "-cp", common.TLA_CP, "tlc2.TLC", "-config", "run.cfg", "-workers", "1", "-deadlock", "ATPTrace.tla"],
                       cwd=wd, env=dict(os.environ, VERIF_TRACE=glob.glob(ctx.tmp + "/trace-*.ndjson")[0]), stdout=subprocess.PIPE, text=True)
    out = p.stdout
    i = out.rfind("\nState ")
    print(out[i:i + 3000])
import shutil
shutil.rmtree(ctx.tmp, ignore_errors=True)
