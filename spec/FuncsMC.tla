---------------------------- MODULE FuncsMC ----------------------------
(* Exhaustive enumeration of the function contract (C18).  A state is one     *)
(* vector: a CELL of the matrix (handler signature x declaration, op "new")   *)
(* or a cell plus one CALL (op "call", reached from every cell that may be    *)
(* accepted).  ModelOK checks the property on the model (rule-by-rule         *)
(* acceptance = declarative acceptance; operational call outcome = declared   *)
(* call outcome on every accepted cell), Export hands the vector with the     *)
(* expected outcome to the conformance harness.                               *)
(*                                                                            *)
(* Three sub-universes (their union is deduplicated by TLC):                  *)
(*   full   every parameter list over PT x every input list over PS           *)
(*          x every result list over RT x every (output, flag) over OS,       *)
(*          static and dynamic                                                *)
(*   wideP  longer parameter/input lists over more types x RCombos            *)
(*   wideR  every result list over more types x every (output, flag)          *)
(*          x PCombos                                                         *)
EXTENDS Funcs, Export
CONSTANTS PT, PS, MaxP,       \* full: handler parameter types, declared input schemas, list length
          RT, MaxR, OS,       \* full: handler result types, result list length, declared output schemas
          WPT, WPS, WMaxP,    \* wideP
          WRT, WMaxR, WOS     \* wideR
VARIABLE v

\* ------------------------------------------------------------------ the named universe 
\* schema id -> native type (what ReflectedType of the schema built by the harness must be)
Native == ("int" :> "int64") @@ ("float" :> "float64") @@ ("string" :> "string") @@ ("bool" :> "bool")
       @@ ("pattern" :> "*regexp.Regexp") @@ ("any" :> AnyT)
       @@ ("list_int" :> "[]int64") @@ ("list_string" :> "[]string") @@ ("list_any" :> "[]interface {}")
       @@ ("list_list_int" :> "[][]int64")
       @@ ("map_string_int" :> "map[string]int64") @@ ("map_int_string" :> "map[int64]string")
       @@ ("map_string_any" :> "map[string]interface {}")
SchemaIds == DOMAIN Native

\* Go types that are no schema's native type, used to make handlers disagree:
\*   int                  Go's int
\*   fake.error           struct type NAMED error in package fake; has no Error method
\*   fakei.error          interface type NAMED error in package fakei; method Fail, not Error
\*   fakee.error          struct type NAMED error in package fakee that has an Error method
\*   *main.PtrErr         pointer type with an Error method
\*   main.CodedError      interface embedding error plus one more method
\*   fmt.Stringer         an interface that has nothing to do with errors
Foreign == {"int", ErrorT, "fake.error", "fakei.error", "fakee.error", "*main.PtrErr", "main.CodedError", "fmt.Stringer"}
TypeIds == {Native[s] : s \in SchemaIds} \cup Foreign

Ifaces   == {AnyT, ErrorT, "fakei.error", "main.CodedError", "fmt.Stringer"}
Errorish == {ErrorT, "fakee.error", "*main.PtrErr", "main.CodedError"}
Nilable  == Ifaces \cup {"*regexp.Regexp", "*main.PtrErr", "[]int64", "[]string", "[]interface {}", "[][]int64",
                         "map[string]int64", "map[int64]string", "map[string]interface {}"}
Attr == [t \in TypeIds |-> [iface |-> t \in Ifaces, nilable |-> t \in Nilable, err |-> t \in Errorish]]

\* ------------------------------------------------------------------ the matrix
Seqs(S, k) == UNION {[1..m -> S] : m \in 0..k}
OutChoices(S) == {<<>>} \cup {<<s>> : s \in S}

RECURSIVE NatSeq(_)
NatSeq(s) == IF Len(s) = 0 THEN <<>> ELSE <<Native[Head(s)]>> \o NatSeq(Tail(s))

NoCall == [args |-> <<>>, bad |-> 0, beh |-> [k |-> "none", r |-> <<>>]]
Cell(dyn, ps, rs, ins, out, e) ==
    [op |-> "new", dyn |-> dyn, params |-> ps, results |-> rs, inputs |-> ins, out |-> out, err |-> e,
     call |-> NoCall]
Bind == [Cell(FALSE, <<>>, <<>>, <<>>, <<>>, FALSE) EXCEPT !.op = "bind"]

\* result/declaration combinations crossed with the wide parameter lists
RCombos == {
    [dyn |-> FALSE, results |-> <<>>,                          out |-> <<>>,         err |-> FALSE],
    [dyn |-> FALSE, results |-> <<ErrorT>>,                    out |-> <<>>,         err |-> TRUE],
    [dyn |-> FALSE, results |-> <<"int64", ErrorT>>,           out |-> <<"int">>,    err |-> TRUE],
    [dyn |-> FALSE, results |-> <<AnyT>>,                      out |-> <<"any">>,    err |-> FALSE],
    [dyn |-> TRUE,  results |-> <<AnyT, ErrorT>>,              out |-> <<>>,         err |-> TRUE],
    [dyn |-> FALSE, results |-> <<"int64", "fake.error">>,     out |-> <<"int">>,    err |-> TRUE],
    [dyn |-> FALSE, results |-> <<"int64">>,                   out |-> <<"string">>, err |-> FALSE],
    [dyn |-> TRUE,  results |-> <<AnyT, "*main.PtrErr">>,      out |-> <<>>,         err |-> TRUE] }

\* parameter/input combinations crossed with the wide result lists
PCombos == {
    [params |-> <<>>,                                       inputs |-> <<>>],
    [params |-> <<"int64", AnyT>>,                          inputs |-> <<"int", "any">>],
    [params |-> <<"[]int64", "string", "map[string]int64">>, inputs |-> <<"list_int", "string", "map_string_int">>],
    [params |-> <<"int64">>,                                inputs |-> <<>>],
    [params |-> <<"string">>,                               inputs |-> <<"int">>] }

Init ==
    \/ v = Bind
    \/ \E ps \in Seqs(PT, MaxP) : \E ins \in Seqs(PS, MaxP) : \E rs \in Seqs(RT, MaxR) :
          \/ \E out \in OutChoices(OS) : \E e \in BOOLEAN : v = Cell(FALSE, ps, rs, ins, out, e)
          \/ v = Cell(TRUE, ps, rs, ins, <<>>, TRUE)
    \/ \E ps \in Seqs(WPT, WMaxP) : \E ins \in Seqs(WPS, WMaxP) : \E c \in RCombos :
          v = Cell(c.dyn, ps, c.results, ins, c.out, c.err)
    \/ \E rs \in Seqs(WRT, WMaxR) : \E pc \in PCombos :
          \/ \E out \in OutChoices(WOS) : \E e \in BOOLEAN : v = Cell(FALSE, pc.params, rs, pc.inputs, out, e)
          \/ v = Cell(TRUE, pc.params, rs, pc.inputs, <<>>, TRUE)

Sig(s)  == [params |-> s.params, results |-> s.results]
Decl(s) == [dyn |-> s.dyn, inputs |-> NatSeq(s.inputs), out |-> NatSeq(s.out), err |-> s.err]

\* ------------------------------------------------------------------ the calls made on a cell
RECURSIVE Rot(_, _, _)
Rot(p, i, n) == IF i > n THEN <<>> ELSE <<(p + i) % 3>> \o Rot(p, i + 1, n)
RECURSIVE Const(_, _)
Const(n, t) == IF n = 0 THEN <<>> ELSE <<t>> \o Const(n - 1, t)
\* argument lists of length n: three rotations through the tokens (so that every position sees
\* nil, and interface-typed parameters see the ill-typed nil) and the two all-non-zero lists
Pats(n) == {Rot(p, 1, n) : p \in 0..2} \cup {Const(n, 1), Const(n, 2)}

Calls(s) ==
    LET decl  == Decl(s)
        ar    == Len(s.params)
        nr    == Len(s.results)
        \* the unremarkable behaviour: values 1, a nil error
        plain == [k |-> "ret", r |-> IF decl.err /\ nr > 0 THEN Const(nr - 1, 1) \o <<0>> ELSE Const(nr, 1)]
        rets  == {[k |-> "ret", r |-> r] :
                     r \in {q \in [1..nr -> 0..Len(ErrTokClass)] : \A j \in 1..nr : q[j] \in TokDom(s.results[j])}}
        echos == IF NValues(decl) = 1 /\ nr >= 1
                 THEN {[k |-> "echo", r |-> <<p>> \o t] :
                          p \in {q \in 1..ar : s.params[q] = s.results[1]}, t \in [1..(nr - 1) -> 0..1]}
                 ELSE {}
        pan   == {[k |-> "panic", r |-> <<>>]}
        bads  == {p \in 1..ar : ~Attr[decl.inputs[p]].iface}
    IN     {[args |-> a, bad |-> 0, beh |-> plain] : a \in UNION {Pats(n) : n \in (0..(ar + 1)) \ {ar}}}
      \cup {[args |-> a, bad |-> 0, beh |-> b] : a \in Pats(ar), b \in rets \cup echos \cup pan}
      \cup {[args |-> Const(ar, 1), bad |-> p, beh |-> plain] : p \in bads}

Next ==
    /\ v.op = "new"
    /\ Accepts(Attr, Sig(v), Decl(v)) # "no"
    /\ \E c \in Calls(v) : v' = [v EXCEPT !.op = "call", !.call = c]
Spec == Init /\ [][Next]_v

\* ------------------------------------------------------------------ the property on the model
ModelOK ==
    LET sig == Sig(v)
        decl == Decl(v)
        acc == Accepts(Attr, sig, decl)
    IN CASE v.op = "bind" -> TRUE
         [] v.op = "new"  -> /\ CheckHandler(Attr, sig, decl).verdict = acc
                             /\ (CheckHandler(Attr, sig, decl).rule = "none") = (acc = "yes")
                             /\ (decl.dyn => decl.err /\ decl.out = <<>>)
         [] v.op = "call" ->
              LET o == CallOutcome(Attr, sig, decl, v.call) IN
              /\ acc # "no"
              \* exactness: on an accepted cell the handler's real results unpack to what the
              \* declaration promises
              /\ acc = "yes" => o = CallDeclared(Attr, decl, v.call)
              \* the clauses of the statement, one by one
              /\ Len(v.call.args) # Len(decl.inputs) => o = FnOutcome("error", 0, FALSE)
              /\ (acc = "yes" /\ Len(v.call.args) = Len(decl.inputs) /\ WellTyped(Attr, decl, v.call)
                    /\ v.call.beh.k # "panic") =>
                   LET et == IF decl.err THEN ResultTok(v.call, Len(sig.results)) ELSE 0
                       failed == et # 0 IN
                   \* whatever the handler's error is or wraps, it is reported as the function's,
                   \* with that very value as its source
                   /\ failed => o = FnOutcome("error", et, TRUE)
                   /\ (et = 0 /\ HasValue(decl)) => o = FnOutcome("value", ResultTok(v.call, 1), FALSE)
                   /\ (et = 0 /\ ~HasValue(decl)) => o = FnOutcome("void", 0, FALSE)

Expected ==
    LET sig == Sig(v)
        decl == Decl(v)
        chk == CheckHandler(Attr, sig, decl)
    IN IF v.op = "call"
       THEN LET o == CallOutcome(Attr, sig, decl, v.call) IN
            [verdict |-> chk.verdict, rule |-> chk.rule, kind |-> o.kind, tok |-> o.tok, reported |-> o.reported]
       ELSE [verdict |-> chk.verdict, rule |-> chk.rule, kind |-> "none", tok |-> 0, reported |-> FALSE]

Export ==
    IF v.op = "bind"
    THEN Emit([op |-> "bind",
               native |-> {[schema |-> s, type |-> Native[s]] : s \in SchemaIds},
               errtokens |-> ErrTokClass,
               types |-> {[id |-> t, iface |-> Attr[t].iface, nilable |-> Attr[t].nilable, err |-> Attr[t].err] : t \in TypeIds}])
    ELSE Emit([op |-> v.op, dyn |-> v.dyn, params |-> v.params, results |-> v.results,
               inputs |-> v.inputs, natives |-> NatSeq(v.inputs), out |-> v.out, err |-> v.err,
               call |-> v.call, exp |-> Expected])
=============================================================================
