------------------------------- MODULE ATPHello -------------------------------
(***************************************************************************)
(* The sequential parts of an ATP session, which ATP.tla starts after:     *)
(*                                                                         *)
(*  - the handshake of the client (ReadSchema: empty start message out,    *)
(*    hello in, version check, schema unserialisation) against a stream    *)
(*    that may answer correctly, with another version, with an unusable    *)
(*    schema, with a message of another kind, with garbage, stop inside    *)
(*    the hello, end, or whose input side fails;                           *)
(*  - the legacy framing of Execute (ATP v1: an unwrapped work-start out,  *)
(*    ONE unwrapped work-done read by the calling goroutine itself from    *)
(*    the client's shared decoder under v1ReadMutex; no run IDs, no read   *)
(*    loop, no client-done), which is also what the client falls back to   *)
(*    when ReadSchema never assigned a version (atpVersion = 0);           *)
(*  - the handshake of the SDK server (sendInitialMessagesToClient) against*)
(*    an arbitrary client, and the hand-over of the input stream to the    *)
(*    read loop: the decoder reads ahead, so whatever the client wrote     *)
(*    right behind its start message is already in the decoder's buffer    *)
(*    when the handshake ends.                                             *)
(*                                                                         *)
(* Grain: one action per blocking I/O call or mutex acquisition of         *)
(* atp/client.go (ReadSchema, Execute, getResultV1) and atp/server.go      *)
(* (sendInitialMessagesToClient, run).  The decoder is fxamacker/cbor's    *)
(* stream decoder: a malformed item or an item cut short by the end of the *)
(* stream is NOT consumed - every later Decode fails again - while a       *)
(* well-formed item of another shape is consumed and, the client's decode  *)
(* mode rejecting unknown keys, fails that one Decode call only.           *)
(***************************************************************************)
EXTENDS Naturals, Sequences, FiniteSets, TLC

CONSTANTS Calls,       \* identifiers of the Execute calls issued with the legacy framing
          Serial,      \* TRUE: a call is issued only after the previous ones have returned
          Peer,        \* "env": any stream;  "v1": a faithful v1 plugin
          LockFirst,   \* TRUE (current code): a v1 call takes the v1 mutex BEFORE its work-start and keeps it up to
                       \* its work-done; FALSE (named deviation, the pinned tree after c6b9c8b): only the read is locked
          Describable, \* server side: can the plugin schema describe itself (SelfSerialize)
          OneDecoder   \* TRUE (current code): handshake and read loop of the server decode from ONE decoder;
                       \* FALSE (named deviation): the handshake has a decoder of its own, whose read-ahead is lost

Supported == {1, 3}            \* supportedServerVersions in atp/client.go
Versions  == {0, 1, 2, 3, 4, 99}     \* 2 lies between the supported ones, 0 and 4 beside them

VARIABLES
  hs,        \* ReadSchema: "idle", "wrote", "ok", "err"
  hsAt,      \* where ReadSchema failed: "", "send", "decode", "version", "schema"
  hello,     \* what ReadSchema decoded as the hello message
  ver,       \* c.atpVersion; 0 = never assigned
  cpc,       \* per call: "idle", "send", "lock", "decode", "ret"
  res,       \* per call: "", "ok", "err"
  got,       \* per call: the tag of the work-done it was given ("" if none)
  rmu,       \* holder of v1ReadMutex, or ""
  c2s, s2c,  \* the two byte streams as sequences of items
  outEnded,  \* the server-to-client stream has ended: "", "eof", "ioerr"
  inClosed,  \* the client's writes fail
  helloSent, \* environment: the start message has been answered
  intact,    \* history: tags of the work-done items put on the stream readable (no garbage before them)
  srv,       \* SDK server handshake: "selfser", "start", "hello", "loop", "fail", "failed"
  serr,      \* number of ServerErrors reported by the server handshake
  cliEnded,  \* server side: the client's stream has ended
  outFail,   \* server side: the server's writes fail
  sbuf,      \* server side: items the server's decoder has read from c2s and not yet decoded (read-ahead)
  seen,      \* server side: the items the read loop has decoded, in order
  sent       \* server side, history: every item the client has written, in order

cvars == <<hs, hsAt, hello, ver, cpc, res, got, rmu, c2s, s2c, outEnded, inClosed, helloSent, intact>>
svars == <<srv, serr, cliEnded, outFail, sbuf, seen, sent>>
vars  == <<cvars, svars>>

NoHello == [t |-> "none", ver |-> 0, sch |-> "bad"]
HelloItem(v, s) == [t |-> "hello", ver |-> v, sch |-> s]
WD(c)   == [t |-> "wd", c |-> c]
Junk    == [t |-> "junk"]
Part    == [t |-> "part"]           \* the first bytes of a message; complete only if more bytes follow
WS(c)   == [t |-> "ws", c |-> c]
Start   == [t |-> "start"]

(* A Decode call returns as soon as a whole item is buffered, the item at the head is malformed, or the stream
   has ended; on an incomplete item it waits for more bytes. *)
Malformed(q) == q # <<>> /\ Head(q).t = "junk"
Cut(q, ended) == ended /\ (IF q = <<>> THEN TRUE ELSE Head(q).t = "part")
Whole(q) == q # <<>> /\ Head(q).t \notin {"junk", "part"}
CanDecode(q, ended) == Whole(q) \/ Malformed(q) \/ Cut(q, ended)

(* no garbage or torso before the end of the queue: what is appended now can still be read *)
WholeOnly(q) == SelectSeq(q, LAMBDA m : m.t \notin {"junk", "part"})
IsPrefixOf(p, q) == Len(p) <= Len(q) /\ p = SubSeq(q, 1, Len(p))
MaxSent == 4
Clean(q) == \A i \in 1..Len(q) : q[i].t \notin {"junk", "part"}

-----------------------------------------------------------------------------
(* Client: ReadSchema *)

HsSend ==
  /\ hs = "idle"
  /\ IF inClosed
       THEN hs' = "err" /\ hsAt' = "send" /\ UNCHANGED c2s
       ELSE hs' = "wrote" /\ c2s' = Append(c2s, Start) /\ UNCHANGED hsAt
  /\ UNCHANGED <<hello, ver, cpc, res, got, rmu, s2c, outEnded, inClosed, helloSent, intact, svars>>

(* c.decoder.Decode(&hello), validateVersion, UnserializeSchema: local after the read *)
HsDecode ==
  /\ hs = "wrote"
  /\ CanDecode(s2c, outEnded # "")
  /\ IF Whole(s2c)
       THEN LET m == Head(s2c) IN
            /\ s2c' = Tail(s2c)                               \* a well-formed item is consumed whatever it is
            /\ IF m.t # "hello"                               \* the client's decoder rejects unknown keys
                 THEN hs' = "err" /\ hsAt' = "decode" /\ UNCHANGED <<hello, ver>>
                 ELSE /\ hello' = m
                      /\ IF m.ver \notin Supported
                           THEN hs' = "err" /\ hsAt' = "version" /\ UNCHANGED ver
                           ELSE /\ ver' = m.ver                 \* assigned BEFORE the schema is unserialised
                                /\ IF m.sch = "ok" THEN hs' = "ok" /\ UNCHANGED hsAt
                                                   ELSE hs' = "err" /\ hsAt' = "schema"
       ELSE hs' = "err" /\ hsAt' = "decode" /\ UNCHANGED <<s2c, hello, ver>>
  /\ UNCHANGED <<cpc, res, got, rmu, c2s, outEnded, inClosed, helloSent, intact, svars>>

HsReturned == hs \in {"ok", "err"}

-----------------------------------------------------------------------------
(* Client: Execute with the legacy framing (atpVersion <= 1) *)

V1Begin(c) ==
  /\ HsReturned /\ ver \in {0, 1}
  /\ cpc[c] = "idle"
  /\ Serial => \A d \in Calls \ {c} : cpc[d] \in {"idle", "ret"}
  /\ cpc' = [cpc EXCEPT ![c] = IF LockFirst THEN "lock" ELSE "send"]
  /\ UNCHANGED <<hs, hsAt, hello, ver, res, got, rmu, c2s, s2c, outEnded, inClosed, helloSent, intact, svars>>

V1Lock(c) ==
  /\ cpc[c] = "lock" /\ rmu = ""
  /\ rmu' = c /\ cpc' = [cpc EXCEPT ![c] = IF LockFirst THEN "send" ELSE "decode"]
  /\ UNCHANGED <<hs, hsAt, hello, ver, res, got, c2s, s2c, outEnded, inClosed, helloSent, intact, svars>>

V1Send(c) ==
  /\ cpc[c] = "send"
  /\ IF inClosed
       THEN /\ cpc' = [cpc EXCEPT ![c] = "ret"] /\ res' = [res EXCEPT ![c] = "err"] /\ UNCHANGED c2s
            /\ rmu' = IF rmu = c THEN "" ELSE rmu          \* the deferred unlock
       ELSE /\ cpc' = [cpc EXCEPT ![c] = IF LockFirst THEN "decode" ELSE "lock"]
            /\ c2s' = Append(c2s, WS(c)) /\ UNCHANGED <<res, rmu>>
  /\ UNCHANGED <<hs, hsAt, hello, ver, got, s2c, outEnded, inClosed, helloSent, intact, svars>>

V1Decode(c) ==
  /\ cpc[c] = "decode" /\ rmu = c
  /\ CanDecode(s2c, outEnded # "")
  /\ IF Whole(s2c)
       THEN LET m == Head(s2c) IN
            /\ s2c' = Tail(s2c)
            /\ IF m.t = "wd" THEN res' = [res EXCEPT ![c] = "ok"] /\ got' = [got EXCEPT ![c] = m.c]
                             ELSE res' = [res EXCEPT ![c] = "err"] /\ UNCHANGED got   \* not a work-done: no output ID
       ELSE res' = [res EXCEPT ![c] = "err"] /\ UNCHANGED <<s2c, got>>
  /\ rmu' = "" /\ cpc' = [cpc EXCEPT ![c] = "ret"]
  /\ UNCHANGED <<hs, hsAt, hello, ver, c2s, outEnded, inClosed, helloSent, intact, svars>>

ClientNext == HsSend \/ HsDecode \/ \E c \in Calls : V1Begin(c) \/ V1Send(c) \/ V1Lock(c) \/ V1Decode(c)

-----------------------------------------------------------------------------
(* The peer of the client *)

HelloKinds ==
  IF Peer = "v1" THEN {HelloItem(1, "ok")}
  ELSE {HelloItem(v, s) : v \in Versions, s \in {"ok", "bad"}} \cup {Junk, Part, WD("x")}

AnswerKinds(c) == IF Peer = "v1" THEN {WD(c)} ELSE {WD(c), Junk, Part}

EnvHello(k) ==
  /\ ~helloSent /\ outEnded = ""
  /\ c2s # <<>> /\ Head(c2s).t = "start"
  /\ c2s' = Tail(c2s) /\ helloSent' = TRUE
  /\ s2c' = Append(s2c, k)
  /\ UNCHANGED <<hs, hsAt, hello, ver, cpc, res, got, rmu, outEnded, inClosed, intact, svars>>

EnvAnswer(k) ==
  /\ outEnded = ""
  /\ c2s # <<>> /\ Head(c2s).t = "ws"
  /\ k \in AnswerKinds(Head(c2s).c)
  /\ c2s' = Tail(c2s)
  /\ s2c' = Append(s2c, k)
  /\ intact' = IF k.t = "wd" /\ Clean(s2c) THEN intact \cup {k.c} ELSE intact
  /\ UNCHANGED <<hs, hsAt, hello, ver, cpc, res, got, rmu, outEnded, inClosed, helloSent, svars>>

EnvEndAny(kind) ==
  /\ outEnded = ""
  /\ outEnded' = kind
  /\ UNCHANGED <<hs, hsAt, hello, ver, cpc, res, got, rmu, c2s, s2c, inClosed, helloSent, intact, svars>>

EnvEnd(kind) == Peer = "env" /\ EnvEndAny(kind)      \* a faithful plugin does not end the stream mid-session

EnvFailWrites ==
  /\ Peer = "env" /\ ~inClosed
  /\ inClosed' = TRUE
  /\ UNCHANGED <<hs, hsAt, hello, ver, cpc, res, got, rmu, c2s, s2c, outEnded, helloSent, intact, svars>>

EnvNext ==
  \/ \E k \in HelloKinds : EnvHello(k)
  \/ \E k \in {WD(c) : c \in Calls} \cup {Junk, Part} : EnvAnswer(k)
  \/ \E kind \in {"eof", "ioerr"} : EnvEnd(kind)
  \/ EnvFailWrites

CInit ==
  /\ hs = "idle" /\ hsAt = "" /\ hello = NoHello /\ ver = 0
  /\ cpc = [c \in Calls |-> "idle"] /\ res = [c \in Calls |-> ""] /\ got = [c \in Calls |-> ""]
  /\ rmu = "" /\ c2s = <<>> /\ s2c = <<>> /\ outEnded = "" /\ inClosed = FALSE
  /\ helloSent = FALSE /\ intact = {}
  /\ srv = "n/a" /\ serr = 0 /\ cliEnded = FALSE /\ outFail = FALSE
  /\ sbuf = <<>> /\ seen = <<>> /\ sent = <<>>

CNext == ClientNext \/ EnvNext
CSpec == CInit /\ [][CNext]_vars
CFairSpec == CSpec /\ WF_vars(ClientNext) /\ WF_vars(EnvNext)

-----------------------------------------------------------------------------
(* Properties of the client side *)

CTypeOK ==
  /\ hs \in {"idle", "wrote", "ok", "err"} /\ hsAt \in {"", "send", "decode", "version", "schema"}
  /\ ver \in {0} \cup Supported
  /\ \A c \in Calls : cpc[c] \in {"idle", "send", "lock", "decode", "ret"} /\ res[c] \in {"", "ok", "err"}
  /\ rmu \in Calls \cup {""}

(* ReadSchema succeeds only on an intact hello of a supported version carrying a usable schema *)
HelloHonest == hs = "ok" => hello.t = "hello" /\ hello.ver \in Supported /\ hello.sch = "ok" /\ ver = hello.ver
HsErrHasReason == (hs = "err") <=> (hsAt # "")

(* a call reports success only for a work-done that was put on the stream readable, and no work-done serves two calls *)
NoFabrication ==
  /\ \A c \in Calls : res[c] = "ok" => got[c] \in intact
  /\ \A c, d \in Calls : res[c] = "ok" /\ res[d] = "ok" /\ c # d => got[c] # got[d]

ReturnsOnce == \A c \in Calls : (cpc[c] = "ret") <=> (res[c] # "")

(* once the stream has ended nobody stays blocked: whatever was started returns (safety form: no terminal state
   with a pending ReadSchema or call) *)
FailNotHang ==
  (outEnded # "" /\ ~ENABLED ClientNext) => (hs # "wrote" /\ \A c \in Calls : cpc[c] \in {"idle", "ret"})

(* the mutex serialises the readers of the shared decoder *)
OneReader == /\ Cardinality({c \in Calls : cpc[c] = "decode"}) <= 1
             /\ LockFirst => Cardinality({c \in Calls : cpc[c] \in {"send", "decode"}}) <= 1

(* against a faithful v1 plugin every call gets its own result *)
V1Transparent == (Peer = "v1" /\ (Serial \/ LockFirst)) => \A c \in Calls : res[c] # "" => res[c] = "ok" /\ got[c] = c

(* the legacy framing has no run IDs: the k-th work-done answers the k-th work-start.  With LockFirst = FALSE
   overlapping calls can read in another order than they wrote in and get each other's results (TLC exhibits it,
   and the schedule is replayed into the real client as a regression schedule); LockFirst = TRUE makes a call
   atomic from its work-start to its work-done. *)
V1NoCrossTalk == Peer = "v1" => \A c \in Calls : res[c] = "ok" => got[c] = c

EventuallyReturns == <>(HsReturned) /\ (\A c \in Calls : cpc[c] # "idle" ~> cpc[c] = "ret")
EndedImpliesReturns == (outEnded # "") ~> (hs # "wrote" /\ \A c \in Calls : cpc[c] \in {"idle", "ret"})

-----------------------------------------------------------------------------
(* The SDK server's handshake against an arbitrary client (c2s written by the environment) *)

SrvSelfSer ==
  /\ srv = "selfser"
  /\ srv' = IF Describable THEN "start" ELSE "fail"
  /\ UNCHANGED <<cvars, serr, cliEnded, outFail, sbuf, seen, sent>>

InEnded == cliEnded /\ c2s = <<>>

(* A Decode call that finds no whole item in the decoder's buffer reads from the stream: the Read returns whatever
   has arrived, one item or several (a client may write its first work-start together with the start message). *)
SrvFill ==
  /\ srv \in {"start", "loop"}
  /\ ~Whole(sbuf) /\ ~Malformed(sbuf)
  /\ c2s # <<>>
  /\ \E k \in 1..Len(c2s) : sbuf' = sbuf \o SubSeq(c2s, 1, k) /\ c2s' = SubSeq(c2s, k + 1, Len(c2s))
  /\ UNCHANGED <<hs, hsAt, hello, ver, cpc, res, got, rmu, s2c, outEnded, inClosed, helloSent, intact,
                 srv, serr, cliEnded, outFail, seen, sent>>

(* s.cborStdin.Decode(&empty): any well-formed item is taken for the start message *)
SrvReadStart ==
  /\ srv = "start"
  /\ CanDecode(sbuf, InEnded)
  /\ IF Whole(sbuf) THEN sbuf' = Tail(sbuf) /\ srv' = "hello" ELSE srv' = "fail" /\ UNCHANGED sbuf
  /\ UNCHANGED <<cvars, serr, cliEnded, outFail, seen, sent>>

(* the hello is written and the read loop starts, on the same decoder (OneDecoder) or on a new one *)
SrvHello ==
  /\ srv = "hello"
  /\ IF outFail THEN srv' = "fail" /\ UNCHANGED <<s2c, sbuf>>
                ELSE /\ srv' = "loop" /\ s2c' = Append(s2c, HelloItem(3, "ok"))
                     /\ sbuf' = IF OneDecoder THEN sbuf ELSE <<>>
  /\ UNCHANGED <<hs, hsAt, hello, ver, cpc, res, got, rmu, c2s, outEnded, inClosed, helloSent, intact,
                 serr, cliEnded, outFail, seen, sent>>

(* runATPReadLoop: one well-formed item decoded and dispatched.  (What the loop does with it, and how it ends, is
   ATP.tla's matter: this module follows the stream up to the point where both agree on what the loop is given.) *)
SrvLoopDecode ==
  /\ srv = "loop"
  /\ Whole(sbuf)
  /\ seen' = Append(seen, Head(sbuf)) /\ sbuf' = Tail(sbuf)
  /\ UNCHANGED <<cvars, srv, serr, cliEnded, outFail, sent>>

(* run() reports a server-fatal ServerError through workDone and ends; RunATPServer returns it *)
SrvFail ==
  /\ srv = "fail"
  /\ srv' = "failed" /\ serr' = serr + 1
  /\ UNCHANGED <<cvars, cliEnded, outFail, sbuf, seen, sent>>

ServerNext == SrvSelfSer \/ SrvFill \/ SrvReadStart \/ SrvHello \/ SrvLoopDecode \/ SrvFail

CliSend(k) ==
  /\ ~cliEnded
  /\ Clean(sent)                         \* after garbage or a torso nothing further matters
  /\ c2s' = Append(c2s, k) /\ sent' = Append(sent, k)
  /\ UNCHANGED <<hs, hsAt, hello, ver, cpc, res, got, rmu, s2c, outEnded, inClosed, helloSent, intact,
                 srv, serr, cliEnded, outFail, sbuf, seen>>

CliEnd ==
  /\ ~cliEnded /\ cliEnded' = TRUE
  /\ UNCHANGED <<cvars, srv, serr, outFail, sbuf, seen, sent>>

OutFails ==
  /\ ~outFail /\ outFail' = TRUE
  /\ UNCHANGED <<cvars, srv, serr, cliEnded, sbuf, seen, sent>>

(* the model's client: at most MaxSent items, at most two of them in flight *)
SEnvNext == \/ Len(c2s) < 2 /\ Len(sent) < MaxSent /\ \E k \in {Start, WS("x"), WS("y"), Junk, Part} : CliSend(k)
            \/ CliEnd \/ OutFails

SInit ==
  /\ hs = "n/a" /\ hsAt = "" /\ hello = NoHello /\ ver = 0
  /\ cpc = [c \in Calls |-> "idle"] /\ res = [c \in Calls |-> ""] /\ got = [c \in Calls |-> ""]
  /\ rmu = "" /\ c2s = <<>> /\ s2c = <<>> /\ outEnded = "" /\ inClosed = FALSE
  /\ helloSent = FALSE /\ intact = {}
  /\ srv = "selfser" /\ serr = 0 /\ cliEnded = FALSE /\ outFail = FALSE
  /\ sbuf = <<>> /\ seen = <<>> /\ sent = <<>>

SNext == ServerNext \/ SEnvNext
SSpec == SInit /\ [][SNext]_vars
SFairSpec == SSpec /\ WF_vars(ServerNext) /\ WF_vars(CliEnd)

STypeOK == /\ srv \in {"selfser", "start", "hello", "loop", "fail", "failed"} /\ serr \in 0..1
           /\ \A i \in 1..Len(sent) : i < Len(sent) => sent[i].t \notin {"junk", "part"}
           /\ Len(seen) <= Len(sent)

(* a failed handshake is reported by exactly one ServerError; a hello is only ever sent after a start message *)
SrvOneError == (srv = "failed") <=> (serr = 1)
HelloAfterStart == s2c # <<>> => srv = "loop" /\ s2c = <<HelloItem(3, "ok")>>
(* the server only ever waits for the client: no terminal state inside the handshake once the input has ended *)
SrvTotal == (cliEnded /\ ~ENABLED ServerNext) => srv \in {"loop", "failed"}
SrvEventuallyDecides == <>(srv \in {"loop", "failed"})

(* Nothing the client wrote is swallowed between the handshake and the read loop: the first well-formed item is the
   start message, and the loop is given every well-formed item behind it, in order - whether it arrived in the
   same Read as the start message or later.  (TLC exhibits the loss on OneDecoder = FALSE.) *)
LoopGiven == IF sent = <<>> THEN <<>> ELSE WholeOnly(Tail(sent))
NothingSwallowed ==
  /\ IsPrefixOf(seen, LoopGiven)
  /\ (srv = "loop" /\ c2s = <<>> /\ sbuf = <<>>) => seen = LoopGiven
LoopSeesAll == <>[](srv = "loop" => seen = LoopGiven)
=============================================================================
