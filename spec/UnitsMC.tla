------------------------------ MODULE UnitsMC ------------------------------
(* Exhaustive enumeration of the units contract: every state is one vector   *)
(* (definition, operation, argument) with the expected outcome; ModelOK       *)
(* checks the round-trip and canonical-form properties on the model, Export   *)
(* hands the vector to the conformance harness.                               *)
EXTENDS Units, Export
CONSTANTS MaxN,      \* integers 0..MaxN are formatted
          MaxH,      \* half-unit quantities 0..MaxH are formatted as floats
          Counts,    \* counts used in parse token strings
          MaxToks    \* maximal number of tokens of a parse string
VARIABLE v

Range(s) == {s[i] : i \in DOMAIN s}
Edge(def) == UNION {{m - 1, m, m + 1, 2 * m - 1, 2 * m, 10 * m, 10 * m + 1} : m \in Range(def)}
Pow10 == {1, 10, 100, 1000, 10000, 100000, 1000000, 10000000, 100000000, 1000000000}
NSet(def) == (0..MaxN) \cup Edge(def) \cup Pow10 \cup {p + 1 : p \in Pow10} \cup {p - 1 : p \in Pow10}
HSet(def) == (0..MaxH) \cup {2 * n + 1 : n \in Edge(def)}

ParseToks(def) ==
    {Tok(c, u, FALSE) : c \in Counts, u \in 0..Base(def)}
    \cup {Tok(c, u, TRUE) : c \in {0, 1}, u \in {0, 1, Base(def)}}
    \cup {Tok(1, Base(def) + 1, FALSE)}          \* a unit name the definition does not declare
SeqsUpTo(S, k) == UNION {[1..m -> S] : m \in 1..k}

Init ==
    \/ \E d \in DefIds : \E n \in NSet(Defs[d]) : v = [op |-> "fmt", def |-> d, n |-> n, toks |-> <<>>]
    \/ \E d \in DefIds : \E h \in HSet(Defs[d]) : v = [op |-> "fmth", def |-> d, n |-> h, toks |-> <<>>]
    \/ \E d \in DefIds : \E t \in SeqsUpTo(ParseToks(Defs[d]), MaxToks) :
           v = [op |-> "parse", def |-> d, n |-> 0, toks |-> t]
Next == UNCHANGED v
Spec == Init /\ [][Next]_v

ModelOK ==
    LET def == Defs[v.def] IN
    CASE v.op = "fmt"   -> InverseInt(def, v.n) /\ Canonical(def, v.n)
      [] v.op = "fmth"  -> InverseHalf(def, v.n)
      [] v.op = "parse" -> Parse(def, v.toks).ok \in {"yes", "maybe", "no"}

Expected ==
    LET def == Defs[v.def] IN
    CASE v.op = "fmt"   -> [toks |-> FormatTokens(def, v.n), ok |-> "yes", h |-> 2 * v.n]
      [] v.op = "fmth"  -> [toks |-> FormatTokensHalf(def, v.n), ok |-> "yes", h |-> v.n]
      [] v.op = "parse" -> [toks |-> v.toks, ok |-> Parse(def, v.toks).ok, h |-> Parse(def, v.toks).h]

Export == Emit([op |-> v.op, def |-> v.def, mults |-> Defs[v.def], n |-> v.n, exp |-> Expected])
=============================================================================
