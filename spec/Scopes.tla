------------------------------- MODULE Scopes -------------------------------
(***************************************************************************)
(* C14 - references resolve lexically; inlining is behaviour-preserving    *)
(* (schema/ref.go, scope.go and the ApplyNamespace / ValidateReferences    *)
(* propagation in object.go, list.go, map.go, oneof.go, property.go).      *)
(*                                                                         *)
(* A schema tree is a record [kind, id, ns, tag, sub, props] (one family,  *)
(* same fields for every kind):                                            *)
(*   leaf                 a scalar (string) leaf                           *)
(*   list / map           sub = <<item>> / <<value>> (keys are strings)    *)
(*   oneof                sub = members (ref / obj / scope), member i has  *)
(*                        the discriminator value Keys[i], field "_t"      *)
(*   ref                  id = object ID, ns = namespace ("" = self),      *)
(*                        tag = unique label of this reference             *)
(*   obj                  id = object ID, tag = unique label (= the name   *)
(*                        of its marker property where it has one),        *)
(*                        props = <<[name, req, type, def, dis]>>; ns = "" *)
(*                        for map-based objects, else the struct layout    *)
(*   scope                id = root ID, tag = unique label, sub = objects  *)
(*                                                                         *)
(* The state machine: link[ref tag] \in {None} \cup object tags; actions   *)
(* ApplySelf(scope) (construction: inner scopes first, as NewScopeSchema   *)
(* does; later repeated at will) and ApplyNamespace(scope, ns, table).     *)
(* link' is computed OPERATIONALLY (Propagate, shaped like the code: every *)
(* scope substitutes its own table for the self namespace and passes an    *)
(* external table through); the properties are stated DECLARATIVELY over   *)
(* the lexical position of each reference (RefSites / Resolve).            *)
(***************************************************************************)
EXTENDS Integers, Sequences, FiniteSets, TLC

None == "None"
Range(s) == {s[i] : i \in DOMAIN s}

\* ------------------------------------------------------------------ schema trees
Mk(kind, id, ns, tag, sub, props) ==
    [kind |-> kind, id |-> id, ns |-> ns, tag |-> tag, sub |-> sub, props |-> props]
Leaf == Mk("leaf", "", "", "", <<>>, <<>>)
ListOf(t) == Mk("list", "", "", "", <<t>>, <<>>)
MapOf(t) == Mk("map", "", "", "", <<t>>, <<>>)
OneOf(ms) == Mk("oneof", "", "", "", ms, <<>>)
Ref(tag, ns, id) == Mk("ref", id, ns, tag, <<>>, <<>>)
Obj(id, tag, props) == Mk("obj", id, "", tag, <<>>, props)
Scope(tag, root, objs) == Mk("scope", root, "", tag, objs, <<>>)
\* def: the declared default of the property ("" = none; otherwise the text of a string default)
\* dis: "" = in use, "plain" = disabled without a reason, "reason" = disabled with a reason.  A disabled
\* property rejects every value on Unserialize; its type is linked and checked like any other.
Prop(name, req, type) == [name |-> name, req |-> req, type |-> type, def |-> "", dis |-> ""]
PropD(name, type, def) == [name |-> name, req |-> FALSE, type |-> type, def |-> def, dis |-> ""]
Disabled(p, how) == [p EXCEPT !.dis = how]
\* struct-mapped objects carry the name of their Go struct layout in the (otherwise unused) ns field
SObj(id, tag, layout, props) == Mk("obj", id, layout, tag, <<>>, props)
Marker(tag) == Prop(tag, FALSE, Leaf)
DiscField == "_t"
Keys == <<"k1", "k2", "k3", "k4">>

Kids(t) == IF t.kind = "obj" THEN [i \in DOMAIN t.props |-> t.props[i].type] ELSE t.sub

RECURSIVE ScopesIn(_)
ScopesIn(t) == (IF t.kind = "scope" THEN {t} ELSE {}) \cup UNION {ScopesIn(c) : c \in Range(Kids(t))}

RECURSIVE ObjsIn(_)
ObjsIn(t) == (IF t.kind = "obj" THEN {t} ELSE {}) \cup UNION {ObjsIn(c) : c \in Range(Kids(t))}

\* the object table of a scope: ID -> object tag
Table(s) == [id \in {o.id : o \in Range(s.sub)} |-> (CHOOSE o \in Range(s.sub) : o.id = id).tag]
ObjById(s, id) == CHOOSE o \in Range(s.sub) : o.id = id
RootOf(s) == ObjById(s, s.id)

\* lexical position of every reference: the chain of enclosing scopes, outermost first
Site(t, chain) == [tag |-> t.tag, ns |-> t.ns, id |-> t.id, chain |-> chain]
RECURSIVE RefSites(_, _)
RefSites(t, chain) ==
    IF t.kind = "ref" THEN {Site(t, chain)}
    ELSE LET c == IF t.kind = "scope" THEN Append(chain, t.tag) ELSE chain
         IN UNION {RefSites(k, c) : k \in Range(Kids(t))}

\* ------------------------------------------------------------------ the code's propagation
\* the assignments <<ref tag, object tag>> that t.ApplyNamespace(objs, ns) performs
RECURSIVE Propagate(_, _, _)
Propagate(t, objs, ns) ==
    CASE t.kind = "ref"   -> IF t.ns = ns THEN {<<t.tag, objs[t.id]>>} ELSE {}
      [] t.kind = "scope" -> (LET o == IF ns = "" THEN Table(t) ELSE objs
                              IN UNION {Propagate(k, o, ns) : k \in Range(t.sub)})
      [] OTHER            -> UNION {Propagate(k, objs, ns) : k \in Range(Kids(t))}

\* references for which the same call panics ("Referenced object not found"): documented, excluded
RECURSIVE Missing(_, _, _)
Missing(t, objs, ns) ==
    CASE t.kind = "ref"   -> IF t.ns = ns /\ t.id \notin DOMAIN objs THEN {t.tag} ELSE {}
      [] t.kind = "scope" -> (LET o == IF ns = "" THEN Table(t) ELSE objs
                              IN UNION {Missing(k, o, ns) : k \in Range(t.sub)})
      [] OTHER            -> UNION {Missing(k, objs, ns) : k \in Range(Kids(t))}

StepLink(lk, upd) ==
    [g \in DOMAIN lk |-> IF \E p \in upd : p[1] = g THEN (CHOOSE p \in upd : p[1] = g)[2] ELSE lk[g]]

\* ValidateReferences as the code walks it
RECURSIVE VR(_, _)
VR(t, lk) == IF t.kind = "ref" THEN lk[t.tag] # None ELSE \A k \in Range(Kids(t)) : VR(k, lk)

\* ------------------------------------------------------------------ state machine
VARIABLES tree,    \* the scope tree (constant along a behaviour)
          ext,     \* table name -> separately constructed scope whose Objects() serve as external table
          ix,      \* index derived from tree and ext once (constant along a behaviour)
          link,    \* ref tag -> object tag or None
          tab,     \* ref tag -> name of the table last applied over it for its namespace, or "none"
          cov,     \* ref tags over which their own namespace has been applied
          built,   \* scope tags already constructed
          hist     \* the applications so far
vars == <<tree, ext, ix, link, tab, cov, built, hist>>

Act(op, scope, ns, table) == [op |-> op, scope |-> scope, ns |-> ns, table |-> table]

\* everything that depends on the tree only is computed once: the scopes by tag, the lexical
\* position of every reference, and for every possible call what the propagation assigns
BuildIx(tr, ex, nss) ==
    LET tsc == ScopesIn(tr)
        scs == tsc \cup UNION {ScopesIn(ex[n]) : n \in DOMAIN ex}
        obs == ObjsIn(tr) \cup UNION {ObjsIn(ex[n]) : n \in DOMAIN ex}
        sites == RefSites(tr, <<>>)
        es == UNION {RefSites(ex[n], <<>>) : n \in DOMAIN ex}
        sc == [g \in {s.tag : s \in scs} |-> CHOOSE s \in scs : s.tag = g]
        \* external scopes that themselves wait for a namespace (S -> e:B -> third:C) can be given it at any
        \* time, before or after the tree is given theirs - also their own table (a cycle across namespaces)
        esc == {s \in scs \ tsc : \E x \in RefSites(s, <<>>) : x.ns # ""}
        nsx == (nss \cup {x.ns : x \in es}) \ {""}
        acts == {Act("self", s.tag, "", "") : s \in tsc}
                \cup {Act("ns", s.tag, n, T) : s \in tsc \cup esc, n \in nsx, T \in DOMAIN ex}
        asc == {s.tag : s \in tsc \cup esc}
        objsOf(a) == IF a.op = "self" THEN <<>> ELSE Table(ex[a.table])
        near(x) == LET tb == Table(sc[x.chain[Len(x.chain)]]) IN IF x.id \in DOMAIN tb THEN tb[x.id] ELSE "?"
    IN [scopes |-> sc,
        tscopes |-> {s.tag : s \in tsc},
        escopes |-> {s.tag : s \in esc},
        sites |-> sites,
        esites |-> es,
        near |-> [g \in {x.tag : x \in sites \cup es} |-> near(CHOOSE x \in sites \cup es : x.tag = g)],
        acts |-> acts,
        miss |-> [a \in acts |-> Missing(sc[a.scope], objsOf(a), a.ns) # {}],
        upd |-> [a \in acts |-> IF Missing(sc[a.scope], objsOf(a), a.ns) # {} THEN {}
                                ELSE Propagate(sc[a.scope], objsOf(a), a.ns)],
        touched |-> [a \in acts |-> {x.tag : x \in {y \in RefSites(sc[a.scope], <<>>) : y.ns = a.ns}}],
        inner |-> [g \in asc |-> {i.tag : i \in ScopesIn(sc[g]) \ {sc[g]}}],
        under |-> [g \in asc |-> {x.tag : x \in RefSites(sc[g], <<>>)}],
        objs |-> [g \in {o.tag : o \in obs} |-> CHOOSE o \in obs : o.tag = g]]

TreeSites == ix.sites
ExtSites == ix.esites
TreeScopes == {ix.scopes[g] : g \in ix.tscopes}
AllObjs == Range(ix.objs)
ScopeByTag(g) == ix.scopes[g]
\* the references that wait for a namespace: those of the tree and those of external scopes
NsSites == {s \in TreeSites \cup ExtSites : s.ns # ""}
Namespaces == {s.ns : s \in NsSites}
\* initial links: nothing is linked but the own-namespace references of the (already constructed) external scopes
InitLink(ixv) == [g \in DOMAIN ixv.near |->
                    IF \E s \in ixv.esites : s.tag = g /\ s.ns = "" THEN ixv.near[g] ELSE None]
InitTab(ixv) == [g \in {s.tag : s \in ixv.sites \cup ixv.esites} |-> "none"]
\* the object with that ID in the NEAREST enclosing scope
Nearest(site) == ix.near[site.tag]

InitState(tr, ex, nss) ==
    /\ tree = tr
    /\ ext = ex
    /\ ix = BuildIx(tr, ex, nss)
    /\ link = InitLink(ix)
    /\ tab = InitTab(ix)
    /\ cov = {}
    /\ built = {}
    /\ hist = <<>>

\* a call the documentation allows (no missing ID, the receiver exists, inner scopes are
\* constructed before the scope that contains them)
CanDo(a, blt) ==
    /\ a \in ix.acts
    /\ IF a.op = "self" THEN ix.inner[a.scope] \subseteq blt ELSE a.scope \in blt \cup ix.escopes
    /\ ~ix.miss[a]

LinkAfter(lk, a) == StepLink(lk, ix.upd[a])
Touched(a) == ix.touched[a]

Do(a) ==
    /\ CanDo(a, built)
    /\ link' = LinkAfter(link, a)
    /\ built' = IF a.op = "self" THEN built \cup {a.scope} ELSE built
    /\ cov' = cov \cup Touched(a)
    /\ tab' = [g \in DOMAIN tab |-> IF a.op = "ns" /\ g \in Touched(a) THEN a.table ELSE tab[g]]
    /\ hist' = Append(hist, a)
    /\ UNCHANGED <<tree, ext, ix>>

ApplySelf(g) == Do(Act("self", g, "", ""))
ApplyNamespace(g, ns, T) == ns # "" /\ Do(Act("ns", g, ns, T))
Acts == ix.acts

\* ------------------------------------------------------------------ the properties
\* what a reference denotes: nearest enclosing scope (self), the table applied for its namespace
Resolve(site) ==
    IF site.ns = "" THEN Nearest(site)
    ELSE IF tab[site.tag] = "none" THEN None
    ELSE Table(ext[tab[site.tag]])[site.id]

Lexical ==
    \A s \in TreeSites \cup NsSites :
        /\ link[s.tag] \in {None, Resolve(s)}
        /\ s.tag \in cov => (link[s.tag] = Resolve(s) /\ link[s.tag] # None)

ExtStable == \A s \in {x \in ExtSites : x.ns = ""} : link[s.tag] = Nearest(s)

\* A tree rebuilt from its own description (SelfSerialize -> UnserializeScope) has had no scope constructed
\* separately: all it gets is ONE ApplySelf on the root, which must reach every nested scope.  Its self
\* references are then linked exactly like those of the tree constructed scope by scope.
RebuiltLink ==
    StepLink([g \in DOMAIN link |-> IF \E s \in ix.esites : s.tag = g THEN link[g] ELSE None],
             ix.upd[Act("self", tree.tag, "", "")])
RebuiltSame ==
    built = ix.tscopes =>
        \A s \in TreeSites : IF s.ns = "" THEN RebuiltLink[s.tag] = link[s.tag] /\ link[s.tag] = Nearest(s)
                              ELSE RebuiltLink[s.tag] = None

\* an application changes only references of its namespace below the scope it was applied to
OtherNamespacesUntouched ==
    [][LET a == hist'[Len(hist')] IN
       \A s \in TreeSites \cup ExtSites :
           (s.ns # a.ns \/ a.scope \notin Range(s.chain)) => link'[s.tag] = link[s.tag]]_vars

AllLinkedUnder(g, lk) == \A x \in ix.under[g] : lk[x] # None
\* per scope (the scopes of the tree and the external scopes that wait for a namespace) - and a scope's verdict
\* speaks about the references OF THAT SCOPE only: whether the object a linked reference points to (in another
\* scope) has unlinked references of its own does not matter
ValidateRefsIffAllLinked ==
    \A g \in ix.tscopes \cup ix.escopes : VR(ix.scopes[g], link) = AllLinkedUnder(g, link)

Commute(a, b) == a.ns # b.ns \/ a.op = "self" \/ a.table = b.table
OrderIndependent ==
    LET en == {x \in Acts : CanDo(x, built)}
        after == [a \in en |-> LinkAfter(link, a)]
    IN \A a \in en :
          /\ LinkAfter(after[a], a) = after[a]
          /\ \A b \in en : Commute(a, b) => LinkAfter(after[a], b) = LinkAfter(after[b], a)

\* well-formed (what the judged part of the check generates): unique tags, distinct IDs per
\* scope, roots present, self references name an ID of their nearest scope
WellFormed(tr, ex) ==
    LET scs == ScopesIn(tr) \cup UNION {ScopesIn(ex[n]) : n \in DOMAIN ex}
        obs == ObjsIn(tr) \cup UNION {ObjsIn(ex[n]) : n \in DOMAIN ex}
        sts == RefSites(tr, <<>>) \cup UNION {RefSites(ex[n], <<>>) : n \in DOMAIN ex}
    IN /\ tr.kind = "scope"
       /\ \A n \in DOMAIN ex : ex[n].kind = "scope"
       /\ \A s1, s2 \in scs : s1.tag = s2.tag => s1 = s2
       /\ \A o1, o2 \in obs : o1.tag = o2.tag => o1 = o2
       /\ \A x1, x2 \in sts : x1.tag = x2.tag => x1 = x2
       /\ \A s \in scs : /\ \A i, j \in DOMAIN s.sub : s.sub[i].id = s.sub[j].id => i = j
                         /\ \A i \in DOMAIN s.sub : s.sub[i].kind = "obj"
                         /\ s.id \in {o.id : o \in Range(s.sub)}
       /\ \A o \in obs : o.tag # "" /\ \A i, j \in DOMAIN o.props : o.props[i].name = o.props[j].name => i = j
       /\ \A x \in sts : Len(x.chain) > 0
       /\ \A x \in sts : x.ns = "" =>
              x.id \in DOMAIN Table(CHOOSE s \in scs : s.tag = x.chain[Len(x.chain)])


\* ------------------------------------------------------------------ raw values and Unserialize
RStr(s) == [k |-> "str", s |-> s, items |-> <<>>]
RBool == [k |-> "bool", s |-> "true", items |-> <<>>]
RMap(items) == [k |-> "map", s |-> "", items |-> items]
RList(items) == [k |-> "list", s |-> "", items |-> items]
Absent == [k |-> "absent", s |-> "", items |-> <<>>]
Item(key, val) == [key |-> key, val |-> val]
Out(ok, v) == [ok |-> ok, v |-> v]
Rej == Out(FALSE, RBool)

\* how a reference is followed: through the link state (as the code does) or lexically
RLink(lk, objs) == [mode |-> "link", lk |-> lk, objs |-> objs, ext |-> <<>>, nstab |-> <<>>]
RLex(ex, nstab) == [mode |-> "lex", lk |-> <<>>, objs |-> <<>>, ext |-> ex, nstab |-> nstab]
Target(t, env, R) ==
    IF R.mode = "link" THEN [o |-> R.objs[R.lk[t.tag]], env |-> env]
    ELSE LET e == IF t.ns = "" THEN env ELSE R.ext[R.nstab[t.ns]]
         IN [o |-> ObjById(e, t.id), env |-> e]

ItemsOf(all) == LET sel == SelectSeq(all, LAMBDA x : x.here)
                IN [j \in DOMAIN sel |-> Item(sel[j].key, sel[j].val)]
ObjRaw(t, f) == RMap(ItemsOf([i \in DOMAIN t.props |->
                     [key |-> t.props[i].name, val |-> f[i], here |-> f[i].k # "absent"]]))

\* seen: object tags on the current chain of single-property shorthands (a chain that comes
\* back to an object with the same input has no finite derivation: rejected)
RECURSIVE Unser(_, _, _, _, _)
Unser(t, raw, env, R, seen) ==
    CASE t.kind = "leaf"  -> IF raw.k = "str" THEN Out(TRUE, raw) ELSE Rej
      [] t.kind = "ref"   -> (LET g == Target(t, env, R) IN Unser(g.o, raw, g.env, R, seen))
      [] t.kind = "scope" -> Unser(RootOf(t), raw, t, R, seen)
      [] t.kind \in {"list", "map"} ->
           (IF raw.k # t.kind THEN Rej
            ELSE LET rs == [i \in DOMAIN raw.items |-> Unser(t.sub[1], raw.items[i].val, env, R, {})]
                 IN IF \A i \in DOMAIN rs : rs[i].ok
                    THEN Out(TRUE, [raw EXCEPT !.items = [i \in DOMAIN rs |-> Item(raw.items[i].key, rs[i].v)]])
                    ELSE Rej)
      [] t.kind = "oneof" ->
           (IF raw.k # "map" THEN Rej
            ELSE LET dix == {i \in DOMAIN raw.items : raw.items[i].key = DiscField} IN
                 IF dix = {} THEN Rej
                 ELSE LET d == raw.items[CHOOSE i \in dix : TRUE].val
                          mix == {i \in DOMAIN t.sub : d.k = "str" /\ d.s = Keys[i]} IN
                      IF mix = {} THEN Rej
                      ELSE LET m == t.sub[CHOOSE i \in mix : TRUE]
                               rest == SelectSeq(raw.items, LAMBDA it : it.key # DiscField)
                               r == Unser(m, RMap(rest), env, R, {})
                           IN IF r.ok THEN Out(TRUE, RMap(Append(r.v.items, Item(DiscField, d)))) ELSE Rej)
      [] t.kind = "obj" ->
           (IF raw.k # "map"
            THEN IF Len(t.props) = 1 /\ t.tag \notin seen /\ t.props[1].dis = ""
                 THEN LET r == Unser(t.props[1].type, raw, env, R, seen \cup {t.tag})
                      IN IF r.ok THEN Out(TRUE, RMap(<<Item(t.props[1].name, r.v)>>)) ELSE Rej
                 ELSE Rej
            ELSE LET names == {t.props[i].name : i \in DOMAIN t.props}
                     has == [i \in DOMAIN t.props |-> \E j \in DOMAIN raw.items : raw.items[j].key = t.props[i].name]
                     rs == [i \in DOMAIN t.props |->
                              IF has[i]
                              THEN Unser(t.props[i].type,
                                         raw.items[CHOOSE j \in DOMAIN raw.items : raw.items[j].key = t.props[i].name].val,
                                         env, R, {})
                              ELSE Rej]
                 IN IF \E j \in DOMAIN raw.items : raw.items[j].key \notin names THEN Rej
                    ELSE IF \E i \in DOMAIN t.props : has[i] /\ t.props[i].dis # "" THEN Rej
                    ELSE IF \E i \in DOMAIN t.props : (has[i] /\ ~rs[i].ok) \/ (~has[i] /\ t.props[i].req) THEN Rej
                    ELSE Out(TRUE, RMap(ItemsOf([i \in DOMAIN t.props |->
                                 [key |-> t.props[i].name, val |-> rs[i].v, here |-> has[i]]]))))

\* ------------------------------------------------------------------ a small input universe per tree
\* inputs built to be accepted, nested to depth d
RECURSIVE Good(_, _, _, _)
Good(t, d, env, R) ==
    CASE t.kind = "leaf"  -> {RStr("x")}
      [] t.kind = "ref"   -> (LET g == Target(t, env, R) IN Good(g.o, d, g.env, R))
      [] t.kind = "scope" -> Good(RootOf(t), d, t, R)
      [] t.kind = "list"  -> {RList(<<>>)} \cup
           (IF d = 0 THEN {} ELSE {RList(<<Item("", g)>>) : g \in Good(t.sub[1], d - 1, env, R)})
      [] t.kind = "map"   -> {RMap(<<>>)} \cup
           (IF d = 0 THEN {} ELSE {RMap(<<Item("ka", g)>>) : g \in Good(t.sub[1], d - 1, env, R)})
      [] t.kind = "oneof" ->
           UNION {{RMap(Append(g.items, Item(DiscField, RStr(Keys[i])))) :
                      g \in {x \in Good(t.sub[i], d, env, R) : x.k = "map"}} : i \in DOMAIN t.sub}
      [] t.kind = "obj"   ->
           (LET n == Len(t.props)
                req == {i \in 1..n : t.props[i].req}
                G == [i \in 1..n |-> IF d = 0 \/ t.props[i].dis # "" THEN {}
                                      ELSE Good(t.props[i].type, d - 1, env, R)]
            IN IF \E i \in req : G[i] = {} THEN {}
               ELSE LET base == [i \in 1..n |-> IF i \in req THEN CHOOSE g \in G[i] : TRUE ELSE Absent]
                    IN {ObjRaw(t, base)} \cup UNION {{ObjRaw(t, [base EXCEPT ![i] = g]) : g \in G[i]} : i \in 1..n})

\* probes: one deviation somewhere (wrong shape, unknown key, the marker of a namesake
\* object, unknown or ill-typed discriminator, a required property left out)
RECURSIVE Probe(_, _, _, _)
Probe(t, d, env, R) ==
    CASE t.kind = "leaf"  -> {RBool, RMap(<<>>), RList(<<>>)}
      [] t.kind = "ref"   -> (LET g == Target(t, env, R) IN Probe(g.o, d, g.env, R))
      [] t.kind = "scope" -> Probe(RootOf(t), d, t, R)
      [] t.kind = "list"  -> {RStr("x"), RMap(<<>>)} \cup
           (IF d = 0 THEN {} ELSE {RList(<<Item("", b)>>) : b \in Probe(t.sub[1], d - 1, env, R)})
      [] t.kind = "map"   -> {RStr("x"), RList(<<>>)} \cup
           (IF d = 0 THEN {} ELSE {RMap(<<Item("ka", b)>>) : b \in Probe(t.sub[1], d - 1, env, R)})
      [] t.kind = "oneof" ->
           {RStr("x"), RMap(<<>>), RMap(<<Item(DiscField, RStr("zz"))>>), RMap(<<Item(DiscField, RBool)>>)}
           \cup UNION {{RMap(Append(b.items, Item(DiscField, RStr(Keys[i])))) :
                           b \in {x \in Probe(t.sub[i], d, env, R) : x.k = "map"}} : i \in DOMAIN t.sub}
      [] t.kind = "obj"   ->
           (LET n == Len(t.props)
                req == {i \in 1..n : t.props[i].req}
                names == {t.props[i].name : i \in 1..n}
                G == [i \in 1..n |-> IF d = 0 \/ i \notin req THEN {} ELSE Good(t.props[i].type, d - 1, env, R)]
                P == [i \in 1..n |-> IF d = 0 THEN {}
                                      ELSE Probe(t.props[i].type, d - 1, env, R)
                                           \cup (IF t.props[i].dis # ""   \* a disabled property set to a fitting value
                                                 THEN Good(t.props[i].type, d - 1, env, R) ELSE {})]
                base == [i \in 1..n |-> IF i \in req /\ G[i] # {} THEN CHOOSE g \in G[i] : TRUE ELSE Absent]
                twins == {o.tag : o \in {x \in AllObjs : x.id = t.id}}
            IN {RStr("x"), RBool, RList(<<>>)}
               \cup {RMap(Append(ObjRaw(t, base).items, Item(m, RStr("x")))) : m \in (twins \cup {"zz"}) \ names}
               \cup UNION {{ObjRaw(t, [base EXCEPT ![i] = b]) : b \in P[i]} : i \in 1..n}
               \cup {ObjRaw(t, [base EXCEPT ![i] = Absent]) : i \in req})

\* ------------------------------------------------------------------ inlining
\* references replaced by (copies of) the objects they denote, k levels deep; below that the
\* reference is kept in the only form that preserves its lexical meaning wherever the copy
\* ends up: the scope it resolves in, re-rooted at the object it names
RECURSIVE Inline(_, _, _, _)
Inline(t, env, k, X) ==
    CASE t.kind = "leaf"  -> t
      [] t.kind = "ref"   ->
           (LET e == IF t.ns = "" THEN env ELSE X.ext[X.nstab[t.ns]]
            IN IF k = 0 THEN [e EXCEPT !.id = t.id]
               ELSE Inline(ObjById(e, t.id), e, k - 1, X))
      [] t.kind = "obj"   ->
           [t EXCEPT !.props = [i \in DOMAIN t.props |->
                                   [t.props[i] EXCEPT !.type = Inline(t.props[i].type, env, k, X)]]]
      [] t.kind = "scope" -> [t EXCEPT !.sub = [i \in DOMAIN t.sub |-> Inline(t.sub[i], t, k, X)]]
      [] OTHER            -> [t EXCEPT !.sub = [i \in DOMAIN t.sub |-> Inline(t.sub[i], env, k, X)]]

\* every namespace has one table applied over all its references, everything is linked
Uniform ==
    /\ built = ix.tscopes
    /\ \A s \in TreeSites \cup NsSites : link[s.tag] # None
    /\ \A n \in Namespaces : Cardinality({tab[s.tag] : s \in {x \in NsSites : x.ns = n}}) = 1
NsTab == [n \in Namespaces |-> tab[(CHOOSE s \in NsSites : s.ns = n).tag]]
ObjFn == ix.objs

\* the input universe and Unser below speak about map-based objects without defaults only
MapBased == \A o \in ObjsIn(tree) : o.ns = "" /\ \A i \in DOMAIN o.props : o.props[i].def = ""

Raws(d) == LET R == RLink(link, ObjFn) IN Good(tree, d, tree, R) \cup Probe(tree, d, tree, R)

\* the single-property shorthand is only another spelling: a non-map value handed to a single-property
\* object fares exactly like the map holding it under that property (recursion through a list or map
\* consumes input, so a tree node may be written as the bare list of its children at every depth)
ShorthandLaw ==
    LET RL == RLink(link, ObjFn)
        bare == {RStr("x"), RBool, RList(<<>>), RList(<<Item("", RList(<<>>))>>),
                 RList(<<Item("", RList(<<Item("", RList(<<>>))>>)), Item("", RList(<<>>))>>)}
    IN \A o \in {x \in AllObjs : Len(x.props) = 1} : \A v \in bare :
          Unser(o, v, tree, RL, {}) = Unser(o, RMap(<<Item(o.props[1].name, v)>>), tree, RL, {})

\* following the links = resolving lexically = using the inlined tree
InlineSameAt(k, d) ==
    LET X == RLex(ext, NsTab)
        inl == Inline(tree, tree, k, X)
        RL == RLink(link, ObjFn)
    IN \A raw \in Raws(d) :
          LET a == Unser(tree, raw, tree, RL, {}) IN
          /\ a = Unser(tree, raw, tree, X, {})
          /\ a = Unser(inl, raw, inl, X, {})
=============================================================================
