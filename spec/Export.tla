------------------------------- MODULE Export -------------------------------
(* Vector export: one JSON line per call, appended to the file named by the   *)
(* environment variable VERIF_OUT.  Evaluated from an invariant, so that each *)
(* distinct state is written exactly once (TLC checks invariants on distinct  *)
(* states only).  Safe with several workers (measured).                      *)
EXTENDS TLC, Json, CSV, IOUtils
Emit(rec) == CSVWrite("%1$s", <<ToJson(rec)>>, IOEnv.VERIF_OUT)
=============================================================================
