-------------------------- MODULE FuncsTrace --------------------------
(* Code -> specification for C18.  A seeded random driver goes beyond the     *)
(* matrix of FuncsMC (nested list/map/enum/object schemas, up to six      *)
(* parameters, up to four results, more foreign types, random calls), runs    *)
(* the real constructors and Call, and logs one line per constructor verdict  *)
(* ("new") and per call ("call").  Every line carries the type ids and the    *)
(* attribute table of the types that occur in it (facts computed with package *)
(* reflect); the operators of Funcs.tla decide whether the logged outcome *)
(* is one the contract allows.                                                *)
(*                                                                            *)
(*   new   res = "accepted" | "rejected" | "panic"                            *)
(*   call  call = [args, bad, beh], obs = [kind, isnil, toks, reported]       *)
(*                                                                            *)
(* Accepted is the invariant of the normal run (funcs_trace.cfg).  After  *)
(* a rejection the orchestrator runs funcs_trace_collect.cfg, whose       *)
(* invariant Collect never fails but writes the number of every rejected line *)
(* to VERIF_OUT, so that one more run lists all of them.                      *)
EXTENDS Funcs, Export
Trace == ndJsonDeserialize(IOEnv.VERIF_TRACE)
VARIABLE l
Init == l = 1
Next == l <= Len(Trace) /\ l' = l + 1
Spec == Init /\ [][Next]_l

AttrOf(e) ==
    [t \in {e.types[i].id : i \in DOMAIN e.types} |->
        e.types[CHOOSE i \in DOMAIN e.types : e.types[i].id = t]]
SigOf(e)  == [params |-> e.params, results |-> e.results]
DeclOf(e) == [dyn |-> e.dyn, inputs |-> e.inputs, out |-> e.out, err |-> e.err]

NewOK(e) ==
    LET a == Accepts(AttrOf(e), SigOf(e), DeclOf(e)) IN
    CASE e.res = "accepted" -> a # "no"
      [] e.res = "rejected" -> a # "yes"
      [] OTHER -> FALSE          \* a constructor that panics on a plain func handler

\* calls on a function the contract does not allow to exist are not judged (its "new" line
\* is the rejected one)
CallOK(e) ==
    LET A == AttrOf(e)
        a == Accepts(A, SigOf(e), DeclOf(e))
    IN a = "no" \/ Meets(CallOutcome(A, SigOf(e), DeclOf(e), e.call), e.obs)

LineOK(e) ==
    CASE e.ev = "new"  -> NewOK(e)
      [] e.ev = "call" -> CallOK(e)
      [] OTHER -> FALSE

\* the rule-by-rule reading and the declarative reading agree beyond the matrix, too
RulesAgree ==
    l > 1 => LET e == Trace[l - 1] IN
             CheckHandler(AttrOf(e), SigOf(e), DeclOf(e)).verdict = Accepts(AttrOf(e), SigOf(e), DeclOf(e))

Accepted == l > 1 => LineOK(Trace[l - 1])
\* what the specification expected at a rejected line, for the orchestrator's signature
Expectation(e) ==
    LET A == AttrOf(e)
        c == CheckHandler(A, SigOf(e), DeclOf(e))
        o == IF e.ev = "call" THEN CallOutcome(A, SigOf(e), DeclOf(e), e.call) ELSE FnOutcome("none", 0, FALSE)
    IN [verdict |-> c.verdict, rule |-> c.rule, kind |-> o.kind, tok |-> o.tok, reported |-> o.reported]
Collect  == l > 1 => (LineOK(Trace[l - 1]) \/ Emit([line |-> l - 1, exp |-> Expectation(Trace[l - 1])]))
=============================================================================
