------------------------------ MODULE Codegen ------------------------------
(***************************************************************************)
(* C19 - contract of cmd/arcaflow-codegen as a function on abstract schema *)
(* documents (transcribed from the property statement and the README, not  *)
(* from gen.go).                                                           *)
(*                                                                         *)
(* A DOCUMENT is the sequence of the objects of steps.create.input.objects *)
(* in the order they are written in the YAML text (the order is NOT part   *)
(* of the contract: Gen returns a set).  TLC has no string operations, so  *)
(* every name carries its attributes with it:                              *)
(*     name   the identifier as written in the document                    *)
(*     title  the title-cased identifier (first letter upper-cased)        *)
(*     key    the identifier lower-cased (identity of a struct / field     *)
(*            whatever capitalisation convention the generator uses)       *)
(* The attributes are computed by the harness with the standard library    *)
(* (never by generator code) and, for the names of the enumerated          *)
(* universe, tabulated in CodegenMC!NameTable and checked at harness start.*)
(*                                                                         *)
(*   object   [name, title, key, props : Seq(property)]                    *)
(*   property [name, title, key, tid, ref, reftitle]   ref # "" iff "ref"  *)
(*   args     [form : "no_ignore" | "with_ignore", ign : name]             *)
(*                                                                         *)
(* An OBSERVED OUTPUT is what go/parser extracts from typedef_output.go:   *)
(* the sequence (file order) of struct declarations                        *)
(*   [name, key, fields : Seq([name, key, tag, type])]                     *)
(* with tag = the name part of the json struct tag and type = the field's  *)
(* type expression as text.                                                *)
(***************************************************************************)
EXTENDS Integers, Sequences, FiniteSets, TLC

\* every type ID of schema/types.go (the harness checks this list against the source)
TypeIDs == {"enum_string", "enum_integer", "string", "pattern", "integer", "float", "bool",
            "list", "map", "scope", "object", "one_of_string", "one_of_int", "ref", "any"}

\* Go keywords: not identifiers (names in the premise exclude them), and not usable as a
\* type expression (see TypeFree)
GoKeywords == {"break", "default", "func", "interface", "select", "case", "defer", "go", "map",
               "struct", "chan", "else", "goto", "package", "switch", "const", "fallthrough",
               "if", "range", "type", "continue", "for", "import", "return", "var"}

Range(s) == {s[i] : i \in DOMAIN s}

\* ------------------------------------------------------------------ premise
Distinct(s, f(_)) == \A i, j \in DOMAIN s : f(s[i]) = f(s[j]) => i = j
KeyOf(x) == x.key
NameOf(x) == x.name

WFProp(p) ==
    /\ p.name \notin GoKeywords /\ p.name # ""
    /\ p.tid \in TypeIDs
    /\ (p.tid = "ref") <=> (p.ref # "")
    /\ p.ref \notin GoKeywords

\* "object and property names are valid identifiers"; additionally distinct structs / fields
\* stay distinct after title-casing (key is injective) - otherwise "exactly one struct per
\* object" would not be decidable from the output
WF(doc) ==
    /\ Distinct(doc, KeyOf) /\ Distinct(doc, NameOf)
    /\ \A i \in DOMAIN doc :
          /\ doc[i].name \notin GoKeywords /\ doc[i].name # ""
          /\ Distinct(doc[i].props, KeyOf) /\ Distinct(doc[i].props, NameOf)
          /\ \A k \in DOMAIN doc[i].props : WFProp(doc[i].props[k])

\* ------------------------------------------------------------------ the contract
\* README: "you can specify objects to ignore" - the second argument names one object
Ignored(o, args) == args.form = "with_ignore" /\ o.name = args.ign

\* statement: "typed int64/float64 for integer/float, the referenced object's name for
\* references and the type ID otherwise".  "The referenced object's name" is satisfied by the
\* name as written and by the name of the struct generated for it (title-cased).
GoTypes(p) ==
    CASE p.tid = "integer" -> {"int64"}
      [] p.tid = "float"   -> {"float64"}
      [] p.tid = "ref"     -> {p.ref, p.reftitle}
      [] OTHER             -> {p.tid}

\* A type ID that is a Go keyword ("map") cannot be both "the type ID" and part of
\* "gofmt-valid Go": the statement's two demands contradict each other, so the field's type is
\* left open there (three-valued expectation: "maybe").  Not panicking is demanded regardless.
TypeFree(p) == GoTypes(p) \subseteq GoKeywords
Satisfiable(doc, args) ==
    \A i \in DOMAIN doc : Ignored(doc[i], args) \/ \A k \in DOMAIN doc[i].props : ~TypeFree(doc[i].props[k])

FieldOf(p) == [name |-> p.title, key |-> p.key, tag |-> p.name, types |-> GoTypes(p), free |-> TypeFree(p)]
StructOf(o) == [name |-> o.title, key |-> o.key, fields |-> {FieldOf(p) : p \in Range(o.props)}]

\* Gen: one struct per non-ignored object, one JSON-tagged field per property
Gen(doc, args) == {StructOf(o) : o \in {x \in Range(doc) : ~Ignored(x, args)}}

\* document shape class (part of a violation signature): "multi" = some map of the document
\* has at least two entries, so that an iteration order exists
Shape(doc) ==
    IF Len(doc) = 0 THEN "empty"
    ELSE IF Len(doc) = 1 /\ Len(doc[1].props) <= 1 THEN "single"
    ELSE "multi"

\* ------------------------------------------------------------------ the statement, declaratively
\* (over an observed output; TLC checks on the model that the operational Gen / Emitted
\* and this reading agree)
FieldsMeet(o, s) ==
    /\ \A k \in DOMAIN o.props :
          LET p == o.props[k]
              hits == {m \in DOMAIN s.fields : s.fields[m].key = p.key}
          IN /\ Cardinality(hits) = 1
             /\ \A m \in hits : /\ s.fields[m].tag = p.name
                                /\ (TypeFree(p) \/ s.fields[m].type \in GoTypes(p))
    /\ \A m \in DOMAIN s.fields : \E k \in DOMAIN o.props : o.props[k].key = s.fields[m].key

Meets(doc, args, out) ==
    /\ \A i \in DOMAIN doc :
          LET hits == {j \in DOMAIN out : out[j].key = doc[i].key}
          IN IF Ignored(doc[i], args) THEN hits = {}
             ELSE Cardinality(hits) = 1 /\ \A j \in hits : FieldsMeet(doc[i], out[j])
    /\ \A j \in DOMAIN out : \E i \in DOMAIN doc : doc[i].key = out[j].key

\* ------------------------------------------------------------------ diagnosis (violation class)
\* first failing clause of Meets, as the class field of the violation signature
FieldVerdict(o, s) ==
    LET P == DOMAIN o.props
        F == DOMAIN s.fields
        Hits(k) == {m \in F : s.fields[m].key = o.props[k].key}
    IN IF \E k \in P : Hits(k) = {} THEN "missing_field"
       ELSE IF \E m \in F : \A k \in P : o.props[k].key # s.fields[m].key THEN "extra_field"
       ELSE IF \E k \in P : Cardinality(Hits(k)) > 1 THEN "duplicate_field"
       ELSE IF \E k \in P : \E m \in Hits(k) : s.fields[m].tag # o.props[k].name THEN "wrong_tag"
       ELSE IF \E k \in P : \E m \in Hits(k) :
                   ~TypeFree(o.props[k]) /\ s.fields[m].type \notin GoTypes(o.props[k]) THEN "wrong_field_type"
       ELSE "ok"

Verdict(doc, args, out) ==
    LET D == DOMAIN doc
        O == DOMAIN out
        Hits(i) == {j \in O : out[j].key = doc[i].key}
        Live == {i \in D : ~Ignored(doc[i], args)}
        bad == {i \in Live : Cardinality(Hits(i)) = 1 /\ \E j \in Hits(i) : FieldVerdict(doc[i], out[j]) # "ok"}
    IN IF \E i \in Live : Hits(i) = {} THEN "missing_struct"
       ELSE IF \E i \in D \ Live : Hits(i) # {} THEN "ignored_struct_emitted"
       ELSE IF \E j \in O : \A i \in D : doc[i].key # out[j].key THEN "extra_struct"
       ELSE IF \E i \in Live : Cardinality(Hits(i)) > 1 THEN "duplicate_struct"
       ELSE IF bad # {} THEN LET i == CHOOSE x \in bad : \A y \in bad : x <= y
                                 j == CHOOSE x \in Hits(i) : TRUE
                             IN FieldVerdict(doc[i], out[j])
       ELSE "ok"

\* detail of a wrong_field_type verdict: the type ID of the (first) offending property
WrongTypeOf(doc, args, out) ==
    LET Off(i) == {k \in DOMAIN doc[i].props :
                    /\ ~Ignored(doc[i], args) /\ ~TypeFree(doc[i].props[k])
                    /\ \E j \in DOMAIN out : out[j].key = doc[i].key /\
                          \E m \in DOMAIN out[j].fields :
                              /\ out[j].fields[m].key = doc[i].props[k].key
                              /\ out[j].fields[m].type \notin GoTypes(doc[i].props[k])}
        cand == UNION {{<<i, k>> : k \in Off(i)} : i \in DOMAIN doc}
    IN IF cand = {} THEN "" ELSE LET c == CHOOSE x \in cand : TRUE IN doc[c[1]].props[c[2]].tid

\* the statement does not fix the spelling of struct / field names; a matched struct or field
\* whose name is not the title-cased identifier is reported as drift, not as a violation
NameDrift(doc, out) ==
    \E i \in DOMAIN doc : \E j \in DOMAIN out :
        /\ out[j].key = doc[i].key
        /\ \/ out[j].name # doc[i].title
           \/ \E k \in DOMAIN doc[i].props : \E m \in DOMAIN out[j].fields :
                  out[j].fields[m].key = doc[i].props[k].key /\ out[j].fields[m].name # doc[i].props[k].title

\* ------------------------------------------------------------------ a generator meeting the contract
\* Emitted: the output of a generator that visits the non-ignored objects in the order perm
\* (a sequence of indices into doc), the properties forwards or backwards, and spells
\* references raw or title-cased.  Any such choice is permitted - once.
TypeText(p, titled) ==
    CASE p.tid = "integer" -> "int64"
      [] p.tid = "float"   -> "float64"
      [] p.tid = "ref"     -> IF titled THEN p.reftitle ELSE p.ref
      [] OTHER             -> p.tid

Emitted(doc, perm, rev, titled) ==
    [j \in 1..Len(perm) |->
        LET o == doc[perm[j]]
            n == Len(o.props)
        IN [name |-> o.title, key |-> o.key,
            fields |-> [m \in 1..n |->
                LET p == o.props[IF rev THEN n + 1 - m ELSE m]
                IN [name |-> p.title, key |-> p.key, tag |-> p.name, type |-> TypeText(p, titled)]]]]

Abs(out) == {[name |-> out[j].name, key |-> out[j].key,
              fields |-> {[name |-> f.name, key |-> f.key, tag |-> f.tag, type |-> f.type] :
                          f \in Range(out[j].fields)}] : j \in DOMAIN out}

\* the output (forgetting order) is one of the structs Gen allows, for each of them
AbsInGen(doc, args, out) ==
    /\ Cardinality(Abs(out)) = Cardinality(Gen(doc, args))
    /\ \A s \in Abs(out) : \E g \in Gen(doc, args) :
          /\ g.name = s.name /\ g.key = s.key
          /\ Cardinality(s.fields) = Cardinality(g.fields)
          /\ \A f \in s.fields : \E gf \in g.fields :
                gf.name = f.name /\ gf.key = f.key /\ gf.tag = f.tag /\ (gf.free \/ f.type \in gf.types)

\* ------------------------------------------------------------------ Observe: histories
\* "Running it again on the same input produces byte-identical output": seen[input] is the
\* first observation (struct sequence and byte hash); every later observation of the same
\* input must be identical.  seen is a function from input identities to observations.
NoObs == <<>>
Observed(seen, inp) == inp \in DOMAIN seen
ObsAccepts(seen, inp, obs) == Observed(seen, inp) => seen[inp] = obs
ObsRecord(seen, inp, obs) == IF Observed(seen, inp) THEN seen ELSE (inp :> obs) @@ seen

StructNames(out) == [j \in DOMAIN out |-> out[j].name]
FieldNames(s) == [m \in DOMAIN s.fields |-> s.fields[m].name]
\* what differs between two observations of one input (detail field of the signature)
StructOrderDiffers(a, b) == StructNames(a) # StructNames(b) /\ Range(StructNames(a)) = Range(StructNames(b))
FieldOrderDiffers(a, b) ==
    \E i \in DOMAIN a : \E j \in DOMAIN b :
        /\ a[i].name = b[j].name
        /\ FieldNames(a[i]) # FieldNames(b[j])
        /\ Range(FieldNames(a[i])) = Range(FieldNames(b[j]))
=============================================================================
