------------------------------ MODULE Codegen ------------------------------
(***************************************************************************)
(* C19 - contract of cmd/arcaflow-codegen as a function on abstract schema *)
(* documents (transcribed from the property statement and the README, not  *)
(* from gen.go).                                                           *)
(*                                                                         *)
(* A DOCUMENT is the sequence of the objects of steps.create.input.objects *)
(* in the order they are written in the YAML text (the order is NOT part   *)
(* of the contract: Gen returns a set).  TLC has no string operations, so  *)
(* every name carries its attributes with it:                              *)
(*     name   the identifier as written in the document                    *)
(*     title  the title-cased identifier (first letter upper-cased)        *)
(*     key    the identity under which a struct / field is looked up in    *)
(*            the output: the identifier lower-cased (so that a generator  *)
(*            with another capitalisation convention is still matched),    *)
(*            EXCEPT when the same map of the document holds another name  *)
(*            with the same lower-cased form (podIP / podIp, NodeSpec /    *)
(*            Nodespec, foo / Foo): then the title-cased identifier.  (For *)
(*            a property "the same map" is the properties of all objects   *)
(*            that share the object's key, so that the structs generated   *)
(*            for foo and Foo are read under one rule.)                    *)
(* Distinct identifiers are distinct names of the premise whatever their   *)
(* capitalisation, so keys need not be distinct: foo and Foo both have the *)
(* key "Foo" and the contract asks for two structs with that key (a        *)
(* matching of objects to structs, see Meets).                             *)
(* The attributes are computed by the harness with the standard library    *)
(* (never by generator code) and, for the names of the enumerated          *)
(* universe, tabulated in CodegenMC!NameTable and checked at harness start.*)
(*                                                                         *)
(*   object   [name, title, key, props : Seq(property)]                    *)
(*   property [name, title, key, tid, ref, reftitle]                       *)
(*            tid = the type_id, ref = the id written next to it in the    *)
(*            type mapping ("" = none): the referenced object's name when  *)
(*            tid = "ref"; with any other type ID an id the type carries   *)
(*            itself (an inline object type carries its ID), which says    *)
(*            nothing about the field's type (Carried).                    *)
(*   args     [form : "no_ignore" | "with_ignore", ign : name]             *)
(*                                                                         *)
(* An OBSERVED OUTPUT is what go/parser extracts from typedef_output.go:   *)
(* the sequence (file order) of struct declarations                        *)
(*   [name, key, fields : Seq([name, key, tag, type])]                     *)
(* with tag = the name part of the json struct tag, type = the field's     *)
(* type expression as text, key = the observed name under the key rule of  *)
(* the document's map it belongs to.                                       *)
(***************************************************************************)
EXTENDS Integers, Sequences, FiniteSets, TLC

\* every type ID of schema/types.go (the harness checks this list against the source)
TypeIDs == {"enum_string", "enum_integer", "string", "pattern", "integer", "float", "bool",
            "list", "map", "scope", "object", "one_of_string", "one_of_int", "ref", "any"}

\* Go keywords: not identifiers (names in the premise exclude them), and not usable as a
\* type expression (see TypeFree)
GoKeywords == {"break", "default", "func", "interface", "select", "case", "defer", "go", "map",
               "struct", "chan", "else", "goto", "package", "switch", "const", "fallthrough",
               "if", "range", "type", "continue", "for", "import", "return", "var"}

Range(s) == {s[i] : i \in DOMAIN s}

\* injections from A to B (bijections when the sets have the same size)
Inj(A, B) == {f \in [A -> B] : \A a1, a2 \in A : f[a1] = f[a2] => a1 = a2}

\* ------------------------------------------------------------------ premise
Distinct(s, f(_)) == \A i, j \in DOMAIN s : f(s[i]) = f(s[j]) => i = j
NameOf(x) == x.name

WFProp(p) ==
    /\ p.name \notin GoKeywords /\ p.name # ""
    /\ p.tid \in TypeIDs
    /\ (p.tid = "ref") => (p.ref # "")        \* a reference names its target; any type may carry an id
    /\ p.ref \notin GoKeywords

\* "object and property names are valid identifiers": identifiers, pairwise distinct as the
\* keys of a YAML mapping are - nothing else (names may differ in capitalisation only)
WF(doc) ==
    /\ Distinct(doc, NameOf)
    /\ \A i \in DOMAIN doc :
          /\ doc[i].name \notin GoKeywords /\ doc[i].name # ""
          /\ Distinct(doc[i].props, NameOf)
          /\ \A k \in DOMAIN doc[i].props : WFProp(doc[i].props[k])

\* ------------------------------------------------------------------ the contract
\* README: "you can specify objects to ignore" - the second argument names one object
Ignored(o, args) == args.form = "with_ignore" /\ o.name = args.ign
Live(doc, args) == {i \in DOMAIN doc : ~Ignored(doc[i], args)}

\* statement: "typed int64/float64 for integer/float, the referenced object's name for
\* references and the type ID otherwise".  "The referenced object's name" is satisfied by the
\* name as written and by the name of the struct generated for it (title-cased).
\* What makes a property a reference is its TYPE ID, not the presence of an id: a type other
\* than "ref" that carries an id (type_id: object, id: Inner) is typed by its type ID.
Carried(p) == p.tid # "ref" /\ p.ref # ""
GoTypes(p) ==
    CASE p.tid = "integer" -> {"int64"}
      [] p.tid = "float"   -> {"float64"}
      [] p.tid = "ref"     -> {p.ref, p.reftitle}
      [] OTHER             -> {p.tid}

\* A type ID that is a Go keyword ("map") cannot be both "the type ID" and part of
\* "gofmt-valid Go": the statement's two demands contradict each other, so the field's type is
\* left open there (three-valued expectation: "maybe").  Not panicking is demanded regardless.
TypeFree(p) == GoTypes(p) \subseteq GoKeywords
Satisfiable(doc, args) ==
    \A i \in Live(doc, args) : \A k \in DOMAIN doc[i].props : ~TypeFree(doc[i].props[k])

FieldOf(p) == [name |-> p.title, key |-> p.key, tag |-> p.name, types |-> GoTypes(p), free |-> TypeFree(p)]
StructOf(o) == [obj |-> o.name, name |-> o.title, key |-> o.key, fields |-> {FieldOf(p) : p \in Range(o.props)}]

\* Gen: one struct per non-ignored object, one JSON-tagged field per property
Gen(doc, args) == {StructOf(doc[i]) : i \in Live(doc, args)}

\* some map of the document holds two names equal up to capitalisation: exactly then the
\* key rule above falls back to the title-cased identifier
CaseVariants(doc) ==
    \/ \E i \in DOMAIN doc : doc[i].key = doc[i].title
    \/ \E i \in DOMAIN doc : \E k \in DOMAIN doc[i].props : doc[i].props[k].key = doc[i].props[k].title

\* document shape class (part of a violation signature): "multi" = some map of the document
\* has at least two entries, so that an iteration order exists; "multi_casevariant" = and two
\* of its names differ in capitalisation only (an order that ignores case is not total there)
Shape(doc) ==
    IF Len(doc) = 0 THEN "empty"
    ELSE IF Len(doc) = 1 /\ Len(doc[1].props) <= 1 THEN "single"
    ELSE IF CaseVariants(doc) THEN "multi_casevariant"
    ELSE "multi"

\* ------------------------------------------------------------------ the statement, declaratively
\* (over an observed output; TLC checks on the model that the operational Gen / Emitted
\* and this reading agree).  Objects and structs (properties and fields) with one key are
\* matched one to one.
FieldTags(s) == [m \in DOMAIN s.fields |-> s.fields[m].tag]
FieldOK(p, f) == f.tag = p.name /\ (TypeFree(p) \/ f.type \in GoTypes(p))
PropsAt(o, K) == {k \in DOMAIN o.props : o.props[k].key = K}
FieldsAt(s, K) == {m \in DOMAIN s.fields : s.fields[m].key = K}
FieldKeys(o, s) == {o.props[k].key : k \in DOMAIN o.props} \cup {s.fields[m].key : m \in DOMAIN s.fields}

GroupMeets(o, s, K) ==
    /\ Cardinality(PropsAt(o, K)) = Cardinality(FieldsAt(s, K))
    /\ \E f \in Inj(PropsAt(o, K), FieldsAt(s, K)) : \A k \in PropsAt(o, K) : FieldOK(o.props[k], s.fields[f[k]])

\* one JSON-tagged, rightly typed field per property and no other field
FieldsMeet(o, s) == \A K \in FieldKeys(o, s) : GroupMeets(o, s, K)

ObjsAt(doc, args, K) == {i \in Live(doc, args) : doc[i].key = K}
StructsAt(out, K) == {j \in DOMAIN out : out[j].key = K}
StructKeys(doc, args, out) == {doc[i].key : i \in Live(doc, args)} \cup {out[j].key : j \in DOMAIN out}

\* exactly one struct per non-ignored object (and none besides)
Meets(doc, args, out) ==
    \A K \in StructKeys(doc, args, out) :
        /\ Cardinality(ObjsAt(doc, args, K)) = Cardinality(StructsAt(out, K))
        /\ \E f \in Inj(ObjsAt(doc, args, K), StructsAt(out, K)) :
              \A i \in ObjsAt(doc, args, K) : FieldsMeet(doc[i], out[f[i]])

\* ------------------------------------------------------------------ diagnosis (violation class)
\* first failing clause of Meets, as the class field of the violation signature
FieldVerdict(o, s) ==
    LET KS == FieldKeys(o, s)
        P(K) == PropsAt(o, K)
        F(K) == FieldsAt(s, K)
        bad == {K \in KS : Cardinality(P(K)) = Cardinality(F(K)) /\ ~GroupMeets(o, s, K)}
    IN IF \E K \in KS : Cardinality(F(K)) < Cardinality(P(K)) THEN "missing_field"
       ELSE IF \E K \in KS : P(K) = {} THEN "extra_field"
       ELSE IF \E K \in KS : Cardinality(F(K)) > Cardinality(P(K)) THEN "duplicate_field"
       ELSE IF bad = {} THEN "ok"
       ELSE IF \E K \in bad : \A f \in Inj(P(K), F(K)) : \E k \in P(K) : s.fields[f[k]].tag # o.props[k].name
            THEN "wrong_tag"
       ELSE "wrong_field_type"

\* The (object, struct) pair a field-level verdict is about: the first object (document order)
\* for which no struct of its key has the right fields, against the struct of that key that
\* gets most of its properties right (the first of those).  <<0, 0>> if there is none.
Score(o, s) == Cardinality({k \in DOMAIN o.props : \E m \in DOMAIN s.fields :
                                s.fields[m].key = o.props[k].key /\ FieldOK(o.props[k], s.fields[m])})
Diagnosed(doc, args, out) ==
    LET bad == {i \in Live(doc, args) : /\ StructsAt(out, doc[i].key) # {}
                                        /\ \A j \in StructsAt(out, doc[i].key) : ~FieldsMeet(doc[i], out[j])}
    IN IF bad = {} THEN <<0, 0>>
       ELSE LET i == CHOOSE x \in bad : \A y \in bad : x <= y
                O == StructsAt(out, doc[i].key)
                best == {x \in O : \A y \in O : Score(doc[i], out[y]) <= Score(doc[i], out[x])}
                j == CHOOSE x \in best : \A y \in best : x <= y
            IN <<i, j>>

Verdict(doc, args, out) ==
    LET KS == StructKeys(doc, args, out)
        L(K) == ObjsAt(doc, args, K)
        O(K) == StructsAt(out, K)
        IgnKeys == {doc[i].key : i \in (DOMAIN doc) \ Live(doc, args)}
        over == {K \in KS : Cardinality(O(K)) > Cardinality(L(K))}
        d == Diagnosed(doc, args, out)
        unmatched == {K \in KS : Cardinality(O(K)) = Cardinality(L(K)) /\
                        ~\E f \in Inj(L(K), O(K)) : \A i \in L(K) : FieldsMeet(doc[i], out[f[i]])}
    IN IF \E K \in KS : Cardinality(O(K)) < Cardinality(L(K)) THEN "missing_struct"
       ELSE IF over \cap IgnKeys # {} THEN "ignored_struct_emitted"
       ELSE IF \E K \in over : L(K) = {} THEN "extra_struct"
       ELSE IF over # {} THEN "duplicate_struct"
       ELSE IF d # <<0, 0>> THEN FieldVerdict(doc[d[1]], out[d[2]])
       ELSE IF unmatched # {} THEN "wrong_field_type"   \* structs of one key with their fields swapped
       ELSE "ok"

\* detail of a wrong_field_type verdict: the first mistyped property of the diagnosed pair -
\* its type ID, and whether it carries an id of its own (an id taken for a reference)
NoProp == [name |-> "", title |-> "", key |-> "", tid |-> "", ref |-> "", reftitle |-> ""]
Mistyped(doc, args, out) ==
    LET d == Diagnosed(doc, args, out) IN
    IF d = <<0, 0>> THEN NoProp
    ELSE LET o == doc[d[1]]
             s == out[d[2]]
             off == {k \in DOMAIN o.props : /\ ~TypeFree(o.props[k])
                                            /\ \E m \in DOMAIN s.fields :
                                                  /\ s.fields[m].key = o.props[k].key
                                                  /\ s.fields[m].tag = o.props[k].name
                                                  /\ s.fields[m].type \notin GoTypes(o.props[k])}
         IN IF off = {} THEN NoProp ELSE o.props[CHOOSE k \in off : \A y \in off : k <= y]
WrongTypeOf(doc, args, out) == Mistyped(doc, args, out).tid
WrongTypeCarriesId(doc, args, out) == Carried(Mistyped(doc, args, out))

\* the statement does not fix the spelling of struct / field names; a matched struct or field
\* whose name is not the title-cased identifier is reported as drift, not as a violation
NameDrift(doc, out) ==
    \E j \in DOMAIN out :
        LET objs == {i \in DOMAIN doc : doc[i].key = out[j].key} IN
        /\ objs # {}
        /\ \/ out[j].name \notin {doc[i].title : i \in objs}
           \/ \A i \in objs : \E m \in DOMAIN out[j].fields :
                 LET ps == PropsAt(doc[i], out[j].fields[m].key) IN
                 ps # {} /\ out[j].fields[m].name \notin {doc[i].props[k].title : k \in ps}

\* two type declarations (or two fields of one struct) with the same name: parses, is
\* gofmt-valid, does not compile; the statement does not speak about it -> drift
DuplicateNames(out) ==
    \/ \E i, j \in DOMAIN out : i # j /\ out[i].name = out[j].name
    \/ \E j \in DOMAIN out : \E m, n \in DOMAIN out[j].fields :
          m # n /\ out[j].fields[m].name = out[j].fields[n].name

\* ------------------------------------------------------------------ a generator meeting the contract
\* Emitted: the output of a generator that visits the non-ignored objects in the order perm
\* (a sequence of indices into doc), the properties forwards or backwards, and spells
\* references raw or title-cased.  Any such choice is permitted - once.
TypeText(p, titled) ==
    CASE p.tid = "integer" -> "int64"
      [] p.tid = "float"   -> "float64"
      [] p.tid = "ref"     -> IF titled THEN p.reftitle ELSE p.ref
      [] OTHER             -> p.tid

Emitted(doc, perm, rev, titled) ==
    [j \in 1..Len(perm) |->
        LET o == doc[perm[j]]
            n == Len(o.props)
        IN [name |-> o.title, key |-> o.key,
            fields |-> [m \in 1..n |->
                LET p == o.props[IF rev THEN n + 1 - m ELSE m]
                IN [name |-> p.title, key |-> p.key, tag |-> p.name, type |-> TypeText(p, titled)]]]]

\* NOT permitted: a generator that takes every id for a reference (types a property that
\* carries an id by that id, whatever its type ID) - ModelOK checks that the declarative
\* reading rejects it
EmittedIdTyped(doc, perm) ==
    [j \in 1..Len(perm) |->
        LET o == doc[perm[j]]
        IN [name |-> o.title, key |-> o.key,
            fields |-> [m \in 1..Len(o.props) |->
                LET p == o.props[m]
                IN [name |-> p.title, key |-> p.key, tag |-> p.name,
                    type |-> IF p.ref # "" THEN p.ref ELSE TypeText(p, FALSE)]]]]

\* every emitted struct is one of the structs Gen allows, and there are as many
InGen(doc, args, out) ==
    /\ Len(out) = Cardinality(Gen(doc, args))
    /\ \A j \in DOMAIN out : \E g \in Gen(doc, args) :
          /\ g.name = out[j].name /\ g.key = out[j].key
          /\ Len(out[j].fields) = Cardinality(g.fields)
          /\ \A f \in Range(out[j].fields) : \E gf \in g.fields :
                gf.name = f.name /\ gf.key = f.key /\ gf.tag = f.tag /\ (gf.free \/ f.type \in gf.types)

\* ------------------------------------------------------------------ the input: two blindness laws
\* A run of the generator is determined by more than [doc, args]:
\*   deco   the ATTRIBUTES the schema file carries besides what doc abstracts (object names,
\*          property names, type IDs, ids) - what a real schema description has: min / max of
\*          integers and floats (negative, zero, positive, fractional) and of strings, lists and
\*          maps, pattern, units, default, required, display (multi-line description),
\*          conflicts / required_if / required_if_not lists, examples.  A deco is the name of
\*          one way to decorate a document; what it writes is the harness's business.
\*   route  HOW the generator is invoked, i.e. its argv[0]: the pre-built binary by its
\*          absolute path, the same binary at another path, by a relative path, or the
\*          documented "go run gen.go schema_input.yaml [ARG]" (a fresh temporary executable on
\*          every run).
\* The statement quantifies over schema FILES and names what the output must contain by objects,
\* properties, type IDs and references alone; and it speaks of "the same input" of a run.  Hence
\*   AttributeBlind   what a run must emit, and that it finishes, does not depend on deco:
\*                    Expected takes deco and ignores it;
\*   InvocationBlind  what a run emits does not depend on route: observations are recorded
\*                    under ObsKey, of which route is no part, so the observations of one input
\*                    made under different routes must be identical (byte hash included).
\* (Whether the BYTES may differ between two decorations of one document - a comment made from
\* an attribute - the statement does not say: deco is part of ObsKey; a difference is drift.)
Decos  == {"bare", "limits", "attributes", "full"}
Routes == {"binary", "binary_copy", "binary_relative", "go_run"}
Expected(doc, args, deco) == Gen(doc, args)
ObsKey(doc, args, deco, route) == [doc |-> doc, args |-> args, deco |-> deco]
AttributeBlind(doc, args) == \A d1, d2 \in Decos : Expected(doc, args, d1) = Expected(doc, args, d2)
InvocationBlind(doc, args, deco) ==
    \A r1, r2 \in Routes : ObsKey(doc, args, deco, r1) = ObsKey(doc, args, deco, r2)

\* ------------------------------------------------------------------ Observe: histories
\* "Running it again on the same input produces byte-identical output": seen[input] is the
\* first observation (struct sequence and byte hash); every later observation of the same
\* input must be identical.  seen is a function from input identities to observations.
\*
\* The DIRECTORY: the generator writes typedef_output.go into the directory it runs in, where
\* an earlier run - of the same or of another input (other arguments, another document) - may
\* have left that file.  The statement makes the output a function of the INPUT ("for every
\* schema file ... emits ... exactly one struct per non-ignored object"; "the same input
\* produces byte-identical output"): the input is the schema file and the arguments, the
\* previous content of the directory is no part of it.  So Observed / ObsAccepts / ObsRecord
\* do not take the directory: an observation made over an existing output file must meet the
\* contract and be identical to the observation of the same input in a fresh directory - also
\* when the schema file has not been touched since the earlier run and only the arguments
\* differ (the ignore argument is an input too: an output that is newer than the schema file is
\* not therefore the output of THIS input).  The
\* machines carry the directory's content (the input whose output the file holds, NoFile in a
\* fresh directory) only to enumerate / to name such histories.
NoFile == [doc |-> <<>>, args |-> [form |-> "fresh", ign |-> ""]]
NoObs == <<>>
Observed(seen, inp) == inp \in DOMAIN seen
ObsAccepts(seen, inp, obs) == Observed(seen, inp) => seen[inp] = obs
ObsRecord(seen, inp, obs) == IF Observed(seen, inp) THEN seen ELSE (inp :> obs) @@ seen

\* what differs between two observations of one input (detail field of the signature); structs
\* are told apart by name and (tag, type) of their fields, fields by their tag (names may
\* coincide: foo / Foo)
StructIds(out) == [j \in DOMAIN out |-> <<out[j].name, {<<f.tag, f.type>> : f \in Range(out[j].fields)}>>]
StructOrderDiffers(a, b) == StructIds(a) # StructIds(b) /\ Range(StructIds(a)) = Range(StructIds(b))
FieldOrderDiffers(a, b) ==
    \E i \in DOMAIN a : \E j \in DOMAIN b :
        /\ StructIds(a)[i] = StructIds(b)[j]
        /\ FieldTags(a[i]) # FieldTags(b[j])
=============================================================================
