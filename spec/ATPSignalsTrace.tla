------------------------- MODULE ATPSignalsTrace -------------------------
(***************************************************************************)
(* Real sessions with a shared signalsToStep channel against ATPSignals.   *)
(* Lines [ev, r, k]:                                                        *)
(*   e.sig    the caller is about to put the signal addressed to r on the  *)
(*            channel (logged BEFORE the send: a write loop may forward it *)
(*            before the sender runs again); which loop takes it is not    *)
(*            logged - Take is a silent step and TLC infers the loop       *)
(*   c.send   a write loop (k = the run of that loop, from the goroutine's *)
(*            role) writes a signal message whose envelope names run r     *)
(*   s.signal the server dispatches a signal message naming run r          *)
(*   x.result Execute of run r returned the token addressed to run k       *)
(*   reset    next session                                                 *)
(***************************************************************************)
EXTENDS ATPSignals, Json, IOUtils, TLC

Trace == ndJsonDeserialize(IOEnv.VERIF_TRACE)
VARIABLE l
tvars == <<vars, l>>
Ev == Trace[l]
Is(name) == l <= Len(Trace) /\ Trace[l].ev = name /\ l' = l + 1

TInit == tosend = <<>> /\ held = [r \in Runs |-> ""] /\ wire = <<>> /\ got = [r \in Runs |-> <<>>] /\ l = 1 /\ TLCSet(1, 1)
HighWater == TLCSet(1, IF l > TLCGet(1) THEN l ELSE TLCGet(1))
Accepted == PrintT(<<"HIGHWATER", TLCGet(1), Len(Trace)>>) /\ TLCGet(1) = Len(Trace) + 1

TReset == Is("reset") /\ tosend' = <<>> /\ held' = [r \in Runs |-> ""] /\ wire' = <<>> /\ got' = [r \in Runs |-> <<>>]
TSig == Is("e.sig") /\ tosend' = Append(tosend, Ev.r) /\ UNCHANGED <<held, wire, got>>
Silent == (\E w \in Runs : Take(w)) /\ UNCHANGED l
TSend == Is("c.send") /\ Ev.k \in Runs /\ Forward(Ev.k) /\ wire'[Len(wire')].stamp = Ev.r
TDispatch == Is("s.signal") /\ Dispatch /\ Head(wire).stamp = Ev.r
TResult == Is("x.result") /\ got[Ev.r] = <<Ev.k>> /\ UNCHANGED vars

TNext == TReset \/ TSig \/ Silent \/ TSend \/ TDispatch \/ TResult
TSpec == TInit /\ [][TNext]_tvars
TraceInv == Addressed /\ AtMostOnce
=============================================================================
