------------------------------- MODULE Values -------------------------------
(***************************************************************************)
(* Abstract raw / native / wire values of the schema half (DESIGN 3, A).   *)
(*                                                                         *)
(* A value is a record whose tag fields sort before its payload (k < rep   *)
(* < v), because TLC compares records field by field in name order and     *)
(* must meet the distinguishing tag before payloads of different types:    *)
(*                                                                         *)
(*   [k |-> "nil"]                                                         *)
(*   [k |-> "bool",     rep |-> "bool"|"named",          v |-> BOOLEAN]    *)
(*   [k |-> "int",      rep |-> IntReps|"named",         v |-> n]          *)
(*   [k |-> "float",    rep |-> FloatReps|"named",       v |-> h]  h/2     *)
(*   [k |-> "fspecial", rep |-> FloatReps,               v |-> "nan"|"+inf"|"-inf"] *)
(*   [k |-> "str",      rep |-> "string"|"named",        v |-> token id]   *)
(*   [k |-> "list",     rep |-> "any"|"typed"|"bytes",   v |-> <<x..>>]    *)
(*   [k |-> "map",      rep |-> MapReps,                 v |-> <<<<key, val>>..>>] *)
(*   [k |-> "re",       v |-> token id]      a compiled *regexp.Regexp     *)
(*   [k |-> "junk",     v |-> class]         things no schema accepts      *)
(*                                                                         *)
(* Integers live on a small line: the identity region (small numbers, are  *)
(* themselves under every numeric embedding of the harness) and the EDGE   *)
(* points around the two distinguished bounds IMin, IMax = the int64       *)
(* limits.  The semantics uses only order, equality, integrality, "fits in *)
(* int64" and "is 0/1"; the harness concretises one abstract vector under  *)
(* several order preserving embeddings (2^63, 2^53, 2^31, 2^32 edges).     *)
(* Floats are half units (h stands for h/2; odd h = non integral; only in  *)
(* the identity region) plus NaN, +Inf, -Inf.  Strings are tokens of       *)
(* Strings.tla.  "named" = a defined Go type with that underlying type     *)
(* (type T int64 / float64 / string / bool).                               *)
(*                                                                         *)
(* Struct-mapped objects (harness/catalog) are                             *)
(*   [k |-> "struct", t |-> LayoutId, v |-> <<<<property, Opt(val)>>..>>]  *)
(* one pair per DECLARED property, in the order of the schema's property   *)
(* list: None = nil pointer / nil interface field, Some(x) = the field's   *)
(* value (a by-value field always has one: its zero value when nothing was *)
(* assigned).  Map-based objects are ordinary "map" values with rep        *)
(* "string_any" (map[string]any).                                          *)
(***************************************************************************)
EXTENDS Integers, Sequences, FiniteSets, TLC

\* TLC compares records field by field in the order in which the field names first occur in
\* the ROOT module; every root module using these values starts with a FieldOrder definition
\* naming the tags (kind, k, rep, ok, d, some) before the payload (v).  If that is ever
\* forgotten this assumption makes TLC stop at start-up instead of misbehaving later.
ASSUME [k |-> "a", rep |-> "x", v |-> 1] # [k |-> "b", rep |-> "x", v |-> "s"]
ASSUME [some |-> FALSE, v |-> 1] # [some |-> TRUE, v |-> "s"]

IMax == 1000000
IMin == -1000000
FitsI64(n) == IMin <= n /\ n <= IMax
EdgeHi == {IMax - 1, IMax, IMax + 1}
EdgeLo == {IMin - 1, IMin, IMin + 1}
EdgePts == EdgeLo \cup EdgeHi
IdLimit == 100000
IsEdge(n) == n \in EdgePts
\* stands for "an amount that fits in int64 but lies far above the identity region" (unit strings such as
\* "8191PB"): larger than every small bound, in no fixed relation to the edge points; the harness computes the
\* exact number with math/big
HugeAmount == 999000

None == [some |-> FALSE]
Some(x) == [some |-> TRUE, v |-> x]

SignedReps == {"int", "int8", "int16", "int32", "int64"}
UnsignedReps == {"uint", "uint8", "uint16", "uint32", "uint64"}
IntReps == SignedReps \cup UnsignedReps
FloatReps == {"float32", "float64"}
ListReps == {"any", "typed", "bytes"}
MapReps == {"string_any", "any_any", "int64_any", "typed"}
\* cbor.Tag, big.Int (CBOR bignum), time.Time (CBOR tag 0/1, YAML timestamp), a struct, a
\* pointer to a struct, a typed nil pointer, a typed nil *regexp.Regexp, a func, a chan
\* nil_wide / nil_sub: a typed nil pointer to a CATALOGUE struct (*catalog.Wide, *catalog.Sub) - for an
\* object mapped to that pointer type (layouts wide_p / sub_p) it has exactly the schema's own Go type and
\* must be rejected as nil; for the by-value layouts (wide / sub) it is a value of the wrong type
\* arr_*: fixed-size arrays ([2]int64, [2]string, [0]int, a defined array type) - no slice, but hashable, so they
\* can also be map KEYS; map_arrkey: a map[[2]int64]string
JunkClasses == {"tag", "bigint", "time", "struct", "ptr", "nilptr", "nilre", "func", "chan", "nil_wide", "nil_sub",
                "arr_int2", "arr_str2", "arr0", "arr_named", "map_arrkey"}
\* what a CBOR / JSON / YAML decoder can hand over
DecodableJunk == {"tag", "bigint", "time"}

\* ------------------------------------------------------------------ constructors
Nil == [k |-> "nil"]
B(b) == [k |-> "bool", rep |-> "bool", v |-> b]
BR(rep, b) == [k |-> "bool", rep |-> rep, v |-> b]
I(rep, n) == [k |-> "int", rep |-> rep, v |-> n]
I64(n) == I("int64", n)
F(rep, h) == [k |-> "float", rep |-> rep, v |-> h]
F64(h) == F("float64", h)
FS(rep, x) == [k |-> "fspecial", rep |-> rep, v |-> x]
S(rep, t) == [k |-> "str", rep |-> rep, v |-> t]
Str(t) == S("string", t)
L(rep, xs) == [k |-> "list", rep |-> rep, v |-> xs]
M(rep, ps) == [k |-> "map", rep |-> rep, v |-> ps]
Re(t) == [k |-> "re", v |-> t]
J(c) == [k |-> "junk", v |-> c]

Kinds == {"nil", "bool", "int", "float", "fspecial", "str", "list", "map", "re", "junk", "struct"}
Struct(t, ps) == [k |-> "struct", t |-> t, v |-> ps]

\* which integer representations can hold the point n (the narrow widths only in the
\* identity region; around the limits the 32- and 64-bit ones, chosen so that at least one
\* embedding of the harness can realise the leaf)
RepsOf(n) ==
    IF ~IsEdge(n) THEN (IF n < 0 THEN SignedReps ELSE IntReps)
    ELSE IF n > IMax THEN {"uint", "uint64"}
    ELSE IF n = IMax THEN {"int", "int64", "uint", "uint64", "uint32"}
    ELSE IF n = IMax - 1 THEN {"int", "int64", "uint", "uint64", "uint32", "int32"}
    ELSE IF n = IMin + 1 THEN {"int", "int64", "int32"}
    ELSE IF n = IMin THEN {"int", "int64"}
    ELSE {}

\* ------------------------------------------------------------------ well-formedness of values
RECURSIVE WFV(_)
WFV(x) ==
    CASE x.k = "nil" -> TRUE
      [] x.k = "bool" -> x.rep \in {"bool", "named"} /\ x.v \in BOOLEAN
      [] x.k = "int" -> x.rep \in IntReps \cup {"named"}
      [] x.k = "float" -> x.rep \in FloatReps \cup {"named"} /\ (x.v % 2 = 1 => ~IsEdge((x.v - 1) \div 2))
      [] x.k = "fspecial" -> x.rep \in FloatReps /\ x.v \in {"nan", "+inf", "-inf"}
      [] x.k = "str" -> x.rep \in {"string", "named"}
      [] x.k = "list" -> x.rep \in ListReps /\ \A i \in 1..Len(x.v) : WFV(x.v[i])
      [] x.k = "map" -> x.rep \in MapReps /\ \A i \in 1..Len(x.v) : WFV(x.v[i][1]) /\ WFV(x.v[i][2])
      [] x.k = "re" -> TRUE
      [] x.k = "junk" -> x.v \in JunkClasses
      [] x.k = "struct" -> \A i \in 1..Len(x.v) : x.v[i][2].some => WFV(x.v[i][2].v)

\* ------------------------------------------------------------------ decoder-producible shapes
\* (C04: Unserialize and data-mode ValidateCompatibility are held to totality on these;
\* Validate / Serialize on arbitrary Go values)
RECURSIVE Decodable(_)
Decodable(x) ==
    CASE x.k = "nil" -> TRUE
      [] x.k \in {"bool", "int", "float", "str"} -> x.rep # "named"
      [] x.k = "fspecial" -> TRUE
      [] x.k = "list" -> \A i \in 1..Len(x.v) : Decodable(x.v[i])
      [] x.k = "map" -> \A i \in 1..Len(x.v) : Decodable(x.v[i][1]) /\ Decodable(x.v[i][2])
      [] x.k \in {"re", "struct"} -> FALSE
      [] x.k = "junk" -> x.v \in DecodableJunk

\* ------------------------------------------------------------------ safe structural equality
\* (TLC refuses to compare an integer with a string; tags are compared first)
RECURSIVE EqV(_, _)
EqV(a, b) ==
    IF a.k # b.k THEN FALSE
    ELSE CASE a.k = "nil" -> TRUE
           [] a.k \in {"bool", "int", "float", "fspecial", "str"} -> a.rep = b.rep /\ a.v = b.v
           [] a.k \in {"re", "junk"} -> a.v = b.v
           [] a.k = "struct" ->
                 /\ a.t = b.t /\ Len(a.v) = Len(b.v)
                 /\ \A i \in 1..Len(a.v) :
                        /\ a.v[i][1] = b.v[i][1] /\ a.v[i][2].some = b.v[i][2].some
                        /\ a.v[i][2].some => EqV(a.v[i][2].v, b.v[i][2].v)
           [] a.k = "list" -> Len(a.v) = Len(b.v) /\ \A i \in 1..Len(a.v) : EqV(a.v[i], b.v[i])
           [] a.k = "map" ->
                 /\ Len(a.v) = Len(b.v)
                 /\ \A i \in 1..Len(a.v) : \E j \in 1..Len(b.v) : EqV(a.v[i][1], b.v[j][1]) /\ EqV(a.v[i][2], b.v[j][2])
                 /\ \A j \in 1..Len(b.v) : \E i \in 1..Len(a.v) : EqV(a.v[i][1], b.v[j][1]) /\ EqV(a.v[i][2], b.v[j][2])

\* container representations are not part of a value's identity (nil vs. empty, []any vs.
\* []int64, map[string]any vs. map[any]any hold "the same" list / map)
RECURSIVE EqModRep(_, _)
EqModRep(a, b) ==
    IF a.k # b.k THEN FALSE
    ELSE CASE a.k \in {"list"} -> Len(a.v) = Len(b.v) /\ \A i \in 1..Len(a.v) : EqModRep(a.v[i], b.v[i])
           [] a.k = "struct" ->
                 /\ a.t = b.t /\ Len(a.v) = Len(b.v)
                 /\ \A i \in 1..Len(a.v) :
                        /\ a.v[i][1] = b.v[i][1] /\ a.v[i][2].some = b.v[i][2].some
                        /\ a.v[i][2].some => EqModRep(a.v[i][2].v, b.v[i][2].v)
           [] a.k = "map" ->
                 /\ Len(a.v) = Len(b.v)
                 /\ \A i \in 1..Len(a.v) : \E j \in 1..Len(b.v) : EqModRep(a.v[i][1], b.v[j][1]) /\ EqModRep(a.v[i][2], b.v[j][2])
                 /\ \A j \in 1..Len(b.v) : \E i \in 1..Len(a.v) : EqModRep(a.v[i][1], b.v[j][1]) /\ EqModRep(a.v[i][2], b.v[j][2])
           [] OTHER -> EqV(a, b)

\* nesting depth of a value (bounds the unfolding of references, SchemaAST!Unfold).  Depth is also a dimension of
\* the C04 universe: SchemaMC generates well-formed values nested 16..64 levels for schemas that recurse through a
\* list or a map, and the operations have to return within the per-case bound (work polynomial in the input size)
Max2(a, b) == IF a > b THEN a ELSE b
RECURSIVE MaxOver(_, _)
MaxOver(f, n) == IF n = 0 THEN 0 ELSE Max2(f[n], MaxOver(f, n - 1))
RECURSIVE VDepth(_)
VDepth(x) ==
    CASE x.k = "list" -> 1 + MaxOver([i \in 1..Len(x.v) |-> VDepth(x.v[i])], Len(x.v))
      [] x.k = "map" -> 1 + MaxOver([i \in 1..Len(x.v) |-> Max2(VDepth(x.v[i][1]), VDepth(x.v[i][2]))], Len(x.v))
      [] x.k = "struct" -> 1 + MaxOver([i \in 1..Len(x.v) |-> IF x.v[i][2].some THEN VDepth(x.v[i][2].v) ELSE 0], Len(x.v))
      [] OTHER -> 1

\* ------------------------------------------------------------------ reflect.Kind (any.go compares kinds)
KindOf(x) ==
    CASE x.k = "nil" -> "invalid"
      [] x.k = "bool" -> "bool"
      [] x.k = "int" -> IF x.rep = "named" THEN "int64" ELSE x.rep
      [] x.k \in {"float", "fspecial"} -> IF x.rep = "named" THEN "float64" ELSE x.rep
      [] x.k = "str" -> "string"
      [] x.k = "list" -> "slice"
      [] x.k = "map" -> "map"
      [] x.k = "re" -> "ptr"
      [] x.k = "struct" -> "struct"
      [] x.k = "junk" -> (CASE x.v \in {"tag", "bigint", "time", "struct"} -> "struct"
                            [] x.v \in {"ptr", "nilptr", "nilre", "nil_wide", "nil_sub"} -> "ptr"
                            [] x.v \in {"arr_int2", "arr_str2", "arr0", "arr_named"} -> "array"
                            [] x.v = "map_arrkey" -> "map"
                            [] x.v = "func" -> "func"
                            [] x.v = "chan" -> "chan")

\* ------------------------------------------------------------------ transport transforms
\* What a wire value looks like after Marshal + Unmarshal into `any` with the real codec.  The
\* harness checks these predictions against fxamacker/cbor/v2 (as /repo/atp uses it),
\* encoding/json and gopkg.in/yaml.v3 at start-up, on every value class (bind_error => Infra).
SeqMap(f(_), s) == [i \in 1..Len(s) |-> f(s[i])]

RECURSIVE CBOR(_)
\* defined on nil, scalars, lists, maps (keys: scalars); junk does not travel
CBOR(w) ==
    CASE w.k = "nil" -> Nil
      [] w.k = "bool" -> B(w.v)
      [] w.k = "int" -> IF w.v >= 0 THEN I("uint64", w.v) ELSE I64(w.v)
      [] w.k = "float" -> F64(w.v)
      [] w.k = "fspecial" -> FS("float64", w.v)
      [] w.k = "str" -> Str(w.v)
      [] w.k = "list" -> IF w.rep = "bytes" THEN w ELSE L("any", [i \in 1..Len(w.v) |-> CBOR(w.v[i])])
      [] w.k = "map" -> M("any_any", [i \in 1..Len(w.v) |-> <<CBOR(w.v[i][1]), CBOR(w.v[i][2])>>])
RECURSIVE CBORable(_)
CBORable(w) ==
    CASE w.k \in {"nil", "bool", "int", "float", "fspecial", "str"} -> TRUE
      [] w.k = "list" -> \A i \in 1..Len(w.v) : CBORable(w.v[i])
      [] w.k = "map" -> \A i \in 1..Len(w.v) : w.v[i][1].k \in {"bool", "int", "float", "fspecial", "str"} /\ CBORable(w.v[i][1]) /\ CBORable(w.v[i][2])
      [] w.k \in {"re", "junk", "struct"} -> FALSE

\* JSON: numbers come back as float64, maps as map[string]any; map keys must be strings or
\* integers (encoding/json refuses map[any]any); NaN/Inf and byte strings do not travel as such
RECURSIVE JSONable(_)
JSONable(w) ==
    CASE w.k \in {"nil", "bool", "str"} -> TRUE
      [] w.k = "int" -> ~IsEdge(w.v)
      [] w.k = "float" -> ~IsEdge(w.v \div 2)
      [] w.k = "fspecial" -> FALSE
      [] w.k = "list" -> w.rep # "bytes" /\ \A i \in 1..Len(w.v) : JSONable(w.v[i])
      [] w.k = "map" -> /\ w.rep # "any_any"
                        /\ \A i \in 1..Len(w.v) : w.v[i][1].k = "str" /\ w.v[i][1].rep = "string" /\ JSONable(w.v[i][2])
      [] w.k \in {"re", "junk", "struct"} -> FALSE
RECURSIVE JSON(_)
JSON(w) ==
    CASE w.k = "nil" -> Nil
      [] w.k = "bool" -> B(w.v)
      [] w.k = "int" -> F64(2 * w.v)
      [] w.k = "float" -> F64(w.v)
      [] w.k = "str" -> Str(w.v)
      [] w.k = "list" -> L("any", [i \in 1..Len(w.v) |-> JSON(w.v[i])])
      [] w.k = "map" -> M("string_any", [i \in 1..Len(w.v) |-> <<Str(w.v[i][1].v), JSON(w.v[i][2])>>])

\* YAML (yaml.v3 into `any`): integers come back as int, floats as float64 - except that an
\* integral float is printed without a fraction and so comes back as an int -, maps as
\* map[string]any when every key is a string, otherwise map[any]any.  Strings that would read
\* as something else are quoted by the encoder and stay strings.
RECURSIVE YAMLable(_)
YAMLable(w) ==
    CASE w.k \in {"nil", "bool", "str", "fspecial"} -> TRUE
      [] w.k = "int" -> ~IsEdge(w.v)
      [] w.k = "float" -> ~IsEdge(w.v \div 2)
      [] w.k = "list" -> w.rep # "bytes" /\ \A i \in 1..Len(w.v) : YAMLable(w.v[i])
      [] w.k = "map" -> \A i \in 1..Len(w.v) : w.v[i][1].k \in {"str", "int", "bool"} /\ YAMLable(w.v[i][1]) /\ YAMLable(w.v[i][2])
      [] w.k \in {"re", "junk", "struct"} -> FALSE
RECURSIVE YAML(_)
YAML(w) ==
    CASE w.k = "nil" -> Nil
      [] w.k = "bool" -> B(w.v)
      [] w.k = "int" -> I("int", w.v)
      [] w.k = "float" -> IF w.v % 2 = 0 THEN I("int", w.v \div 2) ELSE F64(w.v)
      [] w.k = "fspecial" -> FS("float64", w.v)
      [] w.k = "str" -> Str(w.v)
      [] w.k = "list" -> L("any", [i \in 1..Len(w.v) |-> YAML(w.v[i])])
      [] w.k = "map" ->
            LET ps == [i \in 1..Len(w.v) |-> <<YAML(w.v[i][1]), YAML(w.v[i][2])>>]
            IN M(IF \A i \in 1..Len(ps) : ps[i][1].k = "str" THEN "string_any" ELSE "any_any", ps)
=============================================================================
