----------------------------- MODULE SchemaAST -----------------------------
(***************************************************************************)
(* Schema constructors as records (DESIGN appendix A).  One record shape   *)
(* per public constructor of /repo/schema; the harness (concretize.Build)  *)
(* turns a record into a real schema through exactly that constructor.     *)
(*                                                                         *)
(*   [kind |-> "int",   min, max : Opt(n),  units : Opt("sec")]   NewIntSchema        *)
(*   [kind |-> "float", min, max : Opt(h),  units : Opt("sec")]   NewFloatSchema (half units) *)
(*   [kind |-> "string", min, max : Opt(len), pattern : Opt(PatternId)]  NewStringSchema *)
(*   [kind |-> "bool"]  [kind |-> "pattern"]  [kind |-> "any"]                        *)
(*   [kind |-> "enum_int", values : <<n..>>, units : Opt]          NewIntEnumSchema    *)
(*   [kind |-> "enum_string", values : <<tok..>>, typed : BOOLEAN] NewStringEnumSchema / *)
(*                                                   NewTypedStringEnumSchema[NamedStr] *)
(*   [kind |-> "list", items, min, max : Opt(size), typed]  NewListSchema / NewTypedListSchema[T] *)
(*   [kind |-> "map", keys, values, min, max, typed]        NewMapSchema / NewTypedMapSchema[K,V] *)
(*                                                                         *)
(* "typed" selects the generic constructor where the harness' catalogue    *)
(* has the instantiation (otherwise the untyped one is used and counted);  *)
(* it never changes the expected outcome - the typed entry points are      *)
(* required to agree with the untyped ones.                                *)
(*                                                                         *)
(* STAGE 2 extension point (objects, one-of, refs, scopes): add the kinds  *)
(*   [kind |-> "object", id, props : <<Prop..>>, layout, id_unenforced]    *)
(*   [kind |-> "oneof", disc, field, inlined, members : <<<<key, Schema>>..>>] *)
(*   [kind |-> "ref", id, ns]   [kind |-> "scope", root, objects : <<..>>] *)
(* with arms in WF, Depth, SubSchemas below and in every CASE of           *)
(* SchemaSem / SchemaDecl (a missing arm is a TLC evaluation error, so     *)
(* nothing can be forgotten silently).                                     *)
(***************************************************************************)
EXTENDS Values, Strings

UnitIds == {"sec"}

IntS(min, max, units) == [kind |-> "int", min |-> min, max |-> max, units |-> units]
FloatS(min, max, units) == [kind |-> "float", min |-> min, max |-> max, units |-> units]
StringS(min, max, pattern) == [kind |-> "string", min |-> min, max |-> max, pattern |-> pattern]
BoolS == [kind |-> "bool"]
PatternS == [kind |-> "pattern"]
AnyS == [kind |-> "any"]
EnumIntS(values, units) == [kind |-> "enum_int", values |-> values, units |-> units]
EnumStrS(values, typed) == [kind |-> "enum_string", values |-> values, typed |-> typed]
ListS(items, min, max, typed) == [kind |-> "list", items |-> items, min |-> min, max |-> max, typed |-> typed]
MapS(keys, values, min, max, typed) ==
    [kind |-> "map", keys |-> keys, values |-> values, min |-> min, max |-> max, typed |-> typed]

ScalarKinds == {"int", "float", "string", "bool", "pattern", "enum_int", "enum_string", "any"}
ContainerKinds == {"list", "map"}
SchemaKinds == ScalarKinds \cup ContainerKinds
MapKeyKinds == {"string", "int", "enum_string", "enum_int"}   \* NewMapSchema panics on others (documented)

Range(s) == {s[i] : i \in DOMAIN s}
Distinct(s) == \A i, j \in DOMAIN s : i # j => s[i] # s[j]
OrderedOpt(min, max) == (min.some /\ max.some) => min.v <= max.v
NonNegOpt(o) == o.some => o.v >= 0

\* ------------------------------------------------------------------ well-formedness
\* Mis-built schemas are outside every property (the SDK documents that mis-building a
\* schema in Go code panics or is undefined): generators produce WF schemas only.
RECURSIVE WF(_)
WF(s) ==
    CASE s.kind = "int" ->
            /\ OrderedOpt(s.min, s.max)
            /\ (s.min.some => FitsI64(s.min.v)) /\ (s.max.some => FitsI64(s.max.v))
            /\ (s.units.some => s.units.v \in UnitIds)
      [] s.kind = "float" -> OrderedOpt(s.min, s.max) /\ (s.units.some => s.units.v \in UnitIds)
      [] s.kind = "string" ->
            /\ OrderedOpt(s.min, s.max) /\ NonNegOpt(s.min) /\ NonNegOpt(s.max)
            /\ (s.pattern.some => s.pattern.v \in PatternIds)
      [] s.kind \in {"bool", "pattern", "any"} -> TRUE
      [] s.kind = "enum_int" ->
            /\ Distinct(s.values) /\ (\A i \in DOMAIN s.values : FitsI64(s.values[i]))
            /\ (s.units.some => s.units.v \in UnitIds)
      [] s.kind = "enum_string" ->
            /\ Distinct(s.values) /\ (\A i \in DOMAIN s.values : s.values[i] \in TokIds /\ ~Tok[s.values[i]].sym)
            /\ s.typed \in BOOLEAN
      [] s.kind = "list" ->
            /\ OrderedOpt(s.min, s.max) /\ NonNegOpt(s.min) /\ NonNegOpt(s.max) /\ WF(s.items)
      [] s.kind = "map" ->
            /\ OrderedOpt(s.min, s.max) /\ NonNegOpt(s.min) /\ NonNegOpt(s.max)
            /\ s.keys.kind \in MapKeyKinds /\ WF(s.keys) /\ WF(s.values)

RECURSIVE Depth(_)
Depth(s) ==
    CASE s.kind \in ScalarKinds -> 1
      [] s.kind = "list" -> 1 + Depth(s.items)
      [] s.kind = "map" -> 1 + (IF Depth(s.keys) > Depth(s.values) THEN Depth(s.keys) ELSE Depth(s.values))

\* ------------------------------------------------------------------ bounded generators
\* Option sets
OptOf(A) == {None} \cup {Some(x) : x \in A}
\* all (min, max) pairs over a bound set with min <= max where both are set
BoundPairs(A) == {p \in OptOf(A) \X OptOf(A) : OrderedOpt(p[1], p[2])}

\* sequences over S of length 0..n
SeqsUpTo(A, n) == UNION {[1..m -> A] : m \in 0..n}

IntSchemas(pairs, unitOpts) == {IntS(p[1], p[2], u) : p \in pairs, u \in unitOpts}
FloatSchemas(pairs, unitOpts) == {FloatS(p[1], p[2], u) : p \in pairs, u \in unitOpts}
StringSchemas(pairs, patOpts) == {StringS(p[1], p[2], pt) : p \in pairs, pt \in patOpts}
ListSchemas(items, pairs, typedSet) == {ListS(i, p[1], p[2], t) : i \in items, p \in pairs, t \in typedSet}
MapSchemas(keys, values, pairs, typedSet) ==
    {MapS(k, w, p[1], p[2], t) : k \in keys, w \in values, p \in pairs, t \in typedSet}
=============================================================================
