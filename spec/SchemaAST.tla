----------------------------- MODULE SchemaAST -----------------------------
(***************************************************************************)
(* Schema constructors as records (DESIGN appendix A).  One record shape   *)
(* per public constructor of /repo/schema; the harness (concretize.Build)  *)
(* turns a record into a real schema through exactly that constructor.     *)
(*                                                                         *)
(*   [kind |-> "int",   min, max : Opt(n),  units : Opt("sec")]   NewIntSchema        *)
(*   [kind |-> "float", min, max : Opt(h),  units : Opt("sec")]   NewFloatSchema (half units) *)
(*   [kind |-> "string", min, max : Opt(len), pattern : Opt(PatternId)]  NewStringSchema *)
(*   [kind |-> "bool"]  [kind |-> "pattern"]  [kind |-> "any"]                        *)
(*   [kind |-> "enum_int", values : <<n..>>, units : Opt]          NewIntEnumSchema    *)
(*   [kind |-> "enum_string", values : <<tok..>>, typed : BOOLEAN] NewStringEnumSchema / *)
(*                                                   NewTypedStringEnumSchema[NamedStr] *)
(*   [kind |-> "list", items, min, max : Opt(size), typed]  NewListSchema / NewTypedListSchema[T] *)
(*   [kind |-> "map", keys, values, min, max, typed]        NewMapSchema / NewTypedMapSchema[K,V] *)
(*                                                                         *)
(* "typed" selects the generic constructor where the harness' catalogue    *)
(* has the instantiation (otherwise the untyped one is used and counted);  *)
(* it never changes the expected outcome - the typed entry points are      *)
(* required to agree with the untyped ones.                                *)
(*                                                                         *)
(* Objects, one-of, references, scopes (stage 2):                          *)
(*   [kind |-> "object", id, props : <<Prop..>>, layout, typed]            *)
(*        layout "map": NewObjectSchema; otherwise a LayoutId of the       *)
(*        harness catalogue: NewStructMappedObjectSchema[T] (typed:        *)
(*        NewTypedObject[T])                                               *)
(*   Prop = [name, type : Schema, required, required_if, required_if_not,  *)
(*           conflicts : <<name..>>, default : Opt(raw value - the decoded *)
(*           JSON text), disabled, empty_is_default]   NewPropertySchema   *)
(*   [kind |-> "oneof", disc : "string"|"int", field, inlined,             *)
(*    members : <<<<key, object|ref>>..>>]  NewOneOfStringSchema/IntSchema *)
(*   [kind |-> "ref", id]                   NewRefSchema (own namespace)   *)
(*   [kind |-> "scope", root : id, objects : <<object..>>] NewScopeSchema  *)
(* Every CASE over kinds in SchemaSem / SchemaDecl lists all of them (no   *)
(* OTHER), so a forgotten arm is a TLC evaluation error.                   *)
(*                                                                         *)
(* References are given meaning by UNFOLDING: the operations on a scope    *)
(* are the operations on its root object with every reference replaced by  *)
(* the referenced object, as deep as the argument can reach (Unfold).      *)
(* That references behave like the inlined object is C14's property; here  *)
(* it is the definition, and the harness builds the real NewScopeSchema /  *)
(* NewRefSchema from the un-unfolded AST.                                  *)
(***************************************************************************)
EXTENDS Values, Strings

UnitIds == {"sec", "bytes", "nanos"}   \* UnitDurationSeconds, UnitBytes, UnitDurationNanoseconds

IntS(min, max, units) == [kind |-> "int", min |-> min, max |-> max, units |-> units]
FloatS(min, max, units) == [kind |-> "float", min |-> min, max |-> max, units |-> units]
StringS(min, max, pattern) == [kind |-> "string", min |-> min, max |-> max, pattern |-> pattern]
BoolS == [kind |-> "bool"]
PatternS == [kind |-> "pattern"]
AnyS == [kind |-> "any"]
EnumIntS(values, units) == [kind |-> "enum_int", values |-> values, units |-> units]
EnumStrS(values, typed) == [kind |-> "enum_string", values |-> values, typed |-> typed]
ListS(items, min, max, typed) == [kind |-> "list", items |-> items, min |-> min, max |-> max, typed |-> typed]
MapS(keys, values, min, max, typed) ==
    [kind |-> "map", keys |-> keys, values |-> values, min |-> min, max |-> max, typed |-> typed]

PropS(name, type, req, rif, rifn, confl, def, dis, eid) ==
    [name |-> name, type |-> type, required |-> req, required_if |-> rif, required_if_not |-> rifn,
     conflicts |-> confl, default |-> def, disabled |-> dis, empty_is_default |-> eid]
\* a property with a display name (NewDisplayValue); the semantics never looks at it - error reporting does (C17)
PropD(name, type, req, display) ==
    [name |-> name, type |-> type, required |-> req, required_if |-> <<>>, required_if_not |-> <<>>,
     conflicts |-> <<>>, default |-> None, disabled |-> FALSE, empty_is_default |-> FALSE, display |-> display]
\* a plain optional / required property
Prop(name, type, req) == PropS(name, type, req, <<>>, <<>>, <<>>, None, FALSE, FALSE)
ObjectS(id, props, layout, typed) == [kind |-> "object", id |-> id, props |-> props, layout |-> layout, typed |-> typed]
OneOfS(disc, field, inlined, members) == [kind |-> "oneof", disc |-> disc, field |-> field, inlined |-> inlined, members |-> members]
RefS(id) == [kind |-> "ref", id |-> id]
ScopeS(root, objects) == [kind |-> "scope", root |-> root, objects |-> objects]
RefCut == [kind |-> "refcut"]     \* a reference below the depth any argument reaches (Unfold)

ScalarKinds == {"int", "float", "string", "bool", "pattern", "enum_int", "enum_string", "any"}
ContainerKinds == {"list", "map"}
ObjectKinds == {"object", "oneof", "ref", "scope"}
SchemaKinds == ScalarKinds \cup ContainerKinds \cup ObjectKinds

\* ------------------------------------------------------------------ struct layouts (harness/catalog)
\* A layout is a Go struct type (and whether the schema's type parameter is the struct or a
\* pointer to it); a property NAME selects the field, so within a struct-mapped object the name
\* fixes the Go type of the property:
\*   fk  int | string | bool | float | named (a defined string type) | list_int | list_string |
\*       map_string_int | any | sub (a Sub struct by value) | subp (a pointer to a Sub struct)
\*   ptr the field is a pointer to that type (nil = absent)
\* Checked against the real struct types at harness start-up (bind vector).
Fld(name, fk, ptr) == [name |-> name, fk |-> fk, ptr |-> ptr]
WideFields(ptr) ==
    << Fld("a", "int", ptr), Fld("b", "string", ptr), Fld("c", "bool", ptr), Fld("f", "float", ptr), Fld("e", "named", ptr),
       Fld("l", "list_int", FALSE), Fld("ls", "list_string", FALSE), Fld("m", "map_string_int", FALSE), Fld("x", "any", FALSE),
       Fld("s", "sub", FALSE), Fld("sp", "subp", FALSE) >>
Layouts ==
    [ wide   |-> [recv |-> "value", fields |-> WideFields(FALSE)],          \* catalog.Wide
      wide_p |-> [recv |-> "pointer", fields |-> WideFields(FALSE)],        \* *catalog.Wide
      ptrs   |-> [recv |-> "value", fields |-> WideFields(TRUE)],           \* catalog.Ptrs (pointer fields)
      notag  |-> [recv |-> "value", fields |-> << Fld("A", "int", FALSE), Fld("B", "string", FALSE) >>],   \* catalog.NoTag
      sub    |-> [recv |-> "value", fields |-> << Fld("a", "int", FALSE), Fld("b", "string", FALSE) >>],   \* catalog.Sub
      sub_p  |-> [recv |-> "pointer", fields |-> << Fld("a", "int", FALSE), Fld("b", "string", FALSE) >>], \* *catalog.Sub
      subptrs |-> [recv |-> "value", fields |-> << Fld("a", "int", TRUE), Fld("b", "string", TRUE) >>],   \* catalog.SubPtrs
      outer  |-> [recv |-> "value", fields |-> << Fld("a", "int", FALSE), Fld("w", "wide", FALSE) >>],   \* catalog.Outer (a Wide by value)
      \* catalog.Strs: string properties backed by []byte / []rune / a defined string type
      strs   |-> [recv |-> "value", fields |-> << Fld("b", "string_bytes", FALSE), Fld("r", "string_runes", FALSE), Fld("e", "named", FALSE), Fld("a", "int", FALSE) >>],
      \* catalog.Opts: a map-based sub-object held by value in a field of type map[string]any (fk "objmap")
      opts   |-> [recv |-> "value", fields |-> << Fld("a", "int", FALSE), Fld("o", "objmap", FALSE) >>] ]
LayoutIds == DOMAIN Layouts
FieldOf(layout, name) ==
    LET fs == Layouts[layout].fields IN fs[CHOOSE i \in DOMAIN fs : fs[i].name = name]
RecvOf(t) == IF t.layout = "map" THEN "map" ELSE Layouts[t.layout].recv
HasField(layout, name) == \E i \in DOMAIN Layouts[layout].fields : Layouts[layout].fields[i].name = name
MapKeyKinds == {"string", "int", "enum_string", "enum_int"}   \* NewMapSchema panics on others (documented)

Range(s) == {s[i] : i \in DOMAIN s}
Distinct(s) == \A i, j \in DOMAIN s : i # j => s[i] # s[j]
OrderedOpt(min, max) == (min.some /\ max.some) => min.v <= max.v
NonNegOpt(o) == o.some => o.v >= 0

\* ------------------------------------------------------------------ well-formedness
\* Mis-built schemas are outside every property (the SDK documents that mis-building a
\* schema in Go code panics or is undefined): generators produce WF schemas only.
\* a field that can hold "nothing" (nil pointer / nil interface)
Nullable(f) == f.ptr \/ f.fk \in {"any", "subp"}
\* which schema a struct field of kind fk can hold
RECURSIVE FieldFits(_, _)
FieldFits(fk, t) ==
    CASE fk = "int" -> t.kind \in {"int", "enum_int"}
      [] fk = "string" -> t.kind = "string" \/ (t.kind = "enum_string" /\ ~t.typed)
      [] fk = "bool" -> t.kind = "bool"
      [] fk = "float" -> t.kind = "float"
      [] fk = "named" -> (t.kind = "enum_string" /\ t.typed) \/ t.kind = "string"
      [] fk \in {"string_bytes", "string_runes"} -> t.kind = "string"
      [] fk = "list_int" -> t.kind = "list" /\ t.items.kind = "int"
      [] fk = "list_string" -> t.kind = "list" /\ t.items.kind = "string"
      [] fk = "map_string_int" -> t.kind = "map" /\ t.keys.kind = "string" /\ t.values.kind = "int"
      [] fk = "any" -> t.kind \in {"any", "oneof", "ref"} \/ (t.kind = "object" /\ t.layout = "map")
                       \/ (t.kind = "scope" /\ \A i \in DOMAIN t.objects : t.objects[i].layout = "map")    \* a nested scope of map-based objects
      [] fk = "objmap" -> (t.kind = "object" /\ t.layout = "map") \/ (t.kind = "scope" /\ \A i \in DOMAIN t.objects : t.objects[i].layout = "map")
      [] fk = "sub" -> t.kind = "ref" \/ (t.kind = "object" /\ t.layout = "sub")
      [] fk = "subp" -> t.kind = "ref" \/ (t.kind = "object" /\ t.layout \in {"sub", "sub_p"})
      [] fk = "wide" -> t.kind = "object" /\ t.layout = "wide"

\* ids referenced below a schema
RECURSIVE RefsIn(_)
RefsIn(s) ==
    CASE s.kind \in ScalarKinds -> {}
      [] s.kind = "list" -> RefsIn(s.items)
      [] s.kind = "map" -> RefsIn(s.keys) \cup RefsIn(s.values)
      [] s.kind = "object" -> UNION {RefsIn(s.props[i].type) : i \in DOMAIN s.props}
      [] s.kind = "oneof" -> UNION {RefsIn(s.members[i][2]) : i \in DOMAIN s.members}
      [] s.kind = "ref" -> {s.id}
      [] s.kind = "scope" -> {}
      [] s.kind = "refcut" -> {}

RECURSIVE WF(_)
WFObject(s) ==
    LET names == {s.props[i].name : i \in DOMAIN s.props} IN
    /\ \A i, j \in DOMAIN s.props : i # j => s.props[i].name # s.props[j].name
    /\ \A i \in DOMAIN s.props :
          LET p == s.props[i] IN
          /\ WF(p.type)
          /\ p.name \in TokIds
          \* rule lists name OTHER properties of the same object
          /\ Range(p.required_if) \cup Range(p.required_if_not) \cup Range(p.conflicts) \subseteq names \ {p.name}
          /\ Distinct(p.required_if) /\ Distinct(p.required_if_not) /\ Distinct(p.conflicts)
          \* struct-mapped: the named field exists and can hold the property's type
          /\ s.layout # "map" => HasField(s.layout, p.name) /\ FieldFits(FieldOf(s.layout, p.name).fk, p.type)
          \* caveat (ii) of DESIGN 3: a by-value field cannot represent absence, so a property that can
          \* be absent after defaulting is a pointer / nil-able field or treats its empty value as absence
          /\ (s.layout # "map" /\ ~Nullable(FieldOf(s.layout, p.name)))
                => (p.required \/ p.default.some \/ p.empty_is_default \/ (FieldOf(s.layout, p.name).fk \in {"sub", "wide", "objmap"} /\ p.type.kind # "scope"))
          \* (an absent object-typed member held by value is rebuilt from its own defaults; a SCOPE-typed one is not: left
          \* out, its by-value field reads back as an empty mapping, which is not what was unserialized)
    /\ s.layout \in {"map"} \cup LayoutIds
WF(s) ==
    CASE s.kind = "int" ->
            /\ OrderedOpt(s.min, s.max)
            /\ (s.min.some => FitsI64(s.min.v)) /\ (s.max.some => FitsI64(s.max.v))
            /\ (s.units.some => s.units.v \in UnitIds)
      [] s.kind = "float" -> OrderedOpt(s.min, s.max) /\ (s.units.some => s.units.v \in UnitIds)
      [] s.kind = "string" ->
            /\ OrderedOpt(s.min, s.max) /\ NonNegOpt(s.min) /\ NonNegOpt(s.max)
            /\ (s.pattern.some => s.pattern.v \in PatternIds)
      [] s.kind \in {"bool", "pattern", "any"} -> TRUE
      [] s.kind = "enum_int" ->
            /\ Distinct(s.values) /\ (\A i \in DOMAIN s.values : FitsI64(s.values[i]))
            /\ (s.units.some => s.units.v \in UnitIds)
      [] s.kind = "enum_string" ->
            /\ Distinct(s.values) /\ (\A i \in DOMAIN s.values : s.values[i] \in TokIds /\ ~Tok[s.values[i]].sym)
            /\ s.typed \in BOOLEAN
      [] s.kind = "list" ->
            /\ OrderedOpt(s.min, s.max) /\ NonNegOpt(s.min) /\ NonNegOpt(s.max) /\ WF(s.items)
      [] s.kind = "map" ->
            /\ OrderedOpt(s.min, s.max) /\ NonNegOpt(s.min) /\ NonNegOpt(s.max)
            /\ s.keys.kind \in MapKeyKinds /\ WF(s.keys) /\ WF(s.values)
      [] s.kind = "object" -> WFObject(s)
      [] s.kind = "oneof" ->
            /\ s.disc \in {"string", "int"} /\ Len(s.members) >= 1
            /\ \A i, j \in DOMAIN s.members : i # j => s.members[i][1] # s.members[j][1]
            /\ \A i \in DOMAIN s.members : s.members[i][2].kind \in {"object", "ref"} /\ WF(s.members[i][2])
            \* construction-time agreement (oneof.go:409; panics otherwise - documented): inlined <=> every
            \* member declares the discriminator field, of the discriminator's kind
            /\ \A i \in DOMAIN s.members : s.members[i][2].kind = "object" =>
                    LET m == s.members[i][2]
                        has == \E j \in DOMAIN m.props : m.props[j].name = s.field
                    IN /\ has = s.inlined
                       /\ \A j \in DOMAIN m.props : m.props[j].name = s.field =>
                              m.props[j].type.kind \in (IF s.disc = "int" THEN {"int", "enum_int"} ELSE {"string", "enum_string"})
            \* struct-mapped members are told apart by their Go type
            /\ \A i, j \in DOMAIN s.members :
                    (i # j /\ s.members[i][2].kind = "object" /\ s.members[j][2].kind = "object" /\ s.members[i][2].layout # "map")
                        => s.members[i][2].layout # s.members[j][2].layout
      [] s.kind = "ref" -> TRUE                \* linked by the enclosing scope (WFScope)
      [] s.kind = "refcut" -> TRUE
      [] s.kind = "scope" ->
            /\ \A i \in DOMAIN s.objects : s.objects[i].kind = "object" /\ WF(s.objects[i])
            /\ \A i, j \in DOMAIN s.objects : i # j => s.objects[i].id # s.objects[j].id
            /\ \E i \in DOMAIN s.objects : s.objects[i].id = s.root
            /\ \A i \in DOMAIN s.objects : RefsIn(s.objects[i]) \subseteq {s.objects[j].id : j \in DOMAIN s.objects}

RECURSIVE Depth(_)
Depth(s) ==
    CASE s.kind \in ScalarKinds -> 1
      [] s.kind = "list" -> 1 + Depth(s.items)
      [] s.kind = "map" -> 1 + (IF Depth(s.keys) > Depth(s.values) THEN Depth(s.keys) ELSE Depth(s.values))
      [] s.kind = "object" -> 1 + MaxOver([i \in 1..Len(s.props) |-> Depth(s.props[i].type)], Len(s.props))
      [] s.kind = "oneof" -> 1 + MaxOver([i \in 1..Len(s.members) |-> Depth(s.members[i][2])], Len(s.members))
      [] s.kind \in {"ref", "refcut"} -> 1
      [] s.kind = "scope" -> 1 + MaxOver([i \in 1..Len(s.objects) |-> Depth(s.objects[i])], Len(s.objects))

\* ------------------------------------------------------------------ references
\* the object a reference denotes in a scope's table
ObjById(objs, id) == objs[CHOOSE i \in DOMAIN objs : objs[i].id = id]
\* replace every reference by the referenced object, d levels of references deep
RECURSIVE UnfoldIn(_, _, _)
UnfoldIn(objs, s, d) ==
    CASE s.kind \in ScalarKinds -> s
      [] s.kind = "list" -> [s EXCEPT !.items = UnfoldIn(objs, s.items, d)]
      [] s.kind = "map" -> [s EXCEPT !.keys = UnfoldIn(objs, s.keys, d), !.values = UnfoldIn(objs, s.values, d)]
      [] s.kind = "object" ->
            [s EXCEPT !.props = [i \in DOMAIN s.props |-> [s.props[i] EXCEPT !.type = UnfoldIn(objs, s.props[i].type, d)]]]
      [] s.kind = "oneof" ->
            [s EXCEPT !.members = [i \in DOMAIN s.members |-> <<s.members[i][1], UnfoldIn(objs, s.members[i][2], d)>>]]
      [] s.kind = "ref" -> IF d = 0 THEN RefCut ELSE UnfoldIn(objs, ObjById(objs, s.id), d - 1)
      [] s.kind = "scope" -> UnfoldIn(s.objects, ObjById(s.objects, s.root), d)     \* an inner scope has its own table
      [] s.kind = "refcut" -> s
\* a scope as seen by an argument of nesting depth n: every level of the argument can pass through a chain
\* of single-property inline shorthands, which visits every object of the scope at most once if it ends
Unfold(scope, n) == UnfoldIn(scope.objects, ObjById(scope.objects, scope.root), (n + 1) * (Len(scope.objects) + 1))

\* ------------------------------------------------------------------ bounded generators
\* Option sets
OptOf(A) == {None} \cup {Some(x) : x \in A}
\* all (min, max) pairs over a bound set with min <= max where both are set
BoundPairs(A) == {p \in OptOf(A) \X OptOf(A) : OrderedOpt(p[1], p[2])}

\* sequences over S of length 0..n
SeqsUpTo(A, n) == UNION {[1..m -> A] : m \in 0..n}

IntSchemas(pairs, unitOpts) == {IntS(p[1], p[2], u) : p \in pairs, u \in unitOpts}
FloatSchemas(pairs, unitOpts) == {FloatS(p[1], p[2], u) : p \in pairs, u \in unitOpts}
StringSchemas(pairs, patOpts) == {StringS(p[1], p[2], pt) : p \in pairs, pt \in patOpts}
ListSchemas(items, pairs, typedSet) == {ListS(i, p[1], p[2], t) : i \in items, p \in pairs, t \in typedSet}
MapSchemas(keys, values, pairs, typedSet) ==
    {MapS(k, w, p[1], p[2], t) : k \in keys, w \in values, p \in pairs, t \in typedSet}
=============================================================================
