-------------------------------- MODULE Meta --------------------------------
(***************************************************************************)
(* C09 / C10.  The SDK's meta-schema (schema/schema_schema.go) transcribed  *)
(* independently of the Go property tables, as operators over abstract      *)
(* description trees:                                                       *)
(*                                                                          *)
(*   Describe*(s)   abstract schema AST  ->  description tree (what         *)
(*                  SelfSerialize has to emit)                              *)
(*   Acc(t, n)      does the meta type t accept the tree n  (MetaAccepts)   *)
(*   Norm(t, n)     the accepted tree with lenient conversions applied and  *)
(*                  declared defaults filled in                             *)
(*   To*(n)         normalised tree -> AST                 (Rebuild, part 1)*)
(*   Link*(..)      the link step (ApplyNamespace)         (Rebuild, part 2)*)
(*   Use*(..)       what the first use touches: root lookup, lazily decoded *)
(*                  defaults                               (Rebuild, part 3)*)
(*   Usable*(..)    the declarative reading of "fully usable" (C10)         *)
(*                                                                          *)
(* A ROOT module must define FieldOrder first (tag fields first): TLC        *)
(* orders record fields by first occurrence in the root module.             *)
(*                                                                          *)
(* Abstractions.  Strings are tokens (TLC has no string operations);        *)
(* floats are counted in halves (F(3) is 1.5); integers come with a         *)
(* representation tag because transports change it; unordered Go maps are   *)
(* sets of entries.  IntBoundsNonNeg / EnumKeys select between the pinned    *)
(* tables and the design the property demands (see MetaMC).                 *)
(***************************************************************************)
EXTENDS Integers, Sequences, FiniteSets, TLC

CONSTANTS IntBoundsNonNeg,   \* TRUE: Int.min / Int.max must be >= 0 (the pinned table); FALSE: any integer
          EnumKeys           \* TRUE: map keys may be enums (what the map constructor allows); FALSE: pinned table

None    == [some |-> FALSE]
Some(x) == [some |-> TRUE, v |-> x]

(* ------------------------------------------------------------------------ *)
(* description trees                                                        *)
(* ------------------------------------------------------------------------ *)
S(s)   == [k |-> "str", v |-> s]
N(n)   == [k |-> "num", v |-> n, rep |-> "i"]      \* integer n
F(h)   == [k |-> "num", v |-> h, rep |-> "f"]      \* float h/2
B(b)   == [k |-> "bool", v |-> b]
Nil    == [k |-> "nil"]
L(q)   == [k |-> "list", v |-> q]                  \* q: sequence of trees
M(es)  == [k |-> "map", v |-> es]                  \* es: set of entries, keys pairwise different
E(key, val) == [key |-> key, val |-> val]
\* The description of one of the SDK's package-level unit sets (UnitDurationNanoseconds, ...), as ONE token:
\* its multipliers (10^9 * 86400, 2^50) are beyond TLC's integers, and nothing here looks inside it.  The
\* harness expands the token to the real description and recognises the real description as the token.
PU(x)  == [k |-> "pkgunits", v |-> x]
PkgUnitNames == {"nanos", "seconds", "bytes", "chars", "pct"}

Has(m, s) == \E e \in m.v : e.key = S(s)
Get(m, s) == (CHOOSE e \in m.v : e.key = S(s)).val
Without(m, s) == M({e \in m.v : e.key # S(s)})
Range(q) == {q[i] : i \in DOMAIN q}

(* ------------------------------------------------------------------------ *)
(* token tables (checked against the real code by the harness at start-up)  *)
(* ------------------------------------------------------------------------ *)
NumPool   == -5..16 \cup {60, 1024}
HalfPool  == -8..34
IntOfStr  == [s \in {ToString(n) : n \in NumPool} |-> CHOOSE n \in NumPool : ToString(n) = s]
FloatToks == {"%f:" \o ToString(h) : h \in HalfPool}     \* the %f rendering of h/2, e.g. "1.500000"
\* Every string of the universe is a token; the tables list the tokens with the attribute, every other
\* token lacks it.  (MetaMC exports the attributes of every token in use; the harness compares them
\* with regexp, encoding/json and strconv.)
\* Property NAMES are a value class of their own: the meta-schema keys Object.properties by a string of at
\* least one byte - not by an identifier -, so a name may contain anything.  The partition (one token per
\* class) lives here; MetaMC and the random generator of the harness draw property names from it.
LongName == "nnnnnnnnnnnnnnnnnnnnnnnnnnnnnnnnnnnnnnnnnnnnnnnnnnnnnnnnnnnnnnnnnnnnnnnnnnnnnnnnnnnnnnnnnnnnnnnnnnnnnnnnnnnnnnnnnnnnnnnnnnnnnnnnnnnnnnnnnnnnnnnnnnnnnnnnnnnnnnnnnnnnnnnnnnnnnnnnnnnnnnnnnnnnnnnnnnnnnnnnnnnnnnnnnnnnnnnnnnnnnnnnnnnnnnnnnnnnnnnnnnnnnnnnnnnnnnnnnnnnnnnnnnnnnnnnnnnnnnnnnnnnnnnnnnnnnnnnnnnn"        \* 300 bytes: beyond the 255 an identifier may have
PropNameClass == [ident |-> "p", space |-> "max retries", dot |-> "a.b", dotslash |-> "app.kubernetes.io/name",
                  dash |-> "x-y", nonascii |-> "é", long |-> LongName, empty |-> ""]
PropNames   == {PropNameClass[c] : c \in DOMAIN PropNameClass}
NameOK(s)   == s # ""                    \* what the meta-schema demands of a property name
BadIds    == {"", "a b", "a.b", "\"ab\"", "\"x\"", "a\"b", "[]", "{}", "{", "(", "[a", "^a", ".",
              "max retries", "app.kubernetes.io/name", "é", LongName}
                                         \* tokens idType rejects (length 1..255, ^[$@a-zA-Z0-9-_]+$)
BadPats   == {"(", "[a", "[]"}           \* tokens that do not compile as a regular expression
TrueWords == {"1", "yes", "y", "on", "true", "enable", "enabled"}
FalseWords == {"0", "no", "n", "off", "false", "disable", "disabled"}
\* JSON texts (property defaults).  JsonOK: json.Unmarshal accepts the text; QuotedOK: it does after
\* wrapping the text in double quotes (the retry the SDK makes for string-typed properties).
JsonGood  == {"true", "false", "null", "[]", "{}", "\"ab\"", "\"x\""} \cup DOMAIN IntOfStr \cup FloatToks
QuoteBad  == {"a\"b", "\"ab\"", "\"x\""}
JsonOK(tok)   == tok \in JsonGood
QuotedOK(tok) == tok \notin QuoteBad

\* Quantities written as text, by grammar: what the original and the rebuilt schema are fed for a number
\* with units (the harness adds the spellings it derives from the unit names of the schema at hand).  A unit
\* set rebuilt from its description is a fresh value with the same contents, so both must read every token
\* alike - in particular the ones only ANOTHER duration grammar (Go's time.ParseDuration) understands.
UnitTokenClass ==
    [both_grammars |-> {"5m30s", "250ms", "10s", "1m", "0s"},
     sdk_only      |-> {"1H", "2d", "1d2H3m4s", "90 seconds", "1 minute", "1H 30m", "5", "5ns"},
     go_only       |-> {"1h", "1h30m", "1.5s", "30s5m", "-5s", "1.5h", "+5s", "1us", "1µs", ".5s", "1m1m", "1h0m0.5s", "1e3s"},
     other_units   |-> {"5kB", "1MB", "2 GB", "1TB1kB", "5B", "5%", "3 chars", "1 char", "1.5MB"},
     junk          |-> {"5x", "h", "1 h 30", "s5", "--5s", "5m 30"}]
UnitTokens == UNION {UnitTokenClass[c] : c \in DOMAIN UnitTokenClass}

(* ------------------------------------------------------------------------ *)
(* the fixed lenient conversions, on atoms                                  *)
(* ------------------------------------------------------------------------ *)
CanInt(n) == \/ n.k = "num" /\ (n.rep = "f" => n.v % 2 = 0)
             \/ n.k = "bool"
             \/ n.k = "str" /\ n.v \in DOMAIN IntOfStr
IntOf(n)  == CASE n.k = "num"  -> (IF n.rep = "f" THEN n.v \div 2 ELSE n.v)
               [] n.k = "bool" -> (IF n.v THEN 1 ELSE 0)
               [] n.k = "str"  -> IntOfStr[n.v]
CanFloat(n) == n.k \in {"num", "bool"} \/ (n.k = "str" /\ n.v \in DOMAIN IntOfStr)
HalfOf(n) == CASE n.k = "num"  -> (IF n.rep = "f" THEN n.v ELSE 2 * n.v)
               [] n.k = "bool" -> (IF n.v THEN 2 ELSE 0)
               [] n.k = "str"  -> 2 * IntOfStr[n.v]
CanStr(n) == n.k \in {"str", "num"}
\* floats are rendered with %f ("1.500000"): an opaque token that is neither an id nor a known word
StrOf(n)  == IF n.k = "str" THEN n.v
             ELSE IF n.rep = "f" THEN "%f:" \o ToString(n.v) ELSE ToString(n.v)
IsFloatTok(s) == s \in FloatToks
CanBool(n) == \/ n.k = "bool"
              \/ n.k = "num" /\ n.rep # "f" /\ n.v \in {0, 1}
              \/ n.k = "str" /\ n.v \in TrueWords \cup FalseWords
BoolOf(n) == CASE n.k = "bool" -> n.v
               [] n.k = "num"  -> n.v = 1
               [] n.k = "str"  -> n.v \in TrueWords
IdAcc(n)  == CanStr(n) /\ ~IsFloatTok(StrOf(n)) /\ StrOf(n) \notin BadIds

(* ------------------------------------------------------------------------ *)
(* the meta-schema: meta types and the field tables of the meta objects     *)
(* ------------------------------------------------------------------------ *)
T0(t)             == [mt |-> t]
TObj(name)        == [mt |-> "obj", mn |-> name]
TListOf(it)       == [mt |-> "list", mv |-> it]
TMapOf(kt, vt, m) == [mt |-> "map", mk |-> kt, mv |-> vt, mmin |-> m]
TOne(which)       == [mt |-> "oneof", mn |-> which]

Fld(n, t, req, def) == [name |-> n, type |-> t, req |-> req, def |-> def]
Opt_(n, t)   == Fld(n, t, FALSE, None)
Req_(n, t)   == Fld(n, t, TRUE, None)
DisplayFld   == Opt_("display", TObj("Display"))
UnitsFld     == Opt_("units", TObj("Units"))
StrList      == TListOf(T0("str"))
ScopeT       == TObj("Scope")

\* type_id -> meta object, for the three one-of types of the meta-schema
ValueMembers ==
    [any |-> "AnySchema", bool |-> "BoolSchema", enum_integer |-> "IntEnum", enum_string |-> "StringEnum",
     float |-> "Float", integer |-> "Int", list |-> "List", map |-> "Map", object |-> "Object",
     one_of_int |-> "OneOfIntSchema", one_of_string |-> "OneOfStringSchema", pattern |-> "Pattern",
     ref |-> "Ref", scope |-> "Scope", string |-> "String"]
KeyMembers ==
    IF EnumKeys THEN [integer |-> "Int", string |-> "String", enum_integer |-> "IntEnum", enum_string |-> "StringEnum"]
    ELSE [integer |-> "Int", string |-> "String"]
ObjMembers == [ref |-> "Ref", scope |-> "Scope", object |-> "Object"]
Members(which) == CASE which = "value"  -> ValueMembers
                    [] which = "mapkey" -> KeyMembers
                    [] which = "member" -> ObjMembers

FieldsDef(o) ==
    CASE o = "BoolSchema" -> {}
      [] o = "AnySchema"  -> {}
      [] o = "Pattern"    -> {}
      [] o = "Display"    -> {Opt_("name", T0("str1")), Opt_("description", T0("str1")), Opt_("icon", T0("str1"))}
      [] o = "Float"      -> {Opt_("min", T0("float")), Opt_("max", T0("float")), UnitsFld}
      [] o = "Int"        -> {Opt_("min", T0("intbound")), Opt_("max", T0("intbound")), UnitsFld}
      [] o = "String"     -> {Opt_("min", T0("nat")), Opt_("max", T0("nat")), Opt_("pattern", T0("pattern"))}
      [] o = "IntEnum"    -> {Req_("values", TMapOf(T0("int"), TObj("Display"), 1)), UnitsFld}
      [] o = "StringEnum" -> {Req_("values", TMapOf(T0("str"), TObj("Display"), 1))}
      [] o = "List"       -> {Req_("items", TOne("value")), Opt_("min", T0("nat")), Opt_("max", T0("nat"))}
      [] o = "Map"        -> {Req_("keys", TOne("mapkey")), Req_("values", TOne("value")),
                              Opt_("min", T0("nat")), Opt_("max", T0("nat"))}
      [] o = "Object"     -> {Req_("id", T0("id")), Req_("properties", TMapOf(T0("str1"), TObj("Property"), 0)),
                              Fld("id_unenforced", T0("bool"), FALSE, Some(B(FALSE)))}
      [] o = "OneOfIntSchema" ->
             {Fld("discriminator_inlined", T0("bool"), TRUE, Some(B(FALSE))),
              Req_("discriminator_field_name", T0("str")),
              Opt_("types", TMapOf(T0("int"), TOne("member"), 0))}
      [] o = "OneOfStringSchema" ->
             {Fld("discriminator_inlined", T0("bool"), TRUE, Some(B(FALSE))),
              Req_("discriminator_field_name", T0("str")),
              Opt_("types", TMapOf(T0("str"), TOne("member"), 0))}
      [] o = "Property"   ->
             {Req_("type", TOne("value")), DisplayFld,
              Fld("required", T0("bool"), FALSE, Some(B(TRUE))),
              Opt_("required_if", StrList), Opt_("required_if_not", StrList), Opt_("conflicts", StrList),
              Opt_("default", T0("str")), Opt_("examples", StrList),
              Opt_("disabled", T0("bool")), Opt_("disabled_reason", T0("str"))}
      [] o = "Ref"        -> {Opt_("id", T0("id")), Fld("namespace", T0("str"), FALSE, Some(S(""))), DisplayFld}
      [] o = "Scope"      -> {Req_("objects", TMapOf(T0("id"), TObj("Object"), 0)), Req_("root", T0("id"))}
      [] o = "Unit"       -> {Req_("name_long_plural", T0("str")), Req_("name_long_singular", T0("str")),
                              Req_("name_short_plural", T0("str")), Req_("name_short_singular", T0("str"))}
      [] o = "Units"      -> {Req_("base_unit", TObj("Unit")),
                              \* a multiplier says how many base units the unit is worth: it is positive
                              Opt_("multipliers", TMapOf(T0("pos"), TObj("Unit"), 0))}
      [] o = "StepOutput" -> {DisplayFld, Fld("error", T0("bool"), FALSE, Some(B(FALSE))), Req_("schema", ScopeT)}
      [] o = "Signal"     -> {DisplayFld, Req_("id", T0("id")), Req_("data_schema", ScopeT)}
      [] o = "Step"       -> {DisplayFld, Req_("id", T0("id")), Req_("input", ScopeT),
                              Req_("outputs", TMapOf(T0("id"), TObj("StepOutput"), 0)),
                              Opt_("signal_handlers", TMapOf(T0("id"), TObj("Signal"), 0)),
                              Opt_("signal_emitters", TMapOf(T0("id"), TObj("Signal"), 0))}
      [] o = "Schema"     -> {Req_("steps", TMapOf(T0("id"), TObj("Step"), 0))}

MetaObjs == {"BoolSchema", "AnySchema", "Pattern", "Display", "Float", "Int", "String", "IntEnum", "StringEnum",
             "List", "Map", "Object", "OneOfIntSchema", "OneOfStringSchema", "Property", "Ref", "Scope",
             "Unit", "Units", "StepOutput", "Signal", "Step", "Schema"}
FieldTab   == [o \in MetaObjs |-> FieldsDef(o)]
Fields(o)  == FieldTab[o]
NameTab    == [o \in MetaObjs |-> {f.name : f \in FieldsDef(o)}]
FieldNames(o) == NameTab[o]

(* ------------------------------------------------------------------------ *)
(* MetaAccepts                                                              *)
(* ------------------------------------------------------------------------ *)
RECURSIVE Acc(_, _)
\* a struct-mapped meta object: a mapping with declared string keys only, every present field accepted by
\* its type, every absent field optional or defaulted
ObjAcc(o, n) ==
    /\ n.k = "map"
    /\ \A e \in n.v : e.key.k = "str" /\ e.key.v \in FieldNames(o)
    /\ \A f \in Fields(o) : IF Has(n, f.name) THEN Acc(f.type, Get(n, f.name))
                             ELSE (f.req => f.def.some)
\* a one-of over type_id (discriminator not inlined): mapping with string keys, type_id converts to a
\* declared member key, the remaining fields form that member
OneAcc(which, n) ==
    /\ n.k = "map"
    /\ Has(n, "type_id")
    /\ CanStr(Get(n, "type_id"))
    /\ \A e \in n.v : e.key.k = "str"
    /\ StrOf(Get(n, "type_id")) \in DOMAIN Members(which)
    /\ ObjAcc(Members(which)[StrOf(Get(n, "type_id"))], Without(n, "type_id"))

Acc(t, n) ==
    CASE t.mt = "id"       -> IdAcc(n)
      [] t.mt = "str"      -> CanStr(n)
      [] t.mt = "str1"     -> CanStr(n) /\ StrOf(n) # ""
      [] t.mt = "int"      -> CanInt(n)
      [] t.mt = "intbound" -> CanInt(n) /\ (IntBoundsNonNeg => IntOf(n) >= 0)
      [] t.mt = "nat"      -> CanInt(n) /\ IntOf(n) >= 0
      [] t.mt = "pos"      -> CanInt(n) /\ IntOf(n) >= 1
      [] t.mt = "float"    -> CanFloat(n)
      [] t.mt = "bool"     -> CanBool(n)
      [] t.mt = "pattern"  -> CanStr(n) /\ StrOf(n) \notin BadPats
      [] t.mt = "list"     -> n.k = "list" /\ \A i \in DOMAIN n.v : Acc(t.mv, n.v[i])
      [] t.mt = "map"      -> /\ n.k = "map"
                              /\ Cardinality(n.v) >= t.mmin
                              /\ \A e \in n.v : Acc(t.mk, e.key) /\ Acc(t.mv, e.val)
      [] t.mt = "obj"      -> (t.mn = "Units" /\ n.k = "pkgunits" /\ n.v \in PkgUnitNames) \/ ObjAcc(t.mn, n)
      [] t.mt = "oneof"    -> OneAcc(t.mn, n)

(* ------------------------------------------------------------------------ *)
(* normal form of an accepted tree: conversions applied, defaults filled    *)
(* ------------------------------------------------------------------------ *)
RECURSIVE Norm(_, _)
ObjNorm(o, n) ==
    M({E(S(f.name), IF Has(n, f.name) THEN Norm(f.type, Get(n, f.name)) ELSE f.def.v) :
          f \in {g \in Fields(o) : Has(n, g.name) \/ g.def.some}})
Norm(t, n) ==
    CASE t.mt \in {"id", "str", "str1", "pattern"} -> S(StrOf(n))
      [] t.mt \in {"int", "intbound", "nat", "pos"} -> N(IntOf(n))
      [] t.mt = "float"  -> F(HalfOf(n))
      [] t.mt = "bool"   -> B(BoolOf(n))
      [] t.mt = "list"   -> L([i \in DOMAIN n.v |-> Norm(t.mv, n.v[i])])
      [] t.mt = "map"    -> M({E(Norm(t.mk, e.key), Norm(t.mv, e.val)) : e \in n.v})
      [] t.mt = "obj"    -> (IF n.k = "pkgunits" THEN n ELSE ObjNorm(t.mn, n))
      [] t.mt = "oneof"  ->
            LET tid == StrOf(Get(n, "type_id"))
            IN M({E(S("type_id"), S(tid))} \cup ObjNorm(Members(t.mn)[tid], Without(n, "type_id")).v)

(* ------------------------------------------------------------------------ *)
(* abstract schema AST                                                      *)
(* ------------------------------------------------------------------------ *)
Disp(n, d, i) == [name |-> n, description |-> d, icon |-> i]
D0 == Disp(None, None, None)
Unit(ss, sp, ls, lp) == [ss |-> ss, sp |-> sp, ls |-> ls, lp |-> lp]
Units(base, mults) == [pkg |-> "", base |-> base, mults |-> mults]   \* mults: set of [m |-> n, unit |-> Unit]
\* one of the package-level unit sets, used BY IDENTITY (the variable itself, not a copy of its contents)
PkgUnits(x) == [pkg |-> x]

TInt(mn, mx, u)    == [kind |-> "int", min |-> mn, max |-> mx, units |-> u]
TFloat(mn, mx, u)  == [kind |-> "float", min |-> mn, max |-> mx, units |-> u]
TString(mn, mx, p) == [kind |-> "string", min |-> mn, max |-> mx, pattern |-> p]
TBool    == [kind |-> "bool"]
TPattern == [kind |-> "pattern"]
TAny     == [kind |-> "any"]
EV(a, d) == [v |-> a, display |-> d]                            \* enum value: atom, Opt(Disp) (None = nil pointer)
TEnumI(vals, u)    == [kind |-> "enum_int", evals |-> vals, units |-> u]
TEnumS(vals, ty)   == [kind |-> "enum_string", evals |-> vals, typed |-> ty]
TList(it, mn, mx, ty)    == [kind |-> "list", items |-> it, min |-> mn, max |-> mx, typed |-> ty]
TMap(ks, vs, mn, mx, ty) == [kind |-> "map", keys |-> ks, values |-> vs, min |-> mn, max |-> mx, typed |-> ty]
TObject(id, props, un, lay) == [kind |-> "object", id |-> id, props |-> props, id_unenforced |-> un, layout |-> lay]
Mem(key, t) == [key |-> key, type |-> t]
TOneOf(disc, field, inl, mems) ==
    [kind |-> "oneof", disc |-> disc, field |-> field, inlined |-> inl, members |-> mems]
TRef(id, ns, d)    == [kind |-> "ref", id |-> id, ns |-> ns, display |-> d]
KO(key, o) == [key |-> key, obj |-> o]
TScope(root, objs) == [kind |-> "scope", root |-> root, objects |-> objs]      \* objs: set of KO
Prop(name, t, d, req, rif, rifn, cf, def, ex, dis, why, eid) ==
    [name |-> name, type |-> t, display |-> d, required |-> req, required_if |-> rif,
     required_if_not |-> rifn, conflicts |-> cf, default |-> def, examples |-> ex,
     disabled |-> dis, disabled_reason |-> why, empty_is_default |-> eid]
Out(sc, d, err)  == [schema |-> sc, display |-> d, error |-> err]
Sig(id, sc, d)   == [id |-> id, data |-> sc, display |-> d]
KV(key, x)       == [key |-> key, x |-> x]
Step(id, inp, outs, hs, es, d) ==
    [id |-> id, input |-> inp, outputs |-> outs, handlers |-> hs, emitters |-> es, display |-> d]
TSchema(steps)   == [kind |-> "schema", steps |-> steps]                       \* steps: set of KV(key, Step)

(* ------------------------------------------------------------------------ *)
(* Describe: what SelfSerialize has to emit, written down per kind          *)
(* (pointer nil -> absent; bool, string, slice and map fields always         *)
(* present; a nil slice or map is described as an empty one)                *)
(* ------------------------------------------------------------------------ *)
OS(name, o)  == IF o.some THEN {E(S(name), S(o.v))} ELSE {}
ON(name, o)  == IF o.some THEN {E(S(name), N(o.v))} ELSE {}
OF(name, o)  == IF o.some THEN {E(S(name), F(o.v))} ELSE {}
SL(q)        == L([i \in DOMAIN q |-> S(q[i])])
DDisp(d)     == M(OS("name", d.name) \cup OS("description", d.description) \cup OS("icon", d.icon))
OD(o)        == IF o.some THEN {E(S("display"), DDisp(o.v))} ELSE {}
DUnit(u)     == M({E(S("name_short_singular"), S(u.ss)), E(S("name_short_plural"), S(u.sp)),
                   E(S("name_long_singular"), S(u.ls)), E(S("name_long_plural"), S(u.lp))})
DUnits(u)    == IF u.pkg # "" THEN PU(u.pkg)
                ELSE M({E(S("base_unit"), DUnit(u.base)),
                        E(S("multipliers"), M({E(N(x.m), DUnit(x.unit)) : x \in u.mults}))})
OU(o)        == IF o.some THEN {E(S("units"), DUnits(o.v))} ELSE {}
\* an enum value without display data (nil pointer) is described as an empty display
DEnumVals(vals) == M({E(x.v, IF x.display.some THEN DDisp(x.display.v) ELSE DDisp(D0)) : x \in vals})
TID(s)       == E(S("type_id"), S(s))

RECURSIVE DType(_)
DProp(p) ==
    M({E(S("type"), DType(p.type)), E(S("required"), B(p.required)),
       E(S("required_if"), SL(p.required_if)), E(S("required_if_not"), SL(p.required_if_not)),
       E(S("conflicts"), SL(p.conflicts)), E(S("examples"), SL(p.examples)),
       E(S("disabled"), B(p.disabled))}
      \cup OD(p.display) \cup OS("default", p.default) \cup OS("disabled_reason", p.disabled_reason))
DObjectBody(o) ==
    {E(S("id"), S(o.id)), E(S("id_unenforced"), B(o.id_unenforced)),
     E(S("properties"), M({E(S(p.name), DProp(p)) : p \in o.props}))}
DScopeBody(sc) ==
    {E(S("root"), S(sc.root)),
     E(S("objects"), M({E(S(x.key), M(DObjectBody(x.obj))) : x \in sc.objects}))}
DType(t) ==
    CASE t.kind = "int"     -> M({TID("integer")} \cup ON("min", t.min) \cup ON("max", t.max) \cup OU(t.units))
      [] t.kind = "float"   -> M({TID("float")} \cup OF("min", t.min) \cup OF("max", t.max) \cup OU(t.units))
      [] t.kind = "string"  -> M({TID("string")} \cup ON("min", t.min) \cup ON("max", t.max) \cup OS("pattern", t.pattern))
      [] t.kind = "bool"    -> M({TID("bool")})
      [] t.kind = "pattern" -> M({TID("pattern")})
      [] t.kind = "any"     -> M({TID("any")})
      [] t.kind = "enum_int"    -> M({TID("enum_integer"), E(S("values"), DEnumVals(t.evals))} \cup OU(t.units))
      [] t.kind = "enum_string" -> M({TID("enum_string"), E(S("values"), DEnumVals(t.evals))})
      [] t.kind = "list"    -> M({TID("list"), E(S("items"), DType(t.items))} \cup ON("min", t.min) \cup ON("max", t.max))
      [] t.kind = "map"     -> M({TID("map"), E(S("keys"), DType(t.keys)), E(S("values"), DType(t.values))}
                                 \cup ON("min", t.min) \cup ON("max", t.max))
      [] t.kind = "object"  -> M({TID("object")} \cup DObjectBody(t))
      [] t.kind = "oneof"   ->
            M({TID(IF t.disc = "string" THEN "one_of_string" ELSE "one_of_int"),
               E(S("discriminator_field_name"), S(t.field)),
               E(S("discriminator_inlined"), B(t.inlined)),
               E(S("types"), M({E(x.key, DType(x.type)) : x \in t.members}))})
      [] t.kind = "ref"     -> M({TID("ref"), E(S("id"), S(t.id)), E(S("namespace"), S(t.ns))} \cup OD(t.display))
      [] t.kind = "scope"   -> M({TID("scope")} \cup DScopeBody(t))

DScope(sc) == M(DScopeBody(sc))
DOut(o)    == M({E(S("schema"), DScope(o.schema)), E(S("error"), B(o.error))} \cup OD(o.display))
DSig(g)    == M({E(S("id"), S(g.id)), E(S("data_schema"), DScope(g.data))} \cup OD(g.display))
DStep(st)  ==
    M({E(S("id"), S(st.id)), E(S("input"), DScope(st.input)),
       E(S("outputs"), M({E(S(x.key), DOut(x.x)) : x \in st.outputs})),
       E(S("signal_handlers"), M({E(S(x.key), DSig(x.x)) : x \in st.handlers})),
       E(S("signal_emitters"), M({E(S(x.key), DSig(x.x)) : x \in st.emitters}))}
      \cup OD(st.display))
DSchema(ps) == M({E(S("steps"), M({E(S(x.key), DStep(x.x)) : x \in ps.steps}))})

\* top level: a scope (UnserializeScope) or a plugin schema (UnserializeSchema / ReadSchema)
Describe(s) == IF s.kind = "schema" THEN DSchema(s) ELSE DScope(s)
TopType(target) == IF target = "schema" THEN TObj("Schema") ELSE TObj("Scope")
MetaAccepts(target, n) == Acc(TopType(target), n)

(* ------------------------------------------------------------------------ *)
(* Rebuild, part 1: normalised tree -> AST                                  *)
(* ------------------------------------------------------------------------ *)
OptS(m, name) == IF Has(m, name) THEN Some(Get(m, name).v) ELSE None
ToDisp(m)  == Disp(OptS(m, "name"), OptS(m, "description"), OptS(m, "icon"))
OptD(m)    == IF Has(m, "display") THEN Some(ToDisp(Get(m, "display"))) ELSE None
ToUnit(m)  == Unit(Get(m, "name_short_singular").v, Get(m, "name_short_plural").v,
                   Get(m, "name_long_singular").v, Get(m, "name_long_plural").v)
ToUnits(m) == IF m.k = "pkgunits" THEN PkgUnits(m.v)
              ELSE Units(ToUnit(Get(m, "base_unit")),
                         IF Has(m, "multipliers")
                         THEN {[m |-> e.key.v, unit |-> ToUnit(e.val)] : e \in Get(m, "multipliers").v} ELSE {})
OptU(m)    == IF Has(m, "units") THEN Some(ToUnits(Get(m, "units"))) ELSE None
StrSeq(m, name) == IF Has(m, name) THEN [i \in DOMAIN Get(m, name).v |-> Get(m, name).v[i].v] ELSE <<>>
BoolFld(m, name) == IF Has(m, name) THEN Get(m, name).v ELSE FALSE
ToEnumVals(m) == {EV(e.key, Some(ToDisp(e.val))) : e \in m.v}

RECURSIVE ToType(_)
ToProp(name, m) ==
    Prop(name, ToType(Get(m, "type")), OptD(m), Get(m, "required").v,
         StrSeq(m, "required_if"), StrSeq(m, "required_if_not"), StrSeq(m, "conflicts"),
         OptS(m, "default"), StrSeq(m, "examples"), BoolFld(m, "disabled"), OptS(m, "disabled_reason"), FALSE)
ToObject(m) ==
    TObject(Get(m, "id").v, {ToProp(e.key.v, e.val) : e \in Get(m, "properties").v},
            Get(m, "id_unenforced").v, "map")
ToScope(m) == TScope(Get(m, "root").v, {KO(e.key.v, ToObject(e.val)) : e \in Get(m, "objects").v})
ToMembers(m) == IF Has(m, "types") THEN {Mem(e.key, ToType(e.val)) : e \in Get(m, "types").v} ELSE {}
ToType(m) ==
    LET tid == Get(m, "type_id").v IN
    CASE tid = "integer" -> TInt(OptS(m, "min"), OptS(m, "max"), OptU(m))
      [] tid = "float"   -> TFloat(OptS(m, "min"), OptS(m, "max"), OptU(m))
      [] tid = "string"  -> TString(OptS(m, "min"), OptS(m, "max"), OptS(m, "pattern"))
      [] tid = "bool"    -> TBool
      [] tid = "pattern" -> TPattern
      [] tid = "any"     -> TAny
      [] tid = "enum_integer" -> TEnumI(ToEnumVals(Get(m, "values")), OptU(m))
      [] tid = "enum_string"  -> TEnumS(ToEnumVals(Get(m, "values")), FALSE)
      [] tid = "list"    -> TList(ToType(Get(m, "items")), OptS(m, "min"), OptS(m, "max"), FALSE)
      [] tid = "map"     -> TMap(ToType(Get(m, "keys")), ToType(Get(m, "values")), OptS(m, "min"), OptS(m, "max"), FALSE)
      [] tid = "object"  -> ToObject(m)
      [] tid = "one_of_string" -> TOneOf("string", Get(m, "discriminator_field_name").v,
                                         Get(m, "discriminator_inlined").v, ToMembers(m))
      [] tid = "one_of_int"    -> TOneOf("int", Get(m, "discriminator_field_name").v,
                                         Get(m, "discriminator_inlined").v, ToMembers(m))
      [] tid = "ref"     -> TRef(IF Has(m, "id") THEN Get(m, "id").v ELSE "", Get(m, "namespace").v, OptD(m))
      [] tid = "scope"   -> ToScope(m)

ToOut(m)  == Out(ToScope(Get(m, "schema")), OptD(m), Get(m, "error").v)
ToSig(m)  == Sig(Get(m, "id").v, ToScope(Get(m, "data_schema")), OptD(m))
ToSigs(m, name) == IF Has(m, name) THEN {KV(e.key.v, ToSig(e.val)) : e \in Get(m, name).v} ELSE {}
ToStep(m) == Step(Get(m, "id").v, ToScope(Get(m, "input")),
                  {KV(e.key.v, ToOut(e.val)) : e \in Get(m, "outputs").v},
                  ToSigs(m, "signal_handlers"), ToSigs(m, "signal_emitters"), OptD(m))
ToSchema(m) == TSchema({KV(e.key.v, ToStep(e.val)) : e \in Get(m, "steps").v})

\* the schema the acceptance step hands on (references not linked yet)
Rebuild(target, n) ==
    LET c == Norm(TopType(target), n) IN IF target = "schema" THEN ToSchema(c) ELSE ToScope(c)

(* ------------------------------------------------------------------------ *)
(* Rebuild, part 2: the link step.  ApplyNamespace(objects, "") walks every *)
(* object of a scope; a reference of the scope's own namespace must find    *)
(* its ID among the KEYS of the scope's table; a one-of then inspects the   *)
(* properties of every member.  TRUE = the walk completes.                  *)
(* ------------------------------------------------------------------------ *)
Lookup(tab, id) == (CHOOSE x \in tab : x.key = id).obj
InTab(tab, id)  == \E x \in tab : x.key = id
\* the root lookup every operation on a scope starts with
RootOK(sc) == InTab(sc.objects, sc.root) /\ Lookup(sc.objects, sc.root).id = sc.root
RootCause(sc) == IF ~InTab(sc.objects, sc.root) THEN "root_missing"
                 ELSE IF Lookup(sc.objects, sc.root).id # sc.root THEN "root_mismatch" ELSE "ok"

\* can the properties of a one-of member be read after linking?  ("ok" | cause)
MemberCause(t, tab) ==
    CASE t.kind = "ref"    -> (IF t.ns # "" \/ InTab(tab, t.id) THEN "ok" ELSE "dangling_ref")
      [] t.kind = "scope"  -> RootCause(t)
      [] t.kind = "object" -> "ok"
MemberProps(t, tab) ==
    CASE t.kind = "ref"    -> Lookup(tab, t.id).props
      [] t.kind = "scope"  -> Lookup(t.objects, t.root).props
      [] t.kind = "object" -> t.props
DiscKinds(disc) == IF disc = "string" THEN {"string", "enum_string"} ELSE {"int", "enum_int"}
\* inlined <=> every member declares the discriminator field, with the kind of the key
\* (a member referring to a namespace that is not applied yet cannot be inspected now: it is skipped, and
\* checked when that namespace is applied)
Foreign(t) == t.kind = "ref" /\ t.ns # ""
InlineOK(t, tab) ==
    \A x \in {y \in t.members : ~Foreign(y.type)} :
        LET ps == {p \in MemberProps(x.type, tab) : p.name = t.field} IN
        IF t.inlined THEN ps # {} /\ \A p \in ps : p.type.kind \in DiscKinds(t.disc)
        ELSE ps = {}

RECURSIVE LinkCause(_, _)
\* first failing check of the walk over type t with table tab, or "ok".  (Which of several faults the
\* code meets first depends on map iteration order; only "ok" vs not "ok" is compared with the code.)
FirstBad(cs) == IF cs \subseteq {"ok"} THEN "ok" ELSE CHOOSE c \in cs : c # "ok"
ScopeLinkCause(sc) == FirstBad({LinkCause(x.obj, sc.objects) : x \in sc.objects})
LinkCause(t, tab) ==
    CASE t.kind = "ref"    -> (IF t.ns # "" \/ InTab(tab, t.id) THEN "ok" ELSE "dangling_ref")
      [] t.kind = "list"   -> LinkCause(t.items, tab)
      [] t.kind = "map"    -> FirstBad({LinkCause(t.keys, tab), LinkCause(t.values, tab)})
      [] t.kind = "object" -> FirstBad({LinkCause(p.type, tab) : p \in t.props})
      [] t.kind = "scope"  -> ScopeLinkCause(t)
      [] t.kind = "oneof"  ->
            LET inner == FirstBad({LinkCause(x.type, tab) : x \in t.members})
                mem   == FirstBad({MemberCause(x.type, tab) : x \in t.members})
            IN IF inner # "ok" THEN inner
               ELSE IF mem # "ok" THEN mem
               ELSE IF InlineOK(t, tab) THEN "ok" ELSE "oneof_inline"
      [] OTHER -> "ok"

(* ------------------------------------------------------------------------ *)
(* Rebuild, part 3: first use.  Every operation on a scope starts with the  *)
(* root lookup; the defaults of an object are decoded when it is first      *)
(* asked for them.                                                          *)
(* ------------------------------------------------------------------------ *)
DefaultOK(p) == p.default.some => (JsonOK(p.default.v) \/ (p.type.kind = "string" /\ QuotedOK(p.default.v)))

RECURSIVE Parts(_, _)
\* all (type, enclosing table) pairs below t
Parts(t, tab) ==
    {<<t, tab>>} \cup
    CASE t.kind = "list"   -> Parts(t.items, tab)
      [] t.kind = "map"    -> Parts(t.keys, tab) \cup Parts(t.values, tab)
      [] t.kind = "object" -> UNION {Parts(p.type, tab) : p \in t.props}
      [] t.kind = "oneof"  -> UNION {Parts(x.type, tab) : x \in t.members}
      [] t.kind = "scope"  -> UNION {Parts(x.obj, t.objects) : x \in t.objects}
      [] OTHER -> {}
RECURSIVE UseCause(_)
ScopeUseCause(sc) ==
    IF RootCause(sc) # "ok" THEN RootCause(sc) ELSE FirstBad({UseCause(x.obj) : x \in sc.objects})
UseCause(t) ==
    CASE t.kind = "list"   -> UseCause(t.items)
      [] t.kind = "map"    -> FirstBad({UseCause(t.keys), UseCause(t.values)})
      [] t.kind = "object" -> IF \E p \in t.props : ~DefaultOK(p) THEN "bad_default"
                              ELSE FirstBad({UseCause(p.type) : p \in t.props})
      [] t.kind = "scope"  -> ScopeUseCause(t)
      [] t.kind = "oneof"  -> FirstBad({UseCause(x.type) : x \in t.members})
      [] OTHER -> "ok"

\* the data schemas of a plugin schema: every one of them is linked and used on its own
DataScopes(ps) ==
    UNION {{x.x.input} \cup {o.x.schema : o \in x.x.outputs}
           \cup {g.x.data : g \in x.x.handlers} \cup {g.x.data : g \in x.x.emitters} : x \in ps.steps}
TopScopes(s) == IF s.kind = "schema" THEN DataScopes(s) ELSE {s}
\* a plugin schema stands alone: nobody will ever apply a foreign namespace to it, so a reference to one
\* fails its link step (ValidateReferences); a stand-alone scope may be embedded and linked later
HasForeignRef(sc) == \E pr \in Parts(sc, {}) : pr[1].kind = "ref" /\ pr[1].ns # ""
LinkCauseTop(s) ==
    LET c == FirstBad({ScopeLinkCause(sc) : sc \in TopScopes(s)}) IN
    IF c # "ok" THEN c
    ELSE IF s.kind = "schema" /\ \E sc \in TopScopes(s) : HasForeignRef(sc) THEN "foreign_ref" ELSE "ok"
UseCauseTop(s)  == FirstBad({ScopeUseCause(sc) : sc \in TopScopes(s)})

\* stage at which a description is turned down, and why: the classification exported with every vector
Classify(target, n) ==
    IF ~MetaAccepts(target, n) THEN [stage |-> "accept", cause |-> "reject"]
    ELSE LET s == Rebuild(target, n) IN
         IF LinkCauseTop(s) # "ok" THEN [stage |-> "link", cause |-> LinkCauseTop(s)]
         ELSE IF UseCauseTop(s) # "ok" THEN [stage |-> "first_use", cause |-> UseCauseTop(s)]
         ELSE [stage |-> "usable", cause |-> "ok"]

(* ------------------------------------------------------------------------ *)
(* "fully usable", declaratively (C10): every reference of a scope's own    *)
(* namespace denotes an object of that scope, every scope has its root      *)
(* under the root's own ID, every one-of agrees with its members about the  *)
(* discriminator, every default is decodable.                               *)
(* ------------------------------------------------------------------------ *)
UsableScope(sc) ==
    \A pr \in Parts(sc, {}) :
        LET t == pr[1]  tab == pr[2] IN
        /\ t.kind = "ref" /\ t.ns = "" => InTab(tab, t.id)
        /\ t.kind = "scope" => RootOK(t)
        /\ t.kind = "object" => \A p \in t.props : DefaultOK(p)
        /\ t.kind = "oneof" =>
              /\ \A x \in t.members : MemberCause(x.type, tab) = "ok"
              /\ InlineOK(t, tab)
Usable(s) == \A sc \in TopScopes(s) : UsableScope(sc) /\ (s.kind = "schema" => ~HasForeignRef(sc))

\* C10 on the model.  Load is the design the property demands: accept, link, check - each step turning a
\* fault into an error - and only then hand the schema out.  What it hands out is fully usable.
Load(target, n) ==
    LET c == Classify(target, n) IN
    IF c.stage = "usable" THEN [ok |-> TRUE, schema |-> Rebuild(target, n)]
    ELSE [ok |-> FALSE, stage |-> c.stage, cause |-> c.cause]
AcceptedImpliesUsable(target, n) == Load(target, n).ok => Usable(Load(target, n).schema)

(* ------------------------------------------------------------------------ *)
(* transports: what CBOR, YAML and JSON do to a description on the way       *)
(* (checked against the real codecs by the harness)                         *)
(* ------------------------------------------------------------------------ *)
RECURSIVE Xf(_, _)
XAtom(x, a) ==
    IF a.k # "num" THEN a
    ELSE CASE x = "cbor" -> (IF a.rep = "i" /\ a.v >= 0 THEN [a EXCEPT !.rep = "u"] ELSE a)
           [] x = "yaml" -> (IF a.rep = "f" /\ a.v % 2 = 0 THEN N(a.v \div 2) ELSE a)
           [] x = "json" -> (IF a.rep = "f" THEN a ELSE F(2 * a.v))
           [] x = "id"   -> a
\* JSON object keys are strings
XKey(x, a) == IF x = "json" /\ a.k = "num" THEN S(ToString(a.v)) ELSE XAtom(x, a)
Xf(x, n) ==
    CASE n.k = "list" -> L([i \in DOMAIN n.v |-> Xf(x, n.v[i])])
      [] n.k = "map"  -> M({E(XKey(x, e.key), Xf(x, e.val)) : e \in n.v})
      [] OTHER -> XAtom(x, n)
Transports == {"id", "cbor", "yaml", "json"}

(* ------------------------------------------------------------------------ *)
(* what a description cannot carry (Go-side attributes): erased before       *)
(* comparing the rebuilt schema with the original                           *)
(* ------------------------------------------------------------------------ *)
RECURSIVE Strip(_)
StripVals(vals) == {EV(x.v, IF x.display.some THEN x.display ELSE Some(D0)) : x \in vals}
StripProp(p) == [p EXCEPT !.type = Strip(p.type), !.empty_is_default = FALSE]
StripObj(o)  == [o EXCEPT !.props = {StripProp(p) : p \in o.props}, !.layout = "map"]
StripScope(sc) == [sc EXCEPT !.objects = {KO(x.key, StripObj(x.obj)) : x \in sc.objects}]
Strip(t) ==
    CASE t.kind = "enum_int"    -> [t EXCEPT !.evals = StripVals(t.evals)]
      [] t.kind = "enum_string" -> [t EXCEPT !.evals = StripVals(t.evals), !.typed = FALSE]
      [] t.kind = "list"   -> [t EXCEPT !.items = Strip(t.items), !.typed = FALSE]
      [] t.kind = "map"    -> [t EXCEPT !.keys = Strip(t.keys), !.values = Strip(t.values), !.typed = FALSE]
      [] t.kind = "object" -> StripObj(t)
      [] t.kind = "oneof"  -> [t EXCEPT !.members = {Mem(x.key, Strip(x.type)) : x \in t.members}]
      [] t.kind = "scope"  -> StripScope(t)
      [] OTHER -> t
StripOut(o) == [o EXCEPT !.schema = StripScope(o.schema)]
StripSig(g) == [g EXCEPT !.data = StripScope(g.data)]
StripStep(st) == [st EXCEPT !.input = StripScope(st.input),
                            !.outputs = {KV(x.key, StripOut(x.x)) : x \in st.outputs},
                            !.handlers = {KV(x.key, StripSig(x.x)) : x \in st.handlers},
                            !.emitters = {KV(x.key, StripSig(x.x)) : x \in st.emitters}]
StripTop(s) == IF s.kind = "schema" THEN TSchema({KV(x.key, StripStep(x.x)) : x \in s.steps}) ELSE StripScope(s)

(* ------------------------------------------------------------------------ *)
(* C09, stated on the model                                                 *)
(* ------------------------------------------------------------------------ *)
Target(s) == IF s.kind = "schema" THEN "schema" ELSE "scope"
\* the description is accepted, directly and after every transport
Describable(s) == \A x \in Transports : MetaAccepts(Target(s), Xf(x, Describe(s)))
\* describe, rebuild, describe is a fixed point
FixedPoint(s) == \A x \in Transports : Describe(Rebuild(Target(s), Xf(x, Describe(s)))) = Describe(s)
\* behaviour is a function of the AST: the rebuilt schema is the original, Go-side attributes apart
SameBehaviour(s) == \A x \in Transports : Rebuild(Target(s), Xf(x, Describe(s))) = StripTop(s)
\* and it can be linked and used whenever the original could
RebuiltUsable(s) == Usable(s) => Usable(Rebuild(Target(s), Describe(s)))
=============================================================================
