----------------------------- MODULE StepsTrace -----------------------------
(* Code -> specification for C11.  The harness runs random concurrent         *)
(* sessions of CallStep / CallSignal on real CallableSchemas and logs, under   *)
(* one lock (so the order is a real total order), one line per gate-visible    *)
(* stage:                                                                      *)
(*   {"ev":"reset","calls":[call..],"display":{step:shape},"reg":[step..],"sigreg":{step:..}}  new session *)
(*                                        starts (fresh schema, these displays) *)
(*   {"ev":"begin","p":P}                 goroutine P enters its call          *)
(*   {"ev":"init","p":P}                  the initializer runs in P's call     *)
(*   {"ev":"initdone","p":P}              ... and returns                      *)
(*   {"ev":"invoke","p":P,"kind","arg","data"}  handler invoked: argument      *)
(*                                        class, data identity (creator proc)  *)
(*   {"ev":"hret","p":P}                  handler returns                      *)
(*   {"ev":"ret","p":P,"class","out","ser"}    the call returned               *)
(* Each line must be the corresponding action of Steps.tla, enabled in the     *)
(* current state and with matching logged fields; the stages that no gate      *)
(* sees (Lookup, UnserializeInput, SetupHit, CheckOutput) are inferred.        *)
(* Acceptance: some behaviour consumes every line (high-water mark of l).      *)
EXTENDS Steps, Json, IOUtils

Trace == ndJsonDeserialize(IOEnv.VERIF_TRACE)

VARIABLE l
tvars == <<vars, l>>

CallOf(c) == [kind |-> c.kind, step |-> c.step, run |-> c.run, sig |-> c.sig, input |-> c.input, beh |-> c.beh]
CV(e) == [p \in Procs |-> CallOf(e.calls[p])]
DV(e) == [s \in StepIds |-> e.display[s]]
LV(e) == [reg |-> {e.reg[i] : i \in DOMAIN e.reg}, sigreg |-> [s \in StepIds |-> e.sigreg[s]]]

ResetTo(cv, d, lay) ==
    /\ call' = cv
    /\ display' = d
    /\ layout' = lay
    /\ pc' = [p \in Procs |-> "idle"]
    /\ arg' = [p \in Procs |-> "none"]
    /\ mutex' = [s \in StepIds |-> 0]
    /\ created' = [s \in StepIds |-> [r \in Runs |-> FALSE]]
    /\ stepData' = [s \in StepIds |-> [r \in Runs |-> 0]]
    /\ initCount' = [s \in StepIds |-> [r \in Runs |-> 0]]
    /\ ledger' = <<>>
    /\ res' = [p \in Procs |-> NoRes]

\* where the specification says "an error" the type is not fixed
ClassMatches(logged, spec) ==
    IF spec = "error" THEN logged \in {"error", "badarg", "invalidinput", "invalidoutput"}
    ELSE logged = spec

Logged(e) ==
    IF e.ev = "reset" THEN AllDone /\ ResetTo(CV(e), DV(e), LV(e))
    ELSE LET p == e.p IN
         /\ p \in Procs
         /\ CASE e.ev = "begin"    -> Begin(p)
              [] e.ev = "init"     -> InitBegin(p)
              [] e.ev = "initdone" -> InitEnd(p)
              [] e.ev = "invoke"   -> /\ InvokeHandler(p)
                                      /\ e.kind = call[p].kind
                                      /\ e.arg = arg[p]
                                      /\ e.data = stepData[S(p)][R(p)]
              [] e.ev = "hret"     -> HandlerReturn(p)
              [] e.ev = "ret"      -> /\ Return(p)
                                      /\ ClassMatches(e.class, res[p].class)
                                      /\ e.out = res[p].out
                                      /\ e.ser = res[p].ser
              [] OTHER -> FALSE

TInit ==
    /\ TLCSet(1, 0)
    /\ Len(Trace) >= 1
    /\ Trace[1].ev = "reset"
    /\ InitWith(CV(Trace[1]), DV(Trace[1]), LV(Trace[1]))
    /\ l = 2

TNext ==
    \/ /\ l <= Len(Trace)
       /\ Logged(Trace[l])
       /\ l' = l + 1
    \/ /\ \E p \in Procs : Internal(p)
       /\ l' = l

TSpec == TInit /\ [][TNext]_tvars

\* high-water mark of consumed lines (register 1), evaluated as a state constraint
HighWater == IF l > TLCGet(1) THEN TLCSet(1, l) ELSE TRUE

Accepted == HandlerIffValid /\ ExactArgument /\ InitOncePerRun /\ ErrorClass /\ DisplayBlind

Consumed == /\ PrintT(<<"C11HW", TLCGet(1), Len(Trace)>>)
            /\ TLCGet(1) = Len(Trace) + 1
=============================================================================
