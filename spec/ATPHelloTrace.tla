--------------------------- MODULE ATPHelloTrace ---------------------------
(***************************************************************************)
(* Trace validation of real handshakes and legacy-framing calls against    *)
(* ATPHello.tla.  One line per hook event / environment operation:         *)
(*   [ev, r, k, n, b]   (event, run, kind, number, flag)                   *)
(* client lines  c.hs.send  (b: the write failed)                          *)
(*               c.hs.ret   (k: "ok" or where it failed, n: version read)  *)
(*               c.exec, c.v1lock, c.v1send (b: failed), c.v1decode (b: err)*)
(*               x.result   (r, k: "ok"/"err", b: the output is r's own)   *)
(* environment   f.hello (k, n: version), f.answer (k, r), f.end (k),      *)
(*               f.failwrites                                              *)
(* server lines  s.hs (k: stage, b: ok), s.ret (n: errors, b: hello seen), *)
(*               s.recv (k: kind of the item the read loop decoded, r: run) *)
(* environment   e.send (k, r: run ID of a work-start), e.end, e.outfail   *)
(* "reset" starts the next session (k: "client" or "server").              *)
(***************************************************************************)
EXTENDS ATPHello, Json, IOUtils

Trace == ndJsonDeserialize(IOEnv.VERIF_TRACE)
VARIABLE l
tvars == <<vars, l>>

Ev == Trace[l]
Is(name) == l <= Len(Trace) /\ Trace[l].ev = name /\ l' = l + 1
R == Ev.r

TInit == CInit /\ l = 1 /\ TLCSet(1, 1)
HighWater == TLCSet(1, IF l > TLCGet(1) THEN l ELSE TLCGet(1))
Accepted == PrintT(<<"HIGHWATER", TLCGet(1), Len(Trace)>>) /\ TLCGet(1) = Len(Trace) + 1

ResetCommon ==
  /\ hsAt' = "" /\ hello' = NoHello /\ ver' = 0
  /\ cpc' = [c \in Calls |-> "idle"] /\ res' = [c \in Calls |-> ""] /\ got' = [c \in Calls |-> ""]
  /\ rmu' = "" /\ c2s' = <<>> /\ s2c' = <<>> /\ outEnded' = "" /\ inClosed' = FALSE
  /\ helloSent' = FALSE /\ intact' = {}
  /\ serr' = 0 /\ cliEnded' = FALSE /\ outFail' = FALSE
  /\ sbuf' = <<>> /\ seen' = <<>> /\ sent' = <<>>

TReset ==
  /\ Is("reset") /\ ResetCommon
  /\ IF Ev.k = "server" THEN hs' = "n/a" /\ srv' = "selfser"
                        ELSE hs' = "idle" /\ srv' = "n/a"

\* ------------------------------------------------------------------ client
\* c.sent of the start message / of an unwrapped work-start: the write has returned (b: with an error)
THsSend   == Is("c.hs.send") /\ HsSend /\ (Ev.b <=> hs' = "err")
THsRet    ==
  /\ Is("c.hs.ret")
  /\ IF Ev.k = "send"
       THEN hs = "err" /\ hsAt = "send" /\ UNCHANGED vars          \* the failed write was consumed by c.hs.send
       ELSE /\ HsDecode
            /\ IF Ev.k = "ok" THEN hs' = "ok" /\ ver' = Ev.n
                              ELSE hs' = "err" /\ hsAt' = Ev.k
TExec     == Is("c.exec") /\ V1Begin(R)
TLock     == Is("c.v1lock") /\ V1Lock(R)
TSend     == Is("c.v1send") /\ V1Send(R) /\ (Ev.b <=> res'[R] = "err")
TDecode   == Is("c.v1decode") /\ V1Decode(R) /\ (Ev.b <=> res'[R] = "err")
\* what Execute returned, compared with the model's state (no step)
TResult   ==
  /\ Is("x.result")
  /\ res[R] = Ev.k
  /\ Ev.k = "ok" => (Ev.b <=> got[R] = R)
  /\ UNCHANGED vars

\* ------------------------------------------------------------------ the client's peer
HelloOf(k, n) ==
  CASE k = "ok"   -> HelloItem(n, "ok")
    [] k = "bad"  -> HelloItem(n, "bad")
    [] k = "junk" -> Junk
    [] k = "part" -> Part
    [] OTHER      -> WD("x")
AnswerOf(k, r) == CASE k = "wd" -> WD(r) [] k = "junk" -> Junk [] OTHER -> Part

TFHello   == Is("f.hello") /\ EnvHello(HelloOf(Ev.k, Ev.n))
TFAnswer  == Is("f.answer") /\ EnvAnswer(AnswerOf(Ev.k, R))
TFEnd     == Is("f.end") /\ EnvEndAny(Ev.k)      \* every session ends, also one with a faithful plugin
TFFail    == Is("f.failwrites") /\ EnvFailWrites

\* ------------------------------------------------------------------ server handshake
\* SelfSerialize, the successful read of the start message and the decoder's reads from the stream have no event
\* of their own: silent steps (a Fill takes items off c2s, so there are finitely many between two lines)
Silent ==
  /\ \/ srv = "selfser" /\ Describable /\ SrvSelfSer
     \/ SrvReadStart /\ srv' = "hello"
     \/ SrvFill
  /\ UNCHANGED l
TSrvStage ==
  /\ Is("s.hs")
  /\ CASE Ev.k = "selfser" -> ~Describable /\ SrvSelfSer
       [] Ev.k = "start"   -> SrvReadStart /\ srv' = "fail"
       [] Ev.k = "hello"   -> SrvHello /\ srv' = (IF Ev.b THEN "loop" ELSE "fail")
       [] OTHER -> FALSE
\* the read loop decoded an item: it is the next one of the stream
ItemOf(k, r) == CASE k = "start" -> Start [] k = "ws" -> WS(r) [] k = "junk" -> Junk [] OTHER -> Part
TSrvRecv ==
  /\ Is("s.recv")
  /\ SrvLoopDecode
  /\ Head(sbuf) = ItemOf(Ev.k, R)
\* RunATPServer returned: n errors.  It returns after its read loop, and the loop ends at the end of the input or
\* at the first item it cannot decode (earlier only if the output failed: an unsendable error closes the input)
TSrvRet ==
  /\ Is("s.ret")
  /\ IF srv = "fail" THEN SrvFail /\ serr' = Ev.n ELSE srv = "loop" /\ UNCHANGED vars
  /\ Ev.b <=> (s2c = <<HelloItem(3, "ok")>>)
  /\ (srv = "loop" /\ ~outFail) => seen = LoopGiven
TESend    == Is("e.send") /\ CliSend(ItemOf(Ev.k, R))
TEEnd     == Is("e.end") /\ CliEnd
TEOutFail == Is("e.outfail") /\ OutFails

TNext ==
  \/ TReset
  \/ THsSend \/ THsRet \/ TExec \/ TLock \/ TSend \/ TDecode \/ TResult
  \/ TFHello \/ TFAnswer \/ TFEnd \/ TFFail
  \/ TSrvStage \/ TSrvRecv \/ TSrvRet \/ TESend \/ TEEnd \/ TEOutFail \/ Silent

TSpec == TInit /\ [][TNext]_tvars

\* the safety properties of ATPHello hold in every state of every accepted trace
TraceInv ==
  /\ (hs # "n/a") => CTypeOK /\ HelloHonest /\ HsErrHasReason /\ NoFabrication /\ ReturnsOnce /\ OneReader
  /\ (Peer = "v1") => V1NoCrossTalk
  /\ (srv # "n/a") => STypeOK /\ HelloAfterStart /\ NothingSwallowed
=============================================================================
