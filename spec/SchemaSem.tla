----------------------------- MODULE SchemaSem -----------------------------
(***************************************************************************)
(* Operational semantics of the schema operations, shaped like the code:   *)
(* one operator per rule of /repo/schema (input mappers, as* converters,   *)
(* bound checks, container recursion).  It models the INTENDED contract    *)
(* (DESIGN appendix G): where the current code is known to depart from the *)
(* property statement (NaN against a bound, nil to Validate, typed nil     *)
(* patterns, named types in `any`) the operator follows the statement, so  *)
(* that TLC can check "operational = declarative" (SchemaDecl) and the     *)
(* harness then finds the code disagreeing with both.                      *)
(*                                                                         *)
(* Outcomes are three-valued:                                              *)
(*   [ok |-> "yes", v |-> value]   accepted with exactly this result       *)
(*   [ok |-> "yes"]                accepted (Validate, ValidateCompatibility) *)
(*   [ok |-> "no"]                 rejected with an error                  *)
(*   [ok |-> "maybe"]              returns; acceptance not fixed           *)
(*   [ok |-> "maybe", v |-> value] returns; if accepted, with this result  *)
(*                                                                         *)
(* TOTALITY (C04 on the model): every CASE below lists every value kind    *)
(* (Values!Kinds) without OTHER, so a (schema position, value class) pair  *)
(* without an outcome is a TLC evaluation error.                           *)
(***************************************************************************)
EXTENDS SchemaAST
U == INSTANCE Units

Ok(x) == [ok |-> "yes", v |-> x]
OkU == [ok |-> "yes"]
Rej == [ok |-> "no"]
Unspec == [ok |-> "maybe"]
UnspecV(x) == [ok |-> "maybe", v |-> x]
HasV(r) == "v" \in DOMAIN r

\* all of a sequence of outcomes: one definite rejection rejects the whole, whatever the
\* unspecified ones do (they return)
AllOk(rs) ==
    IF \E i \in DOMAIN rs : rs[i].ok = "no" THEN "no"
    ELSE IF \E i \in DOMAIN rs : rs[i].ok = "maybe" THEN "maybe" ELSE "yes"
Wrap(c, x) == IF c = "yes" THEN Ok(x) ELSE IF c = "no" THEN Rej ELSE Unspec
WrapU(c) == IF c = "yes" THEN OkU ELSE IF c = "no" THEN Rej ELSE Unspec
Both(a, b) == IF a = "no" \/ b = "no" THEN "no" ELSE IF a = "maybe" \/ b = "maybe" THEN "maybe" ELSE "yes"

\* ------------------------------------------------------------------ unit strings (units.go:232 parse)
\* reading of a token under the second based unit set, via the C16 grammar (Units!Parse):
\* ok \in {"yes" strict, "maybe" lenient, "no", "odd" fraction the half units cannot carry}
UnitReading(t) ==
    LET a == Tok[t] IN
    CASE a.ucls = "nolex" -> [ok |-> "no", h |-> 0]
      [] a.ucls = "odd" -> [ok |-> "odd", h |-> 0]
      [] a.ucls = "lex" -> U!Parse(U!Defs.sec, a.utoks)
CountTooBig(t) == \E i \in DOMAIN Tok[t].utoks : Tok[t].utoks[i].c > IMax

\* units.go:374 ParseInt: the SDK reads strict and lenient forms; a fractional result is
\* "float found"; a count beyond int64 fails strconv.ParseInt
UnitIntOp(t) ==
    LET r == UnitReading(t) IN
    CASE r.ok \in {"yes", "maybe"} ->
            IF CountTooBig(t) \/ r.h % 2 = 1 \/ ~FitsI64(r.h \div 2) THEN Rej ELSE Ok(I64(r.h \div 2))
      [] r.ok = "odd" -> Rej
      [] r.ok = "no" -> Rej
\* units.go:388 ParseFloat
UnitFloatOp(t) ==
    LET r == UnitReading(t) IN
    CASE r.ok \in {"yes", "maybe"} -> IF CountTooBig(t) THEN Rej ELSE Ok(F64(r.h))
      [] r.ok = "odd" -> Unspec        \* accepted by the code; the value is outside the half units
      [] r.ok = "no" -> Rej

\* readings per unit set.  The unit grammar is modelled for the second based set; for the tokens of group
\* g_big (amounts around 2^63 / 2^64) the table says per built-in set whether the amount fits in int64
\* (units.go:303 overflow guards); other strings under the byte / nanosecond sets are left open.
UnitIntOpU(t, u) ==
    LET b == Tok[t].ubig[u] IN
    IF b = "fits" THEN Ok(I64(HugeAmount))
    ELSE IF b \in {"over", "nolex"} THEN Rej
    ELSE IF u = "sec" THEN UnitIntOp(t) ELSE Unspec
UnitFloatOpU(t, u) ==
    LET b == Tok[t].ubig[u] IN
    IF b = "fits" THEN Ok(F64(2 * HugeAmount))
    ELSE IF b \in {"over", "nolex"} THEN Rej        \* integral counts go through the int64 guards also for floats
    ELSE IF u = "sec" THEN UnitFloatOp(t) ELSE Unspec
\* a huge amount stands in no fixed relation to bounds / enum values at the edge points
EdgeConstrained(s) ==
    CASE s.kind = "int" -> (s.min.some /\ IsEdge(s.min.v)) \/ (s.max.some /\ IsEdge(s.max.v))
      [] s.kind = "float" -> (s.min.some /\ s.min.v % 2 = 0 /\ IsEdge(s.min.v \div 2)) \/ (s.max.some /\ s.max.v % 2 = 0 /\ IsEdge(s.max.v \div 2))
      [] s.kind = "enum_int" -> \E i \in DOMAIN s.values : IsEdge(s.values[i])
IsHuge(m) == m.ok = "yes" /\ ((m.v.k = "int" /\ m.v.v = HugeAmount) \/ (m.v.k = "float" /\ m.v.v = 2 * HugeAmount))

\* ------------------------------------------------------------------ input mappers
\* int.go:156 intInputMapper
IntMapper(raw, units) ==
    CASE raw.k = "str" ->
            IF raw.rep # "string" THEN Rej
            ELSE IF units.some THEN UnitIntOpU(raw.v, units.v)
            ELSE IF Tok[raw.v].int.ok THEN Ok(I64(Tok[raw.v].int.v)) ELSE Rej
      [] raw.k = "int" -> IF raw.rep = "named" THEN Rej ELSE IF FitsI64(raw.v) THEN Ok(I64(raw.v)) ELSE Rej
      [] raw.k = "float" ->
            IF raw.rep = "named" THEN Rej
            ELSE IF raw.v % 2 = 0 /\ FitsI64(raw.v \div 2) THEN Ok(I64(raw.v \div 2)) ELSE Rej
      [] raw.k = "fspecial" -> Rej
      [] raw.k = "bool" -> IF raw.rep = "named" THEN Rej ELSE Ok(I64(IF raw.v THEN 1 ELSE 0))
      [] raw.k \in {"nil", "list", "map", "re", "junk", "struct"} -> Rej

\* float.go:150 floatInputMapper
FloatMapper(raw, units) ==
    CASE raw.k = "str" ->
            IF raw.rep # "string" THEN Rej
            ELSE IF units.some THEN UnitFloatOpU(raw.v, units.v)
            ELSE LET r == Tok[raw.v].flt IN
                 IF ~r.ok THEN Rej
                 ELSE (CASE r.cls = "num" -> Ok(F64(r.h))
                         [] r.cls \in {"nan", "+inf", "-inf"} -> Ok(FS("float64", r.cls)))
      [] raw.k = "int" -> IF raw.rep = "named" THEN Rej ELSE Ok(F64(2 * raw.v))
      [] raw.k = "float" -> IF raw.rep = "named" THEN Rej ELSE Ok(F64(raw.v))
      [] raw.k = "fspecial" -> Ok(FS("float64", raw.v))
      [] raw.k = "bool" -> IF raw.rep = "named" THEN Rej ELSE Ok(F64(IF raw.v THEN 2 ELSE 0))
      [] raw.k \in {"nil", "list", "map", "re", "junk", "struct"} -> Rej

FSpecialName(x) == CASE x = "nan" -> "NaN" [] x = "+inf" -> "+Inf" [] x = "-inf" -> "-Inf"

\* string.go:183 stringInputMapper (%d for integers, %f for floats)
StringMapper(raw) ==
    CASE raw.k = "str" -> IF raw.rep = "string" THEN Ok(raw) ELSE Rej
      [] raw.k = "int" -> IF raw.rep = "named" THEN Rej ELSE Ok(Str(DecTok[raw.v]))
      [] raw.k = "float" -> IF raw.rep = "named" THEN Rej ELSE Ok(Str(FTok[raw.v]))
      [] raw.k = "fspecial" -> Ok(Str(FSpecialName(raw.v)))
      [] raw.k \in {"nil", "bool", "list", "map", "re", "junk", "struct"} -> Rej

\* bool.go:24
BoolMapper(raw) ==
    CASE raw.k = "bool" -> IF raw.rep = "bool" THEN Ok(raw) ELSE Rej
      [] raw.k = "str" ->
            IF raw.rep = "string" /\ Tok[raw.v].bw.some THEN Ok(B(Tok[raw.v].bw.v)) ELSE Rej
      [] raw.k = "int" ->
            IF raw.rep = "named" THEN Rej
            ELSE IF raw.v = 1 THEN Ok(B(TRUE)) ELSE IF raw.v = 0 THEN Ok(B(FALSE)) ELSE Rej
      [] raw.k \in {"nil", "float", "fspecial", "list", "map", "re", "junk", "struct"} -> Rej

\* ------------------------------------------------------------------ constraint checks (Serialize paths)
IntBounds(s, n) == (s.min.some => n >= s.min.v) /\ (s.max.some => n <= s.max.v)
\* float.go:112-128, intended: a NaN is within no bound; infinities compare as usual
FloatBounds(s, x) ==
    CASE x.k = "float" -> (s.min.some => x.v >= s.min.v) /\ (s.max.some => x.v <= s.max.v)
      [] x.k = "fspecial" ->
            (CASE x.v = "nan" -> ~s.min.some /\ ~s.max.some
               [] x.v = "+inf" -> ~s.max.some
               [] x.v = "-inf" -> ~s.min.some)
\* string.go:121-161: byte length, then pattern
StringBounds(s, t) ==
    /\ (s.min.some => Tok[t].len >= s.min.v)
    /\ (s.max.some => Tok[t].len <= s.max.v)
    /\ (s.pattern.some => Tok[t].pat[s.pattern.v])
SizeOK(s, n) == (s.min.some => n >= s.min.v) /\ (s.max.some => n <= s.max.v)
\* enum.go:116 ValidateType
Member(s, x) == \E i \in DOMAIN s.values : s.values[i] = x

YesNo(b) == IF b THEN "yes" ELSE "no"

\* ------------------------------------------------------------------ as* converters: class of a Go
\* value handed to Validate / Serialize: "native" (the schema's own type), "foreign" (another
\* type reflect can convert - the result of that conversion is not part of any property: returns,
\* unspecified), "no" (rejected)
AsIntClass(x) ==      \* int.go:82 asInt
    CASE x.k = "int" -> IF x.rep = "int64" THEN "native" ELSE "foreign"
      [] x.k \in {"float", "fspecial"} -> "foreign"
      [] x.k \in {"nil", "bool", "str", "list", "map", "re", "junk", "struct"} -> "no"
AsFloatClass(x) ==    \* float.go:130 asFloat
    CASE x.k \in {"float", "fspecial"} -> IF x.rep = "float64" THEN "native" ELSE "foreign"
      [] x.k = "int" -> "foreign"
      [] x.k \in {"nil", "bool", "str", "list", "map", "re", "junk", "struct"} -> "no"
AsStringClass(x, nativeRep) ==   \* string.go:163 asString / enum.go:144 asType
    CASE x.k = "str" -> IF x.rep = nativeRep THEN "native" ELSE "foreign"
      [] x.k = "int" -> "foreign"                       \* integer -> string conversion (a rune)
      [] x.k = "list" -> IF x.rep = "any" THEN "no" ELSE "foreign"   \* []byte / []rune convert
      [] x.k \in {"nil", "bool", "float", "fspecial", "map", "re", "junk", "struct"} -> "no"
AsBoolClass(x) ==     \* bool.go:107 asBool
    CASE x.k = "bool" -> IF x.rep = "bool" THEN "native" ELSE "foreign"
      [] x.k \in {"nil", "int", "float", "fspecial", "str", "list", "map", "re", "junk", "struct"} -> "no"

\* ------------------------------------------------------------------ the four operations
RECURSIVE Unser(_, _), Valid(_, _), Ser(_, _), CompatData(_, _), AnyConv(_), AnyCompat(_), SubHasDefaults(_), ZeroStruct(_)

\* any.go:227 checkAndConvert (the same function serves Unserialize, Validate and Serialize)
AnyConv(x) ==
    CASE x.k = "nil" -> Rej
      [] x.k = "bool" -> IF x.rep = "named" THEN UnspecV(B(x.v)) ELSE Ok(x)
      [] x.k = "int" -> IF x.rep = "named" THEN UnspecV(I64(x.v)) ELSE IF FitsI64(x.v) THEN Ok(I64(x.v)) ELSE Rej
      [] x.k = "float" -> IF x.rep = "named" THEN UnspecV(F64(x.v)) ELSE Ok(F64(x.v))
      [] x.k = "fspecial" -> Ok(FS("float64", x.v))
      [] x.k = "str" -> IF x.rep = "named" THEN UnspecV(Str(x.v)) ELSE Ok(x)
      [] x.k = "list" ->
            LET rs == [i \in 1..Len(x.v) |-> AnyConv(x.v[i])]
                c == AllOk(rs)
            IN IF c = "yes" THEN Ok(L("any", [i \in 1..Len(x.v) |-> rs[i].v])) ELSE Wrap(c, Nil)
      [] x.k = "map" ->
            LET ks == [i \in 1..Len(x.v) |-> AnyConv(x.v[i][1])]
                ws == [i \in 1..Len(x.v) |-> AnyConv(x.v[i][2])]
                c == Both(AllOk(ks), AllOk(ws))
            IN IF c # "yes" THEN Wrap(c, Nil)
               ELSE IF \E i, j \in 1..Len(x.v) : i < j /\ EqV(ks[i].v, ks[j].v) THEN Unspec   \* two raw keys, one key
               ELSE Ok(M("any_any", [i \in 1..Len(x.v) |-> <<ks[i].v, ws[i].v>>]))
      [] x.k \in {"re", "junk", "struct"} -> Rej


\* ------------------------------------------------------------------ objects: helpers
Declares(s, n) == \E i \in DOMAIN s.props : s.props[i].name = n
GoStringKey(k) == k.k = "str" /\ k.rep = "string"
\* the value a mapping supplies under the Go string key n
Supplied(x, n) ==
    LET js == {j \in 1..Len(x.v) : GoStringKey(x.v[j][1]) /\ x.v[j][1].v = n}
    IN IF js = {} THEN None ELSE Some(x.v[CHOOSE j \in js : TRUE][2])
Without(x, n) == [x EXCEPT !.v = SelectSeq(x.v, LAMBDA q : ~(GoStringKey(q[1]) /\ q[1].v = n))]
KeyNames(x) == {x.v[j][1].v : j \in {i \in 1..Len(x.v) : GoStringKey(x.v[i][1])}}

\* object.go:518 validateFieldInterdependencies; D = the property names that are set ("set" =
\* present in the mapping after defaulting)
RuleOK(p, D) ==
    IF p.name \in D THEN \A i \in DOMAIN p.conflicts : p.conflicts[i] \notin D
    ELSE /\ ~p.required
         /\ \A i \in DOMAIN p.required_if : p.required_if[i] \notin D
         /\ (Len(p.required_if_not) = 0 \/ \E i \in DOMAIN p.required_if_not : p.required_if_not[i] \in D)
PresenceOK(s, D) == \A i \in DOMAIN s.props : RuleOK(s.props[i], D)

\* zero value of a by-value struct field
ZeroOf(fk) ==
    CASE fk = "int" -> I64(0)
      [] fk \in {"string", "string_bytes", "string_runes"} -> Str("#empty")
      [] fk = "bool" -> B(FALSE)
      [] fk = "float" -> F64(0)
      [] fk = "named" -> S("named", "#empty")
      [] fk \in {"list_int", "list_string"} -> L("typed", <<>>)
      [] fk = "map_string_int" -> M("typed", <<>>)
FieldZero(s, p) ==
    LET f == FieldOf(s.layout, p.name) IN
    IF Nullable(f) THEN None
    ELSE IF f.fk \in {"sub", "wide"} THEN Some(ZeroStruct(p.type))
    ELSE IF f.fk = "objmap" THEN Some(M("string_any", <<>>))        \* a nil map[string]any is the empty mapping
    ELSE IF f.fk = "named" /\ p.type.kind = "string" THEN Some(Str("#empty"))   \* a plain string schema sees the string it converts to
    ELSE Some(ZeroOf(f.fk))
ZeroStruct(s) == Struct(s.layout, [i \in DOMAIN s.props |-> <<s.props[i].name, FieldZero(s, s.props[i])>>])

\* the native value of an object from the (optional) native value of each property
ObjValue(s, vals) ==
    IF s.layout = "map"
    THEN LET all == [i \in DOMAIN s.props |-> <<Str(s.props[i].name), vals[i]>>]
             set == SelectSeq(all, LAMBDA q : q[2].some)
         IN M("string_any", [i \in DOMAIN set |-> <<set[i][1], set[i][2].v>>])
    ELSE Struct(s.layout, [i \in DOMAIN s.props |->
                <<s.props[i].name, IF vals[i].some THEN vals[i] ELSE FieldZero(s, s.props[i])>>])

\* object.go:452 applySubObjectDefaultValues (pinned by TestObjectNestedDefaults): in a struct-mapped
\* object an absent member of object type whose Go type is not a pointer is built from its own defaults
\* (an empty mapping is handed to it) whenever it declares any
SubHasDefaults(t) ==
    t.kind = "object" /\ \E i \in DOMAIN t.props :
        t.props[i].default.some \/ (t.props[i].type.kind = "object" /\ RecvOf(t.props[i].type) # "pointer" /\ SubHasDefaults(t.props[i].type))
\* what an absent property gets: its declared default (object.go:497; intended: exactly that - finding
\* 19: the code merges the member's own defaults over it), else the propagated empty mapping
EffectiveDefault(s, p) ==
    IF p.default.some THEN p.default
    ELSE IF s.layout # "map" /\ p.type.kind = "object" /\ RecvOf(p.type) # "pointer" /\ SubHasDefaults(p.type)
         THEN Some(M("string_any", <<>>))
    ELSE None

\* property.go:133: a disabled property refuses every value
PropUnser(p, x) == IF p.disabled THEN Rej ELSE Unser(p.type, x)

\* object.go:108 Unserialize
ObjUnser(s, x) ==
    IF x.k # "map" THEN
        \* object.go:135 single-property inline shorthand
        IF Len(s.props) # 1 THEN Rej
        ELSE LET r == PropUnser(s.props[1], x) IN
             IF r.ok = "yes" THEN Ok(ObjValue(s, <<Some(r.v)>>)) ELSE r
    ELSE IF \E j \in 1..Len(x.v) : ~GoStringKey(x.v[j][1]) \/ ~Declares(s, x.v[j][1].v) THEN Rej   \* object.go:484-491
    ELSE LET raw == [i \in DOMAIN s.props |->
                        LET sup == Supplied(x, s.props[i].name) IN
                        IF sup.some THEN sup ELSE EffectiveDefault(s, s.props[i])]
             D == {s.props[i].name : i \in {j \in DOMAIN s.props : raw[j].some}}
             rs == [i \in DOMAIN s.props |-> IF raw[i].some THEN PropUnser(s.props[i], raw[i].v) ELSE OkU]
             c == AllOk(rs)
         IN IF c = "no" THEN Rej
            ELSE IF ~PresenceOK(s, D) THEN Rej
            ELSE IF c = "maybe" THEN Unspec
            ELSE Ok(ObjValue(s, [i \in DOMAIN s.props |-> IF raw[i].some THEN Some(rs[i].v) ELSE None]))

\* which properties a native object value has set, and their values
\* (object.go:295 getFieldReflection: nil pointer / nil interface = absent; :375 treat-empty-as-default)
NativeProps(s, v) ==
    IF s.layout = "map"
    THEN [i \in DOMAIN s.props |-> Supplied(v, s.props[i].name)]
    ELSE [i \in DOMAIN s.props |->
            LET f == v.v[i][2] IN
            IF ~f.some THEN None
            ELSE IF s.props[i].empty_is_default /\ FieldZero(s, s.props[i]).some /\ EqModRep(f.v, FieldZero(s, s.props[i]).v) THEN None
            ELSE f]
\* is v a value of the Go type the object's Validate / Serialize accept at all
ObjShapeOK(s, v) ==
    IF s.layout = "map" THEN v.k = "map" /\ v.rep = "string_any"
    ELSE v.k = "struct" /\ v.t = s.layout /\ Len(v.v) = Len(s.props) /\ \A i \in DOMAIN s.props : v.v[i][1] = s.props[i].name

\* object.go:443 Validate / :306 Serialize (validateMap, validateStruct)
ObjValidWith(s, v, op(_, _)) ==
    IF ~ObjShapeOK(s, v) THEN "no"
    ELSE IF s.layout = "map" /\ \E n \in KeyNames(v) : ~Declares(s, n) THEN "no"
    ELSE LET ps == NativeProps(s, v)
             D == {s.props[i].name : i \in {j \in DOMAIN s.props : ps[j].some}}
             c == AllOk([i \in DOMAIN s.props |-> IF ps[i].some THEN op(s.props[i].type, ps[i].v) ELSE OkU])
         IN IF c = "no" \/ ~PresenceOK(s, D) THEN "no" ELSE c
ObjValid(s, v) == LET op(t, w) == Valid(t, w) IN WrapU(ObjValidWith(s, v, op))
ObjSer(s, v) ==
    LET op(t, w) == Ser(t, w)
        c == ObjValidWith(s, v, op)
    IN IF c # "yes" THEN Wrap(c, Nil)
       ELSE LET ps == NativeProps(s, v)
                all == [i \in DOMAIN s.props |-> <<Str(s.props[i].name), IF ps[i].some THEN Some(Ser(s.props[i].type, ps[i].v).v) ELSE None>>]
                set == SelectSeq(all, LAMBDA q : q[2].some)
            IN Ok(M("string_any", [i \in DOMAIN set |-> <<set[i][1], set[i][2].v>>]))

\* object.go:330 validateMapTypesCompatibility / :406 validateRawCompatibility (data mode)
ObjCompat(s, x) ==
    IF x.k = "map" /\ x.rep = "string_any" THEN
        IF \E n \in KeyNames(x) : ~Declares(s, n) THEN Rej
        ELSE LET cs == [i \in DOMAIN s.props |->
                          LET sup == Supplied(x, s.props[i].name) IN
                          IF ~sup.some THEN (IF s.props[i].required THEN Rej ELSE OkU)
                          ELSE LET c == CompatData(s.props[i].type, sup.v) IN
                               IF c.ok = "no" THEN Rej
                               ELSE IF s.props[i].disabled THEN Rej                        \* property.go:176
                               ELSE IF s.props[i].required /\ sup.v.k = "nil" THEN Rej    \* data[k] == nil
                               ELSE c]
             IN WrapU(AllOk(cs))
    ELSE WrapU(Unser(s, x).ok)

\* ------------------------------------------------------------------ one-of
DiscKey(s, raw) == IF s.disc = "int" THEN IntMapper(raw, None) ELSE StringMapper(raw)     \* oneof.go:318
MemberIdx(s, key) ==
    LET is == {i \in DOMAIN s.members : s.members[i][1] = key.v}
    IN IF is = {} THEN 0 ELSE CHOOSE i \in is : TRUE
\* can the map be indexed with a Go string (oneof.go:90 MapIndex; finding 14: otherwise the code panics)
StringIndexable(x) == x.rep \in {"string_any", "any_any"} \/ (x.rep = "typed" /\ \A j \in 1..Len(x.v) : GoStringKey(x.v[j][1]))
NativeDisc(s, d) == IF s.disc = "int" THEN d.k = "int" /\ d.rep = "int64" ELSE GoStringKey(d)
SetPair(m, n, val) == [m EXCEPT !.v = Append(SelectSeq(m.v, LAMBDA q : ~(GoStringKey(q[1]) /\ q[1].v = n)), <<Str(n), val>>)]

\* oneof.go:76 UnserializeType
OneOfUnser(s, x) ==
    IF x.k # "map" THEN Rej
    ELSE IF ~StringIndexable(x) THEN Rej
    ELSE LET d == Supplied(x, s.field) IN
         IF ~d.some THEN Rej
         ELSE LET key == DiscKey(s, d.v) IN
              IF key.ok # "yes" THEN Rej
              ELSE IF \E j \in 1..Len(x.v) : ~GoStringKey(x.v[j][1]) THEN Rej
              ELSE LET i == MemberIdx(s, key.v) IN
                   IF i = 0 THEN Rej
                   ELSE LET m == s.members[i][2]
                            r == Unser(m, IF s.inlined THEN x ELSE Without(x, s.field))
                        IN IF r.ok # "yes" THEN r
                           \* intended: the TYPED discriminator travels with a map-based result (finding 16: the code
                           \* re-attaches the raw one); when inlined the member unserialised the field itself
                           ELSE IF r.v.k = "map" /\ ~s.inlined THEN Ok(SetPair(r.v, s.field, key.v))
                           ELSE r

\* oneof.go:353 findUnderlyingType + :250 validateMap: member and the value handed to it
OneOfNative(s, v) ==
    IF v.k = "map" THEN
        IF v.rep # "string_any" THEN [ok |-> FALSE]        \* finding 14: map[any]any panics in the code
        ELSE LET d == Supplied(v, s.field) IN
             IF ~d.some \/ d.v.k = "nil" \/ ~NativeDisc(s, d.v) THEN [ok |-> FALSE]
             ELSE LET i == MemberIdx(s, d.v) IN
                  IF i = 0 THEN [ok |-> FALSE]
                  ELSE [ok |-> TRUE, m |-> s.members[i][2], w |-> IF s.inlined THEN v ELSE Without(v, s.field), key |-> d.v, ismap |-> TRUE]
    ELSE IF v.k = "struct" THEN
        LET is == {i \in DOMAIN s.members : s.members[i][2].kind = "object" /\ s.members[i][2].layout = v.t}
        IN IF is = {} THEN [ok |-> FALSE]
           ELSE LET i == CHOOSE j \in is : TRUE IN
                [ok |-> TRUE, m |-> s.members[i][2], w |-> v, ismap |-> FALSE,
                 key |-> IF s.disc = "int" THEN I64(s.members[i][1]) ELSE Str(s.members[i][1])]
    ELSE [ok |-> FALSE]
OneOfValid(s, v) ==
    LET n == OneOfNative(s, v) IN
    IF ~n.ok THEN Rej
    \* intended (C03): accepted exactly when the member accepts it.  (The current code first applies the
    \* member's data-mode COMPATIBILITY rules to a map value - oneof.go:250 validateMap - which are stricter
    \* in places: homogeneous `any` lists, struct values, disabled properties.)
    ELSE Valid(n.m, n.w)
OneOfSer(s, v) ==
    LET n == OneOfNative(s, v) IN
    IF ~n.ok THEN Rej
    ELSE LET r == Ser(n.m, n.w)
             c == r.ok
         IN IF c # "yes" THEN Wrap(c, Nil)
            ELSE IF Supplied(r.v, s.field).some THEN r ELSE Ok(SetPair(r.v, s.field, n.key))     \* oneof.go:176
OneOfCompat(s, x) ==
    IF x.k = "map" /\ x.rep = "string_any" THEN
        LET n == OneOfNative(s, x) IN IF ~n.ok THEN Rej ELSE CompatData(n.m, n.w)
    ELSE IF KindOf(x) = "struct" \/ (x.k = "junk" /\ x.v = "ptr") THEN
        (IF x.k = "struct" THEN Unspec ELSE Rej)       \* taken for a schema (oneof.go:205)
    ELSE OneOfValid(s, x)

ScalarUnser(s, raw) ==
    CASE s.kind = "int" ->         \* int.go:56
            LET m == IntMapper(raw, s.units) IN
            IF m.ok # "yes" THEN m ELSE IF IsHuge(m) /\ EdgeConstrained(s) THEN Unspec ELSE IF IntBounds(s, m.v.v) THEN m ELSE Rej
      [] s.kind = "float" ->       \* float.go:56
            LET m == FloatMapper(raw, s.units) IN
            IF m.ok # "yes" THEN m ELSE IF IsHuge(m) /\ EdgeConstrained(s) THEN Unspec ELSE IF FloatBounds(s, m.v) THEN m ELSE Rej
      [] s.kind = "string" ->      \* string.go:61
            LET m == StringMapper(raw) IN
            IF m.ok # "yes" THEN m ELSE IF StringBounds(s, m.v.v) THEN m ELSE Rej
      [] s.kind = "bool" -> BoolMapper(raw)
      [] s.kind = "pattern" ->     \* pattern.go:33: string mapper, then regexp.Compile
            LET m == StringMapper(raw) IN
            IF m.ok # "yes" THEN m ELSE IF Tok[m.v.v].re THEN Ok(Re(m.v.v)) ELSE Rej
      [] s.kind = "enum_int" ->    \* enum_int.go:36
            LET m == IntMapper(raw, s.units) IN
            IF m.ok # "yes" THEN m ELSE IF IsHuge(m) /\ EdgeConstrained(s) THEN Unspec ELSE IF Member(s, m.v.v) THEN m ELSE Rej
      [] s.kind = "enum_string" -> \* enum_string.go:46: the result has the native type T
            LET m == StringMapper(raw) IN
            IF m.ok # "yes" THEN m
            ELSE IF Member(s, m.v.v) THEN Ok(S(IF s.typed THEN "named" ELSE "string", m.v.v)) ELSE Rej
      [] s.kind = "any" -> AnyConv(raw)

Unser(s, raw) ==
    CASE s.kind \in ScalarKinds -> ScalarUnser(s, raw)
      [] s.kind = "list" ->        \* list.go:97: any slice; size bounds on the raw length; items
            IF raw.k # "list" THEN Rej
            ELSE IF ~SizeOK(s, Len(raw.v)) THEN Rej
            ELSE LET rs == [i \in 1..Len(raw.v) |-> Unser(s.items, raw.v[i])]
                     c == AllOk(rs)
                 IN IF c = "yes" THEN Ok(L("typed", [i \in 1..Len(raw.v) |-> rs[i].v])) ELSE Wrap(c, Nil)
      [] s.kind = "map" ->         \* map.go:96: any map; size bounds on the raw length; keys, values
            IF raw.k # "map" THEN Rej
            ELSE IF ~SizeOK(s, Len(raw.v)) THEN Rej
            ELSE LET ks == [i \in 1..Len(raw.v) |-> Unser(s.keys, raw.v[i][1])]
                     ws == [i \in 1..Len(raw.v) |-> Unser(s.values, raw.v[i][2])]
                     c == Both(AllOk(ks), AllOk(ws))
                 IN IF c # "yes" THEN Wrap(c, Nil)
                    \* map.go: two raw keys that denote the same key are rejected, whatever the Go type of the raw map
                    \* (a map[string]any can hold "1" and "01" for an integer key just as a map[any]any holds 1 and "1")
                    ELSE IF \E i, j \in 1..Len(raw.v) : i < j /\ EqModRep(ks[i].v, ks[j].v) THEN Rej
                    ELSE Ok(M("typed", [i \in 1..Len(raw.v) |-> <<ks[i].v, ws[i].v>>]))
      [] s.kind = "object" -> ObjUnser(s, raw)
      [] s.kind = "oneof" -> OneOfUnser(s, raw)
      [] s.kind = "scope" -> Unser(Unfold(s, VDepth(raw)), raw)     \* scope.go:79: the root object, references linked
      \* a reference below the depth the argument reaches: only a chain of single-property inline shorthands
      \* through self-references gets here without consuming the argument - no finite unfolding accepts it
      [] s.kind = "refcut" -> Rej

\* Validate: error or nil
ScalarValid(s, x) ==
    CASE s.kind = "int" ->
            LET c == AsIntClass(x) IN
            IF c = "native" THEN WrapU(YesNo(IntBounds(s, x.v))) ELSE IF c = "foreign" THEN Unspec ELSE Rej
      [] s.kind = "float" ->
            LET c == AsFloatClass(x) IN
            IF c = "native" THEN WrapU(YesNo(FloatBounds(s, x))) ELSE IF c = "foreign" THEN Unspec ELSE Rej
      [] s.kind = "string" ->
            LET c == AsStringClass(x, "string") IN
            IF c = "native" THEN WrapU(YesNo(StringBounds(s, x.v))) ELSE IF c = "foreign" THEN Unspec ELSE Rej
      [] s.kind = "bool" ->
            LET c == AsBoolClass(x) IN IF c = "native" THEN OkU ELSE IF c = "foreign" THEN Unspec ELSE Rej
      [] s.kind = "pattern" ->     \* pattern.go:66; intended: a typed nil *regexp.Regexp is no pattern
            (CASE x.k = "re" -> OkU
               [] x.k = "junk" -> IF x.v = "nilre" THEN Unspec ELSE Rej
               [] x.k \in {"nil", "bool", "int", "float", "fspecial", "str", "list", "map", "struct"} -> Rej)
      [] s.kind = "enum_int" ->
            LET c == AsIntClass(x) IN
            IF c = "native" THEN WrapU(YesNo(Member(s, x.v))) ELSE IF c = "foreign" THEN Unspec ELSE Rej
      [] s.kind = "enum_string" ->
            LET c == AsStringClass(x, IF s.typed THEN "named" ELSE "string") IN
            IF c = "native" THEN WrapU(YesNo(Member(s, x.v))) ELSE IF c = "foreign" THEN Unspec ELSE Rej
      [] s.kind = "any" -> WrapU(AnyConv(x).ok)

Valid(s, x) ==
    CASE s.kind \in ScalarKinds -> ScalarValid(s, x)
      [] s.kind = "list" ->        \* list.go:182
            IF x.k # "list" THEN Rej
            ELSE IF ~SizeOK(s, Len(x.v)) THEN Rej
            ELSE WrapU(AllOk([i \in 1..Len(x.v) |-> Valid(s.items, x.v[i])]))
      [] s.kind = "map" ->         \* map.go:221
            IF x.k # "map" THEN Rej
            ELSE IF ~SizeOK(s, Len(x.v)) THEN Rej
            ELSE WrapU(Both(AllOk([i \in 1..Len(x.v) |-> Valid(s.keys, x.v[i][1])]),
                            AllOk([i \in 1..Len(x.v) |-> Valid(s.values, x.v[i][2])])))
      [] s.kind = "object" -> ObjValid(s, x)
      [] s.kind = "oneof" -> OneOfValid(s, x)
      [] s.kind = "scope" -> Valid(Unfold(s, VDepth(x)), x)
      [] s.kind = "refcut" -> Rej

\* Serialize: the wire form ([]any, map[any]any, int64, float64, string, bool)
ScalarSer(s, x) ==
    LET c == ScalarValid(s, x) IN
    IF c.ok # "yes" THEN c
    ELSE CASE s.kind \in {"int", "float", "string", "bool", "enum_int"} -> Ok(x)
           [] s.kind = "enum_string" -> Ok(Str(x.v))          \* the serialized type S = string
           [] s.kind = "pattern" -> Ok(Str(x.v))              \* pattern.go:87 .String()
           [] s.kind = "any" -> AnyConv(x)

Ser(s, x) ==
    CASE s.kind \in ScalarKinds -> ScalarSer(s, x)
      [] s.kind = "list" ->        \* list.go:204
            LET c == Valid(s, x) IN
            IF c.ok # "yes" THEN c
            ELSE LET rs == [i \in 1..Len(x.v) |-> Ser(s.items, x.v[i])]
                     a == AllOk(rs)
                 IN IF a = "yes" THEN Ok(L("any", [i \in 1..Len(x.v) |-> rs[i].v])) ELSE Wrap(a, Nil)
      [] s.kind = "map" ->         \* map.go:247
            LET c == Valid(s, x) IN
            IF c.ok # "yes" THEN c
            ELSE LET ks == [i \in 1..Len(x.v) |-> Ser(s.keys, x.v[i][1])]
                     ws == [i \in 1..Len(x.v) |-> Ser(s.values, x.v[i][2])]
                     a == Both(AllOk(ks), AllOk(ws))
                 IN IF a = "yes" THEN Ok(M("any_any", [i \in 1..Len(x.v) |-> <<ks[i].v, ws[i].v>>]))
                    ELSE Wrap(a, Nil)
      [] s.kind = "object" -> ObjSer(s, x)
      [] s.kind = "oneof" -> OneOfSer(s, x)
      [] s.kind = "scope" -> Ser(Unfold(s, VDepth(x)), x)
      [] s.kind = "refcut" -> Rej

\* ------------------------------------------------------------------ data-mode ValidateCompatibility
\* No property fixes its acceptance set (held to totality and determinism: C04, C12); the
\* operators below describe the current rules so that a change shows up as drift.
\* any.go:186
AnyCompat(x) ==
    CASE x.k = "map" /\ x.rep \in {"string_any", "int64_any"} ->
            WrapU(AllOk([i \in 1..Len(x.v) |-> AnyCompat(x.v[i][2])]))
      [] x.k = "map" /\ x.rep = "any_any" ->     \* any.go:72 validateAnyMap
            IF \E i \in 1..Len(x.v) : KindOf(x.v[i][1]) \notin {"int64", "string"} THEN Rej
            ELSE IF \E i, j \in 1..Len(x.v) : KindOf(x.v[i][1]) # KindOf(x.v[j][1]) THEN Rej
            ELSE WrapU(AllOk([i \in 1..Len(x.v) |-> AnyCompat(x.v[i][2])]))
      [] x.k = "list" /\ x.rep = "any" ->        \* any.go:111 validateAnyList: homogeneous kinds
            LET c == AllOk([i \in 1..Len(x.v) |-> AnyCompat(x.v[i])]) IN
            IF c # "yes" THEN WrapU(c)
            ELSE IF \E i \in 1..Len(x.v) : KindOf(x.v[i]) # KindOf(x.v[1]) THEN Rej ELSE OkU
      [] OTHER -> WrapU(AnyConv(x).ok)

CompatData(s, x) ==
    CASE s.kind \in {"int", "float", "bool"} -> WrapU(Unser(s, x).ok)
      [] s.kind = "string" ->      \* string.go:74: Go strings only
            IF x.k = "str" /\ x.rep = "string" THEN WrapU(Unser(s, x).ok) ELSE Rej
      [] s.kind = "pattern" -> Valid(s, x)            \* pattern.go:49 validates as native data
      [] s.kind \in {"enum_int", "enum_string"} ->    \* enum.go:39: Validate as data
            IF x.k = "str" /\ s.kind = "enum_string" THEN WrapU(YesNo(Member(s, x.v)))
            ELSE IF x.k = "int" /\ s.kind = "enum_int" /\ FitsI64(x.v) THEN WrapU(YesNo(Member(s, x.v)))
            ELSE Valid(s, x)
      [] s.kind = "any" -> AnyCompat(x)
      [] s.kind = "list" ->        \* list.go:126: items only, no size check
            IF x.k # "list" THEN Rej
            ELSE WrapU(AllOk([i \in 1..Len(x.v) |-> CompatData(s.items, x.v[i])]))
      [] s.kind = "map" ->         \* map.go:190
            IF x.k # "map" THEN Rej
            ELSE IF ~SizeOK(s, Len(x.v)) THEN Rej
            ELSE WrapU(Both(AllOk([i \in 1..Len(x.v) |-> CompatData(s.keys, x.v[i][1])]),
                            AllOk([i \in 1..Len(x.v) |-> CompatData(s.values, x.v[i][2])])))
      [] s.kind = "object" -> ObjCompat(s, x)
      [] s.kind = "oneof" -> OneOfCompat(s, x)
      [] s.kind = "scope" -> CompatData(Unfold(s, VDepth(x)), x)
      [] s.kind = "refcut" -> Rej

Ops == {"unser", "valid", "ser", "compat"}
Outcome(s, op, x) ==
    CASE op = "unser" -> Unser(s, x)
      [] op = "valid" -> Valid(s, x)
      [] op = "ser" -> Ser(s, x)
      [] op = "compat" -> CompatData(s, x)
=============================================================================
