----------------------------- MODULE SchemaDecl -----------------------------
(***************************************************************************)
(* C02, stated declaratively and independently of the code's structure:    *)
(*                                                                         *)
(*   "Unserialize accepts a raw value exactly when it denotes - under the  *)
(*    SDK's fixed lenient conversions - a value of the schema's type that  *)
(*    satisfies every declared constraint; the accepted result is exactly  *)
(*    the denoted value.  Validate and Serialize enforce the same          *)
(*    constraints on values that are already in native form."              *)
(*                                                                         *)
(* Denotes  = the fixed lenient conversions (DESIGN appendix B, row by     *)
(*            row): which native value, if any, a raw value stands for;    *)
(* Satisfies = the declared constraints on a native value.                 *)
(*                                                                         *)
(* A denotation is one of                                                  *)
(*   [d |-> "some", v |-> native]     denotes exactly this value           *)
(*   [d |-> "none"]                   denotes nothing                      *)
(*   [d |-> "open"]                   the statement leaves it open         *)
(*   [d |-> "open", v |-> native]     open, but if accepted then as this   *)
(*                                    value ("never a wrong number")       *)
(* Open cases: lenient unit strings (C16), values of defined (named) Go    *)
(* types handed to Unserialize of numeric/bool/any schemas (no decoder     *)
(* produces them; appendix B fixes only the string row), two raw map keys  *)
(* denoting one key.                                                       *)
(*                                                                         *)
(* TLC invariants (SchemaMC): Exact and SamePaths - the operational        *)
(* operators of SchemaSem agree with this statement on the whole universe. *)
(***************************************************************************)
EXTENDS SchemaSem

DSome(x) == [d |-> "some", v |-> x]
DNone == [d |-> "none"]
DOpen == [d |-> "open"]
DOpenV(x) == [d |-> "open", v |-> x]
DHasV(r) == "v" \in DOMAIN r

IsNamed(raw) == raw.k \in {"bool", "int", "float", "str"} /\ raw.rep = "named"

\* ------------------------------------------------------------------ appendix B, row "integer"
\* every signed/unsigned width within int64; floats iff integral and within int64 (NaN, Inf,
\* 2^63 denote nothing); bool -> 0/1; strings: unit grammar with units, else base-10 syntax
DenUnitString(t, wantInt) ==
    LET r == UnitReading(t) IN
    IF r.ok = "no" THEN DNone
    ELSE IF r.ok = "odd" THEN (IF wantInt THEN DNone ELSE DOpen)
    ELSE LET integral == r.h % 2 = 0
             val == IF wantInt THEN I64(r.h \div 2) ELSE F64(r.h)
         IN IF wantInt /\ (~integral \/ ~FitsI64(r.h \div 2)) THEN DNone
            ELSE IF r.ok = "yes" THEN DSome(val) ELSE DOpenV(val)

\* unit strings under any built-in set: "accept exactly when the denoted amount fits in int64" for the tokens
\* whose amount the table classifies (g_big); the second based set is read through the C16 grammar; other
\* strings under the byte / nanosecond sets are not modelled (open)
DenUnitStringU(t, u, wantInt) ==
    LET b == Tok[t].ubig[u] IN
    IF b = "fits" THEN DSome(IF wantInt THEN I64(HugeAmount) ELSE F64(2 * HugeAmount))
    ELSE IF b = "nolex" THEN DNone
    ELSE IF b = "over" THEN (IF wantInt THEN DNone ELSE DOpen)
    ELSE IF u = "sec" THEN DenUnitString(t, wantInt) ELSE DOpen

DenInt(raw, units) ==
    IF IsNamed(raw) THEN (IF raw.k = "str" THEN DNone ELSE DOpen)
    ELSE IF raw.k = "int" /\ FitsI64(raw.v) THEN DSome(I64(raw.v))
    ELSE IF raw.k = "float" /\ raw.v % 2 = 0 /\ FitsI64(raw.v \div 2) THEN DSome(I64(raw.v \div 2))
    ELSE IF raw.k = "bool" THEN DSome(I64(IF raw.v THEN 1 ELSE 0))
    ELSE IF raw.k = "str" /\ units.some THEN DenUnitStringU(raw.v, units.v, TRUE)
    ELSE IF raw.k = "str" /\ Tok[raw.v].int.ok THEN DSome(I64(Tok[raw.v].int.v))
    ELSE DNone

\* row "float": every integer width (as float64), floats as is (NaN/Inf denote themselves),
\* bool -> 0/1, strings: unit grammar with units, else strconv.ParseFloat syntax
DenFloat(raw, units) ==
    IF IsNamed(raw) THEN (IF raw.k = "str" THEN DNone ELSE DOpen)
    ELSE IF raw.k = "int" THEN DSome(F64(2 * raw.v))
    ELSE IF raw.k = "float" THEN DSome(F64(raw.v))
    ELSE IF raw.k = "fspecial" THEN DSome(FS("float64", raw.v))
    ELSE IF raw.k = "bool" THEN DSome(F64(IF raw.v THEN 2 ELSE 0))
    ELSE IF raw.k = "str" /\ units.some THEN DenUnitStringU(raw.v, units.v, FALSE)
    ELSE IF raw.k = "str" /\ Tok[raw.v].flt.ok THEN
            (IF Tok[raw.v].flt.cls = "num" THEN DSome(F64(Tok[raw.v].flt.h)) ELSE DSome(FS("float64", Tok[raw.v].flt.cls)))
    ELSE DNone

\* row "string": string; every integer width -> decimal; floats -> %f; nothing else (no bool,
\* no nil, no named string at Unserialize)
DenString(raw) ==
    IF IsNamed(raw) THEN DNone
    ELSE IF raw.k = "str" THEN DSome(raw)
    ELSE IF raw.k = "int" THEN DSome(Str(DecTok[raw.v]))
    ELSE IF raw.k = "float" THEN DSome(Str(FTok[raw.v]))
    ELSE IF raw.k = "fspecial" THEN DSome(Str(FSpecialName(raw.v)))
    ELSE DNone

\* row "bool": bool; integers 0/1 of any width; the case-insensitive words
DenBool(raw) ==
    IF IsNamed(raw) THEN (IF raw.k = "str" THEN DNone ELSE DOpen)
    ELSE IF raw.k = "bool" THEN DSome(raw)
    ELSE IF raw.k = "int" /\ raw.v \in {0, 1} THEN DSome(B(raw.v = 1))
    ELSE IF raw.k = "str" /\ Tok[raw.v].bw.some THEN DSome(B(Tok[raw.v].bw.v))
    ELSE DNone

\* row "pattern": anything the string row accepts, if it compiles as a Go regexp
DenPattern(raw) ==
    LET d == DenString(raw) IN
    IF d.d = "some" /\ Tok[d.v.v].re THEN DSome(Re(d.v.v)) ELSE DNone

\* ------------------------------------------------------------------ Denotes, recursively
Lift(ds, mk(_)) ==
    IF \E i \in DOMAIN ds : ds[i].d = "none" THEN DNone
    ELSE IF \E i \in DOMAIN ds : ds[i].d = "open" THEN DOpen
    ELSE DSome(mk([i \in DOMAIN ds |-> ds[i].v]))

RECURSIVE Denotes(_, _), DenAny(_)

\* ------------------------------------------------------------------ Presence (C03)
\* the presence rules over the set D of properties that are set after defaulting, stated per rule kind
Presence(s, D) ==
    LET P == {s.props[i] : i \in DOMAIN s.props}
        set(n) == n \in D
    IN /\ \A p \in P : p.required => set(p.name)                                                         \* required
       /\ \A p \in P : (\E i \in DOMAIN p.required_if : set(p.required_if[i])) => set(p.name)             \* required_if: any listed one set
       /\ \A p \in P : (Len(p.required_if_not) > 0 /\ \A i \in DOMAIN p.required_if_not : ~set(p.required_if_not[i])) => set(p.name)   \* required_if_not: none of the listed set
       /\ \A p \in P : set(p.name) => \A i \in DOMAIN p.conflicts : ~set(p.conflicts[i])                  \* conflicts

\* ------------------------------------------------------------------ C03: objects and one-of
\* "An object schema accepts a mapping exactly when it has no undeclared or non-string keys, every
\* supplied property is accepted by its type, absent properties that declare a default receive that
\* default (a supplied value is never overridden), and after defaulting every required, required-if,
\* required-if-not and conflicts rule holds and no disabled property is in use; a lone non-map value
\* is accepted only as shorthand for the single property of a one-property object."
\*
\* Denotes: the mapping from property to denoted value, defaults filled in.  The constraints
\* (Presence, disabled) are part of Satisfies below.
DenObject(s, raw) ==
    IF raw.k # "map" THEN
        IF Len(s.props) # 1 THEN DNone
        ELSE LET d == Denotes(s.props[1].type, raw) IN
             IF d.d = "some" THEN DSome(ObjValue(s, <<Some(d.v)>>)) ELSE IF d.d = "none" THEN DNone ELSE DOpen
    ELSE IF \E j \in 1..Len(raw.v) : ~GoStringKey(raw.v[j][1]) THEN DNone              \* a non-string key
    ELSE IF \E n \in KeyNames(raw) : ~Declares(s, n) THEN DNone                          \* an undeclared key
    ELSE LET given == [i \in DOMAIN s.props |-> Supplied(raw, s.props[i].name)]
             eff == [i \in DOMAIN s.props |-> IF given[i].some THEN given[i] ELSE EffectiveDefault(s, s.props[i])]
             ds == [i \in DOMAIN s.props |-> IF eff[i].some THEN Denotes(s.props[i].type, eff[i].v) ELSE DOpen]
             present == {i \in DOMAIN s.props : eff[i].some}
         IN IF \E i \in present : ds[i].d = "none" THEN DNone
            \* "after defaulting, every property's presence rule holds" is a statement about the MAPPING: a struct-mapped
            \* result cannot show that a by-value field (a list, a map, a number) was never supplied, so the rules are
            \* decided here, on the properties present after defaulting (and once more on the native value: Satisfies)
            ELSE IF ~Presence(s, {s.props[i].name : i \in present}) THEN DNone
            \* ("after defaulting ... no disabled property is in use": a disabled property that its own default
            \* puts in use makes Satisfies fail, like a supplied one)
            ELSE IF \E i \in present : ds[i].d = "open" THEN DOpen
            ELSE DSome(ObjValue(s, [i \in DOMAIN s.props |-> IF i \in present THEN Some(ds[i].v) ELSE None]))

\* "A one-of value is routed solely by its discriminator to the declared member (the discriminator
\* being passed on or stripped according to the inlining flag) and is accepted exactly when that member
\* accepts it."
DenOneOf(s, raw) ==
    IF raw.k # "map" THEN DNone
    ELSE IF \E j \in 1..Len(raw.v) : ~GoStringKey(raw.v[j][1]) THEN DNone
    ELSE LET dsc == Supplied(raw, s.field) IN
         IF ~dsc.some THEN DNone
         ELSE LET key == IF s.disc = "int" THEN DenInt(dsc.v, None) ELSE DenString(dsc.v) IN
              IF key.d = "none" THEN DNone
              ELSE IF key.d = "open" THEN DOpen
              ELSE LET is == {i \in DOMAIN s.members : s.members[i][1] = key.v.v} IN
                   IF is = {} THEN DNone
                   ELSE LET m == s.members[CHOOSE i \in is : TRUE][2]
                            d == Denotes(m, IF s.inlined THEN raw ELSE Without(raw, s.field))
                        IN IF d.d # "some" THEN d
                           ELSE IF d.v.k = "map" /\ ~s.inlined THEN DSome(SetPair(d.v, s.field, key.v))
                           ELSE d

\* row "any": nil-free trees of bool, any int/float width (normalised to int64/float64),
\* string, slices, maps with keys of those kinds; everything else denotes nothing
DenAny(raw) ==
    IF IsNamed(raw) THEN DOpen
    ELSE IF raw.k \in {"bool", "str", "fspecial"} THEN DSome(IF raw.k = "fspecial" THEN FS("float64", raw.v) ELSE raw)
    ELSE IF raw.k = "int" THEN (IF FitsI64(raw.v) THEN DSome(I64(raw.v)) ELSE DNone)
    ELSE IF raw.k = "float" THEN DSome(F64(raw.v))
    ELSE IF raw.k = "list" THEN
            LET ds == [i \in 1..Len(raw.v) |-> DenAny(raw.v[i])]
                mk(vs) == L("any", vs)
            IN Lift(ds, mk)
    ELSE IF raw.k = "map" THEN
            LET ks == [i \in 1..Len(raw.v) |-> DenAny(raw.v[i][1])]
                ws == [i \in 1..Len(raw.v) |-> DenAny(raw.v[i][2])]
                all == ks \o ws
                n == Len(raw.v)
            IN IF \E i \in 1..(2 * n) : all[i].d = "none" THEN DNone
               ELSE IF \E i \in 1..(2 * n) : all[i].d = "open" THEN DOpen
               ELSE IF \E i, j \in 1..n : i # j /\ EqV(ks[i].v, ks[j].v) THEN DOpen
               ELSE DSome(M("any_any", [i \in 1..n |-> <<ks[i].v, ws[i].v>>]))
    ELSE DNone

\* a huge amount against a bound / enum value at an edge point: no fixed relation (open)
HugeOpen(s, d) == IF d.d = "some" /\ IsHuge(Ok(d.v)) /\ EdgeConstrained(s) THEN DOpen ELSE d
Denotes(s, raw) ==
    CASE s.kind = "int" -> HugeOpen(s, DenInt(raw, s.units))
      [] s.kind = "float" -> HugeOpen(s, DenFloat(raw, s.units))
      [] s.kind = "string" -> DenString(raw)
      [] s.kind = "bool" -> DenBool(raw)
      [] s.kind = "pattern" -> DenPattern(raw)
      [] s.kind = "enum_int" -> HugeOpen(s, DenInt(raw, s.units))  \* the integer row, then membership
      [] s.kind = "enum_string" ->                                  \* the string row; native type T
            LET d == DenString(raw) IN
            IF d.d = "some" THEN DSome(S(IF s.typed THEN "named" ELSE "string", d.v.v)) ELSE d
      [] s.kind = "any" -> DenAny(raw)
      [] s.kind = "list" ->     \* any slice of accepted items
            IF raw.k # "list" THEN DNone
            ELSE LET ds == [i \in 1..Len(raw.v) |-> Denotes(s.items, raw.v[i])]
                     mk(vs) == L("typed", vs)
                 IN Lift(ds, mk)
      [] s.kind = "map" ->      \* any map whose keys/values are accepted
            IF raw.k # "map" THEN DNone
            ELSE LET n == Len(raw.v)
                     ks == [i \in 1..n |-> Denotes(s.keys, raw.v[i][1])]
                     ws == [i \in 1..n |-> Denotes(s.values, raw.v[i][2])]
                     all == ks \o ws
                 IN IF \E i \in 1..(2 * n) : all[i].d = "none" THEN DNone
                    ELSE IF \E i \in 1..(2 * n) : all[i].d = "open" THEN DOpen
                    \* two raw keys denoting the same key: the raw map denotes no map value ("exactly the values that meet
                    \* the declared constraints": one of the two entries would be lost and the size bounds, checked on the
                    \* raw length, would no longer hold for the result) - rejected whatever the raw map's Go type
                    ELSE IF \E i, j \in 1..n : i # j /\ EqModRep(ks[i].v, ks[j].v) THEN DNone
                    ELSE DSome(M("typed", [i \in 1..n |-> <<ks[i].v, ws[i].v>>]))
      [] s.kind = "object" -> DenObject(s, raw)
      [] s.kind = "oneof" -> DenOneOf(s, raw)
      [] s.kind = "scope" -> Denotes(Unfold(s, VDepth(raw)), raw)
      [] s.kind = "refcut" -> DNone       \* see SchemaSem!Unser

\* ------------------------------------------------------------------ Satisfies
\* the declared constraints, on a native value of the schema's type
RECURSIVE Satisfies(_, _)
Satisfies(s, v) ==
    CASE s.kind = "int" -> (s.min.some => s.min.v <= v.v) /\ (s.max.some => v.v <= s.max.v)
      [] s.kind = "float" ->
            \* a NaN satisfies no bound; infinities are ordinary extended reals
            IF v.k = "fspecial" THEN
                 /\ (s.min.some => v.v = "+inf")
                 /\ (s.max.some => v.v = "-inf")
            ELSE (s.min.some => s.min.v <= v.v) /\ (s.max.some => v.v <= s.max.v)
      [] s.kind = "string" ->
            /\ (s.min.some => s.min.v <= Tok[v.v].len)
            /\ (s.max.some => Tok[v.v].len <= s.max.v)
            /\ (s.pattern.some => Tok[v.v].pat[s.pattern.v])
      [] s.kind \in {"bool", "pattern", "any"} -> TRUE
      [] s.kind \in {"enum_int", "enum_string"} -> v.v \in Range(s.values)
      [] s.kind = "list" ->
            /\ (s.min.some => s.min.v <= Len(v.v)) /\ (s.max.some => Len(v.v) <= s.max.v)
            /\ \A i \in 1..Len(v.v) : Satisfies(s.items, v.v[i])
      [] s.kind = "map" ->
            /\ (s.min.some => s.min.v <= Len(v.v)) /\ (s.max.some => Len(v.v) <= s.max.v)
            /\ \A i \in 1..Len(v.v) : Satisfies(s.keys, v.v[i][1]) /\ Satisfies(s.values, v.v[i][2])
      [] s.kind = "object" ->
            \* no undeclared key; every property that is set satisfies its type and is not disabled; Presence
            LET ps == NativeProps(s, v)
                D == {s.props[i].name : i \in {j \in DOMAIN s.props : ps[j].some}}
            IN /\ (s.layout = "map" => \A n \in KeyNames(v) : Declares(s, n))
               /\ \A i \in DOMAIN s.props : ps[i].some => ~s.props[i].disabled /\ Satisfies(s.props[i].type, ps[i].v)
               /\ Presence(s, D)
      [] s.kind = "oneof" ->
            LET n == OneOfNative(s, v) IN n.ok /\ Satisfies(n.m, n.w)
      [] s.kind = "scope" -> Satisfies(Unfold(s, VDepth(v)), v)
      [] s.kind = "refcut" -> FALSE

\* ------------------------------------------------------------------ native values of a schema's type
RECURSIVE IsNative(_, _), IsAnyTree(_)
IsAnyTree(v) ==
    CASE v.k \in {"bool", "str"} -> v.rep \in {"bool", "string"}
      [] v.k = "int" -> v.rep = "int64" /\ FitsI64(v.v)
      [] v.k \in {"float", "fspecial"} -> v.rep = "float64"
      [] v.k = "list" -> \A i \in 1..Len(v.v) : IsAnyTree(v.v[i])
      [] v.k = "map" ->
            /\ \A i \in 1..Len(v.v) : v.v[i][1].k \in {"bool", "str", "int", "float"} /\ IsAnyTree(v.v[i][1]) /\ IsAnyTree(v.v[i][2])
            /\ \A i, j \in 1..Len(v.v) : i # j => ~EqV(v.v[i][1], v.v[j][1])
      [] v.k \in {"nil", "re", "junk", "struct"} -> FALSE
IsNative(s, v) ==
    CASE s.kind \in {"int", "enum_int"} -> v.k = "int" /\ v.rep = "int64" /\ FitsI64(v.v)
      [] s.kind = "float" -> v.k \in {"float", "fspecial"} /\ v.rep = "float64"
      [] s.kind = "string" -> v.k = "str" /\ v.rep = "string"
      [] s.kind = "bool" -> v.k = "bool" /\ v.rep = "bool"
      [] s.kind = "pattern" -> v.k = "re"
      [] s.kind = "enum_string" -> v.k = "str" /\ v.rep = (IF s.typed THEN "named" ELSE "string")
      [] s.kind = "any" -> IsAnyTree(v)
      [] s.kind = "list" -> v.k = "list" /\ \A i \in 1..Len(v.v) : IsNative(s.items, v.v[i])
      [] s.kind = "map" ->
            /\ v.k = "map"
            /\ \A i \in 1..Len(v.v) : IsNative(s.keys, v.v[i][1]) /\ IsNative(s.values, v.v[i][2])
            /\ \A i, j \in 1..Len(v.v) : i # j => ~EqModRep(v.v[i][1], v.v[j][1])
      [] s.kind = "object" ->
            /\ ObjShapeOK(s, v)
            /\ (s.layout = "map" => \A j \in 1..Len(v.v) : GoStringKey(v.v[j][1]))
            /\ LET ps == NativeProps(s, v) IN \A i \in DOMAIN s.props : ps[i].some => IsNative(s.props[i].type, ps[i].v)
      [] s.kind = "oneof" ->
            \* a map-based member's mapping carrying the typed discriminator, or a member's struct
            IF v.k = "map" THEN
                 /\ v.rep = "string_any" /\ (\A j \in 1..Len(v.v) : GoStringKey(v.v[j][1]))
                 /\ LET d == Supplied(v, s.field) IN
                    d.some /\ NativeDisc(s, d.v) /\ MemberIdx(s, d.v) # 0
                    /\ LET m == s.members[MemberIdx(s, d.v)][2] IN
                       m.layout = "map" /\ IsNative(m, IF s.inlined THEN v ELSE Without(v, s.field))
            ELSE v.k = "struct" /\ \E i \in DOMAIN s.members : s.members[i][2].layout = v.t /\ IsNative(s.members[i][2], v)
      [] s.kind = "scope" -> IsNative(Unfold(s, VDepth(v)), v)
      [] s.kind = "refcut" -> FALSE

\* the wire form of a native value (what Serialize has to emit)
RECURSIVE WireOf(_, _)
WireOf(s, v) ==
    CASE s.kind \in {"int", "float", "string", "bool", "enum_int"} -> v
      [] s.kind \in {"enum_string", "pattern"} -> Str(v.v)
      [] s.kind = "any" -> v
      [] s.kind = "list" -> L("any", [i \in 1..Len(v.v) |-> WireOf(s.items, v.v[i])])
      [] s.kind = "map" -> M("any_any", [i \in 1..Len(v.v) |-> <<WireOf(s.keys, v.v[i][1]), WireOf(s.values, v.v[i][2])>>])
      [] s.kind = "object" ->
            LET ps == NativeProps(s, v)
                all == [i \in DOMAIN s.props |-> <<Str(s.props[i].name), IF ps[i].some THEN Some(WireOf(s.props[i].type, ps[i].v)) ELSE None>>]
                set == SelectSeq(all, LAMBDA q : q[2].some)
            IN M("string_any", [i \in DOMAIN set |-> <<set[i][1], set[i][2].v>>])
      [] s.kind = "oneof" ->
            LET n == OneOfNative(s, v)
                w == WireOf(n.m, n.w)
            IN IF Supplied(w, s.field).some THEN w ELSE SetPair(w, s.field, n.key)
      [] s.kind = "scope" -> WireOf(Unfold(s, VDepth(v)), v)

\* ------------------------------------------------------------------ the statement as expected outcomes
DeclUnser(s, raw) ==
    LET d == Denotes(s, raw) IN
    CASE d.d = "none" -> Rej
      [] d.d = "some" -> IF Satisfies(s, d.v) THEN Ok(d.v) ELSE Rej
      [] d.d = "open" -> IF DHasV(d) THEN (IF Satisfies(s, d.v) THEN UnspecV(d.v) ELSE Rej) ELSE Unspec

\* Validate / Serialize: the statement speaks about native values only; what they do with
\* other Go values is not an exactness claim (C04: they must return)
\* C03 lists "no disabled property is in use" for the acceptance of a mapping; whether Validate /
\* Serialize refuse a native value that uses a disabled property is left open (DESIGN appendix G)
RECURSIVE UsesDisabled(_, _)
UsesDisabled(s, v) ==
    CASE s.kind \in ScalarKinds -> FALSE
      [] s.kind = "list" -> \E i \in 1..Len(v.v) : UsesDisabled(s.items, v.v[i])
      [] s.kind = "map" -> \E i \in 1..Len(v.v) : UsesDisabled(s.values, v.v[i][2])
      [] s.kind = "object" ->
            LET ps == NativeProps(s, v) IN
            \E i \in DOMAIN s.props : ps[i].some /\ (s.props[i].disabled \/ UsesDisabled(s.props[i].type, ps[i].v))
      [] s.kind = "oneof" -> LET n == OneOfNative(s, v) IN n.ok /\ UsesDisabled(n.m, n.w)
      [] s.kind = "scope" -> UsesDisabled(Unfold(s, VDepth(v)), v)
      [] s.kind = "refcut" -> FALSE
DeclValid(s, x) ==
    IF ~IsNative(s, x) THEN Unspec
    ELSE IF UsesDisabled(s, x) THEN Unspec
    ELSE IF Satisfies(s, x) THEN OkU ELSE Rej
DeclSer(s, x) ==
    IF ~IsNative(s, x) THEN Unspec
    ELSE IF UsesDisabled(s, x) THEN Unspec
    ELSE IF Satisfies(s, x) THEN Ok(WireOf(s, x)) ELSE Rej

Declared(s, op, x) ==
    CASE op = "unser" -> DeclUnser(s, x)
      [] op = "valid" -> DeclValid(s, x)
      [] op = "ser" -> DeclSer(s, x)
      [] op = "compat" -> Unspec          \* no property states the acceptance set of data-mode compatibility

\* declared outcome (accept / reject / open) of every element below a container argument, as a tree
\* [ok, kids] (list: one node per item; map: key node, value node, key node, ...): lets the harness
\* name the position where code and statement first diverge (signature kind_at_fault)
PropOf(s, n) == s.props[CHOOSE i \in DOMAIN s.props : s.props[i].name = n]
RECURSIVE Sub(_, _, _)
SubNode(s, op, x) == [ok |-> Declared(s, op, x).ok, kids |-> Sub(s, op, x)]
Sub(s, op, x) ==
    CASE s.kind = "list" /\ x.k = "list" -> [i \in 1..Len(x.v) |-> SubNode(s.items, op, x.v[i])]
      [] s.kind = "any" /\ x.k = "list" -> [i \in 1..Len(x.v) |-> SubNode(s, op, x.v[i])]
      [] s.kind \in {"map", "any"} /\ x.k = "map" ->
            [j \in 1..(2 * Len(x.v)) |->
                LET i == (j + 1) \div 2
                    ks == IF s.kind = "map" THEN s.keys ELSE s
                    ws == IF s.kind = "map" THEN s.values ELSE s
                IN IF j % 2 = 1 THEN SubNode(ks, op, x.v[i][1]) ELSE SubNode(ws, op, x.v[i][2])]
      [] s.kind = "object" /\ x.k = "map" ->
            \* key node (is the key declared?), value node
            [j \in 1..(2 * Len(x.v)) |->
                LET i == (j + 1) \div 2
                    key == x.v[i][1]
                    known == GoStringKey(key) /\ Declares(s, key.v)
                IN IF j % 2 = 1 THEN [ok |-> IF known THEN "yes" ELSE "no", kids |-> <<>>]
                   ELSE IF known THEN SubNode(PropOf(s, key.v).type, op, x.v[i][2]) ELSE [ok |-> "maybe", kids |-> <<>>]]
      [] s.kind = "scope" -> Sub(Unfold(s, VDepth(x)), op, x)
      [] OTHER -> <<>>

\* ------------------------------------------------------------------ the invariants
\* operational refines declarative: equal wherever the statement is definite
Refines(o, d) ==
    CASE d.ok = "yes" -> o.ok = "yes" /\ (HasV(d) => HasV(o) /\ EqModRep(o.v, d.v))
      [] d.ok = "no" -> o.ok = "no"
      [] d.ok = "maybe" -> (HasV(d) /\ o.ok = "yes" /\ HasV(o)) => EqModRep(o.v, d.v)

Exact(s, raw) == Refines(Unser(s, raw), DeclUnser(s, raw))

\* ------------------------------------------------------------------ C01: round trip
\* "For every schema and every raw value that Unserialize accepts, the result passes Validate, Serialize
\* of it succeeds, and unserializing that serialized form - directly or after a CBOR encode/decode exactly
\* as ATP transports it - yields an equal value whose serialization is identical again."
\* Equality does not distinguish container representations (nil / empty, []any / []T).
RoundTrip(s, raw) ==
    LET u == Unser(s, raw) IN
    (u.ok = "yes") =>
        /\ Valid(s, u.v).ok = "yes"
        /\ LET w == Ser(s, u.v) IN
           /\ w.ok = "yes"
           /\ CBORable(w.v)
           /\ LET u2 == Unser(s, w.v)
                  u3 == Unser(s, CBOR(w.v))
              IN /\ u2.ok = "yes" /\ EqModRep(u2.v, u.v)
                 /\ u3.ok = "yes" /\ EqModRep(u3.v, u.v)
                 /\ LET w2 == Ser(s, u3.v) IN w2.ok = "yes" /\ EqModRep(w2.v, w.v)
SamePaths(s, v) ==
    IsNative(s, v) =>
        /\ (Valid(s, v).ok = "yes") = Satisfies(s, v)
        /\ Valid(s, v).ok \in {"yes", "no"}
        /\ Refines(Ser(s, v), DeclSer(s, v))
        /\ Ser(s, v).ok \in {"yes", "no"}
=============================================================================
